(* Codec/SimWr.v — wirereader_refines_buffer: every operation of the WireReader model, from a state that satisfies the
   reader invariant, delivers what the BufferReader delivers on the remaining bytes `skipn Pos (concat wire)`; hence
   (Sim.sim_parse) the generated parser returns the same value / error through a WireReader on ANY segmentation as
   through a BufferReader on the joined bytes, for every schema. *)
From Codec Require Import Schema Readers Model Spec BrLemmas LeafLemmas Total TotalBr TotalWr Sim.
From Coq Require Import ZifyBool ZifyN ZifyNat.
Open Scope N_scope.

Definition wview (w : wr) : bytes := skipn (wP w) (concat (wsegs w)).

(* ---- list facts ---- *)
Lemma concat_split_at : forall (segs : list bytes) i, (i < length segs)%nat ->
  concat segs = concat (firstn i segs) ++ nth i segs [] ++ concat (skipn (S i) segs).
Proof.
  induction segs as [|s segs IH]; intros i Hi; [cbn in Hi; lia|].
  destruct i as [|i]; [reflexivity|]. cbn [firstn concat nth skipn]. rewrite <- app_assoc. f_equal. apply IH. cbn in Hi. lia.
Qed.

Lemma skipn_app_exact {A} (a b : list A) n : n = length a -> skipn n (a ++ b) = b.
Proof. intros ->. rewrite skipn_app, skipn_all, Nat.sub_diag. reflexivity. Qed.

Lemma skipn_add {A} : forall (l : list A) a b, skipn (a + b) l = skipn b (skipn a l).
Proof.
  induction l as [|x l IH]; intros a b; [rewrite !skipn_nil; reflexivity|].
  destruct a as [|a]; [reflexivity|]. cbn [plus skipn]. apply IH.
Qed.

Lemma wview_in_seg w : wr_inv w -> (wseg w < length (wsegs w))%nat ->
  wview w = skipn (wpos w) (seg_at w (wseg w)) ++ concat (skipn (S (wseg w)) (wsegs w)).
Proof.
  intros [H1 H2] Hlt. unfold wview, wP, seg_at in *.
  rewrite (concat_split_at (wsegs w) (wseg w) Hlt) at 1.
  rewrite Nat.add_comm, skipn_add. rewrite skipn_app_exact by reflexivity.
  rewrite skipn_app. replace (wpos w - length (nth (wseg w) (wsegs w) []))%nat with 0%nat by lia. reflexivity.
Qed.

Lemma wview_at_end w : wr_inv w -> wseg w = length (wsegs w) -> wview w = [].
Proof.
  intros [H1 H2] He. unfold wview, wP. rewrite acc_sz_all by lia. apply skipn_all2. unfold total. lia.
Qed.

Lemma wview_len w : wr_inv w -> length (wview w) = w_rem w.
Proof. intros H. unfold wview, w_rem, total. rewrite skipn_length. reflexivity. Qed.

Lemma wview_eq w w' : wsegs w' = wsegs w -> wP w' = wP w -> wview w' = wview w.
Proof. intros A B. unfold wview. rewrite A, B. reflexivity. Qed.

Lemma wview_adv w w' n : wsegs w' = wsegs w -> wP w' = (wP w + n)%nat -> wview w' = skipn n (wview w).
Proof. intros A B. unfold wview. rewrite A, B, skipn_add. reflexivity. Qed.

(* ---- the relation ---- *)
Definition wsim (off : Z) (r1 : preader) (r2 : br) : Prop :=
  match r1 with
  | PB b => off = 0%Z /\ b = r2
  | PW w => wr_inv w /\ rest r2 = wview w /\ Z.of_nat (wP w) = (br_pos r2 + off)%Z
  end.

Notation worel := (orel preader br wsim).

Lemma worel_pb {A} s (b : br) (x : rres br A) : opspec br b_RI b_rem s b x -> worel 0%Z (lift_b x) x.
Proof. destruct x; unfold orel; cbn; intros H; repeat split; auto. Qed.

(* the BufferReader advanced by n bytes *)
Lemma adv_sim w w' r2 off n : wsim off (PW w) r2 -> wr_inv w' -> wsegs w' = wsegs w -> wP w' = (wP w + n)%nat ->
  (n <= length (rest r2))%nat -> wsim off (PW w') (br_adv n r2).
Proof.
  intros [Hi [Hr Hp]] Hi' A B Hn. cbn [wsim]. split; [exact Hi'|]. split.
  - unfold br_adv. cbn [rest]. rewrite Hr. symmetry. apply wview_adv; assumption.
  - rewrite B. unfold br_adv, br_pos in *. cbn [rpre]. rewrite rev_append_rev, app_length, rev_length, firstn_length. lia.
Qed.

Lemma same_sim w w' r2 off : wsim off (PW w) r2 -> wr_inv w' -> wsegs w' = wsegs w -> wP w' = wP w -> wsim off (PW w') r2.
Proof.
  intros [Hi [Hr Hp]] Hi' A B. cbn [wsim]. split; [exact Hi'|]. split; [rewrite Hr; symmetry; apply wview_eq; assumption|rewrite B; exact Hp].
Qed.

Lemma next_seg_facts w : wr_inv w ->
  let w1 := fst (next_seg w) in
  wr_inv w1 /\ wsegs w1 = wsegs w /\ wP w1 = wP w /\
  (snd (next_seg w) = true -> exists x t, wview w = x :: t /\ nth_error (seg_at w1 (wseg w1)) (wpos w1) = Some x /\
                                          (wseg w1 < length (wsegs w1))%nat /\ (wpos w1 < length (seg_at w1 (wseg w1)))%nat) /\
  (snd (next_seg w) = false -> wview w = []).
Proof.
  intros Hi. pose proof (next_seg_spec w Hi) as H. cbv zeta in H. cbv zeta.
  destruct H as [[Hi1 [Hs Hle]] [HP [Ht Hf]]].
  split; [exact Hi1|]. split; [exact Hs|]. split; [exact HP|]. split.
  - intros Hm. destruct (Ht Hm) as [A B].
    rewrite <- (wview_eq w (fst (next_seg w)) Hs HP).
    rewrite (wview_in_seg _ Hi1 A).
    destruct (skipn (wpos (fst (next_seg w))) (seg_at (fst (next_seg w)) (wseg (fst (next_seg w))))) as [|x t] eqn:E.
    + pose proof (skipn_length (wpos (fst (next_seg w))) (seg_at (fst (next_seg w)) (wseg (fst (next_seg w))))) as L. rewrite E in L. cbn [length] in L. unfold bytes, byte in *. lia.
    + exists x, (t ++ concat (skipn (S (wseg (fst (next_seg w)))) (wsegs (fst (next_seg w))))). split; [reflexivity|]. split; [|split; assumption].
      rewrite <- (firstn_skipn (wpos (fst (next_seg w))) (seg_at (fst (next_seg w)) (wseg (fst (next_seg w))))) at 1.
      rewrite nth_error_app2 by (rewrite firstn_length; lia). rewrite firstn_length.
      replace (wpos (fst (next_seg w)) - Nat.min (wpos (fst (next_seg w))) (length (seg_at (fst (next_seg w)) (wseg (fst (next_seg w))))))%nat with 0%nat by lia.
      rewrite E. reflexivity.
  - intros Hm. rewrite <- (wview_eq w (fst (next_seg w)) Hs HP). apply wview_at_end; [exact Hi1|]. apply Hf. exact Hm.
Qed.

Lemma w_sim_readbyte off w r2 : wsim off (PW w) r2 -> worel off (lift_w (wr_readbyte w)) (br_readbyte r2).
Proof.
  intros Hs. pose proof Hs as [Hi [Hr Hp]]. unfold wr_readbyte.
  pose proof (next_seg_facts w Hi) as F. cbv zeta in F. destruct (next_seg w) as [w1 more]. cbn [fst snd] in F.
  destruct F as [Hi1 [Hsg [HP [Ht Hf]]]]. unfold br_readbyte. destruct more.
  - destruct (Ht eq_refl) as [x [t [Hv [Hn [A B]]]]]. rewrite Hn. rewrite Hr, Hv. cbn [lift_w orel]. split; [reflexivity|].
    assert (Hi' : wr_inv (mkwr (wsegs w1) (wseg w1) (S (wpos w1)))) by (unfold wr_inv, seg_at in *; cbn [wsegs wseg wpos]; lia).
    replace (mkbr (x :: rpre r2) t) with (br_adv 1 r2).
    + apply (adv_sim w _ r2 off 1 Hs Hi'); cbn [wsegs]; [exact Hsg| |rewrite Hr, Hv; cbn; lia].
      unfold wP in *. cbn [wsegs wseg wpos]. lia.
    + unfold br_adv. rewrite Hr, Hv. reflexivity.
  - rewrite Hr, (Hf eq_refl). cbn [lift_w orel]. split; [reflexivity|]. apply (same_sim w w1 r2 off Hs Hi1 Hsg HP).
Qed.

(* the collecting loop delivers the first l bytes of the view *)
Lemma wr_collect_view : forall k l w acc, wr_inv w -> (l <= length (wview w))%nat -> (length (wsegs w) - wseg w < k)%nat ->
  exists w', wr_collect k l w acc = ROk (acc ++ firstn l (wview w)) w' /\ wr_inv w' /\ wsegs w' = wsegs w /\ wP w' = (wP w + l)%nat.
Proof.
  induction k as [|k IH]; intros l w acc Hi Hl Hk.
  - destruct l; [|lia]. cbn [wr_collect firstn]. rewrite app_nil_r. exists w. repeat split; try apply Hi; lia.
  - destruct l as [|l]; [cbn [wr_collect firstn]; rewrite app_nil_r; exists w; repeat split; try apply Hi; lia|].
    cbn [wr_collect].
    destruct (length (wsegs w) <=? wseg w)%nat eqn:E0.
    { apply Nat.leb_le in E0. rewrite (wview_at_end w Hi) in Hl by (destruct Hi; lia). cbn in Hl. lia. }
    apply Nat.leb_gt in E0. pose proof (wview_in_seg w Hi E0) as Hv. destruct Hi as [Hi1 Hi2].
    destruct (length (seg_at w (wseg w)) <? wpos w + S l)%nat eqn:E1.
    + apply Nat.ltb_lt in E1.
      destruct (length (seg_at w (wseg w)) <? wpos w)%nat eqn:E2; [apply Nat.ltb_lt in E2; lia|].
      set (w1 := mkwr (wsegs w) (S (wseg w)) 0).
      assert (Hi' : wr_inv w1) by (unfold w1, wr_inv; cbn [wseg wsegs wpos]; lia).
      assert (Hv1 : wview w1 = concat (skipn (S (wseg w)) (wsegs w))).
      { unfold wview, wP, w1. cbn [wsegs wseg wpos plus]. unfold acc_sz.
        rewrite <- (firstn_skipn (S (wseg w)) (wsegs w)) at 2. rewrite concat_app. apply skipn_app_exact. reflexivity. }
      assert (HP1 : wP w1 = (wP w + (length (seg_at w (wseg w)) - wpos w))%nat).
      { unfold wP, w1. cbn [wsegs wseg wpos]. unfold seg_at in *. rewrite acc_sz_S by exact E0. lia. }
      destruct (IH (S l - (length (seg_at w (wseg w)) - wpos w))%nat w1 (acc ++ skipn (wpos w) (seg_at w (wseg w))) Hi') as [w' [A [B [C D]]]].
      * rewrite Hv1. rewrite Hv, app_length, skipn_length in Hl. lia.
      * unfold w1. cbn [wsegs wseg]. lia.
      * exists w'. split; [|split; [exact B|split; [exact C|rewrite D, HP1; lia]]].
        rewrite A. f_equal. rewrite <- app_assoc. f_equal. rewrite Hv, Hv1.
        rewrite firstn_app, skipn_length. rewrite (firstn_all2 (n := S l) (skipn (wpos w) (seg_at w (wseg w)))) by (rewrite skipn_length; lia). reflexivity.
    + apply Nat.ltb_ge in E1.
      exists (mkwr (wsegs w) (wseg w) (wpos w + S l)). split; [|split; [|split]].
      * f_equal. f_equal. rewrite Hv. rewrite firstn_app, skipn_length.
        replace (S l - (length (seg_at w (wseg w)) - wpos w))%nat with 0%nat by lia. rewrite firstn_O, app_nil_r. reflexivity.
      * unfold wr_inv, seg_at in *. cbn [wsegs wseg wpos]. lia.
      * reflexivity.
      * unfold wP. cbn [wsegs wseg wpos]. lia.
Qed.

Lemma rem_eq off w r2 : wsim off (PW w) r2 -> w_rem w = length (rest r2).
Proof. intros [Hi [Hr _]]. rewrite Hr. symmetry. apply wview_len. exact Hi. Qed.

(* reading l bytes that are there: same bytes, both advance by l *)
Lemma collect_sim off w w1 r2 l k : wsim off (PW w) r2 -> wr_inv w1 -> wsegs w1 = wsegs w -> wP w1 = wP w ->
  (l <= length (rest r2))%nat -> (length (wsegs w1) < k)%nat ->
  worel off (lift_w (wr_collect k l w1 [])) (ROk (firstn l (rest r2)) (br_adv l r2)).
Proof.
  intros Hs Hi1 Hsg HP Hl Hk. pose proof Hs as [Hi [Hr Hp]].
  destruct (wr_collect_view k l w1 [] Hi1) as [w' [A [B [C D]]]].
  - rewrite (wview_eq w w1 Hsg HP), <- Hr. exact Hl.
  - lia.
  - rewrite A. cbn [lift_w orel app]. rewrite (wview_eq w w1 Hsg HP), <- Hr. split; [reflexivity|].
    apply (adv_sim w w' r2 off l Hs B); [congruence|lia|exact Hl].
Qed.

Lemma w_sim_readn off w r2 n : wsim off (PW w) r2 -> worel off (lift_w (wr_readn w n)) (br_readn r2 n).
Proof.
  intros Hs. pose proof Hs as [Hi [Hr Hp]]. unfold wr_readn, br_readn. rewrite (wr_rem_ok w Hi), (rem_eq off w r2 Hs). unfold br_rem.
  destruct (Z.of_N n <=? Z.of_nat (length (rest r2)))%Z eqn:E.
  - pose proof (next_seg_facts w Hi) as F. cbv zeta in F. destruct F as [Hi1 [Hsg [HP _]]].
    apply (collect_sim off w _ r2 (N.to_nat n) _ Hs Hi1 Hsg HP); [lia|rewrite Hsg; lia].
  - cbn [lift_w orel]. split; [reflexivity|].
    assert (Hi' : wr_inv (mkwr (wsegs w) (length (wsegs w)) 0)) by (unfold wr_inv; cbn [wseg wsegs wpos]; lia).
    replace (mkwr (wsegs w) (length (wsegs w)) 0) with (mkwr (wsegs w) (length (wsegs w)) 0) by reflexivity.
    apply (adv_sim w _ r2 off (length (rest r2)) Hs Hi'); cbn [wsegs]; [reflexivity| |lia].
    unfold wP at 1. cbn [wsegs wseg wpos]. rewrite acc_sz_all by lia. rewrite <- (rem_eq off w r2 Hs). unfold w_rem. pose proof (wP_le w Hi). lia.
Qed.

Lemma w_sim_readbuf off w r2 l : wsim off (PW w) r2 -> worel off (lift_w (wr_readbuf w l)) (br_readbuf r2 l).
Proof.
  intros Hs. pose proof Hs as [Hi [Hr Hp]]. unfold wr_readbuf, br_readbuf. rewrite (wr_rem_ok w Hi), (rem_eq off w r2 Hs). unfold br_rem.
  destruct ((l <? 0) || (l >? Z.of_nat (length (rest r2))))%Z eqn:E; [cbn [lift_w orel]; split; [reflexivity|exact Hs]|].
  pose proof (next_seg_facts w Hi) as F. cbv zeta in F. destruct (next_seg w) as [w1 more]. cbn [fst snd] in F.
  destruct F as [Hi1 [Hsg [HP [Ht Hf]]]]. destruct more; cbn [negb].
  - apply (collect_sim off w w1 r2 (Z.to_nat l) _ Hs Hi1 Hsg HP); lia.
  - assert (Hnil : rest r2 = []) by (rewrite Hr; apply Hf; reflexivity).
    rewrite Hnil in *. cbn [length] in E. replace (l =? 0)%Z with true by lia.
    replace (Z.to_nat l) with 0%nat by lia. cbn [firstn lift_w orel]. split; [reflexivity|].
    apply (adv_sim w w1 r2 off 0 Hs Hi1 Hsg); [lia|lia].
Qed.

Lemma w_sim_readwire off w r2 l : wsim off (PW w) r2 -> worel off (lift_w (wr_readwire w l)) (br_readwire r2 l).
Proof.
  intros Hs. pose proof Hs as [Hi [Hr Hp]]. unfold wr_readwire, br_readwire.
  pose proof (next_seg_facts w Hi) as F. cbv zeta in F. destruct (next_seg w) as [w1 more]. cbn [fst snd] in F.
  destruct F as [Hi1 [Hsg [HP [Ht Hf]]]].
  pose proof (same_sim w w1 r2 off Hs Hi1 Hsg HP) as Hs1.
  rewrite (wr_rem_ok w1 Hi1), (rem_eq off w1 r2 Hs1). unfold br_rem.
  assert (Hmore : more = negb (Z.of_nat (length (rest r2)) <=? 0)%Z).
  { destruct more.
    - destruct (Ht eq_refl) as [x [t [Hv _]]]. rewrite Hr, Hv. reflexivity.
    - rewrite Hr, (Hf eq_refl). reflexivity. }
  rewrite Hmore, negb_involutive.
  destruct ((Z.of_nat (length (rest r2)) <=? 0) && (0 <? l))%Z; [cbn [lift_w orel]; split; [reflexivity|exact Hs1]|].
  destruct ((l <? 0) || (l >? Z.of_nat (length (rest r2))))%Z eqn:E; [cbn [lift_w orel]; split; [reflexivity|exact Hs1]|].
  apply (collect_sim off w w1 r2 (Z.to_nat l) _ Hs Hi1 Hsg HP); lia.
Qed.

Lemma w_sim_skip off w r2 n : wsim off (PW w) r2 -> worel off (lift_w (wr_skip w n)) (br_skip r2 n).
Proof.
  intros Hs. pose proof Hs as [Hi [Hr Hp]]. unfold wr_skip, br_skip. unfold br_rem.
  destruct (n <? 0)%Z eqn:En; cbn [orb]; [cbn [lift_w orel]; split; [reflexivity|exact Hs]|].
  rewrite (wr_rem_ok w Hi), (rem_eq off w r2 Hs).
  destruct (n >? Z.of_nat (length (rest r2)))%Z eqn:E; [cbn [lift_w orel]; split; [reflexivity|exact Hs]|].
  pose proof (wP_le w Hi) as Hle. pose proof (rem_eq off w r2 Hs) as Hrem. unfold w_rem in Hrem.
  destruct (wr_skip_loop_spec (S (length (wsegs w))) (mkwr (wsegs w) (wseg w) (wpos w + Z.to_nat n))) as [A [B [C D]]];
    cbn [wseg wsegs wpos]; try (destruct Hi; lia).
  { unfold wP in *. cbn [wseg wsegs wpos]. lia. }
  cbn [lift_w orel]. split; [reflexivity|].
  apply (adv_sim w _ r2 off (Z.to_nat n) Hs A B); [|lia].
  rewrite C. unfold wP. cbn [wseg wsegs wpos]. lia.
Qed.

Lemma slice_hd (l : bytes) p x t : skipn p l = x :: t -> slice (Z.of_nat p) (Z.of_nat p + 1) l = [x].
Proof.
  intros H. unfold slice. rewrite Nat2Z.id. replace (Z.to_nat (Z.of_nat p + 1 - Z.of_nat p)) with 1%nat by lia. rewrite H. reflexivity.
Qed.

Lemma b_skip1_range r2 r2' : br_skip r2 1 = ROk tt r2' ->
  exists x t, rest r2 = x :: t /\ br_range r2' (br_pos r2' - 1) (br_pos r2') = Ok (Some [x]).
Proof.
  intros Hs. unfold br_skip in Hs. destruct r2 as [pre rs]. rewrite br_rem_mk in Hs.
  destruct ((1 <? 0) || (1 >? Z.of_nat (length rs)))%Z eqn:E; [discriminate|].
  destruct rs as [|x t]; [cbn in E; lia|].
  change (Z.to_nat 1) with 1%nat in Hs. unfold br_adv in Hs. cbn [rest rpre firstn skipn] in Hs.
  change (rev_append [x] pre) with (x :: pre) in Hs. inversion Hs; subst r2'. exists x, t. split; [reflexivity|].
  unfold br_range. rewrite br_len_mk, br_pos_mk. cbn [length].
  destruct ((Z.of_nat (S (length pre)) - 1 <? 0) || (Z.of_nat (S (length pre)) >? Z.of_nat (S (length pre) + length t))
            || (Z.of_nat (S (length pre)) - 1 >? Z.of_nat (S (length pre))))%Z eqn:E2; [lia|].
  unfold br_all. cbn [rpre rest].
  replace (Z.of_nat (S (length pre)) - 1)%Z with (Z.of_nat (length pre)) by lia.
  replace (Z.of_nat (S (length pre))) with (Z.of_nat (length pre) + 1)%Z by lia.
  rewrite slice_last. reflexivity.
Qed.

Lemma w_sim_skip_range off w r2 w' r2' q1 q2 : wsim off (PW w) r2 ->
  wr_skip w 1 = ROk tt w' -> br_skip r2 1 = ROk tt r2' -> wr_pos w' = Ok q1 -> Ok (br_pos r2') = Ok q2 ->
  exists x t1 t2, wr_range w' (q1 - 1) q1 = Ok (Some (x :: t1)) /\ br_range r2' (q2 - 1) q2 = Ok (Some (x :: t2)).
Proof.
  intros Hs Hw Hb Hq1 Hq2. pose proof Hs as [Hi [Hr Hp]]. inversion Hq2; subst q2.
  destruct (b_skip1_range r2 r2' Hb) as [x [t [Hrest Hrg]]].
  pose proof (w_sim_skip off w r2 1 Hs) as X. rewrite Hw, Hb in X. cbn [lift_w orel] in X. destruct X as [_ [Hi' [Hr' Hp']]].
  (* the wire side: P w' = P w + 1 and the byte at P w is x *)
  unfold wr_skip in Hw. change (1 <? 0)%Z with false in Hw. cbv iota in Hw. rewrite (wr_rem_ok w Hi) in Hw.
  destruct (1 >? Z.of_nat (w_rem w))%Z eqn:E; [discriminate|].
  pose proof (wP_le w Hi) as Hle.
  destruct (wr_skip_loop_spec (S (length (wsegs w))) (mkwr (wsegs w) (wseg w) (wpos w + Z.to_nat 1))) as [A [B [C D]]];
    cbn [wseg wsegs wpos]; try (destruct Hi; lia).
  { unfold wP in *. cbn [wseg wsegs wpos]. unfold w_rem, wP in E. lia. }
  assert (Hw' : w' = wr_skip_loop (S (length (wsegs w))) (mkwr (wsegs w) (wseg w) (wpos w + Z.to_nat 1))) by congruence.
  rewrite <- Hw' in *. clear Hw Hw'. cbn [wsegs] in B.
  unfold wP in C at 2. cbn [wseg wsegs wpos] in C. fold (wP w) in C.
  rewrite (wr_pos_ok w' A) in Hq1. inversion Hq1; subst q1.
  exists x, [], []. split; [|exact Hrg].
  unfold wr_range, wr_len. rewrite B. fold (total (wsegs w)). unfold w_rem in E.
  destruct ((Z.of_nat (wP w') - 1 <? 0) || (Z.of_nat (wP w') >? Z.of_nat (total (wsegs w))) || (Z.of_nat (wP w') - 1 >? Z.of_nat (wP w')))%Z eqn:E2.
  { unfold wP in *. lia. }
  replace (Z.of_nat (wP w') - 1)%Z with (Z.of_nat (wP w)) by (unfold wP in *; lia).
  replace (Z.of_nat (wP w')) with (Z.of_nat (wP w) + 1)%Z by (unfold wP in *; lia).
  rewrite (slice_hd (concat (wsegs w)) (wP w) x t); [reflexivity|].
  fold (wview w). rewrite <- Hr. exact Hrest.
Qed.

(* ---- Delegate ---- *)
Lemma skip_loop_moved : forall k w, wr_skip_loop k w = w \/ (0 < wpos (wr_skip_loop k w))%nat.
Proof.
  induction k as [|k IH]; intros w; cbn [wr_skip_loop]; [left; reflexivity|].
  destruct ((wseg w <? length (wsegs w)) && (length (seg_at w (wseg w)) <? wpos w))%nat eqn:E; [|left; reflexivity].
  apply andb_true_iff in E as [_ E]. apply Nat.ltb_lt in E. right.
  destruct (IH (mkwr (wsegs w) (S (wseg w)) (wpos w - length (seg_at w (wseg w))))) as [-> | H]; [cbn [wpos]; lia|exact H].
Qed.

Lemma concat_firstn_acc : forall (segs : list bytes) i, concat (firstn i segs) = firstn (acc_sz segs i) (concat segs).
Proof.
  intros segs i. unfold acc_sz. rewrite <- (firstn_skipn i segs) at 3. rewrite concat_app.
  rewrite firstn_app, Nat.sub_diag, firstn_O, app_nil_r, firstn_all. reflexivity.
Qed.

Lemma br_adv0 r : br_adv 0 r = r.
Proof. destruct r. reflexivity. Qed.

Lemma w_sim_delegate off w r2 l : wsim off (PW w) r2 ->
  exists sr1 r1' sr2 r2' off', pr_delegate (PW w) l = Ok (sr1, r1') /\ br_delegate r2 l = Ok (sr2, r2') /\
                               wsim off' sr1 sr2 /\ wsim off r1' r2'.
Proof.
  intros Hs. pose proof Hs as [Hi [Hr Hp]]. cbn [pr_delegate]. unfold wr_delegate, br_delegate.
  rewrite (wr_rem_ok w Hi), (rem_eq off w r2 Hs). unfold br_rem.
  destruct ((l <? 0) || (l >? Z.of_nat (length (rest r2))))%Z eqn:Eb.
  { (* bad length on both sides *)
    replace ((l <? 0) || (length (wsegs w) <=? wseg w)%nat || (l >? Z.of_nat (length (rest r2))))%Z with true
      by (destruct (l <? 0)%Z, (length (wsegs w) <=? wseg w)%nat, (l >? Z.of_nat (length (rest r2)))%Z; cbn in *; congruence).
    exists (PB (br_of [])), (PW w), (br_of []), r2, 0%Z. split; [reflexivity|]. split; [reflexivity|]. split; [cbn [wsim]; auto|exact Hs]. }
  apply orb_false_iff in Eb as [Eb1 Eb2].
  destruct (length (wsegs w) <=? wseg w)%nat eqn:E0.
  { (* at the very end: only l = 0 is possible *)
    apply Nat.leb_le in E0.
    assert (Hnil : rest r2 = []) by (rewrite Hr; apply wview_at_end; [exact Hi|destruct Hi; lia]).
    rewrite Hnil in *. cbn [length] in Eb2.
    rewrite Eb1. cbn [orb].
    replace (Z.to_nat l) with 0%nat by lia. cbn [firstn]. rewrite br_adv0.
    exists (PB (br_of [])), (PW w), (br_of []), r2, 0%Z. split; [reflexivity|]. split; [reflexivity|]. split; [cbn [wsim]; auto|exact Hs]. }
  apply Nat.leb_gt in E0.
  replace ((l <? 0) || false || (l >? Z.of_nat (length (rest r2))))%Z with false by (rewrite Eb1, Eb2; reflexivity).
  pose proof (wview_in_seg w Hi E0) as Hv. pose proof (wP_le w Hi) as Hle. pose proof (rem_eq off w r2 Hs) as Hrem. unfold w_rem in Hrem.
  set (ln := Z.to_nat l) in *.
  assert (Hln : (ln <= length (rest r2))%nat) by lia.
  cbv zeta. destruct (wpos w + ln <=? length (seg_at w (wseg w)))%nat eqn:E1.
  { (* inside the current segment: a BufferReader on the same bytes *)
    apply Nat.leb_le in E1. destruct Hi as [Hi1 Hi2].
    exists (PB (br_of (firstn ln (skipn (wpos w) (seg_at w (wseg w)))))), (PW (mkwr (wsegs w) (wseg w) (wpos w + ln))),
           (br_of (firstn ln (rest r2))), (br_adv ln r2), 0%Z.
    split; [reflexivity|]. split; [reflexivity|]. split.
    - cbn [wsim]. split; [reflexivity|]. f_equal. rewrite Hr, Hv. rewrite firstn_app, skipn_length.
      replace (ln - (length (seg_at w (wseg w)) - wpos w))%nat with 0%nat by lia. rewrite firstn_O, app_nil_r. reflexivity.
    - apply (adv_sim w _ r2 off ln Hs); cbn [wsegs]; [unfold wr_inv, seg_at in *; cbn [wsegs wseg wpos]; lia|reflexivity| |exact Hln].
      unfold wP. cbn [wsegs wseg wpos]. lia. }
  apply Nat.leb_gt in E1.
  destruct (wr_skip_loop_spec (S (length (wsegs w))) (mkwr (wsegs w) (wseg w) (wpos w + ln))) as [A [B [C D]]];
    cbn [wseg wsegs wpos]; try (destruct Hi; lia).
  { unfold wP in *. cbn [wseg wsegs wpos]. lia. }
  set (w' := wr_skip_loop (S (length (wsegs w))) (mkwr (wsegs w) (wseg w) (wpos w + ln))) in *.
  cbn [wsegs wseg] in B, D. unfold wP in C at 2. cbn [wseg wsegs wpos] in C.
  assert (HC : wP w' = (wP w + ln)%nat) by (rewrite C; unfold wP; lia).
  assert (HPw' : wP w' = (wpos w' + acc_sz (wsegs w) (wseg w'))%nat) by (unfold wP; rewrite B; reflexivity).
  assert (Hpar : wsim off (PW w') (br_adv ln r2)) by (apply (adv_sim w w' r2 off ln Hs A B); [exact HC|exact Hln]).
  (* the loop moved at least one segment *)
  assert (Hmv : (wseg w < wseg w')%nat).
  { unfold w'. cbn [wr_skip_loop]. unfold seg_at. cbn [wsegs wseg wpos].
    replace ((wseg w <? length (wsegs w)) && (length (nth (wseg w) (wsegs w) []) <? wpos w + ln))%nat with true.
    2:{ symmetry. apply andb_true_iff. split; [apply Nat.ltb_lt; exact E0|apply Nat.ltb_lt; unfold seg_at in E1; exact E1]. }
    destruct (wr_skip_loop_spec (length (wsegs w)) (mkwr (wsegs w) (S (wseg w)) (wpos w + ln - length (nth (wseg w) (wsegs w) []))))
      as [_ [_ [_ D']]]; cbn [wseg wsegs wpos]; try lia.
    { unfold wP in *. cbn [wseg wsegs wpos]. unfold seg_at in *. rewrite acc_sz_S by exact E0. lia. }
    cbn [wseg] in D'. lia. }
  assert (Hpos' : (0 < wpos w')%nat).
  { destruct (skip_loop_moved (S (length (wsegs w))) (mkwr (wsegs w) (wseg w) (wpos w + ln))) as [He|Hgt]; [|exact Hgt].
    fold w' in He. rewrite He in Hmv. cbn [wseg] in Hmv. lia. }
  destruct (length (wsegs w') <=? wseg w')%nat eqn:E2.
  { (* impossible: the position would be past the end *)
    exfalso. apply Nat.leb_le in E2. destruct A as [A1 A2]. unfold seg_at in A2. rewrite nth_overflow in A2 by exact E2. cbn [length] in A2. lia. }
  apply Nat.leb_gt in E2. rewrite B in E2.
  pose proof (acc_sz_S (wsegs w) (wseg w) E0) as HS1.
  pose proof (acc_sz_S (wsegs w) (wseg w') E2) as HS2.
  assert (HA : wr_inv w') by exact A. destruct A as [A1 A2]. unfold seg_at in A2. rewrite B in A2.
  destruct (wpos w' =? length (seg_at w' (wseg w')))%nat eqn:E3.
  { (* shares the outer wire: absolute positions, offset = position of the parent *)
    apply Nat.eqb_eq in E3. unfold seg_at in E3. rewrite B in E3.
    set (ws := mkwr (firstn (S (wseg w')) (wsegs w)) (wseg w) (wpos w)).
    assert (Hfl : length (firstn (S (wseg w')) (wsegs w)) = S (wseg w')) by (apply firstn_length_le; lia).
    assert (Hiws : wr_inv ws).
    { destruct Hi as [Hi1 Hi2]. unfold ws, wr_inv, seg_at in *. cbn [wsegs wseg wpos]. rewrite Hfl. split; [lia|].
      rewrite nth_firstn_lt by lia. exact Hi2. }
    assert (HPws : wP ws = wP w) by (unfold wP, ws; cbn [wsegs wseg wpos]; rewrite acc_sz_firstn by lia; reflexivity).
    exists (PW ws), (PW w'), (br_of (firstn ln (rest r2))), (br_adv ln r2), (Z.of_nat (wP w)).
    split; [reflexivity|]. split; [reflexivity|]. split; [|exact Hpar].
    cbn [wsim]. split; [exact Hiws|]. split; [|unfold br_of, br_pos; cbn [rpre length]; lia].
    cbn [br_of rest]. unfold wview. rewrite HPws. unfold ws. cbn [wsegs].
    rewrite concat_firstn_acc. rewrite HS2. rewrite Hr. unfold wview.
    replace (acc_sz (wsegs w) (wseg w') + length (nth (wseg w') (wsegs w) []))%nat with (wP w + ln)%nat by lia.
    apply firstn_skipn_comm. }
  (* fresh wire *)
  apply Nat.eqb_neq in E3.
  replace (wseg w <? wseg w')%nat with true by (symmetry; apply Nat.ltb_lt; exact Hmv).
  set (first := skipn (wpos w) (seg_at w (wseg w))).
  set (middle := firstn (wseg w' - S (wseg w)) (skipn (S (wseg w)) (wsegs w))).
  set (last := firstn (wpos w') (seg_at w' (wseg w'))).
  exists (PW (mkwr (first :: middle ++ [last]) 0 0)), (PW w'), (br_of (firstn ln (rest r2))), (br_adv ln r2), 0%Z.
  split; [reflexivity|]. split; [reflexivity|]. split; [|exact Hpar].
  cbn [wsim]. split; [unfold wr_inv; cbn [wsegs wseg wpos]; lia|]. split; [|unfold wP, br_of, br_pos; cbn [wsegs wseg wpos rpre length acc_sz]; unfold acc_sz; cbn; lia].
  cbn [br_of rest]. unfold wview, wP. cbn [wsegs wseg wpos]. unfold acc_sz at 1. cbn [firstn concat length plus skipn].
  (* concat cut = firstn ln (view) *)
  rewrite Hr, Hv. fold first.
  assert (Hf1 : length first = (length (seg_at w (wseg w)) - wpos w)%nat) by (unfold first; apply skipn_length).
  rewrite firstn_app, Hf1. rewrite (firstn_all2 (n := ln) first) by lia. f_equal.
  rewrite concat_app. cbn [concat]. rewrite app_nil_r.
  (* the remaining segments: middle ++ seg' ++ rest *)
  assert (Hsplit : skipn (S (wseg w)) (wsegs w) = middle ++ skipn (wseg w') (wsegs w)).
  { unfold middle. rewrite <- (firstn_skipn (wseg w' - S (wseg w)) (skipn (S (wseg w)) (wsegs w))) at 1. f_equal.
    rewrite <- skipn_add. f_equal. lia. }
  rewrite Hsplit, concat_app.
  assert (Hs' : skipn (wseg w') (wsegs w) = nth (wseg w') (wsegs w) [] :: skipn (S (wseg w')) (wsegs w)).
  { clear - E2. revert E2. generalize (wseg w'). induction (wsegs w) as [|s0 l0 IHl]; intros i Hi; [cbn in Hi; lia|].
    destruct i as [|i]; [reflexivity|]. cbn [skipn nth]. apply IHl. cbn in Hi. lia. }
  rewrite Hs'. cbn [concat].
  assert (Hml : length (concat middle) = (acc_sz (wsegs w) (wseg w') - acc_sz (wsegs w) (S (wseg w)))%nat).
  { unfold middle. rewrite middle_len. f_equal. f_equal. lia. }
  pose proof (acc_sz_mono (wsegs w) (S (wseg w)) (wseg w') ltac:(lia)) as Hmono.
  replace (ln - (length (seg_at w (wseg w)) - wpos w))%nat with (length (concat middle) + wpos w')%nat
    by (destruct Hi as [_ Hi2]; unfold seg_at in *; unfold wP in HC at 2; unfold bytes, byte in *; lia).
  rewrite firstn_app. rewrite (firstn_all2 (n := (length (concat middle) + wpos w')%nat) (concat middle)) by lia.
  f_equal. replace (length (concat middle) + wpos w' - length (concat middle))%nat with (wpos w') by lia.
  unfold last, seg_at. rewrite B. rewrite firstn_app.
  replace (wpos w' - length (nth (wseg w') (wsegs w) []))%nat with 0%nat by lia. rewrite firstn_O, app_nil_r. reflexivity.
Qed.

(* ---- the refinement theorem ---- *)
Lemma wsim_pos off r1 r2 : wsim off r1 r2 -> exists p, pr_pos r1 = Ok (p + off)%Z /\ (fun r : br => Ok (br_pos r)) r2 = Ok p.
Proof.
  destruct r1 as [b|w]; cbn [wsim pr_pos].
  - intros [-> ->]. exists (br_pos r2). split; [f_equal; lia|reflexivity].
  - intros [Hi [Hr Hp]]. exists (br_pos r2). rewrite (wr_pos_ok w Hi). split; [f_equal; lia|reflexivity].
Qed.

Lemma wsim_len off r1 r2 : wsim off r1 r2 -> pr_len r1 = (br_len r2 + off)%Z.
Proof.
  destruct r1 as [b|w]; cbn [wsim pr_len].
  - intros [-> ->]. lia.
  - intros [Hi [Hr Hp]]. unfold wr_len, br_len, br_rem. fold (total (wsegs w)).
    pose proof (wview_len w Hi) as L. rewrite <- Hr in L. unfold w_rem in L. pose proof (wP_le w Hi). lia.
Qed.

Theorem wparse_refines_bparse : forall d sc mi ic off r1 r2, wsim off r1 r2 ->
  pres_eq (wparse d sc mi ic r1) (bparse d sc mi ic r2).
Proof.
  intros d sc mi ic off r1 r2 Hs. unfold wparse, bparse.
  apply (sim_parse preader br pr_pos (fun r => Ok (br_pos r)) pr_len br_len pr_readbyte br_readbyte pr_readn br_readn
           pr_readbuf br_readbuf pr_readwire br_readwire pr_skip br_skip pr_range br_range pr_delegate br_delegate wsim) with (off := off);
    try exact Hs.
  - apply wsim_pos.
  - apply wsim_len.
  - intros o [b|w] r H; cbn [pr_readbyte]; [destruct H as [-> ->]; apply (worel_pb true r), b_spec_readbyte; exact I|apply w_sim_readbyte; exact H].
  - intros o [b|w] r n H; cbn [pr_readn]; [destruct H as [-> ->]; apply (worel_pb false r), b_spec_readn; exact I|apply w_sim_readn; exact H].
  - intros o [b|w] r l H; cbn [pr_readbuf]; [destruct H as [-> ->]; apply (worel_pb false r), b_spec_readbuf; exact I|apply w_sim_readbuf; exact H].
  - intros o [b|w] r l H; cbn [pr_readwire]; [destruct H as [-> ->]; apply (worel_pb false r), b_spec_readwire; exact I|apply w_sim_readwire; exact H].
  - intros o [b|w] r n H; cbn [pr_skip]; [destruct H as [-> ->]; apply (worel_pb false r), b_spec_skip; exact I|apply w_sim_skip; exact H].
  - intros [b|w] s e; cbn [pr_range]; [apply b_spec_range; exact I|apply w_spec_range].
  - intros r s e. apply b_spec_range. exact I.
  - intros o [b|w] r r1' r2' q1 q2 H K1 K2 Q1 Q2.
    + destruct H as [-> ->]. cbn [pr_skip] in K1. rewrite K2 in K1. cbn [lift_b] in K1. inversion K1; subst r1'.
      cbn [pr_pos] in Q1. rewrite Q2 in Q1. inversion Q1; subst q1. cbn [pr_range].
      destruct (b_skip1_range r r2' K2) as [x [t [_ Hg]]]. inversion Q2; subst q2. exists x, [], []. split; exact Hg.
    + cbn [pr_skip] in K1. destruct (wr_skip w 1) as [u w'|e w'|y] eqn:Ew; cbn [lift_w] in K1; try discriminate.
      destruct u. inversion K1; subst r1'. cbn [pr_pos pr_range] in *.
      apply (w_sim_skip_range o w r w' r2' q1 q2 H Ew K2 Q1 Q2).
  - intros o [b|w] r l H.
    + destruct H as [-> ->]. cbn [pr_delegate].
      destruct (b_spec_delegate r l I) as [sr [r' [E _]]]. rewrite E.
      exists (PB sr), (PB r'), sr, r', 0%Z. repeat split; reflexivity.
    + apply w_sim_delegate. exact H.
Qed.

(* wirereader_refines_buffer: any segmentation of any byte string, any schema / model / flag *)
Theorem wirereader_refines_buffer : forall sc mi ic (segs : list bytes),
  pres_eq (decode_wire sc mi ic segs) (decode sc mi ic (concat segs)).
Proof.
  intros. unfold decode_wire, decode. apply (wparse_refines_bparse _ sc mi ic 0%Z).
  cbn [wsim]. split; [unfold wr_inv; cbn [wseg wsegs wpos]; lia|]. split.
  - unfold wview, wP. cbn [wsegs wseg wpos br_of rest]. unfold acc_sz. reflexivity.
  - unfold wP, br_of, br_pos. cbn [wsegs wseg wpos rpre length]. unfold acc_sz. cbn. lia.
Qed.
