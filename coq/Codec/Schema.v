(* Codec/Schema.v — schemas, values and results of the generic TLV codec model (C13, C04).
   A schema is the list of models of one generated package, exactly as the repository's generator front end
   (std/encoding/codegen ProcessDecl) parses them; Codec/GenSchemas.v is regenerated from the source on every run.
   No proofs here. *)
From Base Require Export VarNum.
Open Scope N_scope.

(* Field kinds = the field classes of std/encoding/codegen/fields*.go, map_field.go, signature.go, markers.go.
   References between fields of one model (signature -> its start marker and its covered-bytes argument) are
   positions in the model's field list; struct references are positions in the package's model list. *)
Inductive fkind :=
| KNat (opt : bool)                       (* natural[:optional]            uint64 / *uint64 *)
| KFixed (w : nat) (opt : bool)           (* fixedUint:byte|uint16|uint32|uint64[:optional] *)
| KTime (opt : bool)                      (* time[:optional]               time.Duration, wire unit = ms *)
| KBin                                    (* binary                        []byte *)
| KStr (opt : bool)                       (* string[:optional] *)
| KWire                                   (* wire                          enc.Wire *)
| KName                                   (* name                          enc.Name *)
| KBool                                   (* bool *)
| KStruct (m : nat)                       (* struct:T[:nocopy]             *T *)
| KSeq (sub : fkind)                      (* sequence:gotype:class[:ann]   []X *)
| KMap (key : fkind) (vt : N) (val : fkind) (* map:K:class:valtype:V:class  map[K]V *)
| KSig (start cov : nat)                  (* signature:startMarker:coveredArg *)
| KIntName (cov : nat)                    (* interestName:coveredArg *)
| KOffset                                 (* offsetMarker *)
| KRange (start cov : nat)                (* rangeMarker:startMarker:coveredArg *)
| KArg.                                   (* procedureArgument *)

Record field := mkf { ftyp : N; fk : fkind }.
Record model := mkm { ordered : bool; nocopy : bool; flds : list field }.
Definition schema := list model.

(* name components on the wire *)
Record comp := mkc { ctyp : N; cval : bytes }.
Definition name := list comp.

(* Values of generated struct types, projected:
   VNone    nil pointer / nil slice / absent
   VNat n   natural, fixedUint; for time fields n is the Duration in ns as a uint64 bit pattern
   VBytes b []byte, string, enc.Wire (joined), signature value
   VName    enc.Name (non-nil)
   VBool
   VStruct  non-nil *T: one value per field of T (VUnit for markers and arguments)
   VSeq     slice of elements (nil and empty are identified, as Go's encoder and parser do)
   VMap     key/value pairs (in the order the encoder iterates / the parser inserted them) *)
Inductive value :=
| VNone
| VNat (n : N)
| VBytes (b : bytes)
| VName (n : name)
| VBool (b : bool)
| VStruct (fs : list value)
| VSeq (l : list value)
| VMap (l : list (value * value))
| VUnit.

(* outcome of a decoder call: a value, an error return, or a Go run-time panic (index/slice out of range,
   nil dereference, make with an impossible size) *)
Inductive res (A : Type) := Ok (a : A) | Err (e : N) | Panic (why : N).
Arguments Ok {A}. Arguments Err {A}. Arguments Panic {A}.

(* error codes (only used to make traces readable; theorems quantify over them) *)
Definition E_EOF : N := 1.            (* io.EOF / io.ErrUnexpectedEOF / reader errors *)
Definition E_CRITICAL : N := 2.       (* enc.ErrUnrecognizedField *)
Definition E_REQUIRED : N := 3.       (* enc.ErrSkipRequired *)
Definition E_OVERFLOW : N := 4.       (* enc.ErrBufferOverflow *)
Definition E_MAPVAL : N := 5.         (* map value type mismatch *)
Definition E_NOMODEL : N := 98.       (* model index outside the schema: never happens for well-formed schemas *)
Definition E_FUEL : N := 99.          (* model ran out of fuel: never happens (theorem) *)

Definition P_INDEX : N := 1.          (* index out of range *)
Definition P_SLICE : N := 2.          (* slice bounds out of range *)
Definition P_MAKE : N := 3.           (* makeslice: len out of range *)
Definition P_NIL : N := 4.            (* nil dereference *)

(* Go integer conversions *)
Definition two63 : N := 9223372036854775808.
Definition to_int (x : N) : Z :=                       (* int(l) for l : uint64 *)
  let y := x mod two64 in if y <? two63 then Z.of_N y else Z.of_N y - Z.of_N two64.
Definition wrap_int (z : Z) : Z :=                     (* int addition overflow *)
  let y := (z mod Z.of_N two64)%Z in if (y <? Z.of_N two63)%Z then y else (y - Z.of_N two64)%Z.

Definition critical (t : N) : bool := (t <=? 31) || N.odd t.   (* (typ <= 31) || ((typ & 1) == 1) *)

(* well-formedness of schemas, decided by computation on the translated schemas *)
Definition kind_is_data (k : fkind) : bool :=
  match k with KOffset | KRange _ _ | KArg => false | _ => true end.

Definition typ_ok (t : N) : bool := (0 <? t) && (t <? two64).

Fixpoint kind_wf (nm : nat) (nf : nat) (top : bool) (k : fkind) : bool :=
  match k with
  | KFixed w _ => (Nat.eqb w 1 || Nat.eqb w 2 || Nat.eqb w 4 || Nat.eqb w 8)
  | KStruct m => Nat.ltb m nm
  | KSeq sub => top && kind_wf nm nf false sub &&
                match sub with KNat false | KStr false | KName | KBin | KStruct _ | KFixed _ false | KTime false => true | _ => false end
  | KMap key vt val => top && typ_ok vt &&
                match key with KNat false | KStr false => true | _ => false end &&
                match val with KBin | KStruct _ | KNat false | KStr false | KName => kind_wf nm nf false val | _ => false end
  | KSig s c => top && Nat.ltb s nf && Nat.ltb c nf
  | KIntName c => top && Nat.ltb c nf
  | KRange s c => top && Nat.ltb s nf && Nat.ltb c nf
  | KOffset | KArg => top
  | _ => true
  end.

Definition field_wf (nm nf : nat) (f : field) : bool :=
  kind_wf nm nf true (fk f) && (if kind_is_data (fk f) then typ_ok (ftyp f) else ftyp f =? 0).

Fixpoint nodup_N (l : list N) : bool :=
  match l with [] => true | x :: r => negb (existsb (N.eqb x) r) && nodup_N r end.

Definition data_types (m : model) : list N :=
  map ftyp (filter (fun f => kind_is_data (fk f)) (flds m)).

(* references of signature / range markers point at fields of the right kind *)
Definition ref_ok (m : model) (f : field) : bool :=
  let isk (i : nat) (p : fkind -> bool) := match nth_error (flds m) i with Some g => p (fk g) | None => false end in
  match fk f with
  | KSig s c => isk s (fun k => match k with KOffset => true | _ => false end) && isk c (fun k => match k with KArg => true | _ => false end)
  | KRange s c => isk s (fun k => match k with KOffset => true | _ => false end) && isk c (fun k => match k with KArg => true | _ => false end)
  | KIntName c => isk c (fun k => match k with KArg => true | _ => false end)
  | _ => true
  end.

(* the type number of a data field does not reappear in any later field (Go: duplicate case labels do not compile;
   stated in this recursive form because that is how the proofs use it) *)
Fixpoint types_ok (fs : list field) : bool :=
  match fs with
  | [] => true
  | f :: r => (if kind_is_data (fk f) then negb (existsb (fun g => ftyp g =? ftyp f) r) else true) && types_ok r
  end.

Definition model_wf (nm : nat) (m : model) : bool :=
  forallb (field_wf nm (length (flds m))) (flds m) && nodup_N (data_types m) && types_ok (flds m) &&
  forallb (ref_ok m) (flds m).

Definition schema_wf (S : schema) : bool := forallb (model_wf (length S)) S.
