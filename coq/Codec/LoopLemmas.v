(* Codec/LoopLemmas.v — one iteration of the generated parse loop over the BufferReader: unknown elements are
   skipped without touching the state; an element of field i reaches the reader of field i (in ordered models after
   the skip processes of the fields the progress counter walks over). *)
From Codec Require Import Schema Readers Model Spec BrLemmas LeafLemmas StateLemmas FieldLemmas.
From Coq Require Import ZifyBool ZifyN ZifyNat.
Open Scope N_scope.

Section Loop.
  Variable sc : schema.
  Variable sub : nat -> bool -> br -> res parse_out.
  Variable m : model.
  Variable nm : nat.
  Hypothesis Hm : model_wf nm m = true.
  Variable ic : bool.

  Definition nf : nat := length (flds m).

  Lemma b_ploop_step k s p pre x : x <> [] ->
    b_ploop sub (S k) m ic s p (mkbr pre x) =
    match b_pstep sub m ic (Z.of_nat (length pre)) s p (mkbr pre x) with
    | ROk (s', p') r' => b_ploop sub k m ic s' p' r'
    | RErr e _ => Err e
    | RPanic w => Panic w
    end.
  Proof.
    intros Hx. cbn [ploop]. rewrite br_pos_mk, br_len_mk.
    destruct x as [|a x]; [congruence|]. cbn [length].
    destruct (Z.of_nat (length pre) >=? Z.of_nat (length pre + S (length x)))%Z eqn:E; [lia|]. reflexivity.
  Qed.

  Lemma b_ploop_end k s p pre :
    b_ploop sub (S k) m ic s p (mkbr pre []) =
    match b_finish 0 (flds m) (Z.of_nat (length pre)) s (mkbr pre []) with
    | Ok s' => Ok (p_vals s', p_ctx s', p_cov s')
    | Err e => Err e
    | Panic w => Panic w
    end.
  Proof.
    cbn [ploop]. rewrite br_pos_mk, br_len_mk. cbn [length].
    destruct (Z.of_nat (length pre) >=? Z.of_nat (length pre + 0))%Z eqn:E; [reflexivity|lia].
  Qed.

  (* ---- unknown elements ---- *)
  Definition is_unk (t : N) : Prop :=
    find_field t 0 (flds m) = None /\ (ic = true \/ critical t = false) /\ t < two64.

  Lemma b_pstep_unk t pl sp s p pre rest0 :
    is_unk t -> small pl -> (p < Z.of_nat nf)%Z ->
    b_pstep sub m ic sp s p (mkbr pre (tlv t pl ++ rest0)) = ROk (s, p) (mkbr (rev (tlv t pl) ++ pre) rest0).
  Proof.
    intros [Hf [Hc Ht]] Hs Hp. unfold pstep.
    destruct (b_rd_header t pl pre rest0 Ht Hs) as [H1 H2]. rewrite H1. cbn [negb]. rewrite H2. cbn [negb].
    assert (Hunk : b_rd_unknown ic t (N.of_nat (length pl))
                     (mkbr (rev (tl_enc (N.of_nat (length pl))) ++ rev (tl_enc t) ++ pre) (pl ++ rest0))
                   = ROk tt (mkbr (rev (tlv t pl) ++ pre) rest0)).
    { unfold rd_unknown. replace (negb ic && critical t) with false
        by (destruct Hc as [-> | ->]; [reflexivity|destruct ic; reflexivity]).
      rewrite to_int_small by exact Hs. rewrite nat_N_Z. rewrite b_skip_app.
      unfold tlv. rewrite !rev_app_distr, <- !app_assoc. reflexivity. }
    destruct (ordered m).
    - cbn [oloop]. fold nf. destruct (p >=? Z.of_nat nf)%Z eqn:E; [lia|].
      rewrite Hf. rewrite Hunk. reflexivity.
    - unfold ustep. rewrite Hf. rewrite Hunk. reflexivity.
  Qed.

  (* ---- known elements ---- *)
  Definition skippable_at (s : pst) (j : nat) (g : field) : Prop :=
    (exists F, wf_val F sc (fk g) (nth j (p_vals s) VNone) = true) /\ skippable (fk g) (nth j (p_vals s) VNone).

  Definition walk_ok (s : pst) (p : Z) (i : nat) : Prop :=
    forall j g, (p < Z.of_nat j < Z.of_nat i)%Z -> nth_error (flds m) j = Some g -> skippable_at s j g.

  Lemma b_oloop_walk : forall gap k t l sp s p r i g,
    find_field t 0 (flds m) = Some (i, g) -> (Z.of_nat i - (p + 1) = Z.of_nat gap)%Z -> (gap < k)%nat ->
    (i < nf)%nat -> (-1 <= p)%Z -> walk_ok s p i ->
    exists s1, p_vals s1 = p_vals s /\ hand_le (p_hand s) (p_hand s1) /\
      b_oloop sub k m ic t l sp s p r =
      match b_rd_field sub ic i (fk g) l sp s1 r with
      | ROk s' r' => ROk (s', if is_rep (fk g) then (Z.of_nat i - 1)%Z else Z.of_nat i) r'
      | RErr e r' => RErr e r'
      | RPanic w => RPanic w
      end.
  Proof.
    induction gap as [|gap IH]; intros k t l sp s p r i g Hf Hgap Hk Hi Hp Hw.
    - destruct k as [|k]; [lia|]. cbn [oloop]. fold nf.
      destruct (p >=? Z.of_nat nf)%Z eqn:E; [lia|]. rewrite Hf.
      destruct (p + 1 =? Z.of_nat i)%Z eqn:E2; [|lia].
      exists s. split; [reflexivity|]. split; [apply hand_le_refl|].
      replace (p + 1)%Z with (Z.of_nat i) by lia. replace p with (Z.of_nat i - 1)%Z by lia.
      destruct (b_rd_field sub ic i (fk g) l sp s r); try reflexivity.
    - destruct k as [|k]; [lia|]. cbn [oloop]. fold nf.
      destruct (p >=? Z.of_nat nf)%Z eqn:E; [lia|]. rewrite Hf.
      destruct (p + 1 =? Z.of_nat i)%Z eqn:E2; [lia|].
      set (j := Z.to_nat (p + 1)).
      assert (Hj : (j < i)%nat) by lia.
      destruct (nth_error (flds m) j) as [gj|] eqn:Egj.
      2:{ apply nth_error_None in Egj. unfold nf in Hi. lia. }
      destruct (Hw j gj) as [[F HF] Hsk]; [lia|exact Egj|].
      destruct (b_skip_proc_vals sc F j (fk gj) sp (set_hand j s) r _ HF Hsk eq_refl) as [s2 [E3 [E4 E5]]].
      rewrite E3.
      destruct (IH k t l sp s2 (p + 1)%Z r i g Hf) as [s1 [V1 [H1 O1]]]; try lia.
      + intros j' g' Hj' Hg'. unfold skippable_at. rewrite E4. cbn [set_hand p_vals]. apply Hw; [lia|exact Hg'].
      + exists s1. split; [rewrite V1, E4; reflexivity|]. split; [|exact O1].
        eapply hand_le_trans; [|exact H1]. rewrite E5. apply hand_le_upd.
  Qed.

  (* header + dispatch of an element of data field i *)
  Lemma b_pstep_field i g pl sp s p pre rest0 :
    nth_error (flds m) i = Some g -> kind_is_data (fk g) = true -> small pl ->
    (-1 <= p < Z.of_nat i)%Z -> (ordered m = true -> walk_ok s p i) ->
    exists s1, p_vals s1 = p_vals s /\ hand_le (p_hand s) (p_hand s1) /\
      b_pstep sub m ic sp s p (mkbr pre (tlv (ftyp g) pl ++ rest0)) =
      match b_rd_field sub ic i (fk g) (N.of_nat (length pl)) sp s1
              (mkbr (rev (tl_enc (N.of_nat (length pl))) ++ rev (tl_enc (ftyp g)) ++ pre) (pl ++ rest0)) with
      | ROk s' r' => ROk (s', if ordered m then (if is_rep (fk g) then (Z.of_nat i - 1)%Z else Z.of_nat i) else p) r'
      | RErr e r' => RErr e r'
      | RPanic w => RPanic w
      end.
  Proof.
    intros Hi Hd Hs Hp Hw.
    pose proof (find_field_data m nm i g Hm Hi Hd) as Hf.
    destruct (find_field_some_typ _ _ _ _ _ Hf) as [_ Hnz].
    assert (Ht : ftyp g < two64).
    { unfold model_wf in Hm. apply andb_true_iff in Hm as [Hm' _]. apply andb_true_iff in Hm' as [Hm' _].
      apply andb_true_iff in Hm' as [Hfw _]. rewrite forallb_forall in Hfw.
      specialize (Hfw g (nth_error_In _ _ Hi)). unfold field_wf in Hfw. apply andb_true_iff in Hfw as [_ Hfw].
      rewrite Hd in Hfw. unfold typ_ok in Hfw. lia. }
    unfold pstep.
    destruct (b_rd_header (ftyp g) pl pre rest0 Ht Hs) as [H1 H2]. rewrite H1. cbn [negb]. rewrite H2. cbn [negb].
    assert (Hin : (i < nf)%nat) by (unfold nf; apply nth_error_Some; congruence).
    destruct (ordered m).
    - specialize (Hw eq_refl).
      destruct (b_oloop_walk (Z.to_nat (Z.of_nat i - (p + 1))) (S (length (flds m))) (ftyp g) (N.of_nat (length pl)) sp s p
                  (mkbr (rev (tl_enc (N.of_nat (length pl))) ++ rev (tl_enc (ftyp g)) ++ pre) (pl ++ rest0)) i g Hf)
        as [s1 [V1 [Hh O1]]]; try lia; try assumption.
      + unfold nf in Hin. lia.
      + exists s1. split; [exact V1|]. split; [exact Hh|]. exact O1.
    - exists s. split; [reflexivity|]. split; [apply hand_le_refl|].
      unfold ustep. rewrite Hf.
      destruct (b_rd_field sub ic i (fk g) (N.of_nat (length pl)) sp s _); reflexivity.
  Qed.
End Loop.
