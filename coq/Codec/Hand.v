(* Codec/Hand.v — the hand-written TLV decoders of std/encoding (ReadTLNum, ReadComponent, ReadName, NameFromBytes,
   ComponentFromBytes, ParseNat) over the same reader models, with panics explicit, and their totality:
   a value or an error, never a panic, and the ReadName loop ends within remaining-bytes + 1 iterations.
   (spec.ReadPacket / ReadData / ReadInterest only post-check the value returned by the generated Packet parser with
   length-guarded indexing; their totality is decode_total of that parser.) *)
From Codec Require Import Schema Readers Model Spec Total TotalBr TotalWr.
From Coq Require Import ZifyBool ZifyN ZifyNat.
Open Scope N_scope.

Inductive hres (R A : Type) := HOk (a : A) (r : R) | HEof (r : R) | HErr (r : R) | HPanic (w : N) | HFuel.
Arguments HOk {R A}. Arguments HEof {R A}. Arguments HErr {R A}. Arguments HPanic {R A}. Arguments HFuel {R A}.

Section Hand.
  Variable R : Type.
  Variable r_readbyte : R -> rres R byte.
  Variable r_readbuf : R -> Z -> rres R bytes.

  (* ReadTLNum with its three outcomes: io.EOF when the first byte is missing, ErrUnexpectedEOF inside *)
  Definition h_tlnum (r : R) : hres R N :=
    match r_readbyte r with
    | RErr _ r' => HEof r'
    | RPanic w => HPanic w
    | ROk x r' =>
      if x <=? 252 then HOk x r'
      else match rd_be R r_readbyte (if x =? 253 then 2 else if x =? 254 then 4 else 8) 0 r' with
           | TL _ v true r'' => HOk v r''
           | TL _ _ false r'' => HErr r''
           | TLPanic _ w => HPanic w
           end
    end.

  Definition h_read_comp (r : R) : hres R comp :=
    match h_tlnum r with
    | HOk t r1 =>
      match h_tlnum r1 with
      | HOk l r2 =>
        match r_readbuf r2 (to_int l) with
        | ROk v r3 => HOk (mkc t v) r3
        | RErr _ r3 => HErr r3
        | RPanic w => HPanic w
        end
      | HEof r2 | HErr r2 => HErr r2
      | HPanic w => HPanic w
      | HFuel => HFuel
      end
    | HEof r1 => HEof r1
    | HErr r1 => HErr r1
    | HPanic w => HPanic w
    | HFuel => HFuel
    end.

  (* ReadName: components until io.EOF *)
  Fixpoint h_read_name (k : nat) (r : R) (acc : name) : hres R name :=
    match k with
    | O => HFuel
    | S k' =>
      match h_read_comp r with
      | HOk c r' => h_read_name k' r' (c :: acc)
      | HEof r' => HOk (rev acc) r'
      | HErr r' => HErr r'
      | HPanic w => HPanic w
      | HFuel => HFuel
      end
    end.

  (* totality under the reader specification of Total.v *)
  Variable RI : R -> Prop.
  Variable rem : R -> nat.
  Hypothesis H_readbyte : forall r, RI r -> opspec R RI rem true r (r_readbyte r).
  Hypothesis H_readbuf : forall r l, RI r -> opspec R RI rem false r (r_readbuf r l).

  Definition hspec {A} (r : R) (x : hres R A) : Prop :=
    match x with
    | HOk _ r' => RI r' /\ (rem r' < rem r)%nat
    | HEof r' | HErr r' => RI r' /\ (rem r' <= rem r)%nat
    | HPanic _ => False
    | HFuel => False
    end.

  Lemma h_rd_be : forall k acc r, RI r -> match rd_be R r_readbyte k acc r with
                                         | TL _ _ _ r' => RI r' /\ (rem r' <= rem r)%nat
                                         | TLPanic _ _ => False end.
  Proof.
    induction k as [|k IH]; intros acc r HI; cbn [rd_be]; [split; [exact HI|lia]|].
    pose proof (H_readbyte r HI) as X. destruct (r_readbyte r) as [x r'|e r'|w]; cbn [opspec] in X; [|intuition lia|contradiction].
    destruct X as [HI' Hr]. specialize (IH (acc * 256 + x) r' HI').
    destruct (rd_be R r_readbyte k (acc * 256 + x) r'); [|contradiction]. intuition lia.
  Qed.

  Lemma h_tlnum_total r : RI r -> hspec r (h_tlnum r).
  Proof.
    intros HI. unfold h_tlnum.
    pose proof (H_readbyte r HI) as X. destruct (r_readbyte r) as [x r'|e r'|w]; cbn [opspec] in X; [|cbn; intuition lia|contradiction].
    destruct X as [HI' Hr]. destruct (x <=? 252); [cbn; split; [exact HI'|lia]|].
    pose proof (h_rd_be (if x =? 253 then 2%nat else if x =? 254 then 4%nat else 8%nat) 0 r' HI') as Y.
    destruct (rd_be R r_readbyte _ 0 r') as [v ok r''|w]; [|contradiction].
    destruct ok; cbn; intuition lia.
  Qed.

  Lemma h_read_comp_total r : RI r -> hspec r (h_read_comp r).
  Proof.
    intros HI. unfold h_read_comp.
    pose proof (h_tlnum_total r HI) as X1. destruct (h_tlnum r) as [t r1|r1|r1|w|]; cbn [hspec] in X1 |- *; try contradiction; try exact X1.
    destruct X1 as [HI1 Hr1].
    pose proof (h_tlnum_total r1 HI1) as X2. destruct (h_tlnum r1) as [l r2|r2|r2|w|]; cbn [hspec] in X2 |- *; try contradiction; try (intuition lia).
    destruct X2 as [HI2 Hr2].
    pose proof (H_readbuf r2 (to_int l) HI2) as X3. destruct (r_readbuf r2 (to_int l)) as [v r3|e r3|w]; cbn [opspec hspec] in X3 |- *; try contradiction; intuition lia.
  Qed.

  Lemma h_read_name_total : forall k r acc, RI r -> (rem r < k)%nat ->
    match h_read_name k r acc with HOk _ r' | HEof r' | HErr r' => RI r' | HPanic _ => False | HFuel => False end.
  Proof.
    induction k as [|k IH]; intros r acc HI Hk; [lia|].
    cbn [h_read_name]. pose proof (h_read_comp_total r HI) as X.
    destruct (h_read_comp r) as [c r'|r'|r'|w|]; cbn [hspec] in X; try contradiction; try (apply X).
    destruct X as [HI' Hr]. apply IH; [exact HI'|lia].
  Qed.
End Hand.

(* ---- instances ---- *)
Definition b_read_comp := h_read_comp br br_readbyte br_readbuf.
Definition b_read_name (r : br) := h_read_name br br_readbyte br_readbuf (S (length (rest r))) r [].
Definition w_read_name (r : preader) := h_read_name preader pr_readbyte pr_readbuf (S (p_rem r)) r [].

(* ComponentFromBytes(buf) = ReadComponent(NewBufferReader(buf)) *)
Definition comp_from_bytes (b : bytes) : res comp :=
  match b_read_comp (br_of b) with
  | HOk c _ => Ok c
  | HEof _ | HErr _ => Err E_EOF
  | HPanic w => Panic w
  | HFuel => Err E_FUEL
  end.

(* NameFromBytes *)
Definition name_from_bytes (b : bytes) : res name :=
  match h_tlnum br br_readbyte (br_of b) with
  | HOk t r1 =>
    if negb (t =? 7) then Err E_OVERFLOW else
    match h_tlnum br br_readbyte r1 with
    | HOk l r2 =>
      match b_read_name r2 with
      | HOk n r3 => if (to_int l =? br_len r3 - br_pos r2)%Z then Ok n else Err E_OVERFLOW
      | HEof _ | HErr _ => Err E_EOF
      | HPanic w => Panic w
      | HFuel => Err E_FUEL
      end
    | HEof _ | HErr _ => Err E_EOF
    | HPanic w => Panic w
    | HFuel => Err E_FUEL
    end
  | HEof _ | HErr _ => Err E_EOF
  | HPanic w => Panic w
  | HFuel => Err E_FUEL
  end.

(* ParseNat is Base.VarNum.nat_dec: a function of the byte list's length, total by construction *)
Definition parse_nat (b : bytes) : option N := nat_dec b.

Definition good {A} (x : res A) : Prop := match x with Ok _ => True | Err e => e <> E_FUEL | Panic _ => False end.

Lemma b_read_name_total r : match b_read_name r with HOk _ _ | HEof _ | HErr _ => True | HPanic _ => False | HFuel => False end.
Proof.
  unfold b_read_name.
  pose proof (h_read_name_total br br_readbyte br_readbuf b_RI b_rem b_spec_readbyte b_spec_readbuf (S (length (rest r))) r [] I) as H.
  unfold b_rem in H. specialize (H (Nat.lt_succ_diag_r _)).
  destruct (h_read_name br br_readbyte br_readbuf (S (length (rest r))) r []); auto.
Qed.

Lemma w_read_name_total r : p_RI r -> match w_read_name r with HOk _ _ | HEof _ | HErr _ => True | HPanic _ => False | HFuel => False end.
Proof.
  intros HI. unfold w_read_name.
  assert (Hb : forall r0, p_RI r0 -> opspec preader p_RI p_rem true r0 (pr_readbyte r0)).
  { intros [b|w] H; cbn [pr_readbyte]; [apply lift_b_spec, b_spec_readbyte; exact I|apply lift_w_spec, w_spec_readbyte; exact H]. }
  assert (Hf : forall r0 l, p_RI r0 -> opspec preader p_RI p_rem false r0 (pr_readbuf r0 l)).
  { intros [b|w] l H; cbn [pr_readbuf]; [apply lift_b_spec, b_spec_readbuf; exact I|apply lift_w_spec, w_spec_readbuf; exact H]. }
  pose proof (h_read_name_total preader pr_readbyte pr_readbuf p_RI p_rem Hb Hf (S (p_rem r)) r [] HI (Nat.lt_succ_diag_r _)) as H.
  destruct (h_read_name preader pr_readbyte pr_readbuf (S (p_rem r)) r []); auto.
Qed.

Theorem comp_from_bytes_total b : good (comp_from_bytes b).
Proof.
  unfold comp_from_bytes, b_read_comp.
  pose proof (h_read_comp_total br br_readbyte br_readbuf b_RI b_rem b_spec_readbyte b_spec_readbuf (br_of b) I) as H.
  destruct (h_read_comp br br_readbyte br_readbuf (br_of b)); cbn in H |- *; try contradiction; auto; discriminate.
Qed.

Theorem name_from_bytes_total b : good (name_from_bytes b).
Proof.
  unfold name_from_bytes, good.
  pose proof (h_tlnum_total br br_readbyte br_readbuf b_RI b_rem b_spec_readbyte b_spec_readbuf (br_of b) I) as H1.
  destruct (h_tlnum br br_readbyte (br_of b)) as [t r1|r1|r1|w|]; cbn [hspec] in H1; try contradiction; try discriminate.
  destruct (negb (t =? 7)); [discriminate|].
  pose proof (h_tlnum_total br br_readbyte br_readbuf b_RI b_rem b_spec_readbyte b_spec_readbuf r1 I) as H2.
  destruct (h_tlnum br br_readbyte r1) as [l r2|r2|r2|w|]; cbn [hspec] in H2; try contradiction; try discriminate.
  pose proof (b_read_name_total r2) as H3.
  destruct (b_read_name r2) as [n r3|r3|r3|w|]; try contradiction; try discriminate.
  destruct (to_int l =? br_len r3 - br_pos r2)%Z; [exact I|discriminate].
Qed.

(* ================================================================================================ *)
(* spec_2022 glue: ReadPacket / ReadData / ReadInterest = the generated Packet parser + post-checks (spec.go).
   The positions of the members are translated from the definitions (GenSchemas.spec_idx); the parameters-digest
   comparison (SHA-256 over the covered range) is an arbitrary boolean `dok`.  Slice indexing is explicit. *)
Record spec_ix := mk_ix { x_interest : nat; x_data : nat; x_lp : nat;       (* members of Packet *)
                          xi_name : nat; xi_app : nat; xi_sig : nat;        (* Interest: NameV, ApplicationParameters, SignatureValue *)
                          xd_name : nat;                                    (* Data: NameV *)
                          xl_fragment : nat }.                              (* LpPacket: Fragment *)

Definition fieldv (vs : list value) (i : nat) : value := nth i vs VNone.

(* name[len(name)-1] *)
Definition last_comp (n : name) : res comp := match rev n with [] => Panic P_INDEX | c :: _ => Ok c end.

Definition check_interest (ix : spec_ix) (dok : bool) (iv : list value) : res unit :=
  match fieldv iv (xi_name ix) with
  | VName n =>
    let app_nil := match fieldv iv (xi_app ix) with VNone => true | _ => false end in
    let sig_nil := match fieldv iv (xi_sig ix) with VNone => true | _ => false end in
    if negb sig_nil && app_nil then Err E_OVERFLOW
    else if app_nil then (if existsb (fun c => ctyp c =? 2) n then Err E_OVERFLOW else Ok tt)
    else if (length n =? 0)%nat then Err E_OVERFLOW          (* len(name) == 0 || ... *)
    else match last_comp n with
         | Ok c => if negb (ctyp c =? 2) then Err E_OVERFLOW else if dok then Ok tt else Err E_OVERFLOW
         | Err e => Err e
         | Panic w => Panic w
         end
  | _ => Err E_REQUIRED
  end.

Definition read_packet (ix : spec_ix) (dok : bool) (r : res parse_out) : res (list value) :=
  match r with
  | Ok (vs, _, _) =>
    match fieldv vs (x_data ix) with
    | VStruct dv => match fieldv dv (xd_name ix) with VNone => Err E_REQUIRED | _ => Ok vs end
    | _ =>
      match fieldv vs (x_interest ix) with
      | VStruct iv => match check_interest ix dok iv with Ok _ => Ok vs | Err e => Err e | Panic w => Panic w end
      | _ =>
        match fieldv vs (x_lp ix) with
        | VStruct lv => match fieldv lv (xl_fragment ix) with VNone => Err E_REQUIRED | _ => Ok vs end
        | _ => Err E_MAPVAL      (* ndn.ErrWrongType *)
        end
      end
    end
  | Err e => Err e
  | Panic w => Panic w
  end.

Definition read_data (ix : spec_ix) (r : res parse_out) : res (list value) :=
  match r with
  | Ok (vs, _, _) =>
    match fieldv vs (x_data ix) with
    | VStruct dv => match fieldv dv (xd_name ix) with VNone => Err E_REQUIRED | _ => Ok dv end
    | _ => Err E_MAPVAL
    end
  | Err e => Err e
  | Panic w => Panic w
  end.

Definition read_interest (ix : spec_ix) (dok : bool) (r : res parse_out) : res (list value) :=
  match r with
  | Ok (vs, _, _) =>
    match fieldv vs (x_interest ix) with
    | VStruct iv => match check_interest ix dok iv with Ok _ => Ok iv | Err e => Err e | Panic w => Panic w end
    | _ => Err E_MAPVAL
    end
  | Err e => Err e
  | Panic w => Panic w
  end.

Lemma check_interest_total ix dok iv : good (check_interest ix dok iv).
Proof.
  unfold check_interest, good. destruct (fieldv iv (xi_name ix)); try discriminate.
  destruct (negb _ && _); [discriminate|]. destruct (match fieldv iv (xi_app ix) with VNone => true | _ => false end).
  - destruct (existsb _ n); [discriminate|exact I].
  - destruct (length n =? 0)%nat eqn:E; [discriminate|].
    unfold last_comp. destruct (rev n) as [|c r] eqn:Er.
    + apply Nat.eqb_neq in E. apply (f_equal (@length comp)) in Er. rewrite rev_length in Er. cbn in Er. congruence.
    + destruct (negb (ctyp c =? 2)); [discriminate|]. destruct dok; [exact I|discriminate].
Qed.

Lemma glue_total ix dok r : good r -> good (read_packet ix dok r) /\ good (read_data ix r) /\ good (read_interest ix dok r).
Proof.
  intros Hr. unfold read_packet, read_data, read_interest, good in *.
  destruct r as [[[vs cx] cv]|e|w]; [|repeat split; exact Hr|contradiction].
  pose proof (check_interest_total ix dok) as Hc. unfold good in Hc. repeat split.
  - destruct (fieldv vs (x_data ix)) as [| | | | |dv| | |]; try (destruct (fieldv vs (x_interest ix)) as [| | | | |iv| | |];
      try (destruct (fieldv vs (x_lp ix)) as [| | | | |lv| | |]; try discriminate; destruct (fieldv lv (xl_fragment ix)); try exact I; discriminate);
      specialize (Hc iv); destruct (check_interest ix dok iv); auto).
    destruct (fieldv dv (xd_name ix)); try exact I; discriminate.
  - destruct (fieldv vs (x_data ix)) as [| | | | |dv| | |]; try discriminate. destruct (fieldv dv (xd_name ix)); try exact I; discriminate.
  - destruct (fieldv vs (x_interest ix)) as [| | | | |iv| | |]; try discriminate. specialize (Hc iv). destruct (check_interest ix dok iv); auto.
Qed.

(* ParseNat = Base.VarNum.nat_dec: accepts exactly the lengths 1, 2, 4, 8 and returns the big-endian value *)
Lemma parse_nat_spec b : parse_nat b = if (Nat.eqb (length b) 1 || Nat.eqb (length b) 2 || Nat.eqb (length b) 4 || Nat.eqb (length b) 8)%bool
                                       then Some (be_val b) else None.
Proof.
  unfold parse_nat, nat_dec.
  destruct (length b) as [|[|[|[|[|[|[|[|[|n]]]]]]]]]; reflexivity.
Qed.

Definition ix_of_list (l : list nat) : spec_ix :=
  mk_ix (nth 2 l 9999%nat) (nth 3 l 9999%nat) (nth 4 l 9999%nat) (nth 5 l 9999%nat) (nth 6 l 9999%nat) (nth 7 l 9999%nat)
        (nth 8 l 9999%nat) (nth 9 l 9999%nat).

(* the three entry points over both readers *)
Definition read_packet_b ix dok sc mi (b : bytes) := read_packet ix dok (decode sc mi false b).
Definition read_packet_w ix dok sc mi (segs : list bytes) := read_packet ix dok (decode_wire sc mi false segs).
Definition read_data_b ix sc mi (b : bytes) := read_data ix (decode sc mi false b).
Definition read_data_w ix sc mi (segs : list bytes) := read_data ix (decode_wire sc mi false segs).
Definition read_interest_b ix dok sc mi (b : bytes) := read_interest ix dok (decode sc mi false b).
Definition read_interest_w ix dok sc mi (segs : list bytes) := read_interest ix dok (decode_wire sc mi false segs).

Theorem spec_glue_total ix dok sc mi :
  (forall b, good (read_packet_b ix dok sc mi b) /\ good (read_data_b ix sc mi b) /\ good (read_interest_b ix dok sc mi b)) /\
  (forall segs, good (read_packet_w ix dok sc mi segs) /\ good (read_data_w ix sc mi segs) /\ good (read_interest_w ix dok sc mi segs)).
Proof.
  split; intros x; apply glue_total; unfold good.
  - apply decode_total_b.
  - apply decode_total_w.
Qed.

Lemma handwritten_glue_total :
  (forall b : bytes, parse_nat b =
     if (Nat.eqb (length b) 1 || Nat.eqb (length b) 2 || Nat.eqb (length b) 4 || Nat.eqb (length b) 8)%bool then Some (be_val b) else None) /\
  (forall ix dok sc mi (b : bytes),
     match read_packet_b ix dok sc mi b with Ok _ => True | Err e => e <> E_FUEL | Panic _ => False end /\
     match read_data_b ix sc mi b with Ok _ => True | Err e => e <> E_FUEL | Panic _ => False end /\
     match read_interest_b ix dok sc mi b with Ok _ => True | Err e => e <> E_FUEL | Panic _ => False end) /\
  (forall ix dok sc mi (segs : list bytes),
     match read_packet_w ix dok sc mi segs with Ok _ => True | Err e => e <> E_FUEL | Panic _ => False end /\
     match read_data_w ix sc mi segs with Ok _ => True | Err e => e <> E_FUEL | Panic _ => False end /\
     match read_interest_w ix dok sc mi segs with Ok _ => True | Err e => e <> E_FUEL | Panic _ => False end).
Proof.
  split; [exact parse_nat_spec|].
  split; intros ix dok sc mi x; apply (spec_glue_total ix dok sc mi).
Qed.
