(* Codec/Tmpl.v — the ModelParse template of the code generator, as translated expression by expression into
   GenTemplates.v (translators/codec/tmplgen.py, every run), interpreted literally:

     progress := t_init
     for { startPos = Pos(); if t_end startPos Length() { break }; read T; read L
           for handled := t_h0; t_ocond handled progress n; progress = t_opost progress {       (ordered)
             switch typ { case T_i: if t_ocase progress i n { handled = t_case_handled; handled_i = true; <reader i>;
                                                             progress = t_{seq,map,other}_progress progress }
                          default: if t_reject ignoreCritical typ { return ErrUnrecognizedField }
                                   handled = t_d_handled handled; err = Skip(l); progress = t_d_oprogress progress }
             if t_nh_guard (err == nil) handled { switch progress { case t_skipcase i n: handled_i = true; <skip i> } }
             if t_err_guard (err == nil) handled { return ErrFailToParse } } }
     for every field: if t_fin_guard (err == nil) handled_i { <skip i> }

   and proved to be the parser of Model.v (ploop / oloop / ustep / finish), the subject of every C13 / C04 theorem.
   The proofs use the translated functions only through the `f_*` facts below, each proved by arithmetic (not by
   syntactic identity): a template edit that keeps the meaning keeps the facts; one that changes the loop condition,
   the case condition, the critical-type rule, the unknown-element bookkeeping, the skip-case numbering or the
   progress statements of the repeated-field readers breaks the corresponding fact. *)
From Coq Require Import List ZArith NArith Lia Bool ZifyBool ZifyN ZifyNat.
From Codec Require Import Schema Readers Model GenTemplates.
Import ListNotations.
Open Scope Z_scope.

Ltac Zify.zify_post_hook ::= Z.to_euclidean_division_equations.

Lemma land1 a : Z.land a 1 = a mod 2.
Proof. change 1 with (Z.ones 1) at 1. rewrite Z.land_ones by lia. reflexivity. Qed.

Lemma critical_mod (t : N) : critical t = ((Z.of_N t <=? 31) || (Z.of_N t mod 2 =? 1)).
Proof.
  unfold critical.
  assert (Hb : N.b2n (N.odd t) = (t mod 2)%N) by (rewrite <- N.bit0_odd; apply N.bit0_mod).
  assert (H : Z.of_N (t mod 2) = Z.of_N t mod 2) by (rewrite N2Z.inj_mod; reflexivity).
  destruct (N.odd t); cbn [N.b2n] in Hb;
    destruct (Z.eqb_spec (Z.of_N t mod 2) 1); try lia;
    destruct (N.leb_spec t 31), (Z.leb_spec (Z.of_N t) 31); try lia; reflexivity.
Qed.

(* tactic for the facts: unfold the translated function, normalise `x & 1`, split booleans, arithmetic *)
Ltac tfact :=
  intros;
  unfold t_init, t_end, t_h0, t_uh0, t_ocond, t_opost, t_ucond, t_ocase, t_ucase, t_case_handled, t_case_mark, t_reject,
         t_d_handled, t_d_oprogress, t_d_uprogress, t_nh_guard, t_skipcase, t_skip_mark, t_err_guard, t_fin_guard,
         t_seq_progress, t_map_progress, t_other_progress;
  repeat rewrite land1;
  repeat match goal with b : bool |- _ => destruct b end;
  cbn [negb andb orb Bool.eqb];
  try reflexivity; lia.

(* ---- the facts: what Model.v assumes about the template ---- *)
Lemma f_init : t_init = -1.                                                        Proof. tfact. Qed.
Lemma f_end sp len : t_end sp len = (sp >=? len).                                  Proof. tfact. Qed.
Lemma f_h0 : t_h0 = false.                                                         Proof. tfact. Qed.
Lemma f_uh0 : t_uh0 = false.                                                       Proof. tfact. Qed.
Lemma f_ocond h p n : t_ocond h p n = (negb h && (p <? n)).                        Proof. tfact. Qed.
Lemma f_opost p : t_opost p = p + 1.                                               Proof. tfact. Qed.
Lemma f_ucond h : t_ucond h = true.                                                Proof. tfact. Qed.
Lemma f_ocase p i n : 0 <= i < n -> -1 <= p < n -> t_ocase p i n = (p + 1 =? i).   Proof. tfact. Qed.
Lemma f_ucase p i n : t_ucase p i n = true.                                        Proof. tfact. Qed.
Lemma f_case_handled : t_case_handled = true.                                      Proof. tfact. Qed.
Lemma f_case_mark : t_case_mark = true.                                            Proof. tfact. Qed.
Lemma f_reject ic t : t_reject ic (Z.of_N t) = (negb ic && critical t).
Proof. rewrite critical_mod. assert (0 <= Z.of_N t) by lia. generalize dependent (Z.of_N t). tfact. Qed.
Lemma f_d_handled h : t_d_handled h = true.                                        Proof. tfact. Qed.
Lemma f_d_oprogress p : t_d_oprogress p = p - 1.                                   Proof. tfact. Qed.
Lemma f_nh_guard e h : t_nh_guard e h = (e && negb h).                             Proof. tfact. Qed.
Lemma f_skipcase i n : t_skipcase i n = i - 1.                                     Proof. tfact. Qed.
Lemma f_skip_mark : t_skip_mark = true.                                            Proof. tfact. Qed.
Lemma f_err_guard e h : t_err_guard e h = negb e.                                  Proof. tfact. Qed.
Lemma f_fin_guard e h : t_fin_guard e h = (negb h && e).                           Proof. tfact. Qed.
Lemma f_seq p : t_seq_progress p = p - 1.                                          Proof. tfact. Qed.
Lemma f_map p : t_map_progress p = p - 1.                                          Proof. tfact. Qed.
Lemma f_other p : t_other_progress p = p.                                          Proof. tfact. Qed.

(* the critical-type rule of the template is the NDN rule *)
Lemma template_critical_rule t : t_reject false (Z.of_N t) = ((t <=? 31)%N || N.odd t).
Proof. rewrite f_reject. reflexivity. Qed.

(* ---- the literal loop ---- *)
Section T.
  Variable R : Type.
  Variable r_pos : R -> res Z.
  Variable r_len : R -> Z.
  Variable r_readbyte : R -> rres R byte.
  Variable r_readn : R -> N -> rres R bytes.
  Variable r_readbuf : R -> Z -> rres R bytes.
  Variable r_readwire : R -> Z -> rres R bytes.
  Variable r_skip : R -> Z -> rres R unit.
  Variable r_range : R -> Z -> Z -> res (option bytes).
  Variable r_delegate : R -> Z -> res (R * R).
  Variable sub : nat -> bool -> R -> res parse_out.

  Notation g_rd_field := (rd_field R r_pos r_len r_readbyte r_readn r_readbuf r_readwire r_skip r_range r_delegate sub).
  Notation g_skip_proc := (skip_proc R r_range).
  Notation g_finish := (finish R r_range).
  Notation g_rd_tlnum := (rd_tlnum R r_readbyte).
  Notation g_oloop := (oloop R r_pos r_len r_readbyte r_readn r_readbuf r_readwire r_skip r_range r_delegate sub).
  Notation g_ustep := (ustep R r_pos r_len r_readbyte r_readn r_readbuf r_readwire r_skip r_range r_delegate sub).
  Notation g_pstep := (pstep R r_pos r_len r_readbyte r_readn r_readbuf r_readwire r_skip r_range r_delegate sub).
  Notation g_ploop := (ploop R r_pos r_len r_readbyte r_readn r_readbuf r_readwire r_skip r_range r_delegate sub).

  (* progress statements inside the reader of a field of kind k *)
  Definition fprog (k : fkind) (p : Z) : Z :=
    match k with KSeq _ => t_seq_progress p | KMap _ _ _ => t_map_progress p | _ => t_other_progress p end.

  (* outcome of `switch typ`: a return, or the loop variables with `err` *)
  Inductive sw := SwPanic (w : N) | SwRet (e : N) (r : R) | Sw (s : pst) (h : bool) (p : Z) (r : R) (err : option N).

  Definition switch_typ (ord : bool) (m : model) (ic : bool) (t l : N) (sp : Z) (s : pst) (h : bool) (p : Z) (r : R) : sw :=
    let n := Z.of_nat (length (flds m)) in
    match find_field t 0 (flds m) with
    | Some (i, f) =>
      if (if ord then t_ocase p (Z.of_nat i) n else t_ucase p (Z.of_nat i) n) then
        if t_case_mark then
          match g_rd_field ic i (fk f) l sp s r with
          | ROk s' r' => Sw s' t_case_handled (fprog (fk f) p) r' None
          | RErr e r' => Sw s t_case_handled p r' (Some e)
          | RPanic w => SwPanic w
          end
        else SwPanic 0%N      (* handled_X not set: not the translated template *)
      else Sw s h p r None
    | None =>
      if t_reject ic (Z.of_N t) then SwRet E_CRITICAL r
      else match r_skip r (to_int l) with
           | ROk _ r' => Sw s (t_d_handled h) (if ord then t_d_oprogress p else t_d_uprogress p) r' None
           | RErr e r' => Sw s (t_d_handled h) (if ord then t_d_oprogress p else t_d_uprogress p) r' (Some e)
           | RPanic w => SwPanic w
           end
    end.

  (* `switch progress { case t_skipcase i n: ... }`: the first matching case *)
  Fixpoint skip_find (p n : Z) (i : nat) (fs : list field) : option (nat * field) :=
    match fs with
    | [] => None
    | f :: fs' => if p =? t_skipcase (Z.of_nat i) n then Some (i, f) else skip_find p n (S i) fs'
    end.

  Definition isnone {A} (o : option A) : bool := match o with None => true | Some _ => false end.

  (* the rest of the loop body after the switch: not-handled block, error return; result: continue with (s, err) or return *)
  Definition after_switch (ord : bool) (m : model) (sp : Z) (s1 : pst) (h1 : bool) (p1 : Z) (r1 : R) (err : option N)
    : res (pst * option N) :=
    let n := Z.of_nat (length (flds m)) in
    if t_nh_guard (isnone err) h1 && ord then
      match skip_find p1 n 0 (flds m) with
      | Some (j, g) =>
        if t_skip_mark then
          match g_skip_proc j (fk g) sp (set_hand j s1) r1 with
          | Ok s2 => Ok (s2, err)
          | Err e => Ok (s1, Some e)
          | Panic w => Panic w
          end
        else Panic 0%N
      | None => Ok (s1, err)
      end
    else Ok (s1, err).

  Fixpoint oloop_t (k : nat) (m : model) (ic : bool) (t l : N) (sp : Z) (s : pst) (h : bool) (p : Z) (r : R)
    : rres R (pst * Z) :=
    match k with
    | O => ROk (s, p) r
    | S k' =>
      if negb (t_ocond h p (Z.of_nat (length (flds m)))) then ROk (s, p) r
      else
        match switch_typ true m ic t l sp s h p r with
        | SwPanic w => RPanic w
        | SwRet e r' => RErr e r'
        | Sw s1 h1 p1 r1 err =>
          match after_switch true m sp s1 h1 p1 r1 err with
          | Panic w => RPanic w
          | Err e => RErr e r1
          | Ok (s2, err2) =>
            match err2 with
            | Some e => if t_err_guard false h1 then RErr e r1 else oloop_t k' m ic t l sp s2 h1 (t_opost p1) r1
            | None => if t_err_guard true h1 then RErr E_FUEL r1 else oloop_t k' m ic t l sp s2 h1 (t_opost p1) r1
            end
          end
        end
    end.

  (* unordered: `if handled := t_uh0; t_ucond handled { ... }` *)
  Definition ustep_t (m : model) (ic : bool) (t l : N) (sp : Z) (s : pst) (p : Z) (r : R) : rres R pst :=
    if negb (t_ucond t_uh0) then ROk s r
    else
      match switch_typ false m ic t l sp s t_uh0 p r with
      | SwPanic w => RPanic w
      | SwRet e r' => RErr e r'
      | Sw s1 h1 p1 r1 err =>
        match after_switch false m sp s1 h1 p1 r1 err with
        | Panic w => RPanic w
        | Err e => RErr e r1
        | Ok (s2, err2) =>
          match err2 with
          | Some e => if t_err_guard false h1 then RErr e r1 else ROk s2 r1
          | None => if t_err_guard true h1 then RErr E_FUEL r1 else ROk s2 r1
          end
        end
      end.

  Definition pstep_t (m : model) (ic : bool) (sp : Z) (s : pst) (p : Z) (r : R) : rres R (pst * Z) :=
    match g_rd_tlnum r with
    | TLPanic _ w => RPanic w
    | TL _ t ok1 r1 =>
      if negb ok1 then RErr E_EOF r1 else
      match g_rd_tlnum r1 with
      | TLPanic _ w => RPanic w
      | TL _ l ok2 r2 =>
        if negb ok2 then RErr E_EOF r2 else
        if ordered m then oloop_t (S (length (flds m))) m ic t l sp s t_h0 p r2
        else match ustep_t m ic t l sp s p r2 with
             | ROk s' r' => ROk (s', p) r'
             | RErr e r' => RErr e r'
             | RPanic w => RPanic w
             end
      end
    end.

  (* after the loop *)
  Fixpoint finish_t (i : nat) (fs : list field) (sp : Z) (s : pst) (r : R) (err : option N) : res pst :=
    match fs with
    | [] => match err with None => Ok s | Some e => Err e end
    | f :: fs' =>
      if t_fin_guard (isnone err) (nth i (p_hand s) false) then
        match g_skip_proc i (fk f) sp s r with
        | Ok s' => finish_t (S i) fs' sp s' r err
        | Err e => finish_t (S i) fs' sp s r (Some e)
        | Panic w => Panic w
        end
      else finish_t (S i) fs' sp s r err
    end.

  Fixpoint ploop_t (k : nat) (m : model) (ic : bool) (s : pst) (p : Z) (r : R) : res parse_out :=
    match k with
    | O => Err E_FUEL
    | S k' =>
      match r_pos r with
      | Panic w => Panic w
      | Err e => Err e
      | Ok sp =>
        if t_end sp (r_len r) then
          match finish_t 0 (flds m) sp s r None with
          | Ok s' => Ok (p_vals s', p_ctx s', p_cov s')
          | Err e => Err e
          | Panic w => Panic w
          end
        else
          match pstep_t m ic sp s p r with
          | ROk (s', p') r' => ploop_t k' m ic s' p' r'
          | RErr e _ => Err e
          | RPanic w => Panic w
          end
      end
    end.

  (* ---- equivalence with Model.v ---- *)
  Lemma skip_find_spec p n : forall fs i0, Z.of_nat i0 <= p + 1 ->
    skip_find p n i0 fs = match nth_error fs (Z.to_nat (p + 1) - i0) with Some g => Some (Z.to_nat (p + 1), g) | None => None end.
  Proof.
    induction fs as [|f fs IH]; intros i0 Hi; cbn [skip_find].
    - destruct (Z.to_nat (p + 1) - i0)%nat; reflexivity.
    - rewrite f_skipcase. destruct (Z.eqb_spec p (Z.of_nat i0 - 1)) as [E|E].
      + replace (Z.to_nat (p + 1) - i0)%nat with 0%nat by lia. cbn [nth_error]. f_equal. f_equal. lia.
      + rewrite IH by lia. replace (Z.to_nat (p + 1) - i0)%nat with (S (Z.to_nat (p + 1) - S i0)) by lia. reflexivity.
  Qed.

  Lemma oloop_t_handled k m ic t l sp s p r : oloop_t k m ic t l sp s true p r = ROk (s, p) r.
  Proof. destruct k; [reflexivity|]. cbn [oloop_t]. rewrite f_ocond. reflexivity. Qed.

  Lemma find_field_bound t : forall fs i0 i f, find_field t i0 fs = Some (i, f) -> (i0 <= i < i0 + length fs)%nat.
  Proof.
    induction fs as [|g fs IH]; intros i0 i f H; cbn [find_field] in H; [discriminate|].
    destruct ((ftyp g =? t)%N && negb (ftyp g =? 0)%N).
    - inversion H; subst. cbn [length]. lia.
    - apply IH in H. cbn [length]. lia.
  Qed.

  Lemma fprog_spec k p : fprog k p + 1 = if is_rep k then p else p + 1.
  Proof. destruct k; cbn [fprog is_rep]; rewrite ?f_seq, ?f_map, ?f_other; lia. Qed.

  Lemma oloop_t_eq : forall k m ic t l sp s p r, -1 <= p ->
    oloop_t k m ic t l sp s false p r = g_oloop k m ic t l sp s p r.
  Proof.
    induction k as [|k IH]; intros m ic t l sp s p r Hp; [reflexivity|].
    cbn [oloop_t oloop]. rewrite f_ocond. cbn [negb andb].
    destruct (Z.geb_spec p (Z.of_nat (length (flds m)))) as [Hge|Hlt].
    { destruct (Z.ltb_spec p (Z.of_nat (length (flds m)))); [lia|reflexivity]. }
    destruct (Z.ltb_spec p (Z.of_nat (length (flds m)))); [|lia]. cbn [negb].
    unfold switch_typ.
    destruct (find_field t 0 (flds m)) as [[i f]|] eqn:Ef.
    - apply find_field_bound in Ef. rewrite f_ocase by lia.
      destruct (Z.eqb_spec (p + 1) (Z.of_nat i)) as [E|E].
      + rewrite f_case_mark, f_case_handled.
        destruct (g_rd_field ic i (fk f) l sp s r) as [s' r'|e r'|w]; [| |reflexivity].
        * unfold after_switch. rewrite f_nh_guard. cbn [isnone negb andb]. rewrite f_err_guard. cbn [negb].
          rewrite oloop_t_handled, f_opost, fprog_spec. reflexivity.
        * unfold after_switch. rewrite f_nh_guard. cbn [isnone negb andb]. rewrite f_err_guard. reflexivity.
      + unfold after_switch. rewrite f_nh_guard. cbn [isnone negb andb].
        rewrite skip_find_spec by lia. rewrite Nat.sub_0_r.
        destruct (nth_error (flds m) (Z.to_nat (p + 1))) as [g|].
        * rewrite f_skip_mark.
          destruct (g_skip_proc (Z.to_nat (p + 1)) (fk g) sp (set_hand (Z.to_nat (p + 1)) s) r) as [s2|e|w]; [| |reflexivity].
          -- rewrite f_err_guard. cbn [negb]. rewrite f_opost. apply IH. lia.
          -- rewrite f_err_guard. reflexivity.
        * rewrite f_err_guard. cbn [negb]. rewrite f_opost. apply IH. lia.
    - unfold rd_unknown. rewrite f_reject.
      destruct (negb ic && critical t); [reflexivity|].
      destruct (r_skip r (to_int l)) as [[] r'|e r'|w]; [| |reflexivity].
      + unfold after_switch. rewrite f_d_handled, f_nh_guard. cbn [isnone negb andb]. rewrite f_err_guard. cbn [negb].
        rewrite oloop_t_handled, f_opost, f_d_oprogress. f_equal. f_equal. lia.
      + unfold after_switch. rewrite f_d_handled, f_nh_guard. cbn [isnone negb andb]. rewrite f_err_guard. reflexivity.
  Qed.

  Lemma oloop_ge : forall k m ic t l sp s p r s' p' r', -1 <= p ->
    g_oloop k m ic t l sp s p r = ROk (s', p') r' -> -1 <= p'.
  Proof.
    induction k as [|k IH]; intros m ic t l sp s p r s' p' r' Hp H; cbn [oloop] in H.
    - inversion H; subst; lia.
    - destruct (p >=? Z.of_nat (length (flds m))); [inversion H; subst; lia|].
      destruct (find_field t 0 (flds m)) as [[i f]|].
      + destruct (p + 1 =? Z.of_nat i).
        * destruct (g_rd_field ic i (fk f) l sp s r); inversion H; subst. destruct (is_rep (fk f)); lia.
        * destruct (nth_error (flds m) (Z.to_nat (p + 1))) as [g|]; [|eapply IH; [|exact H]; lia].
          destruct (g_skip_proc (Z.to_nat (p + 1)) (fk g) sp (set_hand (Z.to_nat (p + 1)) s) r); try discriminate.
          eapply IH; [|exact H]; lia.
      + destruct (rd_unknown R r_skip ic t l r); inversion H; subst; lia.
  Qed.

  Lemma ustep_t_eq m ic t l sp s p r : ustep_t m ic t l sp s p r = g_ustep m ic t l sp s r.
  Proof.
    unfold ustep_t, ustep. rewrite f_ucond, f_uh0. cbn [negb]. unfold switch_typ.
    destruct (find_field t 0 (flds m)) as [[i f]|].
    - rewrite f_ucase, f_case_mark, f_case_handled.
      destruct (g_rd_field ic i (fk f) l sp s r) as [s' r'|e r'|w]; [| |reflexivity];
        unfold after_switch; rewrite andb_false_r, f_err_guard; reflexivity.
    - unfold rd_unknown. rewrite f_reject.
      destruct (negb ic && critical t); [reflexivity|].
      destruct (r_skip r (to_int l)) as [[] r'|e r'|w]; [| |reflexivity];
        unfold after_switch; rewrite andb_false_r, f_err_guard; reflexivity.
  Qed.

  Lemma pstep_t_eq m ic sp s p r : -1 <= p -> pstep_t m ic sp s p r = g_pstep m ic sp s p r.
  Proof.
    intros Hp. unfold pstep_t, pstep.
    destruct (g_rd_tlnum r) as [t ok1 r1|w]; [|reflexivity].
    destruct (negb ok1); [reflexivity|].
    destruct (g_rd_tlnum r1) as [l ok2 r2|w]; [|reflexivity].
    destruct (negb ok2); [reflexivity|].
    destruct (ordered m).
    - rewrite f_h0, oloop_t_eq by exact Hp. reflexivity.
    - rewrite ustep_t_eq. reflexivity.
  Qed.

  Lemma finish_t_err : forall fs i sp s r e, finish_t i fs sp s r (Some e) = Err e.
  Proof.
    induction fs as [|f fs IH]; intros; cbn [finish_t]; [reflexivity|].
    rewrite f_fin_guard. cbn [isnone]. rewrite andb_false_r. apply IH.
  Qed.

  Lemma finish_t_eq : forall fs i sp s r, finish_t i fs sp s r None = g_finish i fs sp s r.
  Proof.
    induction fs as [|f fs IH]; intros; cbn [finish_t finish]; [reflexivity|].
    rewrite f_fin_guard. cbn [isnone]. rewrite andb_true_r.
    destruct (nth i (p_hand s) false); cbn [negb]; [apply IH|].
    destruct (g_skip_proc i (fk f) sp s r); [apply IH|apply finish_t_err|reflexivity].
  Qed.

  Lemma ploop_t_eq : forall k m ic s p r, -1 <= p -> ploop_t k m ic s p r = g_ploop k m ic s p r.
  Proof.
    induction k as [|k IH]; intros m ic s p r Hp; [reflexivity|].
    cbn [ploop_t ploop]. destruct (r_pos r) as [sp|e|w]; try reflexivity.
    rewrite f_end. destruct (sp >=? r_len r).
    - rewrite finish_t_eq. reflexivity.
    - rewrite pstep_t_eq by exact Hp.
      destruct (g_pstep m ic sp s p r) as [[s' p'] r'|e r'|w] eqn:E; try reflexivity.
      apply IH. unfold pstep in E.
      destruct (g_rd_tlnum r) as [t ok1 r1|w]; [|discriminate].
      destruct (negb ok1); [discriminate|].
      destruct (g_rd_tlnum r1) as [l ok2 r2|w]; [|discriminate].
      destruct (negb ok2); [discriminate|].
      destruct (ordered m).
      + eapply oloop_ge; [|exact E]. exact Hp.
      + destruct (g_ustep m ic t l sp s r2); inversion E; subst. exact Hp.
  Qed.

  (* the whole loop of the template, from `progress := t_init`, is the model's loop *)
  Theorem template_loop_is_model_loop k m ic s r : ploop_t k m ic s t_init r = g_ploop k m ic s (-1) r.
  Proof. rewrite f_init. apply ploop_t_eq. lia. Qed.
End T.

(* every nesting level of the model parser is the template's loop over the level below (BufferReader and WireReader) *)
Theorem template_parse_buffer d sc mi ic r :
  bparse (S d) sc mi ic r =
  match nth_error sc mi with
  | None => Err E_NOMODEL
  | Some m => ploop_t br (fun r => Ok (br_pos r)) br_len br_readbyte br_readn br_readbuf br_readwire br_skip br_range br_delegate
                      (bparse d sc) (S (Z.to_nat (br_len r - br_pos r))) m ic (init_pst m) t_init r
  end.
Proof.
  unfold bparse. cbn [parse]. destruct (nth_error sc mi) as [m|]; [|reflexivity].
  rewrite template_loop_is_model_loop. reflexivity.
Qed.

Theorem template_parse_wire d sc mi ic r :
  wparse (S d) sc mi ic r =
  match nth_error sc mi with
  | None => Err E_NOMODEL
  | Some m =>
    match pr_pos r with
    | Ok p0 => ploop_t preader pr_pos pr_len pr_readbyte pr_readn pr_readbuf pr_readwire pr_skip pr_range pr_delegate
                       (wparse d sc) (S (Z.to_nat (pr_len r - p0))) m ic (init_pst m) t_init r
    | Err e => Err e
    | Panic w => Panic w
    end
  end.
Proof.
  unfold wparse. cbn [parse]. destruct (nth_error sc mi) as [m|]; [|reflexivity].
  destruct (pr_pos r); try reflexivity.
  rewrite template_loop_is_model_loop. reflexivity.
Qed.
