(* Codec/TotalBr.v — the BufferReader model meets the reader specification of Total.v; hence bparse / decode never
   panic and never exhaust their fuel, on any byte list, for any schema. *)
From Codec Require Import Schema Readers Model Spec BrLemmas LeafLemmas Total.
From Coq Require Import ZifyBool ZifyN ZifyNat.
Open Scope N_scope.

Definition b_RI (r : br) : Prop := True.
Definition b_rem (r : br) : nat := length (rest r).

Lemma br_adv_rest n r : length (rest (br_adv n r)) = (length (rest r) - n)%nat.
Proof. unfold br_adv; cbn [rest]. apply skipn_length. Qed.

Lemma b_spec_readbyte r : b_RI r -> opspec br b_RI b_rem true r (br_readbyte r).
Proof.
  intros _. unfold br_readbyte, b_rem. destruct r as [p [|x t]]; cbn.
  - repeat split; [lia|discriminate].
  - split; [exact I|lia].
Qed.

Lemma b_spec_readn r n : b_RI r -> opspec br b_RI b_rem false r (br_readn r n).
Proof.
  intros _. unfold br_readn. destruct (Z.of_N n <=? br_rem r)%Z; cbn [opspec]; unfold b_rem; rewrite br_adv_rest.
  - split; [exact I|lia].
  - repeat split; [lia|discriminate].
Qed.

Lemma b_spec_readbuf r l : b_RI r -> opspec br b_RI b_rem false r (br_readbuf r l).
Proof.
  intros _. unfold br_readbuf. destruct ((l <? 0) || (l >? br_rem r))%Z; cbn [opspec]; unfold b_rem.
  - repeat split; [lia|discriminate].
  - rewrite br_adv_rest. split; [exact I|lia].
Qed.

Lemma b_spec_readwire r l : b_RI r -> opspec br b_RI b_rem false r (br_readwire r l).
Proof.
  intros _. unfold br_readwire. destruct ((br_rem r <=? 0) && (0 <? l))%Z; [cbn [opspec]; unfold b_rem; repeat split; [lia|discriminate]|].
  destruct ((l <? 0) || (l >? br_rem r))%Z; cbn [opspec]; unfold b_rem.
  - repeat split; [lia|discriminate].
  - rewrite br_adv_rest. split; [exact I|lia].
Qed.

Lemma b_spec_skip r n : b_RI r -> opspec br b_RI b_rem false r (br_skip r n).
Proof.
  intros _. unfold br_skip. destruct ((n <? 0) || (n >? br_rem r))%Z; cbn [opspec]; unfold b_rem.
  - repeat split; [lia|discriminate].
  - rewrite br_adv_rest. split; [exact I|lia].
Qed.

Lemma b_spec_range r s e : b_RI r -> exists o, br_range r s e = Ok o.
Proof. intros _. unfold br_range. destruct ((s <? 0) || (e >? br_len r) || (s >? e))%Z; eauto. Qed.

Lemma b_spec_skip_range r r' p : b_RI r -> br_skip r 1 = ROk tt r' -> (fun r0 : br => Ok (br_pos r0)) r' = Ok p ->
  exists x t, br_range r' (p - 1) p = Ok (Some (x :: t)).
Proof.
  intros _ Hs Hp. unfold br_skip in Hs. destruct r as [pre rs]. rewrite br_rem_mk in Hs.
  destruct ((1 <? 0) || (1 >? Z.of_nat (length rs)))%Z eqn:E; [discriminate|].
  destruct rs as [|x t]; [cbn in E; lia|].
  change (Z.to_nat 1) with 1%nat in Hs. unfold br_adv in Hs. cbn [rest rpre firstn skipn] in Hs.
  change (rev_append [x] pre) with (x :: pre) in Hs.
  inversion Hs; subst r'. inversion Hp; subst p. clear Hs Hp.
  exists x, []. unfold br_range. rewrite br_len_mk, br_pos_mk. cbn [length].
  destruct ((Z.of_nat (S (length pre)) - 1 <? 0) || (Z.of_nat (S (length pre)) >? Z.of_nat (S (length pre) + length t))
            || (Z.of_nat (S (length pre)) - 1 >? Z.of_nat (S (length pre))))%Z eqn:E2; [lia|].
  unfold br_all. cbn [rpre rest].
  replace (Z.of_nat (S (length pre)) - 1)%Z with (Z.of_nat (length pre)) by lia.
  replace (Z.of_nat (S (length pre))) with (Z.of_nat (length pre) + 1)%Z by lia.
  rewrite LeafLemmas.slice_last. reflexivity.
Qed.

Lemma b_spec_delegate r l : b_RI r ->
  exists sr r', br_delegate r l = Ok (sr, r') /\ b_RI sr /\ b_RI r' /\ (b_rem sr <= b_rem r)%nat /\ (b_rem r' <= b_rem r)%nat.
Proof.
  intros _. unfold br_delegate. destruct ((l <? 0) || (l >? br_rem r))%Z.
  - exists (br_of []), r. repeat split; unfold b_rem; cbn; lia.
  - exists (br_of (firstn (Z.to_nat l) (rest r))), (br_adv (Z.to_nat l) r). repeat split; unfold b_rem.
    + cbn [br_of rest]. rewrite firstn_length. lia.
    + rewrite br_adv_rest. lia.
Qed.

Lemma b_spec_len r p : b_RI r -> (fun r0 : br => Ok (br_pos r0)) r = Ok p -> (Z.of_nat (b_rem r) <= br_len r - p)%Z.
Proof. intros _ H. inversion H; subst. unfold b_rem, br_len, br_pos, br_rem. lia. Qed.

(* never a panic, never the fuel error: any schema, any model index, any reader state *)
Theorem bparse_total : forall d sc mi ic r, (length (rest r) < d)%nat ->
  match bparse d sc mi ic r with Ok _ => True | Err e => e <> E_FUEL | Panic _ => False end.
Proof.
  intros d sc mi ic r Hd. unfold bparse.
  apply (parse_total br (fun r0 => Ok (br_pos r0)) br_len br_readbyte br_readn br_readbuf br_readwire br_skip br_range br_delegate
           b_RI b_rem); auto.
  - intros r0 _. eauto.
  - apply b_spec_len.
  - apply b_spec_readbyte.
  - apply b_spec_readn.
  - apply b_spec_readbuf.
  - apply b_spec_readwire.
  - apply b_spec_skip.
  - apply b_spec_range.
  - apply b_spec_skip_range.
  - apply b_spec_delegate.
  - exact I.
Qed.

Theorem decode_total_b : forall sc mi ic b,
  match decode sc mi ic b with Ok _ => True | Err e => e <> E_FUEL | Panic _ => False end.
Proof. intros. unfold decode. apply bparse_total. cbn [br_of rest]. lia. Qed.
