(* PitCs/Lib.v — basic facts about names and the node-list operations of Model.v. *)
From Coq Require Import List NArith ZArith Bool Lia Permutation.
From PitCs Require Import Model.
Import ListNotations.
Global Arguments firstn : simpl never.
Global Arguments skipn : simpl never.

(* the translated constants are sane (re-checked whenever GenConsts.v is regenerated) *)
Lemma consts_wf : (0 < tick_interval)%Z /\ (0 <= default_lifetime)%Z /\ (0 < dnl_batch)%nat.
Proof. unfold tick_interval, default_lifetime, dnl_batch. vm_compute. repeat split; try reflexivity; try discriminate; apply le_n_S, Nat.le_0_l. Qed.

(* ---- names ---- *)
Lemma name_eqb_eq : forall a b, name_eqb a b = true <-> a = b.
Proof.
  induction a as [|x a IH]; destruct b as [|y b]; simpl; split; intro H; try reflexivity; try discriminate.
  - apply andb_true_iff in H. destruct H as [H1 H2]. apply N.eqb_eq in H1. apply IH in H2. subst. reflexivity.
  - inversion H; subst. apply andb_true_iff. split. apply N.eqb_refl. apply IH. reflexivity.
Qed.

Lemma name_eqb_refl : forall a, name_eqb a a = true.
Proof. intro a. apply name_eqb_eq. reflexivity. Qed.

Lemma name_eqb_neq : forall a b, name_eqb a b = false <-> a <> b.
Proof.
  intros a b. split; intro H.
  - intro E. apply name_eqb_eq in E. congruence.
  - destruct (name_eqb a b) eqn:E; [apply name_eqb_eq in E; contradiction|reflexivity].
Qed.

Lemma name_eqb_sym : forall a b, name_eqb a b = name_eqb b a.
Proof.
  intros a b. destruct (name_eqb a b) eqn:E.
  - apply name_eqb_eq in E. subst. symmetry. apply name_eqb_refl.
  - symmetry. apply name_eqb_neq. apply name_eqb_neq in E. congruence.
Qed.

Lemma name_eq_dec : forall a b : name, {a = b} + {a <> b}.
Proof. intros a b. destruct (name_eqb a b) eqn:E; [left; apply name_eqb_eq; exact E|right; apply name_eqb_neq; exact E]. Qed.

Lemma is_prefix_spec : forall p n, is_prefix p n = true <-> exists r, n = p ++ r.
Proof.
  induction p as [|x p IH]; intros n; simpl.
  - split; [intros _; exists n; reflexivity|reflexivity].
  - destruct n as [|y n].
    + split; [discriminate|intros [r H]; discriminate].
    + rewrite andb_true_iff, N.eqb_eq, IH. split.
      * intros [-> [r ->]]. exists r. reflexivity.
      * intros [r H]. inversion H; subst. split; [reflexivity|exists r; reflexivity].
Qed.

Lemma is_prefix_refl : forall p, is_prefix p p = true.
Proof. intro p. apply is_prefix_spec. exists []. symmetry. apply app_nil_r. Qed.

Lemma is_prefix_nil : forall p, is_prefix p [] = true -> p = [].
Proof. destruct p; simpl; [reflexivity|discriminate]. Qed.

Lemma is_prefix_trans : forall a b c, is_prefix a b = true -> is_prefix b c = true -> is_prefix a c = true.
Proof.
  intros a b c H1 H2. apply is_prefix_spec in H1. apply is_prefix_spec in H2. apply is_prefix_spec.
  destruct H1 as [r1 ->]. destruct H2 as [r2 ->]. exists (r1 ++ r2). symmetry. apply app_assoc.
Qed.

Lemma is_prefix_length : forall a b, is_prefix a b = true -> (length a <= length b)%nat.
Proof. intros a b H. apply is_prefix_spec in H. destruct H as [r ->]. rewrite app_length. lia. Qed.

Lemma is_prefix_firstn : forall k n, is_prefix (firstn k n) n = true.
Proof. intros k n. apply is_prefix_spec. exists (skipn k n). symmetry. apply firstn_skipn. Qed.

Lemma is_prefix_eq_firstn : forall p n, is_prefix p n = true -> p = firstn (length p) n.
Proof.
  intros p n H. apply is_prefix_spec in H. destruct H as [r ->].
  rewrite firstn_app, firstn_all, Nat.sub_diag. simpl. symmetry. apply app_nil_r.
Qed.

Lemma is_prefix_antisym : forall a b, is_prefix a b = true -> is_prefix b a = true -> a = b.
Proof.
  intros a b H1 H2. pose proof (is_prefix_length _ _ H1). pose proof (is_prefix_length _ _ H2).
  apply is_prefix_spec in H1. destruct H1 as [r ->]. rewrite app_length in *.
  destruct r; [symmetry; apply app_nil_r|simpl in *; lia].
Qed.

Lemma parent_firstn : forall p, parent p = firstn (length p - 1) p.
Proof. intro p. unfold parent. rewrite removelast_firstn_len. f_equal. lia. Qed.

Lemma parent_length : forall p, length (parent p) = (length p - 1)%nat.
Proof. intro p. rewrite parent_firstn, firstn_length. lia. Qed.

Lemma parent_prefix : forall p, is_prefix (parent p) p = true.
Proof. intro p. rewrite parent_firstn. apply is_prefix_firstn. Qed.

Lemma parent_neq : forall p, p <> [] -> parent p <> p.
Proof. intros p H E. pose proof (parent_length p) as L. rewrite E in L. destruct p; [congruence|simpl in L; lia]. Qed.

Lemma parent_firstn_S : forall k n, (k < length n)%nat -> parent (firstn (S k) n) = firstn k n.
Proof.
  intros k n H. rewrite parent_firstn. rewrite firstn_length. rewrite Nat.min_l by lia.
  rewrite firstn_firstn. f_equal. lia.
Qed.

(* a proper prefix is a prefix of the parent *)
Lemma prefix_of_parent : forall q p, is_prefix q p = true -> q <> p -> is_prefix q (parent p) = true.
Proof.
  intros q p H N. apply is_prefix_spec in H. destruct H as [r ->].
  assert (r <> []) by (intro E; subst r; rewrite app_nil_r in N; congruence).
  unfold parent. rewrite removelast_app by assumption. apply is_prefix_spec. eexists. reflexivity.
Qed.

Lemma is_nil_true : forall A (l : list A), is_nil l = true <-> l = [].
Proof. intros A l. destruct l; simpl; split; congruence. Qed.

Lemma NoDup_app_intro : forall A (l1 l2 : list A), NoDup l1 -> NoDup l2 -> (forall x, In x l1 -> In x l2 -> False) -> NoDup (l1 ++ l2).
Proof.
  intros A l1 l2 H1 H2 H. induction H1 as [|x t Hx Ht IH]; simpl; [exact H2|].
  constructor.
  - rewrite in_app_iff. intros [Hi|Hi]; [tauto|]. apply (H x); [left; reflexivity|exact Hi].
  - apply IH. intros y Hy. apply H. right. exact Hy.
Qed.

Lemma NoDup_map_inj_in : forall A B (f : A -> B) (l : list A),
  (forall a b, In a l -> In b l -> f a = f b -> a = b) -> NoDup l -> NoDup (map f l).
Proof.
  intros A B f l Hinj H. induction H as [|x t Hx Ht IH]; simpl; [constructor|].
  constructor.
  - intro Hin. apply in_map_iff in Hin. destruct Hin as [y [E Hy]]. apply Hx.
    rewrite (Hinj x y); [exact Hy|left; reflexivity|right; exact Hy|symmetry; exact E].
  - apply IH. intros a b Ha Hb. apply Hinj; right; assumption.
Qed.

Lemma NoDup_app_r : forall A (a b : list A), NoDup (a ++ b) -> NoDup b.
Proof. induction a as [|x a IH]; simpl; intros b H; [exact H|]. inversion H; subst. apply IH. assumption. Qed.

Lemma NoDup_map_eq : forall A B (f : A -> B) (l : list A) a b, NoDup (map f l) -> In a l -> In b l -> f a = f b -> a = b.
Proof.
  intros A B f l a b H. induction l as [|y t IH]; simpl in *; intros Ha Hb E; [destruct Ha|].
  inversion H as [|? ? Hy Ht]; subst.
  destruct Ha as [Ha|Ha]; destruct Hb as [Hb|Hb].
  - congruence.
  - exfalso. apply Hy. rewrite Ha, E. apply in_map. exact Hb.
  - exfalso. apply Hy. rewrite Hb, <- E. apply in_map. exact Ha.
  - apply IH; assumption.
Qed.

Lemma firstn_In_sub : forall A k (l : list A) x, In x (firstn k l) -> In x l.
Proof. intros A k l x H. rewrite <- (firstn_skipn k l). apply in_or_app. left. exact H. Qed.

Lemma NoDup_firstn_sub : forall A k (l : list A), NoDup l -> NoDup (firstn k l).
Proof.
  intros A k l H. rewrite <- (firstn_skipn k l) in H. revert H. generalize (firstn k l) (skipn k l). intros a b.
  induction a as [|x a IH]; simpl; intro H; [constructor|]. inversion H; subst. constructor; [|apply IH; assumption].
  intro Hx. apply H2. apply in_or_app. left. exact Hx.
Qed.

Lemma NoDup_filter_map : forall A B (f : A -> B) (g : A -> bool) l, NoDup (map f l) -> NoDup (map f (filter g l)).
Proof.
  intros A B f g l. induction l as [|x t IH]; simpl; intro H; [constructor|]. inversion H; subst.
  destruct (g x); simpl; [|apply IH; assumption]. constructor; [|apply IH; assumption].
  intro Hx. apply H2. apply in_map_iff in Hx. destruct Hx as [y [E Hy]]. apply filter_In in Hy. rewrite <- E. apply in_map. tauto.
Qed.

(* ---- mem / remove / add on name lists ---- *)
Lemma mem_name_In : forall n l, mem_name n l = true <-> In n l.
Proof.
  intros n l. induction l as [|x t IH]; simpl; [split; [discriminate|tauto]|].
  rewrite orb_true_iff, name_eqb_eq, IH. tauto.
Qed.

Lemma mem_name_false : forall n l, mem_name n l = false <-> ~ In n l.
Proof.
  intros n l. rewrite <- mem_name_In. destruct (mem_name n l); split; intro H; congruence.
Qed.

Lemma remove_name_In : forall n l x, In x (remove_name n l) <-> In x l /\ x <> n.
Proof.
  intros n l x. induction l as [|y t IH]; simpl; [tauto|].
  destruct (name_eqb y n) eqn:E.
  - apply name_eqb_eq in E. subst. rewrite IH. split; [tauto|intros [[H|H] N]; [congruence|tauto]].
  - apply name_eqb_neq in E. simpl. rewrite IH. split; [intros [H|H]; [subst; tauto|tauto]|tauto].
Qed.

Lemma remove_name_notin : forall n l, ~ In n l -> remove_name n l = l.
Proof.
  intros n l. induction l as [|y t IH]; simpl; intro H; [reflexivity|].
  destruct (name_eqb y n) eqn:E; [apply name_eqb_eq in E; subst; tauto|]. f_equal. apply IH. tauto.
Qed.

Lemma remove_name_NoDup : forall n l, NoDup l -> NoDup (remove_name n l).
Proof.
  intros n l H. induction H as [|y t Hy Ht IH]; simpl; [constructor|].
  destruct (name_eqb y n); [exact IH|]. constructor; [|exact IH]. rewrite remove_name_In. tauto.
Qed.

Lemma remove_name_length : forall n l, NoDup l -> In n l -> S (length (remove_name n l)) = length l.
Proof.
  intros n l H. induction H as [|y t Hy Ht IH]; simpl; intro Hin; [tauto|].
  destruct (name_eqb y n) eqn:E.
  - apply name_eqb_eq in E. subst. rewrite remove_name_notin by exact Hy. reflexivity.
  - apply name_eqb_neq in E. simpl. f_equal. apply IH. destruct Hin; [congruence|assumption].
Qed.

Lemma add_name_In : forall n l x, In x (add_name n l) <-> In x l \/ x = n.
Proof.
  intros n l x. unfold add_name. destruct (mem_name n l) eqn:E.
  - apply mem_name_In in E. split; [tauto|intros [H| ->]; assumption].
  - rewrite in_app_iff. simpl. split; [intros [H|[H|[]]]; [tauto|right; congruence]|intros [H|H]; [tauto|right; left; congruence]].
Qed.

Lemma add_name_NoDup : forall n l, NoDup l -> NoDup (add_name n l).
Proof.
  intros n l H. unfold add_name. destruct (mem_name n l) eqn:E; [exact H|].
  apply mem_name_false in E. apply NoDup_app_intro; [exact H|constructor; [simpl; tauto|constructor]|].
  intros x H1 [<-|[]]. exact (E H1).
Qed.

Lemma mem_N_In : forall x l, mem_N x l = true <-> In x l.
Proof.
  intros x l. induction l as [|y t IH]; simpl; [split; [discriminate|tauto]|].
  rewrite orb_true_iff, N.eqb_eq, IH. tauto.
Qed.

Lemma remove_N_In : forall n l x, In x (remove_N n l) <-> In x l /\ x <> n.
Proof.
  intros n l x. induction l as [|y t IH]; simpl; [tauto|].
  destruct (N.eqb y n) eqn:E.
  - apply N.eqb_eq in E. subst. rewrite IH. split; [tauto|intros [[H|H] N]; [congruence|tauto]].
  - apply N.eqb_neq in E. simpl. rewrite IH. split; [intros [H|H]; [subst; tauto|tauto]|tauto].
Qed.

Lemma remove_N_NoDup : forall n l, NoDup l -> NoDup (remove_N n l).
Proof.
  intros n l H. induction H as [|y t Hy Ht IH]; simpl; [constructor|].
  destruct (N.eqb y n); [exact IH|]. constructor; [|exact IH]. rewrite remove_N_In. tauto.
Qed.

(* ---- node lists ---- *)
Definition paths (l : list node) : list name := map n_path l.

Lemma get_node_path : forall l p nd, get_node l p = Some nd -> n_path nd = p.
Proof.
  induction l as [|x t IH]; simpl; intros p nd H; [discriminate|].
  destruct (name_eqb (n_path x) p) eqn:E; [inversion H; subst; apply name_eqb_eq; exact E|eauto].
Qed.

Lemma get_node_In : forall l p nd, get_node l p = Some nd -> In nd l.
Proof.
  induction l as [|x t IH]; simpl; intros p nd H; [discriminate|].
  destruct (name_eqb (n_path x) p); [inversion H; subst; left; reflexivity|right; eauto].
Qed.

Lemma get_node_None : forall l p, get_node l p = None <-> ~ In p (paths l).
Proof.
  induction l as [|x t IH]; simpl; intros p; [tauto|].
  destruct (name_eqb (n_path x) p) eqn:E.
  - apply name_eqb_eq in E. split; [discriminate|tauto].
  - apply name_eqb_neq in E. rewrite IH. tauto.
Qed.

Lemma has_node_In : forall l p, has_node l p = true <-> In p (paths l).
Proof.
  intros l p. unfold has_node. destruct (get_node l p) eqn:E.
  - split; [intros _|reflexivity]. destruct (in_dec name_eq_dec p (paths l)) as [H|H]; [exact H|].
    apply get_node_None in H. congruence.
  - apply get_node_None in E. split; [discriminate|tauto].
Qed.

Lemma In_get_node : forall l nd, NoDup (paths l) -> In nd l -> get_node l (n_path nd) = Some nd.
Proof.
  induction l as [|x t IH]; simpl; intros nd H Hin; [tauto|].
  inversion H as [|? ? Hx Ht]; subst.
  destruct Hin as [->|Hin]; [rewrite name_eqb_refl; reflexivity|].
  destruct (name_eqb (n_path x) (n_path nd)) eqn:E; [|apply IH; assumption].
  apply name_eqb_eq in E. exfalso. apply Hx. rewrite E. apply in_map. exact Hin.
Qed.

Lemma get_node_app : forall l1 l2 p,
  get_node (l1 ++ l2) p = match get_node l1 p with Some x => Some x | None => get_node l2 p end.
Proof.
  induction l1 as [|x t IH]; simpl; intros; [reflexivity|].
  destruct (name_eqb (n_path x) p); [reflexivity|apply IH].
Qed.

Lemma get_node_upd : forall l p f q, (forall nd, n_path (f nd) = n_path nd) ->
  get_node (upd_node l p f) q = if name_eqb p q then option_map f (get_node l q) else get_node l q.
Proof.
  intros l p f q Hf. induction l as [|x t IH]; simpl; [destruct (name_eqb p q); reflexivity|].
  destruct (name_eqb (n_path x) p) eqn:E1.
  - apply name_eqb_eq in E1. rewrite Hf. rewrite E1. destruct (name_eqb p q) eqn:E2; [reflexivity|exact IH].
  - destruct (name_eqb (n_path x) q) eqn:E2.
    + apply name_eqb_eq in E2. apply name_eqb_neq in E1. destruct (name_eqb p q) eqn:E3; [|reflexivity].
      apply name_eqb_eq in E3. congruence.
    + exact IH.
Qed.

Lemma paths_upd : forall l p f, (forall nd, n_path (f nd) = n_path nd) -> paths (upd_node l p f) = paths l.
Proof.
  intros l p f Hf. unfold paths, upd_node. rewrite map_map. apply map_ext. intro nd.
  destruct (name_eqb (n_path nd) p); [apply Hf|reflexivity].
Qed.

Lemma get_node_del : forall l p q, get_node (del_node l p) q = if name_eqb p q then None else get_node l q.
Proof.
  intros l p q. induction l as [|x t IH]; simpl; [destruct (name_eqb p q); reflexivity|].
  destruct (name_eqb (n_path x) p) eqn:E1.
  - apply name_eqb_eq in E1. rewrite IH. destruct (name_eqb p q) eqn:E2; [reflexivity|]. rewrite E1, E2. reflexivity.
  - simpl. destruct (name_eqb (n_path x) q) eqn:E2; [|exact IH].
    apply name_eqb_eq in E2. apply name_eqb_neq in E1. destruct (name_eqb p q) eqn:E3; [|reflexivity].
    apply name_eqb_eq in E3. congruence.
Qed.

Lemma paths_del : forall l p x, In x (paths (del_node l p)) <-> In x (paths l) /\ x <> p.
Proof.
  intros l p x. rewrite <- !has_node_In. unfold has_node. rewrite get_node_del.
  destruct (name_eqb p x) eqn:E.
  - apply name_eqb_eq in E. subst. split; [discriminate|tauto].
  - apply name_eqb_neq in E. split; [intro H; split; [exact H|congruence]|tauto].
Qed.

Lemma NoDup_paths_del : forall l p, NoDup (paths l) -> NoDup (paths (del_node l p)).
Proof.
  induction l as [|x t IH]; simpl; intros p H; [constructor|].
  inversion H as [|? ? Hx Ht]; subst.
  destruct (name_eqb (n_path x) p); [apply IH; exact Ht|]. simpl. constructor; [|apply IH; exact Ht].
  fold (paths (del_node t p)). rewrite paths_del. tauto.
Qed.

Lemma del_node_In : forall l p nd, In nd (del_node l p) <-> In nd l /\ n_path nd <> p.
Proof.
  induction l as [|x t IH]; simpl; intros p nd; [tauto|].
  destruct (name_eqb (n_path x) p) eqn:E.
  - apply name_eqb_eq in E. rewrite IH. split; [tauto|intros [[->|H] N]; [congruence|tauto]].
  - apply name_eqb_neq in E. simpl. rewrite IH. split; [intros [->|H]; tauto|tauto].
Qed.

(* ---- descend / fill ---- *)
Lemma descend_from_spec : forall l n fuel k, (k + fuel = length n)%nat ->
  let r := descend_from l k fuel n in
  (k <= r <= length n)%nat /\
  (forall j, (k < j <= r)%nat -> has_node l (firstn j n) = true) /\
  ((r < length n)%nat -> has_node l (firstn (S r) n) = false).
Proof.
  intros l n fuel. induction fuel as [|f IH]; intros k Hk; cbn [descend_from]; cbv zeta.
  - split; [lia|]. split; [intros j Hj; lia|intro; lia].
  - destruct ((k <? length n)%nat && has_node l (firstn (S k) n)) eqn:E.
    + apply andb_true_iff in E. destruct E as [E1 E2]. apply Nat.ltb_lt in E1.
      specialize (IH (S k) ltac:(lia)). cbv zeta in IH. destruct IH as [I1 [I2 I3]].
      split; [lia|]. split; [|exact I3].
      intros j Hj. destruct (Nat.eq_dec j (S k)) as [->|Nj]; [exact E2|apply I2; lia].
    + split; [lia|]. split; [intros j Hj; lia|]. intro Hlt.
      apply andb_false_iff in E. destruct E as [E|E]; [apply Nat.ltb_ge in E; lia|exact E].
Qed.

Lemma descend_spec : forall l n,
  (descend l n <= length n)%nat /\
  (forall j, (0 < j <= descend l n)%nat -> has_node l (firstn j n) = true) /\
  ((descend l n < length n)%nat -> has_node l (firstn (S (descend l n)) n) = false).
Proof.
  intros l n. unfold descend. pose proof (descend_from_spec l n (length n) 0 ltac:(lia)) as H. cbv zeta in H.
  destruct H as [H1 [H2 H3]]. split; [lia|]. split; assumption.
Qed.

Lemma fill_from_app : forall fuel l k n,
  fill_from l k fuel n = l ++ map (fun j => mknode (firstn (S j) n) [] None) (seq k fuel).
Proof.
  induction fuel as [|f IH]; intros l k n; simpl; [symmetry; apply app_nil_r|].
  rewrite IH. rewrite <- app_assoc. reflexivity.
Qed.

Lemma fill_app : forall l n,
  fill l n = l ++ map (fun j => mknode (firstn (S j) n) [] None) (seq (descend l n) (length n - descend l n)).
Proof. intros. unfold fill. apply fill_from_app. Qed.

Lemma get_node_new : forall n a b q,
  get_node (map (fun j => mknode (firstn (S j) n) [] None) (seq a b)) q =
  if existsb (fun j => name_eqb (firstn (S j) n) q) (seq a b) then Some (mknode q [] None) else None.
Proof.
  intros n a b. revert a. induction b as [|b IH]; intros a q; simpl; [reflexivity|].
  destruct (name_eqb (firstn (S a) n) q) eqn:E; [apply name_eqb_eq in E; rewrite <- E; reflexivity|].
  apply IH.
Qed.

(* the tree after fillTreeToPrefixEnc *)
Lemma get_node_fill : forall l n q,
  get_node (fill l n) q =
  match get_node l q with
  | Some x => Some x
  | None => if is_prefix q n && negb (is_nil q) then Some (mknode q [] None) else None
  end.
Proof.
  intros l n q. rewrite fill_app, get_node_app. destruct (get_node l q) eqn:G; [reflexivity|].
  rewrite get_node_new. pose proof (descend_spec l n) as [D1 [D2 D3]].
  destruct (is_prefix q n && negb (is_nil q)) eqn:E.
  - apply andb_true_iff in E. destruct E as [E1 E2].
    assert (Hq : q <> []) by (destruct q; [discriminate|congruence]).
    pose proof (is_prefix_eq_firstn _ _ E1) as Eq. pose proof (is_prefix_length _ _ E1) as Lq.
    assert (Hlen : (descend l n < length q)%nat).
    { destruct (Nat.lt_ge_cases (descend l n) (length q)) as [H|H]; [exact H|].
      exfalso. assert (has_node l q = true).
      { rewrite Eq. apply D2. destruct q; [congruence|simpl in *; lia]. }
      unfold has_node in H0. rewrite G in H0. discriminate. }
    replace (existsb _ _) with true; [reflexivity|]. symmetry. apply existsb_exists.
    exists (length q - 1)%nat. split.
    + apply in_seq. lia.
    + apply name_eqb_eq. rewrite Eq at 2. f_equal. destruct q; [congruence|simpl in *; lia].
  - replace (existsb _ _) with false; [reflexivity|]. symmetry. apply not_true_is_false. intro Hex.
    apply existsb_exists in Hex. destruct Hex as [j [Hj1 Hj2]]. apply name_eqb_eq in Hj2. apply in_seq in Hj1.
    apply andb_false_iff in E. destruct E as [E|E].
    + rewrite <- Hj2 in E. rewrite is_prefix_firstn in E. discriminate.
    + apply negb_false_iff in E. apply is_nil_true in E. rewrite E in Hj2.
      assert (length (firstn (S j) n) = 0%nat) by (rewrite Hj2; reflexivity).
      rewrite firstn_length in H. lia.
Qed.

Lemma paths_fill : forall l n q, In q (paths (fill l n)) <-> In q (paths l) \/ (is_prefix q n = true /\ q <> []).
Proof.
  intros l n q. rewrite <- !has_node_In. unfold has_node. rewrite get_node_fill.
  destruct (get_node l q) eqn:G; [tauto|].
  destruct (is_prefix q n && negb (is_nil q)) eqn:E.
  - apply andb_true_iff in E. destruct E as [E1 E2]. split; [|reflexivity]. intros _. right. split; [exact E1|].
    destruct q; [discriminate|congruence].
  - split; [discriminate|]. intros [H|[H1 H2]]; [discriminate|].
    rewrite H1 in E. destruct q; [congruence|discriminate].
Qed.

(* ---- prefix-closed node lists ---- *)
Definition closed (l : list node) : Prop := forall p, In p (paths l) -> p <> [] -> In (parent p) (paths l).

Lemma closed_prefix : forall l, closed l -> forall k p q, length p = k -> In p (paths l) -> is_prefix q p = true -> In q (paths l).
Proof.
  intros l C k. induction k as [k IH] using lt_wf_ind. intros p q Hk Hp Hq.
  destruct (name_eq_dec q p) as [->|N]; [exact Hp|].
  assert (Hne : p <> []). { intro E. subst p. apply is_prefix_nil in Hq. congruence. }
  apply (IH (length (parent p))) with (p := parent p).
  - rewrite parent_length. destruct p; [congruence|simpl in *; lia].
  - reflexivity.
  - apply C; assumption.
  - apply prefix_of_parent; assumption.
Qed.

Lemma closed_descend : forall l n, closed l -> In n (paths l) -> descend l n = length n.
Proof.
  intros l n C H. pose proof (descend_spec l n) as [D1 [D2 D3]].
  destruct (Nat.eq_dec (descend l n) (length n)) as [E|E]; [exact E|].
  exfalso. assert (Hlt : (descend l n < length n)%nat) by lia. specialize (D3 Hlt).
  assert (In (firstn (S (descend l n)) n) (paths l)).
  { apply (closed_prefix l C (length n) n); [reflexivity|exact H|apply is_prefix_firstn]. }
  apply has_node_In in H0. congruence.
Qed.

Lemma descend_full_has : forall l n, has_node l [] = true -> descend l n = length n -> has_node l n = true.
Proof.
  intros l n R E. pose proof (descend_spec l n) as [D1 [D2 D3]].
  destruct n as [|x n]; [exact R|]. rewrite <- (firstn_all (x :: n)). apply D2. rewrite E. simpl. lia.
Qed.

Lemma exact_node_closed : forall l n, closed l -> has_node l [] = true -> exact_node l n = get_node l n.
Proof.
  intros l n C R. unfold exact_node. destruct (descend l n =? length n)%nat eqn:E; [reflexivity|].
  apply Nat.eqb_neq in E. destruct (get_node l n) eqn:G; [|reflexivity].
  exfalso. apply E. apply closed_descend; [exact C|]. apply has_node_In. unfold has_node. rewrite G. reflexivity.
Qed.

Lemma NoDup_paths_fill : forall l n, closed l -> NoDup (paths l) -> NoDup (paths (fill l n)).
Proof.
  intros l n C H. rewrite fill_app. unfold paths. rewrite map_app. apply NoDup_app_intro.
  - exact H.
  - rewrite map_map. simpl. pose proof (descend_spec l n) as [D1 _].
    apply NoDup_map_inj_in.
    + intros a b Ha Hb E. apply in_seq in Ha. apply in_seq in Hb.
      assert (length (firstn (S a) n) = length (firstn (S b) n)) by (rewrite E; reflexivity).
      rewrite !firstn_length in H0. lia.
    + apply seq_NoDup.
  - intros x H1 H2. rewrite map_map in H2. simpl in H2. apply in_map_iff in H2. destruct H2 as [j [Hj1 Hj2]].
    apply in_seq in Hj2. pose proof (descend_spec l n) as [D1 [D2 D3]].
    fold (paths l) in H1.
    assert (Hlt : (descend l n < length n)%nat) by lia. specialize (D3 Hlt).
    assert (In (firstn (S (descend l n)) n) (paths l)).
    { apply (closed_prefix l C (length x) x); [reflexivity|exact H1|]. subst x.
      apply is_prefix_spec. exists (firstn (S j - S (descend l n)) (skipn (S (descend l n)) n)).
      rewrite <- (firstn_skipn (S (descend l n)) (firstn (S j) n)) at 1.
      rewrite firstn_firstn. rewrite Nat.min_l by lia. f_equal.
      rewrite skipn_firstn_comm. reflexivity. }
    apply has_node_In in H0. congruence.
Qed.

Lemma closed_fill : forall l n, closed l -> has_node l [] = true -> closed (fill l n).
Proof.
  intros l n C R p Hp Hne. rewrite paths_fill in *. destruct Hp as [Hp|[Hp1 Hp2]].
  - left. apply C; assumption.
  - destruct (name_eq_dec (parent p) []) as [E|E].
    + left. rewrite E. apply has_node_In. exact R.
    + right. split; [|exact E]. apply is_prefix_trans with p; [apply parent_prefix|exact Hp1].
Qed.

Lemma closed_upd : forall l p f, (forall nd, n_path (f nd) = n_path nd) -> closed l -> closed (upd_node l p f).
Proof. intros l p f Hf C q. rewrite paths_upd by exact Hf. apply C. Qed.

(* has_child *)
Lemma has_child_spec : forall l p, has_child l p = true <-> exists q, In q (paths l) /\ q <> [] /\ parent q = p.
Proof.
  intros l p. unfold has_child. rewrite existsb_exists. split.
  - intros [nd [H1 H2]]. apply andb_true_iff in H2. destruct H2 as [H2 H3]. exists (n_path nd).
    split; [apply in_map; exact H1|]. split.
    + intro E. rewrite E in H2. discriminate.
    + apply name_eqb_eq. exact H3.
  - intros [q [H1 [H2 H3]]]. apply in_map_iff in H1. destruct H1 as [nd [E Hin]]. exists nd. split; [exact Hin|].
    rewrite E. apply andb_true_iff. split; [destruct q; [congruence|reflexivity]|apply name_eqb_eq; exact H3].
Qed.

Lemma closed_del_leaf : forall l p, closed l -> has_child l p = false -> closed (del_node l p).
Proof.
  intros l p C H q Hq Hne. rewrite paths_del in *. destruct Hq as [Hq Nq]. split; [apply C; assumption|].
  intro E. assert (has_child l p = true); [|congruence]. apply has_child_spec. exists q. tauto.
Qed.
