(* PitCs/Extract.v — extraction of the executable model and of the spec oracles for the correspondence runner.
   ExtrOcamlBasic only: bool, option, unit, list, prod, sumbool, sumor -> OCaml natives; N/Z/positive/nat stay Coq datatypes. *)
From Coq Require Import Extraction ExtrOcamlBasic NArith ZArith.
From PitCs Require Import GenConsts Model Spec.
Extraction Language OCaml.
Extraction "pitcs_model.ml"
  init step gen_dnl_tick_ms
  c_init c_adv c_setcap c_mgmtcap c_insert c_exact c_judge c_same_content c_prefix_ok c08_always c08_quiescent dump_of cache_of
  N.add N.mul N.of_nat N.to_nat N.eqb N.ltb N.div N.modulo Z.add Z.mul Z.sub Z.of_N Z.eqb Z.ltb Z.leb Z.opp Z.div Z.modulo Z.abs_N.
