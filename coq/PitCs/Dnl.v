(* PitCs/Dnl.v — C08: the dead nonce list and its expiry queue hold the same keys, and drain after the lifetime. *)
From Coq Require Import List NArith ZArith Bool Lia Permutation.
From PitCs Require Import Model Spec Lib TreeInv Cs Pit Reclaim.
Import ListNotations.
Open Scope Z_scope.

Lemma key_eqb_eq : forall a b, key_eqb a b = true <-> a = b.
Proof.
  intros [a1 a2] [b1 b2]. unfold key_eqb. simpl. rewrite andb_true_iff, name_eqb_eq, N.eqb_eq. split; [intros [-> ->]; reflexivity|intro H; inversion H; tauto].
Qed.

Lemma dnl_mem_In : forall k l, dnl_mem k l = true <-> In k l.
Proof.
  intros k l. induction l as [|x t IH]; simpl; [split; [discriminate|tauto]|]. rewrite orb_true_iff, key_eqb_eq, IH. tauto.
Qed.

Lemma dnl_del_In : forall k l x, In x (dnl_del k l) <-> In x l /\ x <> k.
Proof.
  intros k l x. induction l as [|y t IH]; simpl; [tauto|]. destruct (key_eqb y k) eqn:E.
  - apply key_eqb_eq in E. subst y. rewrite IH. split; [tauto|intros [[H|H] N]; [congruence|tauto]].
  - simpl. rewrite IH. assert (y <> k) by (intro Z; subst; destruct k as [a b]; unfold key_eqb in E; simpl in E; rewrite name_eqb_refl, N.eqb_refl in E; discriminate).
    split; [intros [->|H']; tauto|tauto].
Qed.

Lemma dnl_del_NoDup : forall k l, NoDup l -> NoDup (dnl_del k l).
Proof.
  intros k l H. induction H as [|y t Hy Ht IH]; simpl; [constructor|]. destruct (key_eqb y k); [exact IH|].
  constructor; [rewrite dnl_del_In; tauto|exact IH].
Qed.

Lemma dnl_del_length : forall k l, NoDup l -> In k l -> S (length (dnl_del k l)) = length l.
Proof.
  intros k l H. induction H as [|y t Hy Ht IH]; simpl; intro Hin; [destruct Hin|]. destruct (key_eqb y k) eqn:E.
  - apply key_eqb_eq in E. subst y. f_equal. clear IH Hin Ht. induction t as [|z t IH]; [reflexivity|]. simpl.
    destruct (key_eqb z k) eqn:E2; [apply key_eqb_eq in E2; subst; exfalso; apply Hy; left; reflexivity|].
    simpl. f_equal. apply IH. intro H. apply Hy. right. exact H.
  - simpl. f_equal. apply IH. destruct Hin as [->|Hin]; [|exact Hin]. exfalso.
    destruct k as [a b]. unfold key_eqb in E. simpl in E. rewrite name_eqb_refl, N.eqb_refl in E. discriminate.
Qed.

Lemma dnlq_del_keys : forall k l, map fst (dnlq_del k l) = dnl_del k (map fst l).
Proof.
  intros k l. induction l as [|y t IH]; simpl; [reflexivity|]. destruct (key_eqb (fst y) k); [exact IH|simpl; f_equal; exact IH].
Qed.

Lemma dnlq_del_sub : forall k l x, In x (dnlq_del k l) -> In x l /\ fst x <> k.
Proof.
  intros k l x. induction l as [|y t IH]; simpl; [tauto|]. destruct (key_eqb (fst y) k) eqn:E.
  - intro H. destruct (IH H). tauto.
  - intros [->|H]; [|destruct (IH H); tauto]. split; [left; reflexivity|]. intro Z. rewrite Z in E.
    destruct k as [a b]. unfold key_eqb in E. simpl in E. rewrite name_eqb_refl, N.eqb_refl in E. discriminate.
Qed.

Record d_inv (s : st) : Prop := mk_d_inv {
  di_nd : NoDup (dnl s);
  di_qnd : NoDup (map fst (dnlq s));
  di_eq : forall k, In k (dnl s) <-> In k (map fst (dnlq s));
  di_bound : forall x, In x (dnlq s) -> snd x <= now s + dnl_life s }.

Lemma d_inv_same : forall s s', d_inv s -> dnl s' = dnl s -> dnlq s' = dnlq s -> dnl_life s' = dnl_life s -> now s <= now s' -> d_inv s'.
Proof.
  intros s s' [A B C D] E1 E2 E3 E4. split; rewrite ?E1, ?E2, ?E3; try assumption. intros x Hx. specialize (D x Hx). lia.
Qed.

Lemma dnl_insert_dinv : forall s k, d_inv s -> d_inv (dnl_insert s k).
Proof.
  intros s k [A B C D]. unfold dnl_insert. destruct (dnl_mem k (dnl s)) eqn:M; [split; assumption|].
  assert (Hk : ~ In k (dnl s)) by (rewrite <- dnl_mem_In; congruence).
  split; simpl.
  - apply NoDup_app_intro; [exact A|constructor; [simpl; tauto|constructor]|]. intros x H1 [<-|[]]. exact (Hk H1).
  - rewrite map_app. simpl. apply NoDup_app_intro; [exact B|constructor; [simpl; tauto|constructor]|]. intros x H1 [<-|[]]. apply Hk. apply C. exact H1.
  - intro x. rewrite map_app, !in_app_iff, C. simpl. tauto.
  - intros x Hx. apply in_app_or in Hx. destruct Hx as [Hx|[<-|[]]]; [apply D; exact Hx|simpl; lia].
Qed.

Lemma fold_dnl_insert_dinv : forall A (g : A -> name * N) l s, d_inv s -> d_inv (fold_left (fun s o => dnl_insert s (g o)) l s).
Proof. intros A g l. induction l as [|x t IH]; intros s D; simpl; [exact D|]. apply IH. apply dnl_insert_dinv. exact D. Qed.

(* removing one queued key from both structures *)
Definition sweep1 (s : st) (x : name * N * Z) : st := set_dnlq (set_dnl s (dnl_del (fst x) (dnl s))) (dnlq_del (fst x) (dnlq s)).

Lemma sweep1_dinv : forall s x, d_inv s -> d_inv (sweep1 s x).
Proof.
  intros s x [A B C D]. split; simpl.
  - apply dnl_del_NoDup. exact A.
  - rewrite dnlq_del_keys. apply dnl_del_NoDup. exact B.
  - intro k. rewrite dnlq_del_keys, !dnl_del_In, C. tauto.
  - intros y Hy. apply dnlq_del_sub in Hy. apply D. tauto.
Qed.

Lemma sweep1_len : forall s x, d_inv s -> In (fst x) (map fst (dnlq s)) ->
  S (length (dnlq (sweep1 s x))) = length (dnlq s) /\ S (length (dnl (sweep1 s x))) = length (dnl s).
Proof.
  intros s x [A B C D] H. simpl. split.
  - rewrite <- (map_length fst (dnlq_del (fst x) (dnlq s))), dnlq_del_keys, <- (map_length fst (dnlq s)). apply dnl_del_length; assumption.
  - apply dnl_del_length; [exact A|apply C; exact H].
Qed.

Lemma sweep_fold : forall due s, d_inv s -> NoDup (map fst due) -> (forall x, In x due -> In (fst x) (map fst (dnlq s))) ->
  let s' := fold_left sweep1 due s in
  d_inv s' /\ (length (dnlq s') + length due = length (dnlq s))%nat /\ (length (dnl s') + length due = length (dnl s))%nat /\
  (forall y, In y (dnlq s') -> In y (dnlq s) /\ ~ In (fst y) (map fst due)).
Proof.
  induction due as [|x t IH]; intros s D Hn Hin; simpl.
  - split; [exact D|]. split; [lia|]. split; [lia|]. intros y Hy. tauto.
  - inversion Hn as [|? ? Hx Ht]; subst.
    destruct (sweep1_len s x D (Hin x (or_introl eq_refl))) as [L1 L2].
    assert (Hin' : forall y, In y t -> In (fst y) (map fst (dnlq (sweep1 s x)))).
    { intros y Hy. simpl. rewrite dnlq_del_keys, dnl_del_In. split; [apply Hin; right; exact Hy|].
      intro Z. apply Hx. rewrite <- Z. apply in_map. exact Hy. }
    destruct (IH (sweep1 s x) (sweep1_dinv s x D) Ht Hin') as [D' [M1 [M2 M3]]].
    split; [exact D'|]. split; [lia|]. split; [lia|]. intros y Hy. destruct (M3 y Hy) as [Y1 Y2].
    simpl in Y1. apply dnlq_del_sub in Y1. split; [tauto|]. intros [Z|Z]; [destruct Y1; congruence|exact (Y2 Z)].
Qed.

(* RemoveExpiredEntries *)
Theorem dnl_sweep_spec : forall s, d_inv s ->
  let due := firstn dnl_batch (sort_by snd (filter (fun x => snd x <? now s) (dnlq s))) in
  d_inv (dnl_sweep s) /\
  (length (dnlq (dnl_sweep s)) + length due = length (dnlq s))%nat /\ length (dnl (dnl_sweep s)) = length (dnlq (dnl_sweep s)) /\
  (forall y, In y (dnlq (dnl_sweep s)) -> In y (dnlq s)).
Proof.
  intros s D due.
  assert (Psort : Permutation (sort_by snd (filter (fun x => snd x <? now s) (dnlq s))) (filter (fun x => snd x <? now s) (dnlq s))) by apply sort_by_perm.
  assert (Hsub : forall x, In x due -> In x (dnlq s)).
  { intros x Hx. unfold due in Hx. apply firstn_In_sub in Hx. apply (Permutation_in _ Psort) in Hx. apply filter_In in Hx. tauto. }
  assert (Hnd : NoDup (map fst due)).
  { unfold due. rewrite <- firstn_map. apply NoDup_firstn_sub.
    eapply Permutation_NoDup; [apply Permutation_map; apply Permutation_sym; exact Psort|].
    apply NoDup_filter_map. apply (di_qnd s D). }
  destruct (sweep_fold due s D Hnd (fun x Hx => in_map fst _ _ (Hsub x Hx))) as [D' [M1 [M2 M3]]].
  change (fold_left sweep1 due s) with (dnl_sweep s) in *.
  split; [exact D'|]. split; [exact M1|]. split.
  - assert (length (dnl s) = length (dnlq s)).
    { rewrite <- (map_length fst (dnlq s)). apply Permutation_length. apply NoDup_Permutation; [apply (di_nd s D)|apply (di_qnd s D)|apply (di_eq s D)]. }
    lia.
  - intros y Hy. apply M3. exact Hy.
Qed.

(* ---- every operation keeps the dead nonce list well formed ---- *)
Definition dsame (s s' : st) : Prop := dnl s' = dnl s /\ dnlq s' = dnlq s /\ dnl_life s' = dnl_life s /\ now s' = now s.
Definition drel (s s' : st) : Prop := dnl_life s' = dnl_life s /\ now s' = now s /\ (d_inv s -> d_inv s').

Lemma dsame_refl : forall s, dsame s s. Proof. intro. repeat split. Qed.
Lemma dsame_trans : forall a b c, dsame a b -> dsame b c -> dsame a c.
Proof. intros a b c [A1 [A2 [A3 A4]]] [B1 [B2 [B3 B4]]]. repeat split; congruence. Qed.
Lemma dsame_drel : forall s s', dsame s s' -> drel s s'.
Proof. intros s s' [A1 [A2 [A3 A4]]]. split; [exact A3|]. split; [exact A4|]. intro D. apply (d_inv_same s s' D); try assumption. lia. Qed.
Lemma drel_trans : forall a b c, drel a b -> drel b c -> drel a c.
Proof. intros a b c [A1 [A2 A3]] [B1 [B2 B3]]. split; [congruence|]. split; [congruence|tauto]. Qed.
Lemma drel_refl : forall s, drel s s. Proof. intro. apply dsame_drel. apply dsame_refl. Qed.

Lemma drel_dnl_insert : forall s k, drel s (dnl_insert s k).
Proof.
  intros s k. destruct (dnl_insert_fields s k) as [_ [_ [A3 [_ [_ [_ A7]]]]]]. split; [exact A7|]. split; [exact A3|]. apply dnl_insert_dinv.
Qed.

Lemma drel_fold : forall A (f : st -> A -> st), (forall s x, drel s (f s x)) -> forall l s, drel s (fold_left f l s).
Proof. intros A f Hf l. induction l as [|x t IH]; intro s; simpl; [apply drel_refl|]. eapply drel_trans; [apply Hf|apply IH]. Qed.

Lemma dsame_schedule : forall s n id t, dsame s (schedule s n id t).
Proof. intros. unfold schedule. destruct (get_entry (nodes s) n id) as [e|]; [destruct (p_q e)|]; repeat split. Qed.

Lemma dsame_update_exp_timer : forall s n id, dsame s (update_exp_timer s n id).
Proof. intros. unfold update_exp_timer. destruct (get_entry (nodes s) n id); [apply dsame_schedule|apply dsame_refl]. Qed.

Lemma dsame_remove_interest : forall s e, dsame s (remove_interest s e).
Proof.
  intros. unfold remove_interest. destruct (get_node (nodes s) (p_name e)) as [nd|]; [|apply dsame_refl].
  destruct (existsb _ (n_pit nd)); [|apply dsame_refl]. repeat split.
Qed.

Lemma dsame_erase_cs : forall s x, dsame s (erase_cs s x).
Proof. intros. unfold erase_cs. destruct (mem_name x (csmap s)); repeat split. Qed.

Lemma dsame_evict : forall fuel s, dsame s (evict fuel s).
Proof.
  induction fuel as [|f IH]; intro s; simpl; [apply dsame_refl|]. destruct (lruq s) as [|x q]; [apply dsame_refl|].
  destruct (cap s <? _)%N; [|apply dsame_refl]. eapply dsame_trans; [|apply IH].
  destruct (dsame_erase_cs s x) as [A1 [A2 [A3 A4]]]. repeat split; simpl; assumption.
Qed.

Lemma dsame_insert_data : forall s n w f, dsame s (insert_data s n w f).
Proof.
  intros. unfold insert_data. destruct (mem_name n (csmap s)); [repeat split|].
  eapply dsame_trans; [|apply dsame_evict]. repeat split.
Qed.

Lemma dsame_find_cs : forall s n cbp mbf, dsame s (fst (find_cs s n cbp mbf)).
Proof.
  intros. destruct (find_cs_frame_rest s n cbp mbf) as [_ [A [_ [_ [_ [_ [B [C [_ [_ [_ [_ [D _]]]]]]]]]]]]]. repeat split; assumption.
Qed.

Lemma dsame_insert_interest : forall s n cbp mbf nonce face, dsame s (fst (fst (insert_interest s n cbp mbf nonce face))).
Proof.
  intros. unfold insert_interest. destruct (find _ _) as [e|]; [destruct (existsb _ _)|]; repeat split.
Qed.

Lemma drel_satisfy : forall dn src s e, drel s (satisfy dn src s e).
Proof.
  intros. unfold satisfy.
  set (s1 := set_exp_now s (p_name e) (p_id e)).
  set (s2 := mark_sat s1 (p_name e) (p_id e)).
  set (s3 := fold_left (fun s0 o => dnl_insert s0 (dn, o_nonce o)) (outs_of s2 (p_name src) (p_id src)) s2).
  assert (R1 : drel s s1) by (apply dsame_drel; apply dsame_schedule).
  assert (R2 : drel s1 s2) by (apply dsame_drel; repeat split).
  assert (R3 : drel s2 s3) by (apply drel_fold; intros; apply drel_dnl_insert).
  assert (R4 : drel s3 (clear_records s3 (p_name e) (p_id e))) by (apply dsame_drel; repeat split).
  eapply drel_trans; [exact R1|]. eapply drel_trans; [exact R2|]. eapply drel_trans; [exact R3|exact R4].
Qed.

Lemma drel_process_data : forall s n w f tok, drel s (process_data s n w f tok).
Proof.
  intros. unfold process_data. set (s1 := if admitting s then insert_data s n w f else s).
  assert (R1 : drel s s1) by (unfold s1; destruct (admitting s); [apply dsame_drel; apply dsame_insert_data|apply drel_refl]).
  eapply drel_trans; [exact R1|]. destruct (pit_matches s1 n tok) as [|e0 rest]; [apply drel_refl|].
  destruct rest; [apply drel_satisfy|]. apply drel_fold. intros. apply drel_satisfy.
Qed.

Lemma drel_forward : forall s n id nonce ex sent,
  drel s (let s3 := update_exp_timer s n id in
          set_nodes s3 (upd_entry (nodes s3) n id (fun e => set_outs e
            (fold_left (fun l f => put_outrec l (mkout f nonce ex)) sent (outs_of s3 n id))))).
Proof. intros. cbv zeta. eapply drel_trans; [apply dsame_drel; apply dsame_update_exp_timer|]. apply dsame_drel. repeat split. Qed.

Lemma drel_process_interest : forall s face n cbp mbf nonce life sent,
  drel s (fst (fst (process_interest s face n cbp mbf nonce life sent))).
Proof.
  intros. unfold process_interest. destruct (dnl_mem (n, nonce) (dnl s)); [apply drel_refl|].
  pose proof (dsame_insert_interest s n cbp mbf nonce face) as D1.
  destruct (insert_interest s n cbp mbf nonce face) as [[s1 id] dup]. simpl in D1.
  destruct dup; [simpl; apply dsame_drel; exact D1|].
  destruct (put_inrec _ _) as [[ins' already] prev].
  set (s2 := set_nodes s1 (upd_entry (nodes s1) n id (fun e => set_ins e ins'))).
  assert (D2 : drel s s2) by (eapply drel_trans; [apply dsame_drel; exact D1|apply dsame_drel; repeat split]).
  destruct already.
  { simpl. eapply drel_trans; [exact D2|]. eapply drel_trans; [apply drel_dnl_insert|]. apply drel_forward. }
  destruct (serving s2); [|simpl; eapply drel_trans; [exact D2|apply drel_forward]].
  pose proof (dsame_find_cs s2 n cbp mbf) as D3. destruct (find_cs s2 n cbp mbf) as [s3 c]. simpl in D3.
  destruct c as [|c0 c]; simpl.
  - eapply drel_trans; [exact D2|]. eapply drel_trans; [apply dsame_drel; exact D3|apply drel_forward].
  - assert (R4 : drel s3 (del_inrec s3 n id face)) by (apply dsame_drel; repeat split).
    eapply drel_trans; [exact D2|]. eapply drel_trans; [apply dsame_drel; exact D3|].
    eapply drel_trans; [exact R4|]. apply dsame_drel. apply dsame_update_exp_timer.
Qed.

Lemma drel_expire_one : forall s x, drel s (expire_one s x).
Proof.
  intros. unfold expire_one. destruct (find_entry (nodes s) (fst x)) as [e|]; [|apply drel_refl].
  set (s1 := set_nodes s (upd_entry (nodes s) (p_name e) (p_id e) (fun e0 => set_q e0 false))).
  assert (R1 : drel s s1) by (apply dsame_drel; repeat split).
  assert (R2 : drel s1 (finalize s1 e)) by (unfold finalize; apply drel_fold; intros; apply drel_dnl_insert).
  eapply drel_trans; [exact R1|]. eapply drel_trans; [exact R2|]. apply dsame_drel. apply dsame_remove_interest.
Qed.

Lemma drel_pit_update : forall s, drel s (pit_update s).
Proof.
  intro s. unfold pit_update.
  set (s1 := set_heap s (filter (fun x => negb (snd x <=? now s)) (heap s))).
  set (s2 := fold_left expire_one (sort_by snd (filter (fun x => snd x <=? now s) (heap s))) s1).
  assert (R1 : drel s s1) by (apply dsame_drel; repeat split).
  assert (R2 : drel s1 s2) by (apply drel_fold; intros; apply drel_expire_one).
  eapply drel_trans; [exact R1|]. eapply drel_trans; [exact R2|]. apply dsame_drel. repeat split.
Qed.

Theorem step_dinv : forall s o, d_inv s -> d_inv (fst (step s o)) /\ dnl_life (fst (step s o)) = dnl_life s.
Proof.
  intros s o D. destruct o as [d|c|n w f|n cbp mbf|face n cbp mbf nonce life sent|n w f tok| | |u|sid sn]; simpl.
  - split; [|reflexivity]. apply (d_inv_same s _ D); try reflexivity; simpl; lia.
  - split; [|reflexivity]. apply (d_inv_same s _ D); try reflexivity; simpl; lia.
  - destruct (dsame_drel _ _ (dsame_insert_data s n w f)) as [A [B C]]. split; [apply C; exact D|exact A].
  - pose proof (dsame_drel _ _ (dsame_find_cs s n cbp mbf)) as [A [B C]]. destruct (find_cs s n cbp mbf). split; [apply C; exact D|exact A].
  - pose proof (drel_process_interest s face n cbp mbf nonce life sent) as [A [B C]].
    destruct (process_interest s face n cbp mbf nonce life sent) as [[s' k] c]. split; [apply C; exact D|exact A].
  - destruct (drel_process_data s n w f tok) as [A [B C]]. split; [apply C; exact D|exact A].
  - destruct (drel_pit_update s) as [A [B C]]. split; [apply C; exact D|exact A].
  - destruct (dnl_sweep_spec s D) as [D' _]. split; [exact D'|].
    unfold dnl_sweep. generalize (firstn dnl_batch (sort_by snd (filter (fun x => snd x <? now s) (dnlq s)))). intro l.
    assert (H : forall (l0 : list (name * N * Z)) s0, dnl_life (fold_left sweep1 l0 s0) = dnl_life s0).
    { induction l0 as [|x t IH]; intro s0; simpl; [reflexivity|]. rewrite IH. reflexivity. }
    apply H.
  - unfold mgmt_cap. destruct (max_int <? u)%N; [split; [exact D|reflexivity]|].
    split; [|reflexivity]. apply (d_inv_same s _ D); try reflexivity; simpl; lia.
  - unfold stale_remove. destruct (mem_N sid (tokmap s)); [split; [exact D|reflexivity]|].
    destruct (dsame_drel _ _ (dsame_remove_interest s (mkpit sid sn false false [] [] 0 false false))) as [A [B C]]. split; [apply C; exact D|exact A].
Qed.

Lemma init_dinv : forall t0 c sv ad life, d_inv (init t0 c sv ad life).
Proof. intros. split; simpl; try constructor; try tauto; intros x []. Qed.

Theorem run_dinv : forall ops s, d_inv s -> d_inv (run s ops).
Proof. induction ops as [|o t IH]; intros s D; [exact D|]. unfold run. simpl. apply IH. apply step_dinv. exact D. Qed.

(* after the configured lifetime every record is due, and k sweeps remove min(100 k, n) of them *)
Lemma all_dnl_due_after : forall s d, d_inv s -> dnl_life s < Z.of_N d ->
  forall x, In x (dnlq (set_now s (now s + Z.of_N d))) -> snd x < now (set_now s (now s + Z.of_N d)).
Proof. intros s d D Hd x Hx. simpl in *. pose proof (di_bound s D x Hx). lia. Qed.

Fixpoint sweeps (k : nat) (s : st) : st := match k with O => s | S k' => sweeps k' (dnl_sweep s) end.

Lemma firstn_length_min : forall A k (l : list A), length (firstn k l) = Nat.min k (length l).
Proof. intros. apply firstn_length. Qed.

Theorem dnl_drains : forall k s, d_inv s -> (forall x, In x (dnlq s) -> snd x < now s) ->
  length (dnlq (sweeps k s)) = (length (dnlq s) - dnl_batch * k)%nat /\ length (dnl (sweeps k s)) = length (dnlq (sweeps k s)).
Proof.
  induction k as [|k IH]; intros s D Hall; simpl sweeps.
  - split; [lia|]. rewrite <- (map_length fst (dnlq s)). apply Permutation_length.
    apply NoDup_Permutation; [apply (di_nd s D)|apply (di_qnd s D)|apply (di_eq s D)].
  - destruct (dnl_sweep_spec s D) as [D' [M1 [M2 M3]]].
    assert (Hnow : now (dnl_sweep s) = now s) by (destruct (dnl_sweep_fields s) as [_ [_ [A _]]]; exact A).
    assert (Hall' : forall x, In x (dnlq (dnl_sweep s)) -> snd x < now (dnl_sweep s)) by (intros x Hx; rewrite Hnow; apply Hall; apply M3; exact Hx).
    destruct (IH (dnl_sweep s) D' Hall') as [I1 I2]. split; [|exact I2]. rewrite I1.
    assert (Hf : filter (fun x => snd x <? now s) (dnlq s) = dnlq s).
    { clear - Hall. induction (dnlq s) as [|y t IHt]; [reflexivity|]. simpl.
      replace (snd y <? now s) with true by (symmetry; apply Z.ltb_lt; apply Hall; left; reflexivity).
      f_equal. apply IHt. intros x Hx. apply Hall. right. exact Hx. }
    rewrite Hf in M1. rewrite firstn_length in M1. rewrite (Permutation_length (sort_by_perm _ snd (dnlq s))) in M1.
    pose proof (proj2 (proj2 consts_wf)) as Bp. nia.
Qed.
