(* PitCs/C07.v — the C07 theorems assembled for every history (lemmas; Props_C07.v restates them). *)
From Coq Require Import List NArith ZArith Bool Lia.
From PitCs Require Import Model Spec Lib TreeInv Cs CacheSpec.
Import ListNotations.
Open Scope Z_scope.

(* the history of a run as the cache sees it *)
Fixpoint trace_of (s : st) (ops : list op) : list tstep :=
  match ops with
  | [] => []
  | o :: t => (admitting s, o, snd (step s o)) :: trace_of (fst (step s o)) t
  end.

Lemma run_both_trace : forall ops s c, snd (run_both s c ops) = cache_run c (trace_of s ops).
Proof. induction ops as [|o t IH]; intros s c; [reflexivity|]. simpl. rewrite IH. reflexivity. Qed.

Definition start (t0 : Z) (c : N) (sv ad : bool) (life : Z) := init t0 c sv ad life.

Lemma reach_inv : forall t0 c sv ad life ops, cs_inv (run (start t0 c sv ad life) ops).
Proof. intros. apply run_cs. apply init_cs. Qed.

Lemma refines : forall t0 c sv ad life ops,
  cache_of (run (start t0 c sv ad life) ops) = cache_run (c_init t0 c) (trace_of (start t0 c sv ad life) ops).
Proof.
  intros. destruct (init_cs t0 c sv ad life) as [I E].
  destruct (run_both_refines ops (start t0 c sv ad life) (c_init t0 c) I E) as [H1 H2].
  rewrite <- H2, H1. apply run_both_trace.
Qed.

Lemma judge_lookup : forall c n cbp mbf m w, c_judge c n cbp mbf (Some (m, w)) = 0%N ->
  exists e, c_lookup (c_list c) m = Some e /\ cs_wire e = w.
Proof.
  intros c n cbp mbf m w H. unfold c_judge in H.
  destruct (if cbp then is_prefix n m else name_eqb n m); [|discriminate]. cbn [negb] in H.
  destruct (c_lookup (c_list c) m) as [e|]; [|discriminate]. destruct (c_fresh c mbf e); [|discriminate]. cbn [negb] in H.
  destruct (N.eqb (cs_wire e) w) eqn:W; [|discriminate]. exists e. split; [reflexivity|apply N.eqb_eq; exact W].
Qed.

(* cs_sound *)
Lemma sound : forall t0 c sv ad life ops n cbp mbf e,
  let s := run (start t0 c sv ad life) ops in
  In e (snd (find_cs s n cbp mbf)) ->
  (if cbp then exists r, cs_name e = n ++ r else cs_name e = n) /\
  exists e', In e' (c_list (cache_of s)) /\ cs_name e' = cs_name e /\ cs_wire e' = cs_wire e /\ (mbf = true -> now s < cs_stale e').
Proof.
  intros t0 c sv ad life ops n cbp mbf e s H.
  pose proof (find_cs_sound s n cbp mbf e (reach_inv _ _ _ _ _ _) H) as J.
  apply c_judge_some_meaning in J. exact J.
Qed.

(* cs_bytes_latest (and the stale time is insertion time + freshness) *)
Lemma bytes_latest : forall t0 c sv ad life ops n cbp mbf e,
  let s := run (start t0 c sv ad life) ops in
  In e (snd (find_cs s n cbp mbf)) ->
  exists stale, latest t0 (trace_of (start t0 c sv ad life) ops) (cs_name e) = Some (cs_wire e, stale) /\
                (mbf = true -> clock t0 (trace_of (start t0 c sv ad life) ops) < stale).
Proof.
  intros t0 c sv ad life ops n cbp mbf e s H.
  pose proof (find_cs_sound s n cbp mbf e (reach_inv _ _ _ _ _ _) H) as J.
  pose proof J as J2. apply judge_lookup in J. destruct J as [e' [L W]].
  destruct (cache_run_ok (trace_of (start t0 c sv ad life) ops) t0 c) as [_ [Bc B]].
  unfold s in *. rewrite refines in L, J2. specialize (B _ _ L). rewrite W in B. exists (cs_stale e'). split; [exact B|].
  intro M. subst mbf. unfold c_judge in J2.
  destruct (if cbp then is_prefix n (cs_name e) else name_eqb n (cs_name e)); [|discriminate]. cbn [negb] in J2.
  rewrite L in J2. destruct (c_fresh _ true e') eqn:F; [|discriminate]. unfold c_fresh in F. simpl in F.
  apply Z.ltb_lt in F. rewrite <- Bc. exact F.
Qed.

(* cs_exact_complete *)
Lemma exact_complete : forall t0 c sv ad life ops n mbf e,
  let s := run (start t0 c sv ad life) ops in
  c_lookup (c_list (cache_of s)) n = Some e -> (mbf = true -> now s < cs_stale e) ->
  snd (find_cs s n false mbf) = [e].
Proof.
  intros t0 c sv ad life ops n mbf e s L F.
  pose proof (reach_inv t0 c sv ad life ops) as I. fold s in I.
  rewrite find_cs_exact by exact I. rewrite c_lookup_cache in L by exact I. rewrite L.
  replace (acceptable s mbf e) with true; [reflexivity|]. symmetry. unfold acceptable.
  destruct mbf; [|reflexivity]. simpl. apply Z.ltb_lt. apply F. reflexivity.
Qed.

(* cs_capacity_after_new_insert: reported size = true size <= current capacity after inserting a new name *)
Lemma size_truthful : forall s, cs_inv s -> ncs s = Z.of_nat (length (c_list (cache_of s))).
Proof.
  intros s I. rewrite (ci_ncs s I). f_equal. rewrite cache_of_list, entries_length by (intros m Hm; apply (ci_q s I); exact Hm).
  apply Permutation.Permutation_length. apply Permutation.NoDup_Permutation; [apply (ci_map_nodup s I)|apply (ci_q_nodup s I)|apply (ci_map s I)].
Qed.

Lemma capacity_after_new_insert : forall t0 c sv ad life ops n w f,
  let s := run (start t0 c sv ad life) ops in
  c_lookup (c_list (cache_of s)) n = None ->
  let s' := insert_data s n w f in
  ncs s' = Z.of_nat (length (c_list (cache_of s'))) /\ ncs s' <= Z.of_N (cap s).
Proof.
  intros t0 c sv ad life ops n w f s L s'.
  pose proof (reach_inv t0 c sv ad life ops) as I. fold s in I.
  destruct (insert_data_inv s n w f I) as [I' C']. fold s' in I', C'.
  split; [apply size_truthful; exact I'|]. rewrite (size_truthful s' I'), C'.
  pose proof (c_insert_new_capacity (cache_of s) n w f L) as H. change (c_cap (cache_of s)) with (cap s) in H. lia.
Qed.

(* the same through the pipeline (incoming Data, CS admitting) *)
Lemma capacity_after_new_data : forall t0 c sv ad life ops n w f tok,
  let s := run (start t0 c sv ad life) ops in
  admitting s = true -> c_lookup (c_list (cache_of s)) n = None ->
  let s' := process_data s n w f tok in
  ncs s' = Z.of_nat (length (c_list (cache_of s'))) /\ ncs s' <= Z.of_N (cap s).
Proof.
  intros t0 c sv ad life ops n w f tok s A L s'.
  pose proof (reach_inv t0 c sv ad life ops) as I. fold s in I.
  destruct (process_data_cs s n w f tok I) as [I' C']. fold s' in I', C'. rewrite A in C'.
  split; [apply size_truthful; exact I'|]. rewrite (size_truthful s' I'), C'.
  pose proof (c_insert_new_capacity (cache_of s) n w f L) as H. change (c_cap (cache_of s)) with (cap s) in H. lia.
Qed.

(* cs_evicts_lru: inserting a new name drops exactly the k least recently used entries, k = excess over the current capacity *)
Lemma evicts_lru : forall t0 c sv ad life ops n w f,
  let s := run (start t0 c sv ad life) ops in
  c_lookup (c_list (cache_of s)) n = None ->
  c_list (cache_of (insert_data s n w f)) =
  skipn (length (c_list (cache_of s)) + 1 - N.to_nat (cap s)) (c_list (cache_of s) ++ [mkcs n w (stale_of s f)]).
Proof.
  intros t0 c sv ad life ops n w f s L.
  pose proof (reach_inv t0 c sv ad life ops) as I. fold s in I.
  destruct (insert_data_inv s n w f I) as [_ C']. rewrite C'. apply (c_insert_new_list (cache_of s) n w f L).
Qed.
