(* PitCs/Tree.v — cs_tree_flat_equiv: the depth-first search of findMatchingDataCSPrefix, for every order in which the
   children maps may be iterated, answers inside the flat candidate list `prefix_cands` used by the model step, and answers
   nil only when that list is empty. *)
From Coq Require Import List NArith ZArith Bool Lia Permutation.
From PitCs Require Import Model Lib TreeInv Cs.
Import ListNotations.

Definition hit_at (s : st) (mbf : bool) (p : name) : option csent :=
  match get_node (nodes s) p with Some nd => node_hit s mbf nd | None => None end.

Lemma blocked_false : forall s mbf fuel from p,
  blocked s mbf from fuel p = false <-> forall k, (from <= k < from + fuel)%nat -> hit_at s mbf (firstn k p) = None.
Proof.
  intros s mbf fuel. induction fuel as [|f IH]; intros from p; simpl.
  - split; [intros _ k Hk; lia|reflexivity].
  - unfold hit_at in *. destruct (get_node (nodes s) (firstn from p)) as [nd|] eqn:G.
    + destruct (node_hit s mbf nd) eqn:Hh.
      * split; [discriminate|]. intro H. specialize (H from ltac:(lia)). rewrite G in H. congruence.
      * rewrite IH. split; intros H k Hk.
        -- destruct (Nat.eq_dec k from) as [->|N]; [rewrite G; exact Hh|apply H; lia].
        -- apply H. lia.
    + rewrite IH. split; intros H k Hk.
      * destruct (Nat.eq_dec k from) as [->|N]; [rewrite G; reflexivity|apply H; lia].
      * apply H. lia.
Qed.

Lemma wide_cands_In : forall s n mbf e, NoDup (paths (nodes s)) ->
  (In e (prefix_cands s n mbf) <-> exists p, hit_at s mbf p = Some e /\ is_prefix n p = true).
Proof.
  intros s n mbf e Nd. unfold prefix_cands. rewrite in_flat_map. split.
  - intros [nd [H1 H2]]. destruct (node_hit s mbf nd) as [x|] eqn:Hh; [|destruct H2].
    destruct (is_prefix n (n_path nd)) eqn:C; [|destruct H2]. destruct H2 as [->|[]].
    exists (n_path nd). unfold hit_at. rewrite (In_get_node _ _ Nd H1). tauto.
  - intros [p [H1 H2]]. unfold hit_at in H1. destruct (get_node (nodes s) p) as [nd|] eqn:G; [|discriminate].
    exists nd. split; [eapply get_node_In; exact G|]. rewrite H1, (get_node_path _ _ _ G), H2. left. reflexivity.
Qed.

Lemma prefix_cands_In : forall s n mbf e, NoDup (paths (nodes s)) ->
  (In e (dfs_cands s n mbf) <->
   exists p, hit_at s mbf p = Some e /\ is_prefix n p = true /\
             forall k, (length n <= k < length p)%nat -> hit_at s mbf (firstn k p) = None).
Proof.
  intros s n mbf e Nd. unfold dfs_cands. rewrite in_flat_map. split.
  - intros [nd [H1 H2]]. destruct (node_hit s mbf nd) as [x|] eqn:Hh; [|destruct H2].
    destruct (is_prefix n (n_path nd) && negb (blocked s mbf (length n) (length (n_path nd) - length n) (n_path nd))) eqn:C; [|destruct H2].
    destruct H2 as [->|[]]. apply andb_true_iff in C. destruct C as [C1 C2]. apply negb_true_iff in C2.
    exists (n_path nd). unfold hit_at. rewrite (In_get_node _ _ Nd H1). split; [exact Hh|]. split; [exact C1|].
    intros k Hk. pose proof (is_prefix_length _ _ C1). apply (proj1 (blocked_false s mbf _ _ _) C2). lia.
  - intros [p [H1 [H2 H3]]]. unfold hit_at in H1. destruct (get_node (nodes s) p) as [nd|] eqn:G; [|discriminate].
    exists nd. split; [eapply get_node_In; exact G|]. rewrite H1. rewrite (get_node_path _ _ _ G), H2. simpl.
    replace (blocked s mbf (length n) (length p - length n) p) with false; [left; reflexivity|].
    symmetry. apply blocked_false. intros k Hk. pose proof (is_prefix_length _ _ H2). apply H3. lia.
Qed.

Lemma children_of_In : forall l p c, In c (children_of l p) <-> In c (paths l) /\ c <> [] /\ parent c = p.
Proof.
  intros l p c. unfold children_of. rewrite in_map_iff. split.
  - intros [nd [E H]]. apply filter_In in H. destruct H as [H1 H2]. apply andb_true_iff in H2. destruct H2 as [H2 H3].
    subst c. split; [apply in_map; exact H1|]. split; [intro Z; rewrite Z in H2; discriminate|apply name_eqb_eq; exact H3].
  - intros [H1 [H2 H3]]. apply in_map_iff in H1. destruct H1 as [nd [E H1]]. exists nd. split; [exact E|]. apply filter_In.
    split; [exact H1|]. rewrite E. apply andb_true_iff. split; [destruct c; [congruence|reflexivity]|apply name_eqb_eq; exact H3].
Qed.

Lemma first_some_Some : forall A B (f : A -> option B) l y, first_some f l = Some y -> exists x, In x l /\ f x = Some y.
Proof.
  intros A B f l y. induction l as [|x t IH]; simpl; [discriminate|]. destruct (f x) eqn:E.
  - intro H. inversion H; subst. exists x. tauto.
  - intro H. destruct (IH H) as [z [Z1 Z2]]. exists z. tauto.
Qed.

Lemma first_some_None : forall A B (f : A -> option B) l, first_some f l = None -> forall x, In x l -> f x = None.
Proof.
  intros A B f l. induction l as [|x t IH]; simpl; [intros _ z []|]. destruct (f x) eqn:E; [discriminate|].
  intros H z [<-|Hz]; [exact E|apply IH; assumption].
Qed.

Lemma child_shape : forall c p, c <> [] -> parent c = p -> length c = S (length p) /\ firstn (length p) c = p /\ is_prefix p c = true.
Proof.
  intros c p Hc Hp. subst p. split; [rewrite parent_length; destruct c; [congruence|simpl; lia]|].
  split; [rewrite parent_length; symmetry; apply parent_firstn|apply parent_prefix].
Qed.

(* soundness: whatever order the children are visited in, an answer is an admissible candidate *)
Theorem dfs_sound : forall ord s mbf fuel p e,
  (forall l x, In x (ord l) -> In x l) ->
  dfs ord s mbf fuel p = Some e ->
  exists q, hit_at s mbf q = Some e /\ is_prefix p q = true /\
            forall k, (length p <= k < length q)%nat -> hit_at s mbf (firstn k q) = None.
Proof.
  intros ord s mbf fuel. induction fuel as [|f IH]; intros p e Hord H; simpl in H.
  - destruct (get_node (nodes s) p) as [nd|] eqn:G; [|discriminate]. destruct (node_hit s mbf nd) eqn:Hh; [|discriminate].
    inversion H; subst. exists p. unfold hit_at. rewrite G. split; [exact Hh|]. split; [apply is_prefix_refl|intros k Hk; lia].
  - destruct (get_node (nodes s) p) as [nd|] eqn:G; [|discriminate]. destruct (node_hit s mbf nd) eqn:Hh.
    + inversion H; subst. exists p. unfold hit_at. rewrite G. split; [exact Hh|]. split; [apply is_prefix_refl|intros k Hk; lia].
    + apply first_some_Some in H. destruct H as [c [C1 C2]]. apply Hord in C1. apply children_of_In in C1. destruct C1 as [_ [C3 C4]].
      destruct (child_shape c p C3 C4) as [L1 [L2 L3]].
      destruct (IH c e Hord C2) as [q [Q1 [Q2 Q3]]]. exists q. split; [exact Q1|]. split; [apply is_prefix_trans with c; assumption|].
      intros k Hk. destruct (Nat.eq_dec k (length p)) as [->|N]; [|apply Q3; lia].
      assert (firstn (length p) q = p) by (symmetry; apply is_prefix_eq_firstn; apply is_prefix_trans with c; assumption).
      rewrite H. unfold hit_at. rewrite G. exact Hh.
Qed.

(* completeness of "nil": when the search finds nothing there is no candidate *)
Theorem dfs_none : forall ord s mbf fuel p,
  (forall l x, In x l -> In x (ord l)) -> closed (nodes s) ->
  dfs ord s mbf fuel p = None -> In p (paths (nodes s)) ->
  forall q, is_prefix p q = true -> (length q <= length p + fuel)%nat -> In q (paths (nodes s)) -> hit_at s mbf q = None.
Proof.
  intros ord s mbf fuel. induction fuel as [|f IH]; intros p Hord Cl H Hp q Hq Hlen Hin; simpl in H.
  - assert (q = p). { apply is_prefix_antisym; [|exact Hq]. pose proof (is_prefix_length _ _ Hq).
      rewrite (is_prefix_eq_firstn _ _ Hq). assert (length q = length p) by lia. rewrite <- H1. rewrite firstn_all. apply is_prefix_refl. }
    subst q. unfold hit_at. destruct (get_node (nodes s) p) as [nd|]; [|reflexivity]. destruct (node_hit s mbf nd); [discriminate|reflexivity].
  - destruct (get_node (nodes s) p) as [nd|] eqn:G.
    2:{ exfalso. apply get_node_None in G. exact (G Hp). }
    destruct (node_hit s mbf nd) eqn:Hh; [discriminate|].
    destruct (name_eq_dec q p) as [->|N]; [unfold hit_at; rewrite G; exact Hh|].
    (* q lies below the child c = firstn (S |p|) q *)
    pose proof (is_prefix_length _ _ Hq) as L.
    assert (Lq : (length p < length q)%nat).
    { destruct (Nat.eq_dec (length p) (length q)) as [E|E]; [|lia]. exfalso. apply N.
      rewrite (is_prefix_eq_firstn _ _ Hq), E. symmetry. apply firstn_all. }
    set (c := firstn (S (length p)) q).
    assert (Hc : In c (paths (nodes s))) by (apply (closed_prefix _ Cl (length q) q c eq_refl Hin); apply is_prefix_firstn).
    assert (Hcn : c <> []). { intro Z. assert (length c = 0%nat) by (rewrite Z; reflexivity). unfold c in H0. rewrite firstn_length in H0. lia. }
    assert (Hpar : parent c = p).
    { unfold c. rewrite parent_firstn_S by lia. symmetry. apply is_prefix_eq_firstn. exact Hq. }
    assert (Hcc : In c (ord (children_of (nodes s) p))) by (apply Hord; apply children_of_In; tauto).
    pose proof (first_some_None _ _ _ _ H c Hcc) as Hn.
    apply (IH c Hord Cl Hn Hc q); [apply is_prefix_firstn| |exact Hin].
    unfold c. rewrite firstn_length. lia.
Qed.

Lemma fold_max_ge : forall l a, (a <= fold_left Nat.max l a)%nat /\ forall x, In x l -> (x <= fold_left Nat.max l a)%nat.
Proof.
  induction l as [|y t IH]; intro a; simpl; [split; [lia|intros x []]|].
  destruct (IH (Nat.max a y)) as [H1 H2]. split; [lia|]. intros x [<-|Hx]; [lia|apply H2; exact Hx].
Qed.

Lemma depth_bound : forall s p, In p (paths (nodes s)) -> (length p <= depth_of s)%nat.
Proof.
  intros s p H. unfold depth_of. apply (proj2 (fold_max_ge _ 0%nat)). apply in_map_iff in H. destruct H as [nd [E Hnd]].
  apply in_map_iff. exists nd. rewrite E. tauto.
Qed.

(* cs_tree_flat_equiv *)
Theorem tree_flat_equiv : forall s n mbf ord, cs_inv s -> (forall l x, In x (ord l) <-> In x l) -> In n (paths (nodes s)) ->
  (forall fuel e, dfs ord s mbf fuel n = Some e -> In e (dfs_cands s n mbf) /\ In e (prefix_cands s n mbf)) /\
  (dfs ord s mbf (depth_of s) n = None -> prefix_cands s n mbf = []).
Proof.
  intros s n mbf ord I Hord Hn. pose proof (ci_tree s I) as [R Nd Cl]. split.
  - intros fuel e H. destruct (dfs_sound ord s mbf fuel n e (fun l x => proj1 (Hord l x)) H) as [q [Q1 [Q2 Q3]]].
    split; [apply (prefix_cands_In s n mbf e Nd); exists q; tauto|apply (wide_cands_In s n mbf e Nd); exists q; tauto].
  - intro H. destruct (prefix_cands s n mbf) as [|e t] eqn:Ec; [reflexivity|]. exfalso.
    assert (He : In e (prefix_cands s n mbf)) by (rewrite Ec; left; reflexivity).
    apply (wide_cands_In s n mbf e Nd) in He. destruct He as [q [Q1 Q2]].
    assert (Hq : In q (paths (nodes s))).
    { unfold hit_at in Q1. destruct (get_node (nodes s) q) eqn:G; [|discriminate]. apply has_node_In. unfold has_node. rewrite G. reflexivity. }
    pose proof (depth_bound s q Hq) as Lq.
    rewrite (dfs_none ord s mbf (depth_of s) n (fun l x => proj2 (Hord l x)) Cl H Hn q Q2 ltac:(lia) Hq) in Q1. discriminate.
Qed.
