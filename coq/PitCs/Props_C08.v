(* Property C08 — forwarder state is reclaimed (PIT, token map, expiry queue, PIT/CS name tree, LRU bookkeeping, dead nonce
   list).  The FIB/RIB part of the statement is proved in coq/Tables (Props_C08_tables.v, builder "tables").
   Only theorem statements closed by `exact`, each followed by Print Assumptions.

   Reading guide.  `start`, `run`, operations: as in Props_C07.v.  E s = the list of all PIT entries of state s (over all
   tree nodes).  `lifetimes_within L ops` = every Interest of the history has lifetime <= L (default 4 s when absent);
   by c08_lifetimes_exist such an L exists for every history, so the theorems speak about EVERY traffic history
   (Interests with any lifetimes, retransmissions, Data with and without PIT tokens, cache hits, evictions, capacity
   changes, any interleaving of reaper ticks and DNL sweeps).  The set of faces the strategy forwards an Interest to is
   an argument of the Interest operation, so every forwarding decision is covered. *)
From Coq Require Import List NArith ZArith Bool.
From PitCs Require Import Model Spec Lib TreeInv Cs Pit Reclaim Dnl C07 C08.
Import ListNotations.
Open Scope Z_scope.

Theorem c08_lifetimes_exist : forall ops, exists L, 0 <= L /\ lifetimes_within L ops.
Proof. exact lifetimes_exist. Qed.
Print Assumptions c08_lifetimes_exist.

(* Every PIT entry - also one created for an Interest answered from the cache - is in the expiry queue under its expiration
   time, and that time is at most the DEADLINE OF ITS KEY: `deadlines … ops (name, CanBePrefix, MustBeFresh)` is computed from
   the history alone (Reclaim.dl_run/bd_step/tighten) as the latest arrival time + lifetime among the Interests received for
   that key since its entry came into existence.  An entry with no record left (satisfied, or answered from the cache) is
   due at once.  Together with c08_reaper: the entry is gone after the first Update() at or after that deadline. *)
Theorem c08_pit_deadline : forall t0 c sv ad life ops,
  let s := run (start t0 c sv ad life) ops in
  forall e, In e (E s) -> p_q e = true /\ In (p_id e, p_exp e) (heap s) /\
                          p_exp e <= Z.max (now s) (deadlines t0 c sv ad life ops (key_of e)) /\
                          (p_ins e = [] -> p_outs e = [] -> p_exp e <= now s).
Proof. exact pit_deadline. Qed.
Print Assumptions c08_pit_deadline.

(* what a deadline is, operation by operation: an Interest for (n, cbp, mbf) arriving at `now s` with lifetime l raises the
   deadline of that key to at least now s + l and leaves the others alone; no other operation raises any deadline; a key
   whose entry is gone is reset to now *)
Theorem c08_deadline_step : forall s bd o k,
  dl_step s bd o k =
  (if has_key (fst (step s o)) k
   then match o with
        | OInterest _ n cbp mbf _ l _ => if pkey_eqb (n, cbp, mbf) k then Z.max (bd k) (now s + lifetime_of l) else bd k
        | _ => bd k
        end
   else now (fst (step s o))).
Proof. exact (fun s bd o k => match o with OInterest _ _ _ _ _ _ _ => eq_refl | _ => eq_refl end). Qed.
Print Assumptions c08_deadline_step.

(* corollary with one bound for the whole history *)
(* invariant pit_queued: every PIT entry — also one created for an Interest answered from the cache — is in the expiry
   queue under its expiration time, which is at most L past now, and is already due when no in/out record is left
   (satisfied or answered from the cache) *)
Theorem c08_pit_queued : forall t0 c sv ad life ops L, 0 <= L -> lifetimes_within L ops ->
  let s := run (start t0 c sv ad life) ops in
  forall e, In e (E s) -> p_q e = true /\ In (p_id e, p_exp e) (heap s) /\ p_exp e <= now s + L /\
                          (p_ins e = [] -> p_outs e = [] -> p_exp e <= now s).
Proof. exact pit_queued. Qed.
Print Assumptions c08_pit_queued.

(* Update() removes exactly the entries that are due and schedules the next call within 100 ms *)
Theorem c08_reaper : forall t0 c sv ad life ops,
  let s := run (start t0 c sv ad life) ops in let s' := pit_update s in
  (forall e, In e (E s') -> In e (E s) /\ now s < p_exp e) /\ now s < timer_at s' <= now s + tick_interval.
Proof. exact reaper. Qed.
Print Assumptions c08_reaper.

(* once every lifetime has elapsed, the next Update() leaves PIT, token map and expiry queue empty *)
Theorem c08_pit_drains : forall t0 c sv ad life ops L d, 0 <= L -> lifetimes_within L ops -> L <= Z.of_N d ->
  let s := run (start t0 c sv ad life) (ops ++ [OAdv d; OTick]) in
  E s = [] /\ npit s = 0 /\ tokmap s = [] /\ heap s = [].
Proof. exact drains. Qed.
Print Assumptions c08_pit_drains.

(* reported sizes are the true numbers of entries, in every reachable state *)
Theorem c08_sizes_truthful : forall t0 c sv ad life ops L, 0 <= L -> lifetimes_within L ops ->
  let s := run (start t0 c sv ad life) ops in
  npit s = Z.of_nat (length (E s)) /\ length (tokmap s) = length (E s) /\ length (heap s) = length (E s) /\
  ncs s = Z.of_nat (length (c_list (cache_of s))) /\ length (csmap s) = length (lruq s) /\ length (locs s) = length (lruq s).
Proof. exact sizes_reach. Qed.
Print Assumptions c08_sizes_truthful.

(* the PIT/CS name tree is, in every reachable state, exactly the prefix closure of the names that hold a PIT entry or a
   cached packet (no dead branch after expiry or eviction); with an empty PIT: of the cached names *)
Theorem c08_tree_is_cs_closure : forall t0 c sv ad life ops L, 0 <= L -> lifetimes_within L ops ->
  let s := run (start t0 c sv ad life) ops in
  NoDup (paths (nodes s)) /\
  (forall p, In p (paths (nodes s)) -> p <> [] -> exists q, is_prefix p q = true /\ (pit_at (nodes s) q <> [] \/ cs_at (nodes s) q <> None)) /\
  (forall q p, (pit_at (nodes s) q <> [] \/ cs_at (nodes s) q <> None) -> is_prefix p q = true -> In p (paths (nodes s))) /\
  (E s = [] -> forall p, In p (paths (nodes s)) -> p <> [] -> exists q, is_prefix p q = true /\ cs_at (nodes s) q <> None).
Proof. exact tree_is_closure. Qed.
Print Assumptions c08_tree_is_cs_closure.

(* LRU queue, locations map and csMap hold exactly the cached names *)
Theorem c08_lru_bookkeeping : forall t0 c sv ad life ops,
  let s := run (start t0 c sv ad life) ops in
  NoDup (lruq s) /\ NoDup (locs s) /\ NoDup (csmap s) /\
  forall n, (In n (lruq s) <-> cs_at (nodes s) n <> None) /\ (In n (locs s) <-> In n (lruq s)) /\ (In n (csmap s) <-> In n (lruq s)).
Proof. exact lru_bookkeeping. Qed.
Print Assumptions c08_lru_bookkeeping.

(* dead nonce records: map and queue agree, every record is due at most the configured lifetime after now ... *)
Theorem c08_dnl_wf : forall t0 c sv ad life ops,
  let s := run (start t0 c sv ad life) ops in
  length (dnl s) = length (dnlq s) /\ (forall x, In x (dnlq s) -> snd x <= now s + life).
Proof. exact dnl_wf. Qed.
Print Assumptions c08_dnl_wf.

(* ... and after that lifetime k sweeps (dnl_batch = 100 records each, translated from the code) remove min(100 k, n) records *)
Theorem c08_dnl_drains : forall t0 c sv ad life ops d k, life < Z.of_N d ->
  let s0 := run (start t0 c sv ad life) ops in
  let s := run (start t0 c sv ad life) (ops ++ [OAdv d] ++ repeat ODnl k) in
  length (dnlq s) = (length (dnlq s0) - dnl_batch * k)%nat /\ length (dnl s) = length (dnlq s).
Proof. exact dnl_drain. Qed.
Print Assumptions c08_dnl_drains.

(* the extracted dump oracle evaluated by the runner on the implementation holds on every reachable state of the model *)
Theorem c08_oracle_always : forall t0 c sv ad life ops L, 0 <= L -> lifetimes_within L ops ->
  c08_always (dump_of (run (start t0 c sv ad life) ops)) = [].
Proof. exact oracle_always_reach. Qed.
Print Assumptions c08_oracle_always.

(* quiescence in one statement: history, then longer than every Interest lifetime, a reaper tick, then longer than the
   dead-nonce lifetime and enough sweeps: everything is empty and both dump oracles accept *)
Theorem c08_quiescence : forall t0 c sv ad life ops L d1 d2 k, 0 <= L -> lifetimes_within L ops -> L <= Z.of_N d1 -> life < Z.of_N d2 ->
  let s1 := run (start t0 c sv ad life) (ops ++ [OAdv d1; OTick]) in
  (length (dnlq s1) <= dnl_batch * k)%nat ->
  let s := run (start t0 c sv ad life) ((ops ++ [OAdv d1; OTick]) ++ [OAdv d2] ++ repeat ODnl k) in
  E s = [] /\ npit s = 0 /\ tokmap s = [] /\ heap s = [] /\ dnl s = [] /\ dnlq s = [] /\
  c08_always (dump_of s) = [] /\ c08_quiescent (dump_of s) = [].
Proof. exact quiescence. Qed.
Print Assumptions c08_quiescence.

(* non-vacuity: a cached packet, an Interest answered from the cache (its PIT entry is queued and due at once), a forwarded
   Interest with a 50 ms lifetime, a Data that satisfies it; after 4 s and one tick the PIT is empty, the tree holds only
   the path to the cached packet, and after the DNL lifetime and one sweep the dead nonce list is empty *)
Example c08_example :
  let ops := [OIns [1;2]%N 7 (Some 5000000000%N); OInterest 1 [1;2]%N false false 11 None [];
              OInterest 2 [3;4;5]%N true false 12 (Some 50000000%N) [3%N]; OAdv 1000000;
              OData [3;4;5;6]%N 8 None None] in
  let s := run (start 100 1 true true 6000000000) ops in
  length (E s) = 2%nat /\ length (heap s) = 2%nat /\ c08_always (dump_of s) = [] /\
  let s' := run s [OAdv 4000000000; OTick; OAdv 6000000001; ODnl] in
  E s' = [] /\ map n_path (nodes s') = [[]; [3%N]; [3;4]%N; [3;4;5]%N; [3;4;5;6]%N] /\ dnl s' = [] /\ c08_quiescent (dump_of s') = [].
Proof. vm_compute. repeat split. Qed.
