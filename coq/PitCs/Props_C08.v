(* Property C08 — placeholder while the proofs are being written. *)
From Coq Require Import List NArith ZArith.
From PitCs Require Import Model Spec.
Import ListNotations.
Open Scope Z_scope.
Example c08_example : c08_always (dump_of (init 0 2 true true 5)) = nil.
Proof. vm_compute. reflexivity. Qed.
