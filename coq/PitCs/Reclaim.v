(* PitCs/Reclaim.v — C08: invariants of the PIT / name tree / expiry queue / token map for every history, and draining. *)
From Coq Require Import List NArith ZArith Bool Lia Permutation.
From PitCs Require Import Model Spec Lib TreeInv Cs Pit.
Import ListNotations.
Open Scope Z_scope.

Definition E (s : st) : list pite := ents (nodes s).
Definition ids (l : list pite) : list N := map p_id l.
Definition qids (l : list pite) : list N := map p_id (filter p_q l).

(* holds after every table operation *)
Record p_inv (s : st) : Prop := mk_p_inv {
  pi_cs : cs_inv s;
  pi_names : names_ok (nodes s);
  pi_ids : NoDup (ids (E s));
  pi_tok_nd : NoDup (tokmap s);
  pi_tok : forall id, In id (tokmap s) <-> In id (ids (E s));
  pi_heap_nd : NoDup (map fst (heap s));
  pi_heap : forall id, In id (map fst (heap s)) <-> In id (qids (E s));
  pi_npit : npit s = Z.of_nat (length (E s));
  pi_next : forall id, In id (ids (E s)) -> (id < next_id s)%N }.

Lemma ids_map : forall g l, (forall e, p_id (g e) = p_id e) -> ids (map g l) = ids l.
Proof. intros g l H. unfold ids. rewrite map_map. apply map_ext. exact H. Qed.

Lemma qids_map : forall g l, (forall e, p_id (g e) = p_id e) -> (forall e, p_q (g e) = p_q e) -> qids (map g l) = qids l.
Proof.
  intros g l H1 H2. unfold qids. induction l as [|e t IH]; [reflexivity|]. simpl. rewrite H2.
  destruct (p_q e); simpl; [rewrite H1; f_equal; exact IH|exact IH].
Qed.

Lemma touch_id : forall n id f e, (forall e, p_id (f e) = p_id e) -> p_id (touch n id f e) = p_id e.
Proof. intros. unfold touch. destruct (_ && _); [apply H|reflexivity]. Qed.
Lemma touch_q : forall n id f e, (forall e, p_q (f e) = p_q e) -> p_q (touch n id f e) = p_q e.
Proof. intros. unfold touch. destruct (_ && _); [apply H|reflexivity]. Qed.
Lemma touch_other : forall n id f e, p_id e <> id -> touch n id f e = e.
Proof. intros. unfold touch. apply N.eqb_neq in H. rewrite H. reflexivity. Qed.

Lemma qids_In : forall l id, In id (qids l) <-> exists e, In e l /\ p_id e = id /\ p_q e = true.
Proof.
  intros l id. unfold qids. rewrite in_map_iff. split.
  - intros [e [H1 H2]]. apply filter_In in H2. exists e. tauto.
  - intros [e [H1 [H2 H3]]]. exists e. split; [exact H2|]. apply filter_In. tauto.
Qed.

(* an update of one entry that keeps its identity, name and queue flag *)
Lemma touch_pinv : forall s n id f, p_inv s ->
  (forall e, p_id (f e) = p_id e) -> (forall e, p_name (f e) = p_name e) -> (forall e, p_q (f e) = p_q e) ->
  p_inv (set_nodes s (upd_entry (nodes s) n id f)).
Proof.
  intros s n id f [C Nm I Tn T Hn H P X] F1 F2 F3.
  assert (HE : E (set_nodes s (upd_entry (nodes s) n id f)) = map (touch n id f) (E s)).
  { unfold E. simpl. apply ents_upd_entry. exact Nm. }
  split; simpl.
  - eapply frame_inv; [exact C|apply fr_upd_entry; apply (ci_tree s C)].
  - apply names_ok_upd_entry; assumption.
  - rewrite HE, ids_map by (intro; apply touch_id; exact F1). exact I.
  - exact Tn.
  - intro x. rewrite HE, ids_map by (intro; apply touch_id; exact F1). apply T.
  - exact Hn.
  - intro x. rewrite HE, qids_map by (intro; first [apply touch_id; exact F1|apply touch_q; exact F3]). apply H.
  - rewrite HE, map_length. exact P.
  - intro x. rewrite HE, ids_map by (intro; apply touch_id; exact F1). apply X.
Qed.

(* operations on the dead nonce list, the timer, etc. *)
Lemma pinv_same : forall s s', p_inv s -> cs_inv s' -> nodes s' = nodes s -> tokmap s' = tokmap s -> heap s' = heap s ->
  npit s' = npit s -> next_id s' = next_id s -> p_inv s'.
Proof.
  intros s s' [C Nm I Tn T Hn H P X] C' E1 E2 E3 E4 E5. unfold E in *.
  split; rewrite ?E1, ?E2, ?E3, ?E4, ?E5; unfold E; rewrite ?E1; assumption.
Qed.

Lemma dnl_insert_pinv : forall s k, p_inv s -> p_inv (dnl_insert s k).
Proof.
  intros s k P. apply pinv_same with s; try exact P.
  - eapply frame_inv; [apply (pi_cs s P)|apply fr_dnl_insert; apply (ci_tree s (pi_cs s P))].
  - unfold dnl_insert. destruct (dnl_mem k (dnl s)); reflexivity.
  - unfold dnl_insert. destruct (dnl_mem k (dnl s)); reflexivity.
  - unfold dnl_insert. destruct (dnl_mem k (dnl s)); reflexivity.
  - unfold dnl_insert. destruct (dnl_mem k (dnl s)); reflexivity.
  - unfold dnl_insert. destruct (dnl_mem k (dnl s)); reflexivity.
Qed.

Lemma dnl_insert_fields : forall s k, nodes (dnl_insert s k) = nodes s /\ heap (dnl_insert s k) = heap s /\ now (dnl_insert s k) = now s
  /\ tokmap (dnl_insert s k) = tokmap s /\ npit (dnl_insert s k) = npit s /\ timer_at (dnl_insert s k) = timer_at s
  /\ dnl_life (dnl_insert s k) = dnl_life s.
Proof. intros. unfold dnl_insert. destruct (dnl_mem k (dnl s)); repeat split; reflexivity. Qed.

Lemma fold_dnl_insert_fields : forall A (g : A -> name * N) l s,
  let s' := fold_left (fun s o => dnl_insert s (g o)) l s in
  nodes s' = nodes s /\ heap s' = heap s /\ now s' = now s /\ tokmap s' = tokmap s /\ npit s' = npit s /\ timer_at s' = timer_at s
  /\ dnl_life s' = dnl_life s.
Proof.
  intros A g l. induction l as [|x t IH]; intros s; simpl; [repeat split; reflexivity|].
  specialize (IH (dnl_insert s (g x))). cbv zeta in IH. destruct (dnl_insert_fields s (g x)) as [A1 [A2 [A3 [A4 [A5 [A6 A7]]]]]].
  destruct IH as [B1 [B2 [B3 [B4 [B5 [B6 B7]]]]]]. repeat split; congruence.
Qed.

Lemma fold_dnl_insert_pinv : forall A (g : A -> name * N) l s, p_inv s -> p_inv (fold_left (fun s o => dnl_insert s (g o)) l s).
Proof. intros A g l. induction l as [|x t IH]; intros s P; simpl; [exact P|]. apply IH. apply dnl_insert_pinv. exact P. Qed.

(* ---- the expiry queue ---- *)
Lemma heap_set_keys : forall h id pr, map fst (heap_set h id pr) = map fst h.
Proof.
  induction h as [|x t IH]; simpl; intros id pr; [reflexivity|].
  destruct (N.eqb (fst x) id) eqn:E; simpl; [apply N.eqb_eq in E; rewrite E; reflexivity|f_equal; apply IH].
Qed.

Lemma heap_set_other : forall h id pr x p, x <> id -> (In (x, p) (heap_set h id pr) <-> In (x, p) h).
Proof.
  induction h as [|y t IH]; simpl; intros id pr x p H; [tauto|].
  destruct (N.eqb (fst y) id) eqn:E; simpl.
  - apply N.eqb_eq in E. split; intros [H1|H1]; try (right; exact H1).
    + inversion H1; congruence.
    + destruct y as [a b]. simpl in E. inversion H1; congruence.
  - rewrite IH by exact H. tauto.
Qed.

Lemma heap_set_in : forall h id pr, In id (map fst h) -> In (id, pr) (heap_set h id pr).
Proof.
  induction h as [|y t IH]; simpl; intros id pr H; [destruct H|].
  destruct (N.eqb (fst y) id) eqn:E; simpl; [left; reflexivity|].
  right. apply IH. destruct H as [H|H]; [apply N.eqb_neq in E; congruence|exact H].
Qed.

Lemma get_entry_none_touch : forall l n id f, NoDup (paths l) -> names_ok l -> get_entry l n id = None ->
  map (touch n id f) (ents l) = ents l.
Proof.
  intros l n id f Nd Hn G. rewrite <- (map_id (ents l)) at 2. apply map_ext_in. intros e He. unfold touch.
  destruct (N.eqb (p_id e) id && name_eqb (p_name e) n) eqn:C; [|reflexivity]. exfalso.
  apply andb_true_iff in C. destruct C as [C1 C2]. apply name_eqb_eq in C2.
  apply ents_In in He. destruct He as [nd [H1 H2]]. unfold get_entry in G.
  assert (Pn : n_path nd = n) by (rewrite <- (Hn nd e H1 H2); exact C2).
  pose proof (In_get_node l nd Nd H1) as Gn. rewrite Pn in Gn. rewrite Gn in G.
  pose proof (find_none _ _ G e H2) as F. simpl in F. congruence.
Qed.

Lemma get_entry_some_unique : forall l n id e x, NoDup (paths l) -> names_ok l -> NoDup (ids (ents l)) ->
  get_entry l n id = Some e -> In x (ents l) -> p_id x = id -> x = e.
Proof.
  intros l n id e x Nd Hn I G Hx Hid. destruct (get_entry_In l n id e G) as [He [Hi _]].
  apply (NoDup_map_eq _ _ p_id (ents l)); [exact I|exact Hx|exact He|congruence].
Qed.

Lemma qids_touch_q : forall n id t l x,
  In x (qids (map (touch n id (fun e => set_q (set_exp e t) true)) l)) <->
  In x (qids l) \/ (x = id /\ exists e, In e l /\ p_id e = id /\ p_name e = n).
Proof.
  intros n id t l x. rewrite !qids_In. split.
  - intros [e' [H1 [H2 H3]]]. apply in_map_iff in H1. destruct H1 as [e [E1 E2]]. subst e'. unfold touch in *.
    destruct (N.eqb (p_id e) id && name_eqb (p_name e) n) eqn:C.
    + apply andb_true_iff in C. destruct C as [C1 C2]. apply N.eqb_eq in C1. apply name_eqb_eq in C2. simpl in H2.
      right. split; [congruence|]. exists e. tauto.
    + left. exists e. tauto.
  - intros [[e [H1 [H2 H3]]]|[-> [e [H1 [H2 H3]]]]].
    + exists (touch n id (fun e0 => set_q (set_exp e0 t) true) e). split; [apply in_map; exact H1|].
      unfold touch. destruct (_ && _); simpl; tauto.
    + exists (touch n id (fun e0 => set_q (set_exp e0 t) true) e). split; [apply in_map; exact H1|].
      unfold touch. rewrite H2, H3, N.eqb_refl, name_eqb_refl. simpl. tauto.
Qed.

Definition sched_f (t : Z) (e : pite) : pite := set_q (set_exp e t) true.

Lemma schedule_spec : forall s n id t, p_inv s ->
  let s' := schedule s n id t in
  p_inv s' /\ E s' = map (touch n id (sched_f t)) (E s) /\
  (forall x p, x <> id -> (In (x, p) (heap s') <-> In (x, p) (heap s))) /\
  (get_entry (nodes s) n id <> None -> In (id, t) (heap s')) /\
  now s' = now s /\ dnl s' = dnl s /\ dnlq s' = dnlq s /\ dnl_life s' = dnl_life s /\ timer_at s' = timer_at s /\ next_id s' = next_id s.
Proof.
  intros s n id t P. pose proof P as [C Nm I Tn T Hn H Pn X]. cbv zeta. unfold schedule.
  pose proof (ci_tree s C) as Tr.
  destruct (get_entry (nodes s) n id) as [e|] eqn:G.
  2:{ split; [exact P|]. split; [unfold E; symmetry; apply get_entry_none_touch; [apply (t_nodup _ Tr)|exact Nm|exact G]|].
      split; [tauto|]. split; [congruence|repeat split; reflexivity]. }
  set (s1 := set_nodes s (upd_entry (nodes s) n id (fun e0 => set_q (set_exp e0 t) true))).
  assert (HE : E s1 = map (touch n id (sched_f t)) (E s)) by (unfold E, s1; simpl; apply ents_upd_entry; exact Nm).
  destruct (get_entry_In _ _ _ _ G) as [He [Hid [nd [Gn Hnd]]]].
  assert (Hname : p_name e = n).
  { rewrite (Nm nd e (get_node_In _ _ _ Gn) Hnd). eapply get_node_path. exact Gn. }
  assert (Hq : forall x, In x (qids (E s1)) <-> In x (qids (E s)) \/ x = id).
  { intro x. rewrite HE. unfold sched_f. rewrite qids_touch_q. split; [tauto|]. intros [Hx| ->]; [tauto|].
    right. split; [reflexivity|]. exists e. tauto. }
  assert (C1 : cs_inv s1) by (eapply frame_inv; [exact C|apply fr_upd_entry; exact Tr]).
  assert (Base : names_ok (nodes s1) /\ NoDup (ids (E s1)) /\ (forall x, In x (tokmap s) <-> In x (ids (E s1))) /\
                 npit s = Z.of_nat (length (E s1)) /\ (forall x, In x (ids (E s1)) -> (x < next_id s)%N)).
  { split; [apply names_ok_upd_entry; [exact Nm|intro; reflexivity]|].
    rewrite HE, ids_map by (intro; apply touch_id; intro; reflexivity). rewrite map_length. tauto. }
  destruct Base as [B1 [B2 [B3 [B4 B5]]]].
  destruct (p_q e) eqn:Q.
  - (* already queued: priority updated in place *)
    assert (Hin : In id (map fst (heap s))) by (apply H; apply qids_In; exists e; tauto).
    split; [|split; [exact HE|split; [|split; [|repeat split; reflexivity]]]].
    + split; simpl; try assumption.
      * eapply frame_inv; [exact C1|apply fr_heap; apply (ci_tree s1 C1)].
      * rewrite heap_set_keys. exact Hn.
      * intro x. rewrite heap_set_keys. fold (E s1). rewrite Hq, H. split; [tauto|]. intros [Hx| ->]; [exact Hx|apply H; exact Hin].
    + intros x p Hx. simpl. apply heap_set_other. exact Hx.
    + intros _. simpl. apply heap_set_in. exact Hin.
  - (* not yet queued: pushed *)
    assert (Hnin : ~ In id (map fst (heap s))).
    { rewrite H, qids_In. intros [x [X1 [X2 X3]]].
      assert (x = e) by (apply (get_entry_some_unique (nodes s) n id e x (t_nodup _ Tr) Nm I G X1 X2)). subst x. congruence. }
    split; [|split; [exact HE|split; [|split; [|repeat split; reflexivity]]]].
    + split; simpl; try assumption.
      * eapply frame_inv; [exact C1|apply fr_heap; apply (ci_tree s1 C1)].
      * rewrite map_app. simpl. apply NoDup_app_intro; [exact Hn|constructor; [simpl; tauto|constructor]|].
        intros x H1 [<-|[]]. exact (Hnin H1).
      * intro x. rewrite map_app, in_app_iff. simpl. fold (E s1). rewrite Hq, H. split; [intros [Hx|[Hx|[]]]; [tauto|right; congruence]|].
        intros [Hx| ->]; [tauto|right; left; reflexivity].
    + intros x p Hx. simpl. rewrite in_app_iff. simpl. split; [intros [H1|[H1|[]]]; [exact H1|inversion H1; congruence]|tauto].
    + intros _. simpl. apply in_or_app. right. left. reflexivity.
Qed.

(* ---- no dead branch under entry updates ---- *)
Lemma busy_upd : forall l p f q, (forall nd, n_path (f nd) = n_path nd) ->
  (forall nd, node_idle nd = false -> node_idle (f nd) = false) -> busy l q -> busy (upd_node l p f) q.
Proof.
  intros l p f q Hf Hb [nd [G I]]. unfold busy. rewrite get_node_upd by exact Hf. rewrite G.
  destruct (name_eqb p q); [exists (f nd); split; [reflexivity|apply Hb; exact I]|exists nd; split; [reflexivity|exact I]].
Qed.

Lemma no_dead_upd : forall l p f, (forall nd, n_path (f nd) = n_path nd) ->
  (forall nd, node_idle nd = false -> node_idle (f nd) = false) -> no_dead l -> no_dead (upd_node l p f).
Proof.
  intros l p f Hf Hb ND q Hq Hn. rewrite paths_upd in Hq by exact Hf. destruct (ND q Hq Hn) as [d [D1 D2]].
  exists d. split; [exact D1|apply busy_upd; assumption].
Qed.

Lemma idle_map : forall nd g, node_idle (mknode (n_path nd) (map g (n_pit nd)) (n_cs nd)) = node_idle nd.
Proof. intros nd g. unfold node_idle. simpl. destruct (n_pit nd); reflexivity. Qed.

Lemma no_dead_upd_entry : forall l n id f, no_dead l -> no_dead (upd_entry l n id f).
Proof.
  intros l n id f ND. unfold upd_entry. apply no_dead_upd; [intro; reflexivity| |exact ND].
  intros nd H. rewrite idle_map. exact H.
Qed.

Lemma perm_insert_mid : forall A (a m b : list A) (e : A), Permutation (a ++ (m ++ [e]) ++ b) (e :: a ++ m ++ b).
Proof.
  intros A a m b e. rewrite <- app_assoc. simpl.
  apply Permutation_sym. apply Permutation_trans with (a ++ e :: m ++ b); [apply Permutation_middle|].
  apply Permutation_app_head. apply Permutation_trans with (m ++ e :: b); [apply Permutation_middle|]. apply Permutation_refl.
Qed.

Lemma qids_perm : forall l l', Permutation l l' -> Permutation (qids l) (qids l').
Proof.
  intros l l' H. unfold qids. apply Permutation_map. induction H; simpl.
  - constructor.
  - destruct (p_q x); [constructor|]; exact IHPermutation.
  - destruct (p_q x); destruct (p_q y); simpl; try (apply perm_swap); try (apply perm_skip); apply Permutation_refl.
  - eapply Permutation_trans; eassumption.
Qed.

Definition new_entry (id : N) (n : name) (cbp mbf : bool) : pite := mkpit id n cbp mbf [] [] 0 false false.

Lemma find_map_id : forall id f L, (forall e, p_id (f e) = p_id e) ->
  find (fun e => N.eqb (p_id e) id) (map (fun e => if N.eqb (p_id e) id then f e else e) L) =
  option_map f (find (fun e => N.eqb (p_id e) id) L).
Proof.
  intros id f L Hf. induction L as [|e t IH]; [reflexivity|]. simpl.
  destruct (N.eqb (p_id e) id) eqn:E; simpl; [rewrite Hf, E; reflexivity|rewrite E; exact IH].
Qed.

Lemma get_entry_upd : forall l n id f, (forall e, p_id (f e) = p_id e) ->
  get_entry (upd_entry l n id f) n id = option_map f (get_entry l n id).
Proof.
  intros l n id f Hf. unfold get_entry, upd_entry. rewrite get_node_upd by (intro; reflexivity). rewrite name_eqb_refl.
  destruct (get_node l n) as [nd|]; [|reflexivity]. simpl. apply find_map_id. exact Hf.
Qed.

Lemma get_entry_exists : forall l n nd e, get_node l n = Some nd -> In e (n_pit nd) -> exists e', get_entry l n (p_id e) = Some e'.
Proof.
  intros l n nd e G H. unfold get_entry. rewrite G.
  destruct (find (fun e0 => N.eqb (p_id e0) (p_id e)) (n_pit nd)) eqn:F; [eexists; reflexivity|].
  pose proof (find_none _ _ F e H) as Hx. simpl in Hx. rewrite N.eqb_refl in Hx. discriminate.
Qed.

Lemma insert_interest_spec : forall s n cbp mbf nonce face, p_inv s -> no_dead (nodes s) ->
  let r := insert_interest s n cbp mbf nonce face in
  let s' := fst (fst r) in let id := snd (fst r) in
  p_inv s' /\ no_dead (nodes s') /\ heap s' = heap s /\ now s' = now s /\ dnl s' = dnl s /\ dnlq s' = dnlq s /\
  dnl_life s' = dnl_life s /\ timer_at s' = timer_at s /\
  (exists e, get_entry (nodes s') n id = Some e /\ p_cbp e = cbp /\ p_mbf e = mbf) /\
  ((In id (ids (E s)) /\ (snd r = true -> E s' = E s) /\ (snd r = false -> E s' = map (touch n id (fun e => set_exp e 0)) (E s)))
   \/ (~ In id (ids (E s)) /\ snd r = false /\ Permutation (E s') (new_entry id n cbp mbf :: E s))).
Proof.
  intros s n cbp mbf nonce face P ND. pose proof P as [C Nm I Tn T Hn H Pn X]. cbv zeta. unfold insert_interest.
  pose proof (ci_tree s C) as Tr.
  set (l1 := fill (nodes s) n).
  assert (T1 : tree_ok l1) by (apply fill_ok; exact Tr).
  assert (E1 : ents l1 = ents (nodes s)) by apply ents_fill.
  assert (N1 : names_ok l1) by (apply names_ok_fill; exact Nm).
  assert (Hn1 : In n (paths l1)) by (apply fill_has; exact Tr).
  assert (NDx : no_dead_except l1 n) by (apply fill_no_dead_except; exact ND).
  destruct (get_node l1 n) as [nd|] eqn:G1.
  2:{ exfalso. apply get_node_None in G1. exact (G1 Hn1). }
  assert (C1 : cs_inv (set_nodes s l1)) by (eapply frame_inv; [exact C|apply fr_nodes; [exact T1|intro; apply cs_at_fill]]).
  assert (P1 : p_inv (set_nodes s l1)).
  { split; simpl; try assumption; unfold E; simpl; rewrite ?E1; assumption. }
  destruct (find (fun e => Bool.eqb (p_cbp e) cbp && Bool.eqb (p_mbf e) mbf) (n_pit nd)) as [e|] eqn:F.
  - (* an entry exists *)
    apply find_some in F. destruct F as [F1 F2]. apply andb_true_iff in F2. destruct F2 as [Fc Fm].
    apply Bool.eqb_prop in Fc. apply Bool.eqb_prop in Fm.
    assert (Bn : busy l1 n).
    { exists nd. split; [exact G1|]. apply node_idle_false. left. intro Z. rewrite Z in F1. destruct F1. }
    assert (ND1 : no_dead l1) by (eapply no_dead_after_busy; eassumption).
    assert (Hin : In e (ents l1)) by (apply ents_In; exists nd; split; [eapply get_node_In; exact G1|exact F1]).
    assert (Hid : In (p_id e) (ids (E s))) by (unfold E; rewrite <- E1; apply in_map; exact Hin).
    destruct (get_entry_exists l1 n nd e G1 F1) as [e' Ge'].
    assert (e' = e).
    { destruct (get_entry_In _ _ _ _ Ge') as [H1 [H2 _]].
      apply (NoDup_map_eq _ _ p_id (ents l1)); [rewrite E1; exact I|exact H1|exact Hin|exact H2]. }
    subst e'.
    destruct (existsb _ (p_ins e)); simpl.
    + split; [exact P1|]. split; [exact ND1|]. repeat (split; [reflexivity|]).
      split; [exists e; tauto|]. left. split; [exact Hid|]. split; [intros _; unfold E; simpl; exact E1|discriminate].
    + split.
      { pose proof (touch_pinv (set_nodes s l1) n (p_id e) (fun e0 => set_exp e0 0) P1 (fun _ => eq_refl) (fun _ => eq_refl) (fun _ => eq_refl)) as P2.
        exact P2. }
      split; [apply no_dead_upd_entry; exact ND1|]. repeat (split; [reflexivity|]).
      split; [rewrite get_entry_upd by (intro; reflexivity); rewrite Ge'; eexists; split; [reflexivity|simpl; tauto]|].
      left. split; [exact Hid|]. split; [discriminate|]. intros _. unfold E. simpl. rewrite ents_upd_entry by exact N1. rewrite E1. reflexivity.
  - (* a new entry is created *)
    set (id := next_id s). set (e := mkpit id n cbp mbf [] [] 0 false false).
    set (l2 := upd_node l1 n (fun nd0 => mknode (n_path nd0) (n_pit nd0 ++ [e]) (n_cs nd0))).
    simpl.
    destruct (ents_upd_node l1 n nd (fun nd0 => mknode (n_path nd0) (n_pit nd0 ++ [e]) (n_cs nd0)) (t_nodup _ T1) G1 (fun _ => eq_refl)) as [a [b [Ea Eb]]].
    fold l2 in Eb. simpl in Eb.
    assert (Pm : Permutation (ents l2) (e :: ents (nodes s))).
    { rewrite Eb, <- E1, Ea. apply perm_insert_mid. }
    assert (Hfresh : ~ In id (ids (E s))) by (intro Hc; apply X in Hc; unfold id in Hc; lia).
    assert (T2 : tree_ok l2) by (apply upd_ok; [intro; reflexivity|exact T1]).
    assert (G2 : get_node l2 n = Some (mknode (n_path nd) (n_pit nd ++ [e]) (n_cs nd))).
    { unfold l2. rewrite get_node_upd by (intro; reflexivity). rewrite name_eqb_refl, G1. reflexivity. }
    assert (Pids : Permutation (ids (ents l2)) (id :: ids (E s))) by (apply (Permutation_map p_id) in Pm; exact Pm).
    split.
    { split; simpl.
      - eapply frame_inv; [exact C1|].
        eapply cs_frame_trans; [apply fr_nodes with (l' := l2); [exact T2|]|].
        + intro m. unfold l2. apply cs_at_upd_keep; intros; reflexivity.
        + eapply cs_frame_trans; [apply fr_npit; exact T2|]. eapply cs_frame_trans; [apply fr_tokmap; exact T2|apply fr_next_id; exact T2].
      - unfold l2. apply names_ok_upd_node; [exact N1|intro; reflexivity|].
        intros x y Hx Px Hy. simpl in Hy. apply in_app_or in Hy. destruct Hy as [Hy|[<-|[]]]; [|reflexivity].
        rewrite <- Px. apply N1; assumption.
      - unfold E. simpl. eapply Permutation_NoDup; [apply Permutation_sym; exact Pids|]. constructor; assumption.
      - apply NoDup_app_intro; [exact Tn|constructor; [simpl; tauto|constructor]|].
        intros x H1 [<-|[]]. apply T in H1. exact (Hfresh H1).
      - intro x. unfold E. simpl. rewrite in_app_iff. simpl. rewrite (T x).
        split; [intros [Hx|[<-|[]]]; eapply Permutation_in; try (apply Permutation_sym; exact Pids); [right; exact Hx|left; reflexivity]|].
        intro Hx. apply (Permutation_in _ Pids) in Hx. destruct Hx as [<-|Hx]; [right; left; reflexivity|left; exact Hx].
      - exact Hn.
      - intro x. unfold E. simpl. rewrite H. pose proof (qids_perm _ _ Pm) as Pq. simpl in Pq.
        split; intro Hx; [eapply Permutation_in; [apply Permutation_sym; exact Pq|exact Hx]|eapply Permutation_in; [exact Pq|exact Hx]].
      - unfold E. simpl. rewrite (Permutation_length Pm). simpl. unfold E in Pn. lia.
      - intros x Hx. unfold E in Hx. simpl in Hx. apply (Permutation_in _ Pids) in Hx. destruct Hx as [<-|Hx]; [unfold id; lia|apply X in Hx; lia]. }
    split.
    { simpl. apply no_dead_after_busy with n.
      - unfold l2. apply no_dead_except_upd; [intro; reflexivity| |exact NDx].
        intros x Hx. apply node_idle_false. apply node_idle_false in Hx. simpl. destruct Hx as [Hx|Hx]; [left|right; exact Hx].
        intro Z. apply app_eq_nil in Z. destruct Z as [_ Z]. discriminate.
      - eexists. split; [exact G2|]. apply node_idle_false. left. simpl. intro Z. apply app_eq_nil in Z. destruct Z as [_ Z]. discriminate. }
    repeat (split; [reflexivity|]).
    split.
    { unfold get_entry. rewrite G2. simpl. exists e. split; [|split; reflexivity].
      assert (Hno : forall x, In x (n_pit nd) -> N.eqb (p_id x) id = false).
      { intros x Hx. apply N.eqb_neq. intro Ex. apply Hfresh. rewrite <- Ex. unfold E. rewrite <- E1. apply in_map.
        apply ents_In. exists nd. split; [eapply get_node_In; exact G1|exact Hx]. }
      clear - Hno. induction (n_pit nd) as [|x t IHt]; simpl; [rewrite N.eqb_refl; reflexivity|].
      rewrite (Hno x (or_introl eq_refl)). apply IHt. intros y Hy. apply Hno. right. exact Hy. }
    right. split; [exact Hfresh|]. split; [reflexivity|exact Pm].
Qed.

(* ---- the part of the invariant that does not mention the expiry queue ---- *)
Record pw_inv (s : st) : Prop := mk_pw_inv {
  pw_cs : cs_inv s;
  pw_names : names_ok (nodes s);
  pw_ids : NoDup (ids (E s));
  pw_tok_nd : NoDup (tokmap s);
  pw_tok : forall id, In id (tokmap s) <-> In id (ids (E s));
  pw_npit : npit s = Z.of_nat (length (E s));
  pw_next : forall id, In id (ids (E s)) -> (id < next_id s)%N }.

Definition heap_ok (s : st) : Prop :=
  NoDup (map fst (heap s)) /\ forall id, In id (map fst (heap s)) <-> In id (qids (E s)).

Lemma p_inv_split : forall s, p_inv s <-> pw_inv s /\ heap_ok s.
Proof.
  intro s. split.
  - intros [C Nm I Tn T Hn H Pn X]. split; [split; assumption|split; assumption].
  - intros [[C Nm I Tn T Pn X] [Hn H]]. split; assumption.
Qed.

Lemma touch_pwinv : forall s n id f, pw_inv s ->
  (forall e, p_id (f e) = p_id e) -> (forall e, p_name (f e) = p_name e) ->
  pw_inv (set_nodes s (upd_entry (nodes s) n id f)) /\
  E (set_nodes s (upd_entry (nodes s) n id f)) = map (touch n id f) (E s).
Proof.
  intros s n id f [C Nm I Tn T P X] F1 F2.
  assert (HE : E (set_nodes s (upd_entry (nodes s) n id f)) = map (touch n id f) (E s)).
  { unfold E. simpl. apply ents_upd_entry. exact Nm. }
  split; [|exact HE]. split; simpl.
  - eapply frame_inv; [exact C|apply fr_upd_entry; apply (ci_tree s C)].
  - apply names_ok_upd_entry; assumption.
  - rewrite HE, ids_map by (intro; apply touch_id; exact F1). exact I.
  - exact Tn.
  - intro x. rewrite HE, ids_map by (intro; apply touch_id; exact F1). apply T.
  - rewrite HE, map_length. exact P.
  - intro x. rewrite HE, ids_map by (intro; apply touch_id; exact F1). apply X.
Qed.

Lemma pwinv_same : forall s s', pw_inv s -> cs_inv s' -> nodes s' = nodes s -> tokmap s' = tokmap s ->
  npit s' = npit s -> next_id s' = next_id s -> pw_inv s'.
Proof.
  intros s s' [C Nm I Tn T P X] C' E1 E2 E4 E5. unfold E in *.
  split; rewrite ?E1, ?E2, ?E4, ?E5; unfold E; rewrite ?E1; assumption.
Qed.

(* ---- RemoveInterest ---- *)
Lemma swap_del_perm : forall L id, (exists e, In e L /\ p_id e = id) ->
  exists x, In x L /\ p_id x = id /\ Permutation L (x :: swap_del L id).
Proof.
  induction L as [|y t IH]; intros id [e [H1 H2]]; [destruct H1|]. simpl.
  destruct (N.eqb (p_id y) id) eqn:Ey.
  - apply N.eqb_eq in Ey. exists y. split; [left; reflexivity|]. split; [exact Ey|].
    destruct t as [|z t']; [apply Permutation_refl|]. apply perm_skip.
    assert (z :: t' <> []) by discriminate.
    rewrite (app_removelast_last y H) at 1. apply Permutation_sym. apply Permutation_cons_append.
  - destruct H1 as [->|H1]; [apply N.eqb_neq in Ey; congruence|].
    destruct (IH id (ex_intro _ e (conj H1 H2))) as [x [X1 [X2 X3]]].
    exists x. split; [right; exact X1|]. split; [exact X2|].
    apply Permutation_trans with (y :: x :: swap_del t id); [apply perm_skip; exact X3|apply perm_swap].
Qed.

Lemma perm_mid3 : forall A (a m m' b : list A) (x : A), Permutation m (x :: m') -> Permutation (a ++ m ++ b) (x :: a ++ m' ++ b).
Proof.
  intros A a m m' b x H. apply Permutation_trans with (a ++ (x :: m') ++ b).
  - apply Permutation_app_head. apply Permutation_app_tail. exact H.
  - simpl. apply Permutation_sym. apply Permutation_middle.
Qed.

Lemma remove_interest_spec : forall s e e0, pw_inv s -> no_dead (nodes s) ->
  In e0 (E s) -> p_id e0 = p_id e -> p_name e0 = p_name e ->
  let s' := remove_interest s e in
  pw_inv s' /\ no_dead (nodes s') /\ Permutation (E s) (e0 :: E s') /\ heap s' = heap s /\ now s' = now s /\
  dnl s' = dnl s /\ dnlq s' = dnlq s /\ dnl_life s' = dnl_life s /\ timer_at s' = timer_at s.
Proof.
  intros s e e0 P ND H0 Hid Hname. pose proof P as [C Nm I Tn T Pn X]. cbv zeta.
  pose proof (ci_tree s C) as Tr. unfold remove_interest.
  apply ents_In in H0. destruct H0 as [nd [Hnd He0]].
  assert (Pnd : n_path nd = p_name e) by (rewrite <- Hname; symmetry; apply Nm; assumption).
  pose proof (In_get_node _ _ (t_nodup _ Tr) Hnd) as G. rewrite Pnd in G. rewrite G.
  replace (existsb (fun x => N.eqb (p_id x) (p_id e)) (n_pit nd)) with true.
  2:{ symmetry. apply existsb_exists. exists e0. split; [exact He0|apply N.eqb_eq; exact Hid]. }
  set (fsw := fun nd0 => mknode (n_path nd0) (swap_del (n_pit nd0) (p_id e)) (n_cs nd0)).
  set (l1 := upd_node (nodes s) (p_name e) fsw).
  destruct (ents_upd_node (nodes s) (p_name e) nd fsw (t_nodup _ Tr) G (fun _ => eq_refl)) as [a [b [Ea Eb]]].
  fold l1 in Eb. simpl in Eb.
  destruct (swap_del_perm (n_pit nd) (p_id e) (ex_intro _ e0 (conj He0 Hid))) as [x [X1 [X2 X3]]].
  assert (x = e0).
  { apply (NoDup_map_eq _ _ p_id (E s)); [exact I| |apply ents_In; exists nd; tauto|congruence].
    apply ents_In. exists nd. tauto. }
  subst x.
  assert (Pm1 : Permutation (ents (nodes s)) (e0 :: ents l1)) by (rewrite Ea, Eb; apply perm_mid3; exact X3).
  assert (T1 : tree_ok l1) by (apply upd_ok; [intro; reflexivity|exact Tr]).
  assert (G1 : get_node l1 (p_name e) = Some (fsw nd)).
  { unfold l1. rewrite get_node_upd by (intro; reflexivity). rewrite name_eqb_refl, G. reflexivity. }
  assert (N1 : names_ok l1).
  { unfold l1. apply names_ok_upd_node; [exact Nm|intro; reflexivity|].
    intros y z Hy Py Hz. simpl in Hz. rewrite <- Py. apply Nm; [exact Hy|].
    assert (Hsub : forall L, In z (swap_del L (p_id e)) -> In z L).
    { induction L as [|u t IHL]; simpl; [tauto|]. destruct (N.eqb (p_id u) (p_id e)).
      - destruct t as [|v t']; [tauto|]. intro Hq. right.
        assert (v :: t' <> []) by discriminate. rewrite (app_removelast_last u H). apply in_or_app.
        destruct Hq as [<-|Hq]; [right; left; reflexivity|left; exact Hq].
      - intros [<-|Hq]; [left; reflexivity|right; apply IHL; exact Hq]. }
    apply Hsub. exact Hz. }
  assert (NDx : no_dead_except l1 (p_name e)).
  { intros q Hq Hqn. unfold l1 in Hq. rewrite paths_upd in Hq by (intro; reflexivity).
    destruct (ND q Hq Hqn) as [d [D1 [dn [Gd Id]]]].
    destruct (name_eq_dec d (p_name e)) as [->|Nd]; [right; exact D1|].
    left. exists d. split; [exact D1|]. exists dn. split; [|exact Id]. unfold l1. rewrite get_node_upd by (intro; reflexivity).
    destruct (name_eqb (p_name e) d) eqn:Ed; [apply name_eqb_eq in Ed; congruence|exact Gd]. }
  match goal with |- pw_inv (set_tokmap (set_npit (set_nodes s ?L2) _) _) /\ _ => set (l2 := L2) end.
  assert (K : tree_ok l2 /\ names_ok l2 /\ ents l2 = ents l1 /\ no_dead l2 /\ forall m, cs_at l2 m = cs_at (nodes s) m).
  { unfold l2. rewrite G1. simpl.
    assert (Cs1 : forall m, cs_at l1 m = cs_at (nodes s) m) by (intro; unfold l1; apply cs_at_upd_keep; intros; reflexivity).
    destruct (is_nil (swap_del (n_pit nd) (p_id e))) eqn:Emp.
    - split; [apply prune_ok; exact T1|]. split; [apply names_ok_prune; exact N1|]. split; [apply ents_prune; apply (t_nodup _ T1)|].
      split; [apply prune_no_dead; [exact T1| |exact NDx]|intro m; rewrite cs_at_prune; apply Cs1].
      apply has_node_In. unfold has_node. rewrite G1. reflexivity.
    - split; [exact T1|]. split; [exact N1|]. split; [reflexivity|]. split; [|exact Cs1].
      apply no_dead_after_busy with (p_name e); [exact NDx|]. exists (fsw nd). split; [exact G1|].
      apply node_idle_false. left. simpl. intro Z. rewrite Z in Emp. discriminate. }
  destruct K as [T2 [N2 [E2 [ND2 Cs2]]]].
  assert (Pm : Permutation (E s) (e0 :: ents l2)) by (unfold E; rewrite E2; exact Pm1).
  assert (Pids : Permutation (ids (E s)) (p_id e0 :: ids (ents l2))) by (apply (Permutation_map p_id) in Pm; exact Pm).
  assert (Nd2 : NoDup (p_id e0 :: ids (ents l2))) by (eapply Permutation_NoDup; [exact Pids|exact I]).
  inversion Nd2 as [|? ? Hnot Hnd2]; subst.
  split; [|split; [exact ND2|split; [exact Pm|repeat split; reflexivity]]].
  split; simpl.
  - eapply frame_inv; [exact C|].
    eapply cs_frame_trans; [apply fr_nodes with (l' := l2); [exact T2|exact Cs2]|].
    eapply cs_frame_trans; [apply fr_npit; exact T2|apply fr_tokmap; exact T2].
  - exact N2.
  - exact Hnd2.
  - apply remove_N_NoDup. exact Tn.
  - intro y. unfold E. simpl. rewrite remove_N_In, T. rewrite <- Hid. split.
    + intros [Hy Ny]. apply (Permutation_in _ Pids) in Hy. destruct Hy as [Hy|Hy]; [congruence|exact Hy].
    + intro Hy. split; [eapply Permutation_in; [apply Permutation_sym; exact Pids|right; exact Hy]|]. intro Ey. subst y. exact (Hnot Hy).
  - unfold E. simpl. rewrite Pn, (Permutation_length Pm). cbn [length]. lia.
  - intros y Hy. apply X. eapply Permutation_in; [apply Permutation_sym; exact Pids|right; exact Hy].
Qed.

(* ---- content-store operations leave the PIT alone and keep the tree free of dead branches ---- *)
Record pit_same (s s' : st) : Prop := mk_pit_same {
  ps_E : E s' = E s; ps_heap : heap s' = heap s; ps_now : now s' = now s; ps_tok : tokmap s' = tokmap s;
  ps_npit : npit s' = npit s; ps_next : next_id s' = next_id s; ps_dnl : dnl s' = dnl s; ps_dnlq : dnlq s' = dnlq s;
  ps_life : dnl_life s' = dnl_life s; ps_timer : timer_at s' = timer_at s }.

Lemma pit_same_refl : forall s, pit_same s s.
Proof. intro. split; reflexivity. Qed.

Lemma pit_same_trans : forall a b c, pit_same a b -> pit_same b c -> pit_same a c.
Proof. intros a b c [A1 A2 A3 A4 A5 A6 A7 A8 A9 A10] [B1 B2 B3 B4 B5 B6 B7 B8 B9 B10]. split; congruence. Qed.

Lemma pinv_transfer : forall s s', p_inv s -> cs_inv s' -> names_ok (nodes s') -> pit_same s s' -> p_inv s'.
Proof.
  intros s s' [C Nm I Tn T Hn H Pn X] C' N' [A1 A2 A3 A4 A5 A6 A7 A8 A9 A10].
  split; rewrite ?A1, ?A2, ?A4, ?A5, ?A6; assumption.
Qed.

Lemma ents_upd_keep : forall l p f, (forall nd, n_pit (f nd) = n_pit nd) -> ents (upd_node l p f) = ents l.
Proof.
  intros l p f H. unfold ents, upd_node. induction l as [|x t IH]; [reflexivity|]. simpl.
  destruct (name_eqb (n_path x) p); [rewrite H|]; f_equal; exact IH.
Qed.

Lemma names_ok_upd_keep : forall l p f, names_ok l -> (forall nd, n_path (f nd) = n_path nd) -> (forall nd, n_pit (f nd) = n_pit nd) ->
  names_ok (upd_node l p f).
Proof.
  intros l p f Hn H1 H2. apply names_ok_upd_node; [exact Hn|exact H1|].
  intros nd e Hnd Pn He. rewrite H2 in He. rewrite <- Pn. apply Hn; assumption.
Qed.

Lemma erase_shape : forall s x q, cs_inv s -> lruq s = x :: q -> names_ok (nodes s) -> no_dead (nodes s) ->
  let s' := set_locs (set_lruq (erase_cs s x) q) (remove_name x (locs s)) in
  names_ok (nodes s') /\ no_dead (nodes s') /\ pit_same s s'.
Proof.
  intros s x q I Hq Nm ND s'. pose proof I as [I1 I2 I3 I4 I5 I6 I7 I8 I9].
  assert (Hx : In x (csmap s)) by (apply I5; rewrite Hq; left; reflexivity).
  set (l1 := upd_node (nodes s) x (fun nd => mknode (n_path nd) (n_pit nd) None)).
  assert (Es : s' = set_locs (set_lruq (set_ncs (set_csmap (set_nodes s (prune l1 x)) (remove_name x (csmap s))) (ncs s - 1)) q) (remove_name x (locs s))).
  { unfold s', erase_cs. apply mem_name_In in Hx. rewrite Hx. reflexivity. }
  assert (N' : nodes s' = prune l1 x) by (rewrite Es; reflexivity).
  assert (T1 : tree_ok l1) by (apply upd_ok; [intros; reflexivity|exact I1]).
  assert (Hin : In x (paths l1)).
  { unfold l1. rewrite paths_upd by (intro; reflexivity). apply has_node_In. unfold has_node.
    assert (cs_at (nodes s) x <> None) by (apply I3; rewrite Hq; left; reflexivity).
    unfold cs_at in H. destruct (get_node (nodes s) x); [reflexivity|congruence]. }
  assert (NDx : no_dead_except l1 x).
  { intros p Hp Hpn. unfold l1 in Hp. rewrite paths_upd in Hp by (intro; reflexivity).
    destruct (ND p Hp Hpn) as [d [D1 [dn [Gd Id]]]].
    destruct (name_eq_dec d x) as [->|Nd]; [right; exact D1|].
    left. exists d. split; [exact D1|]. exists dn. split; [|exact Id]. unfold l1. rewrite get_node_upd by (intro; reflexivity).
    destruct (name_eqb x d) eqn:Ed; [apply name_eqb_eq in Ed; congruence|exact Gd]. }
  rewrite N'. split; [apply names_ok_prune; apply names_ok_upd_keep; [exact Nm|intro; reflexivity|intro; reflexivity]|].
  split; [apply prune_no_dead; assumption|].
  split; try (rewrite Es; reflexivity). unfold E. rewrite N'. rewrite ents_prune by (apply (t_nodup _ T1)).
  apply ents_upd_keep. intro; reflexivity.
Qed.

Lemma evict_shape : forall fuel s, cs_inv s -> names_ok (nodes s) -> no_dead (nodes s) ->
  let s' := evict fuel s in names_ok (nodes s') /\ no_dead (nodes s') /\ pit_same s s'.
Proof.
  induction fuel as [|f IH]; intros s I Nm ND; cbv zeta; cbn [evict]; [split; [exact Nm|split; [exact ND|apply pit_same_refl]]|].
  destruct (lruq s) as [|x q] eqn:Q; [split; [exact Nm|split; [exact ND|apply pit_same_refl]]|].
  destruct (cap s <? N.of_nat (length (x :: q)))%N; [|split; [exact Nm|split; [exact ND|apply pit_same_refl]]].
  destruct (erase_cs_inv s x q I Q) as [I' _]. destruct (erase_shape s x q I Q Nm ND) as [N' [ND' S']].
  destruct (IH _ I' N' ND') as [N2 [ND2 S2]]. split; [exact N2|]. split; [exact ND2|]. eapply pit_same_trans; eassumption.
Qed.

Lemma insert_data_shape : forall s n w f, cs_inv s -> names_ok (nodes s) -> no_dead (nodes s) ->
  let s' := insert_data s n w f in names_ok (nodes s') /\ no_dead (nodes s') /\ pit_same s s'.
Proof.
  intros s n w f I Nm ND. cbv zeta. pose proof I as [I1 I2 I3 I4 I5 I6 I7 I8 I9]. unfold insert_data.
  set (e := mkcs n w (stale_of s f)).
  destruct (mem_name n (csmap s)) eqn:M.
  - unfold lru_touch. simpl.
    split; [apply names_ok_upd_keep; [exact Nm|intro; reflexivity|intro; reflexivity]|].
    split; [|split; try reflexivity; unfold E; simpl; apply ents_upd_keep; intro; reflexivity].
    apply no_dead_upd; [intro; reflexivity| |exact ND]. intros nd H. apply node_idle_false. right. simpl. discriminate.
  - set (l1 := fill (nodes s) n).
    set (l2 := upd_node l1 n (fun nd => mknode (n_path nd) (n_pit nd) (Some e))).
    match goal with |- names_ok (nodes (evict ?F ?S2)) /\ _ => set (s2 := S2) end.
    assert (T1 : tree_ok l1) by (apply fill_ok; exact I1).
    assert (N2 : names_ok (nodes s2)).
    { change (nodes s2) with l2. apply names_ok_upd_keep; [apply names_ok_fill; exact Nm|intro; reflexivity|intro; reflexivity]. }
    assert (ND2 : no_dead (nodes s2)).
    { change (nodes s2) with l2. apply no_dead_after_busy with n.
      - unfold l2. apply no_dead_except_upd; [intro; reflexivity| |apply fill_no_dead_except; exact ND].
        intros nd H. apply node_idle_false. right. simpl. discriminate.
      - assert (Hh : has_node l1 n = true) by (apply has_node_In; apply fill_has; exact I1).
        unfold has_node in Hh. destruct (get_node l1 n) as [nd|] eqn:G; [|discriminate].
        exists (mknode (n_path nd) (n_pit nd) (Some e)). split.
        + unfold l2. rewrite get_node_upd by (intro; reflexivity). rewrite name_eqb_refl, G. reflexivity.
        + apply node_idle_false. right. simpl. discriminate. }
    assert (S2 : pit_same s s2).
    { split; try reflexivity. unfold E. change (nodes s2) with l2. unfold l2. rewrite ents_upd_keep by (intro; reflexivity). apply ents_fill. }
    assert (I2' : cs_inv s2).
    { (* s2 is the state before eviction in insert_data_inv; re-derive it through the refresh-free path *)
      pose proof (insert_data_inv s n w f I) as _.
      split.
      - change (nodes s2) with l2. apply upd_ok; [intros; reflexivity|exact T1].
      - change (lruq s2) with (lruq s ++ [n]). apply mem_name_false in M.
        apply NoDup_app_intro; [exact I2|constructor; [simpl; tauto|constructor]|]. intros y H1 [<-|[]]. apply M. apply I5. exact H1.
      - intro m. change (lruq s2) with (lruq s ++ [n]). change (nodes s2) with l2. unfold l2. rewrite cs_at_upd_set, in_app_iff. simpl.
        destruct (name_eqb n m) eqn:E0.
        + apply name_eqb_eq in E0. subst m. replace (has_node l1 n) with true by (symmetry; apply has_node_In; apply fill_has; exact I1).
          split; [intros _; discriminate|intros _; right; left; reflexivity].
        + apply name_eqb_neq in E0. unfold l1. rewrite cs_at_fill, <- I3. split; [intros [H|[H|[]]]; [exact H|congruence]|tauto].
      - change (csmap s2) with (csmap s ++ [n]). apply mem_name_false in M.
        apply NoDup_app_intro; [exact I4|constructor; [simpl; tauto|constructor]|]. intros y H1 [<-|[]]. exact (M H1).
      - intro m. change (csmap s2) with (csmap s ++ [n]). change (lruq s2) with (lruq s ++ [n]). rewrite !in_app_iff, I5. tauto.
      - intros m y. change (nodes s2) with l2. unfold l2. rewrite cs_at_upd_set. destruct (name_eqb n m) eqn:E0.
        + apply name_eqb_eq in E0. subst m. destruct (has_node l1 n); [|discriminate]. intro Hy. inversion Hy. reflexivity.
        + unfold l1. rewrite cs_at_fill. apply I6.
      - change (csmap s2) with (csmap s ++ [n]). change (ncs s2) with (ncs s + 1). rewrite app_length, I7. simpl. lia.
      - change (locs s2) with (add_name n (locs s)). apply add_name_NoDup. exact I8.
      - intro m. change (locs s2) with (add_name n (locs s)). change (lruq s2) with (lruq s ++ [n]). rewrite add_name_In, in_app_iff, I9. simpl.
        split; [intros [H| ->]; [tauto|right; left; reflexivity]|intros [H|[H|[]]]; [tauto|right; congruence]]. }
    destruct (evict_shape (S (length (lruq s2))) s2 I2' N2 ND2) as [N3 [ND3 S3]].
    split; [exact N3|]. split; [exact ND3|]. eapply pit_same_trans; eassumption.
Qed.

Lemma find_cs_shape : forall s n cbp mbf, nodes (fst (find_cs s n cbp mbf)) = nodes s /\ pit_same s (fst (find_cs s n cbp mbf)).
Proof.
  intros s n cbp mbf. destruct (find_cs_frame_rest s n cbp mbf) as [A [B [C [D [F [G [H [I [J [K [L [M [N _]]]]]]]]]]]]].
  split; [exact A|]. split; try assumption. unfold E. rewrite A. reflexivity.
Qed.

(* ---- a framework for sequences of updates of ONE entry (n, id) ---- *)
Definition has_entry (s : st) (n : name) (id : N) : Prop := exists e, In e (E s) /\ p_id e = id /\ p_name e = n.

Lemma get_entry_has : forall s n id, p_inv s -> (get_entry (nodes s) n id <> None <-> has_entry s n id).
Proof.
  intros s n id P. pose proof (pi_names s P) as Nm. pose proof (t_nodup _ (ci_tree s (pi_cs s P))) as Nd. split.
  - intro H. destruct (get_entry (nodes s) n id) as [e|] eqn:G; [|congruence].
    destruct (get_entry_In _ _ _ _ G) as [H1 [H2 [nd [H3 H4]]]]. exists e. split; [exact H1|]. split; [exact H2|].
    rewrite (Nm nd e (get_node_In _ _ _ H3) H4). eapply get_node_path. exact H3.
  - intros [e [H1 [H2 H3]]]. apply ents_In in H1. destruct H1 as [nd [H4 H5]].
    pose proof (In_get_node _ _ Nd H4) as G. rewrite <- (Nm nd e H4 H5), H3 in G.
    destruct (get_entry_exists _ _ _ _ G H5) as [e' Ge]. rewrite H2 in Ge. congruence.
Qed.

Record upd_rel (n : name) (id : N) (s s' : st) (F : pite -> pite) : Prop := mk_upd_rel {
  ur_p : p_inv s';
  ur_E : E s' = map (touch n id F) (E s);
  ur_heap : forall x p, x <> id -> (In (x, p) (heap s') <-> In (x, p) (heap s));
  ur_none : ~ has_entry s n id -> heap s' = heap s;
  ur_now : now s' = now s;
  ur_timer : timer_at s' = timer_at s;
  ur_nd : no_dead (nodes s) -> no_dead (nodes s');
  ur_F : forall e, p_id (F e) = p_id e /\ p_name (F e) = p_name e }.

(* the entry's queue item is in step with its expiration time *)
Definition synced (n : name) (id : N) (s s' : st) (F : pite -> pite) : Prop :=
  forall e0, In e0 (E s) -> p_id e0 = id -> p_name e0 = n -> p_q (F e0) = true /\ In (id, p_exp (F e0)) (heap s').

Lemma touch_comp : forall n id F1 F2 l, (forall e, p_id (F1 e) = p_id e /\ p_name (F1 e) = p_name e) ->
  map (touch n id F2) (map (touch n id F1) l) = map (touch n id (fun e => F2 (F1 e))) l.
Proof.
  intros n id F1 F2 l H. rewrite map_map. apply map_ext. intro e. unfold touch.
  destruct (N.eqb (p_id e) id && name_eqb (p_name e) n) eqn:C; [|rewrite C; reflexivity].
  destruct (H e) as [H1 H2]. rewrite H1, H2, C. reflexivity.
Qed.

Lemma has_entry_map : forall n id F s s', E s' = map (touch n id F) (E s) ->
  (forall e, p_id (F e) = p_id e /\ p_name (F e) = p_name e) -> (has_entry s' n id <-> has_entry s n id).
Proof.
  intros n id F s s' HE HF. unfold has_entry. rewrite HE. split.
  - intros [e' [H1 [H2 H3]]]. apply in_map_iff in H1. destruct H1 as [e [E1 E2]]. subst e'. exists e. split; [exact E2|].
    unfold touch in *. destruct (_ && _); [destruct (HF e) as [A B]; rewrite <- A, <- B; tauto|tauto].
  - intros [e [H1 [H2 H3]]]. exists (touch n id F e). split; [apply in_map; exact H1|].
    unfold touch. destruct (_ && _); [destruct (HF e) as [A B]; rewrite A, B; tauto|tauto].
Qed.

Lemma ur_comp : forall n id a b c F1 F2, upd_rel n id a b F1 -> upd_rel n id b c F2 -> upd_rel n id a c (fun e => F2 (F1 e)).
Proof.
  intros n id a b c F1 F2 [A1 A2 A3 A4 A5 A6 A7 A8] [B1 B2 B3 B4 B5 B6 B7 B8]. split.
  - exact B1.
  - rewrite B2, A2. apply touch_comp. exact A8.
  - intros x p Hx. rewrite B3, A3 by exact Hx. tauto.
  - intro Hn. rewrite B4; [apply A4; exact Hn|]. rewrite (has_entry_map n id F1 a b A2 A8). exact Hn.
  - congruence.
  - congruence.
  - tauto.
  - intro e. destruct (A8 e) as [X1 X2]. destruct (B8 (F1 e)) as [Y1 Y2]. split; congruence.
Qed.

Lemma ur_touch : forall s n id f, p_inv s ->
  (forall e, p_id (f e) = p_id e) -> (forall e, p_name (f e) = p_name e) -> (forall e, p_q (f e) = p_q e) ->
  upd_rel n id s (set_nodes s (upd_entry (nodes s) n id f)) f.
Proof.
  intros s n id f P F1 F2 F3. split; simpl; try reflexivity; try tauto.
  - apply touch_pinv; assumption.
  - unfold E. simpl. apply ents_upd_entry. apply (pi_names s P).
  - intro. apply no_dead_upd_entry. assumption.
  - intro e. split; [apply F1|apply F2].
Qed.

Lemma ur_sched : forall s n id t, p_inv s -> upd_rel n id s (schedule s n id t) (sched_f t) /\ synced n id s (schedule s n id t) (sched_f t).
Proof.
  intros s n id t P. destruct (schedule_spec s n id t P) as [P' [HE [Hh [Hin [Hnow [_ [_ [_ [Htm _]]]]]]]]].
  split.
  - split; try assumption.
    + intro Hn. unfold schedule. destruct (get_entry (nodes s) n id) eqn:G; [|reflexivity].
      exfalso. apply Hn. apply get_entry_has; [exact P|congruence].
    + intro ND. unfold schedule. destruct (get_entry (nodes s) n id); [|exact ND].
      destruct (p_q p); simpl; apply no_dead_upd_entry; exact ND.
    + intro e. split; reflexivity.
  - intros e0 H1 H2 H3. split; [reflexivity|]. simpl. apply Hin. apply get_entry_has; [exact P|]. exists e0. tauto.
Qed.

Lemma touch_idmap : forall n id l, map (touch n id (fun e => e)) l = l.
Proof. intros. rewrite <- (map_id l) at 2. apply map_ext. intro e. unfold touch. destruct (_ && _); reflexivity. Qed.

Lemma ur_dnl_insert : forall s n id k, p_inv s -> upd_rel n id s (dnl_insert s k) (fun e => e).
Proof.
  intros s n id k P. destruct (dnl_insert_fields s k) as [A1 [A2 [A3 [A4 [A5 [A6 A7]]]]]]. split; try assumption.
  - apply dnl_insert_pinv. exact P.
  - unfold E. rewrite A1, touch_idmap. reflexivity.
  - intros. rewrite A2. tauto.
  - intros _. exact A2.
  - rewrite A1. tauto.
  - intro e. split; reflexivity.
Qed.

Lemma ur_fold_dnl : forall A (g : A -> name * N) l s n id, p_inv s ->
  upd_rel n id s (fold_left (fun s o => dnl_insert s (g o)) l s) (fun e => e).
Proof.
  intros A g l s n id P. destruct (fold_dnl_insert_fields A g l s) as [A1 [A2 [A3 [A4 [A5 [A6 A7]]]]]]. split; try assumption.
  - apply fold_dnl_insert_pinv. exact P.
  - unfold E. rewrite A1, touch_idmap. reflexivity.
  - intros. rewrite A2. tauto.
  - intros _. exact A2.
  - rewrite A1. tauto.
  - intro e. split; reflexivity.
Qed.

Lemma synced_then : forall n id a b c F1 F2, upd_rel n id a b F1 -> synced n id a b F1 -> upd_rel n id b c F2 ->
  heap c = heap b -> (forall e, p_q (F2 e) = p_q e /\ p_exp (F2 e) = p_exp e) -> synced n id a c (fun e => F2 (F1 e)).
Proof.
  intros n id a b c F1 F2 U1 S1 U2 Hh HF e0 H1 H2 H3. destruct (S1 e0 H1 H2 H3) as [Q1 Q2].
  destruct (HF (F1 e0)) as [A B]. rewrite A, B, Hh. tauto.
Qed.

(* ---- the invariant that holds between operations of a history ---- *)
Definition rec_bounded (t : Z) (e : pite) : Prop :=
  (forall r, In r (p_ins e) -> i_exp r <= t) /\ (forall o, In o (p_outs e) -> o_exp o <= t).

(* the key under which Interests aggregate in the PIT *)
Definition key : Type := (name * bool * bool)%type.
Definition key_of (e : pite) : key := (p_name e, p_cbp e, p_mbf e).
Definition pkey_eqb (a b : key) : bool :=
  name_eqb (fst (fst a)) (fst (fst b)) && Bool.eqb (snd (fst a)) (snd (fst b)) && Bool.eqb (snd a) (snd b).

(* b = the deadline of the entry's key: the latest (arrival + lifetime) among the Interests received for it *)
Definition bounds_ok (s : st) (b : Z) (e : pite) : Prop :=
  p_exp e <= Z.max (now s) b /\ rec_bounded b e /\ (p_ins e = [] -> p_outs e = [] -> p_exp e <= now s).

(* every PIT entry is in the expiry queue, keyed by its expiration time, which is at most the deadline of its key (or now);
   an entry with no records left (satisfied, or answered from the cache) is already due *)
Definition ok_entry (s : st) (bd : key -> Z) (e : pite) : Prop :=
  p_q e = true /\ In (p_id e, p_exp e) (heap s) /\ bounds_ok s (bd (key_of e)) e.

Record g_inv (s : st) (bd : key -> Z) : Prop := mk_g_inv {
  g_p : p_inv s;
  g_nd : no_dead (nodes s);
  g_ok : forall e, In e (E s) -> ok_entry s bd e }.

Lemma bounds_mono : forall s b b' e, b <= b' -> bounds_ok s b e -> bounds_ok s b' e.
Proof.
  intros s b b' e Hb [B1 [[B2 B2'] B3]]. split; [lia|]. split; [|exact B3].
  split; intros x Hx; [specialize (B2 x Hx)|specialize (B2' x Hx)]; lia.
Qed.

Lemma g_inv_weaken : forall s bd bd', (forall e, In e (E s) -> bd (key_of e) <= bd' (key_of e)) -> g_inv s bd -> g_inv s bd'.
Proof.
  intros s bd bd' H [P ND OK]. split; [exact P|exact ND|]. intros e He. destruct (OK e He) as [Q1 [Q2 B]].
  split; [exact Q1|]. split; [exact Q2|]. apply (bounds_mono s (bd (key_of e))); [apply H; exact He|exact B].
Qed.

Lemma ok_transfer : forall n id s s' F bd, upd_rel n id s s' F -> synced n id s s' F -> p_inv s ->
  (forall e, In e (E s) -> (p_id e <> id \/ p_name e <> n) -> ok_entry s bd e) ->
  (forall e0, In e0 (E s) -> p_id e0 = id -> p_name e0 = n -> bounds_ok s' (bd (key_of (F e0))) (F e0)) ->
  forall e', In e' (E s') -> ok_entry s' bd e'.
Proof.
  intros n id s s' F bd U S P Hoth Hb e' He'. destruct U as [U1 U2 U3 U4 U5 U6 U7 U8].
  rewrite U2 in He'. apply in_map_iff in He'. destruct He' as [e0 [E0 H0]]. subst e'. unfold touch.
  destruct (N.eqb (p_id e0) id && name_eqb (p_name e0) n) eqn:C.
  - apply andb_true_iff in C. destruct C as [C1 C2]. apply N.eqb_eq in C1. apply name_eqb_eq in C2.
    destruct (S e0 H0 C1 C2) as [Q1 Q2]. destruct (U8 e0) as [I1 _]. split; [exact Q1|]. split; [rewrite I1, C1; exact Q2|].
    apply Hb; assumption.
  - assert (Hne : p_id e0 <> id \/ p_name e0 <> n).
    { apply andb_false_iff in C. destruct C as [C|C]; [left; apply N.eqb_neq; exact C|right; intro Z; apply name_eqb_neq in C; congruence]. }
    destruct (Hoth e0 H0 Hne) as [Q1 [Q2 [B1 [B2 B3]]]]. split; [exact Q1|]. split.
    + destruct (N.eq_dec (p_id e0) id) as [Eid|Nid].
      * rewrite U4; [exact Q2|]. intros [e1 [X1 [X2 X3]]].
        assert (e1 = e0) by (apply (NoDup_map_eq _ _ p_id (E s)); [apply (pi_ids s P)|exact X1|exact H0|congruence]).
        subst e1. destruct Hne; congruence.
      * apply U3; assumption.
    + unfold bounds_ok. rewrite U5. split; [exact B1|]. split; [exact B2|exact B3].
Qed.

Lemma g_inv_same : forall s s' (L : key -> Z), g_inv s L -> p_inv s' -> no_dead (nodes s') -> E s' = E s -> heap s' = heap s -> now s' = now s -> g_inv s' L.
Proof.
  intros s s' L [P ND OK] P' ND' HE Hh Hn. split; [exact P'|exact ND'|]. intros e He. rewrite HE in He.
  destruct (OK e He) as [Q1 [Q2 [B1 [B2 B3]]]]. unfold ok_entry, bounds_ok. rewrite Hh, Hn. tauto.
Qed.

(* ---- a satisfied entry ---- *)
Definition sat_f (e : pite) : pite := set_sat e true.
Definition clear_f (e : pite) : pite := set_outs (set_ins e []) [].

Lemma satisfy_ginv : forall dn src s e (L : key -> Z), g_inv s L -> g_inv (satisfy dn src s e) L.
Proof.
  intros dn src s e L [P ND OK]. unfold satisfy.
  set (n := p_name e). set (id := p_id e).
  destruct (ur_sched s n id (now s) P) as [U1 S1]. fold (set_exp_now s n id) in U1, S1.
  set (s1 := set_exp_now s n id) in *.
  pose proof (ur_touch s1 n id sat_f (ur_p _ _ _ _ _ U1) (fun _ => eq_refl) (fun _ => eq_refl) (fun _ => eq_refl)) as U2.
  fold (mark_sat s1 n id) in U2. set (s2 := mark_sat s1 n id) in *.
  pose proof (ur_fold_dnl _ (fun o => (dn, o_nonce o)) (outs_of s2 (p_name src) (p_id src)) s2 n id (ur_p _ _ _ _ _ U2)) as U3.
  set (s3 := fold_left (fun s0 o => dnl_insert s0 (dn, o_nonce o)) (outs_of s2 (p_name src) (p_id src)) s2) in *.
  pose proof (ur_touch s3 n id clear_f (ur_p _ _ _ _ _ U3) (fun _ => eq_refl) (fun _ => eq_refl) (fun _ => eq_refl)) as U4.
  fold (clear_records s3 n id) in U4. set (s4 := clear_records s3 n id) in *.
  pose proof (ur_comp _ _ _ _ _ _ _ U1 U2) as U12.
  pose proof (ur_comp _ _ _ _ _ _ _ U12 U3) as U123.
  pose proof (ur_comp _ _ _ _ _ _ _ U123 U4) as U.
  assert (S12 : synced n id s s2 (fun e0 => sat_f (sched_f (now s) e0))).
  { apply (synced_then n id s s1 s2 _ _ U1 S1 U2); [reflexivity|intro; split; reflexivity]. }
  assert (S123 : synced n id s s3 (fun e0 => (fun x => x) (sat_f (sched_f (now s) e0)))).
  { apply (synced_then n id s s2 s3 _ _ U12 S12 U3); [|intro; split; reflexivity].
    destruct (fold_dnl_insert_fields _ (fun o => (dn, o_nonce o)) (outs_of s2 (p_name src) (p_id src)) s2) as [_ [Hh _]]. exact Hh. }
  assert (S : synced n id s s4 (fun e0 => clear_f ((fun x => x) (sat_f (sched_f (now s) e0))))).
  { apply (synced_then n id s s3 s4 _ _ U123 S123 U4); [reflexivity|intro; split; reflexivity]. }
  split; [apply (ur_p _ _ _ _ _ U)|apply (ur_nd _ _ _ _ _ U); exact ND|].
  apply (ok_transfer n id s s4 _ L U S P); [intros; apply OK; assumption|].
  intros e0 H0 H1 H2. assert (Hnow : now s4 = now s) by apply (ur_now _ _ _ _ _ U).
  unfold bounds_ok, rec_bounded. rewrite Hnow. simpl.
  split; [lia|]. split; [split; intros ? []|]. intros _ _. lia.
Qed.

Lemma fold_satisfy_ginv : forall dn src l s (L : key -> Z), g_inv s L -> g_inv (fold_left (satisfy dn src) l s) L.
Proof. intros dn src l. induction l as [|e t IH]; intros s L G; simpl; [exact G|]. apply IH. apply satisfy_ginv; assumption. Qed.

Lemma insert_data_ginv : forall s n w f (L : key -> Z), g_inv s L -> g_inv (insert_data s n w f) L.
Proof.
  intros s n w f L G. pose proof G as [P ND OK]. pose proof (pi_cs s P) as C.
  destruct (insert_data_inv s n w f C) as [C' _].
  destruct (insert_data_shape s n w f C (pi_names s P) ND) as [N' [ND' S']].
  apply (g_inv_same s _ L G); [eapply pinv_transfer; eassumption|exact ND'|apply (ps_E _ _ S')|apply (ps_heap _ _ S')|apply (ps_now _ _ S')].
Qed.

Lemma process_data_ginv : forall s n w f tok (L : key -> Z), g_inv s L -> g_inv (process_data s n w f tok) L.
Proof.
  intros s n w f tok L G. unfold process_data.
  set (s1 := if admitting s then insert_data s n w f else s).
  assert (G1 : g_inv s1 L) by (unfold s1; destruct (admitting s); [apply insert_data_ginv; exact G|exact G]).
  destruct (pit_matches s1 n tok) as [|e0 rest]; [exact G1|].
  destruct rest as [|e1 rest]; [apply satisfy_ginv; assumption|]. apply fold_satisfy_ginv; assumption.
Qed.

(* ---- records ---- *)
Lemma put_inrec_bound : forall l r t, (forall x, In x l -> i_exp x <= t) -> i_exp r <= t ->
  forall x, In x (fst (fst (put_inrec l r))) -> i_exp x <= t.
Proof.
  induction l as [|y l IH]; simpl; intros r t Hl Hr x Hx.
  - destruct Hx as [<-|[]]. exact Hr.
  - destruct (N.eqb (i_face y) (i_face r)).
    + simpl in Hx. destruct Hx as [<-|Hx]; [exact Hr|apply Hl; right; exact Hx].
    + destruct (put_inrec l r) as [[t' b] pn] eqn:Ep. simpl in Hx. destruct Hx as [<-|Hx]; [apply Hl; left; reflexivity|].
      apply (IH r t); [intros; apply Hl; right; assumption|exact Hr|rewrite Ep; exact Hx].
Qed.

Lemma put_inrec_nonempty : forall l r, fst (fst (put_inrec l r)) <> [].
Proof.
  destruct l as [|y l]; simpl; intros r; [discriminate|].
  destruct (N.eqb (i_face y) (i_face r)); [discriminate|]. destruct (put_inrec l r) as [[t' b] pn]. discriminate.
Qed.

Lemma put_outrec_bound : forall l r t, (forall x, In x l -> o_exp x <= t) -> o_exp r <= t ->
  forall x, In x (put_outrec l r) -> o_exp x <= t.
Proof.
  induction l as [|y l IH]; simpl; intros r t Hl Hr x Hx.
  - destruct Hx as [<-|[]]. exact Hr.
  - destruct (N.eqb (o_face y) (o_face r)); simpl in Hx.
    + destruct Hx as [<-|Hx]; [exact Hr|apply Hl; right; exact Hx].
    + destruct Hx as [<-|Hx]; [apply Hl; left; reflexivity|]. apply (IH r t); [intros; apply Hl; right; assumption|exact Hr|exact Hx].
Qed.

Lemma fold_put_outrec_bound : forall sent nonce ex l t, (forall x, In x l -> o_exp x <= t) -> ex <= t ->
  forall x, In x (fold_left (fun l f => put_outrec l (mkout f nonce ex)) sent l) -> o_exp x <= t.
Proof.
  induction sent as [|f sent IH]; simpl; intros nonce ex l t Hl He x Hx; [apply Hl; exact Hx|].
  apply (IH nonce ex (put_outrec l (mkout f nonce ex)) t); [|exact He|exact Hx].
  intros y Hy. apply (put_outrec_bound l (mkout f nonce ex) t); [exact Hl|exact He|exact Hy].
Qed.

Lemma max_in_le : forall l b t, b <= t -> (forall x, In x l -> i_exp x <= t) -> max_in b l <= t.
Proof.
  unfold max_in. induction l as [|y l IH]; simpl; intros b t Hb Hl; [exact Hb|].
  apply IH; [|intros; apply Hl; right; assumption]. specialize (Hl y (or_introl eq_refl)). lia.
Qed.

Lemma max_out_le : forall l b t, b <= t -> (forall x, In x l -> o_exp x <= t) -> max_out b l <= t.
Proof.
  unfold max_out. induction l as [|y l IH]; simpl; intros b t Hb Hl; [exact Hb|].
  apply IH; [|intros; apply Hl; right; assumption]. specialize (Hl y (or_introl eq_refl)). lia.
Qed.

(* ---- finishing a sequence of updates of one entry ---- *)
Definition others_ok (L : key -> Z) (n : name) (id : N) (s : st) : Prop :=
  forall e, In e (E s) -> (p_id e <> id \/ p_name e <> n) -> ok_entry s L e.

Lemma others_step : forall n id a b F L, upd_rel n id a b F -> p_inv a -> others_ok L n id a -> others_ok L n id b.
Proof.
  intros n id a b F L U P O e' He' Hne. destruct U as [U1 U2 U3 U4 U5 U6 U7 U8].
  rewrite U2 in He'. apply in_map_iff in He'. destruct He' as [e0 [E0 H0]]. subst e'. unfold touch in *.
  destruct (N.eqb (p_id e0) id && name_eqb (p_name e0) n) eqn:C.
  - exfalso. apply andb_true_iff in C. destruct C as [C1 C2]. apply N.eqb_eq in C1. apply name_eqb_eq in C2.
    destruct (U8 e0) as [I1 I2]. destruct Hne; congruence.
  - destruct (O e0 H0 Hne) as [Q1 [Q2 [B1 [B2 B3]]]]. split; [exact Q1|]. split.
    + destruct (N.eq_dec (p_id e0) id) as [Eid|Nid].
      * rewrite U4; [exact Q2|]. intros [e1 [X1 [X2 X3]]].
        assert (e1 = e0) by (apply (NoDup_map_eq _ _ p_id (E a)); [apply (pi_ids a P)|exact X1|exact H0|congruence]).
        subst e1. destruct Hne; congruence.
      * apply U3; assumption.
    + unfold bounds_ok. rewrite U5. split; [exact B1|]. split; [exact B2|exact B3].
Qed.

Lemma get_entry_match : forall s n id e, p_inv s -> get_entry (nodes s) n id = Some e -> In e (E s) /\ p_id e = id /\ p_name e = n.
Proof.
  intros s n id e P G. destruct (get_entry_In _ _ _ _ G) as [H1 [H2 [nd [H3 H4]]]]. split; [exact H1|]. split; [exact H2|].
  rewrite (pi_names s P nd e (get_node_In _ _ _ H3) H4). eapply get_node_path. exact H3.
Qed.

Lemma finish : forall n id a b F L ea, upd_rel n id a b F -> synced n id a b F -> p_inv a -> no_dead (nodes a) ->
  others_ok L n id a -> get_entry (nodes a) n id = Some ea -> bounds_ok b (L (key_of (F ea))) (F ea) -> g_inv b L.
Proof.
  intros n id a b F L ea U S P ND O G B. split; [apply (ur_p _ _ _ _ _ U)|apply (ur_nd _ _ _ _ _ U); exact ND|].
  apply (ok_transfer n id a b F L U S P O). intros e0 H0 H1 H2.
  destruct (get_entry_match a n id ea P G) as [M1 [M2 M3]].
  assert (e0 = ea) by (apply (NoDup_map_eq _ _ p_id (E a)); [apply (pi_ids a P)|exact H0|exact M1|congruence]).
  subst e0. exact B.
Qed.

Lemma get_entry_schedule : forall s n id t e, get_entry (nodes s) n id = Some e ->
  get_entry (nodes (schedule s n id t)) n id = Some (sched_f t e).
Proof.
  intros s n id t e G. unfold schedule. rewrite G. destruct (p_q e); simpl; rewrite get_entry_upd by (intro; reflexivity); rewrite G; reflexivity.
Qed.

Definition tmax (t : Z) (e : pite) : Z := max_out (max_in t (p_ins e)) (p_outs e).

Lemma update_exp_timer_eq : forall s n id e, get_entry (nodes s) n id = Some e -> update_exp_timer s n id = schedule s n id (tmax (now s) e).
Proof. intros s n id e G. unfold update_exp_timer. rewrite G. reflexivity. Qed.

(* the "forward" tail of processIncomingInterest *)
Lemma forward_ok : forall s n id nonce ex sent (bd : key -> Z) e,
  p_inv s -> no_dead (nodes s) -> others_ok bd n id s -> get_entry (nodes s) n id = Some e ->
  rec_bounded (bd (key_of e)) e -> p_ins e <> [] -> ex <= bd (key_of e) ->
  g_inv (let s3 := update_exp_timer s n id in
         set_nodes s3 (upd_entry (nodes s3) n id (fun e => set_outs e
            (fold_left (fun l f => put_outrec l (mkout f nonce ex)) sent (outs_of s3 n id))))) bd.
Proof.
  intros s n id nonce ex sent bd e P ND O G [Bi Bo] Hne Hex. cbv zeta.
  rewrite (update_exp_timer_eq s n id e G). set (t := tmax (now s) e).
  destruct (ur_sched s n id t P) as [U1 S1]. set (s3 := schedule s n id t) in *.
  pose proof (get_entry_schedule s n id t e G) as G3. fold s3 in G3.
  assert (Ho : outs_of s3 n id = p_outs e) by (unfold outs_of; rewrite G3; reflexivity). rewrite Ho.
  set (outs' := fold_left (fun l f => put_outrec l (mkout f nonce ex)) sent (p_outs e)).
  pose proof (ur_touch s3 n id (fun e0 => set_outs e0 outs') (ur_p _ _ _ _ _ U1) (fun _ => eq_refl) (fun _ => eq_refl) (fun _ => eq_refl)) as U2.
  pose proof (ur_comp _ _ _ _ _ _ _ U1 U2) as U.
  set (s4 := set_nodes s3 (upd_entry (nodes s3) n id (fun e0 => set_outs e0 outs'))) in *.
  assert (S : synced n id s s4 (fun e0 => (fun e1 => set_outs e1 outs') (sched_f t e0))).
  { apply (synced_then n id s s3 s4 _ _ U1 S1 U2); [reflexivity|intro; split; reflexivity]. }
  apply (finish n id s s4 _ bd e U S P ND O G).
  assert (Hnow : now s4 = now s) by apply (ur_now _ _ _ _ _ U).
  change (key_of (set_outs (sched_f t e) outs')) with (key_of e). set (B := bd (key_of e)) in *.
  unfold bounds_ok, rec_bounded. rewrite Hnow. simpl. split; [|split; [split|]].
  - unfold t, tmax. apply max_out_le; [apply max_in_le; [lia|]|].
    + intros r Hr. specialize (Bi r Hr). lia.
    + intros o Ho'. specialize (Bo o Ho'). lia.
  - exact Bi.
  - intros o Hin. apply (fold_put_outrec_bound sent nonce ex (p_outs e) B Bo Hex o Hin).
  - intro Z. congruence.
Qed.

(* the cache-hit tail: the requester's in-record is consumed, then the expiration is rescheduled *)
Lemma hit_ok : forall s n id face (bd : key -> Z) e,
  p_inv s -> no_dead (nodes s) -> others_ok bd n id s -> get_entry (nodes s) n id = Some e ->
  rec_bounded (bd (key_of e)) e ->
  g_inv (update_exp_timer (del_inrec s n id face) n id) bd.
Proof.
  intros s n id face bd e P ND O G [Bi Bo].
  set (F4 := fun e0 => set_ins e0 (filter (fun r => negb (N.eqb (i_face r) face)) (p_ins e0))).
  pose proof (ur_touch s n id F4 P (fun _ => eq_refl) (fun _ => eq_refl) (fun _ => eq_refl)) as U1.
  fold (del_inrec s n id face) in U1. set (s4 := del_inrec s n id face) in *.
  assert (G4 : get_entry (nodes s4) n id = Some (F4 e)).
  { unfold s4, del_inrec. simpl. rewrite get_entry_upd by (intro; reflexivity). rewrite G. reflexivity. }
  rewrite (update_exp_timer_eq s4 n id (F4 e) G4). set (t := tmax (now s4) (F4 e)).
  destruct (ur_sched s4 n id t (ur_p _ _ _ _ _ U1)) as [U2 S2].
  pose proof (ur_comp _ _ _ _ _ _ _ U1 U2) as U.
  assert (S : synced n id s (schedule s4 n id t) (fun e0 => sched_f t (F4 e0))).
  { intros e0 H0 H1 H2. split; [reflexivity|]. simpl.
    destruct (S2 (F4 e0)) as [_ Q]; [|exact H1|exact H2|exact Q].
    assert (HE4 : E s4 = map (touch n id F4) (E s)) by apply (ur_E _ _ _ _ _ U1).
    rewrite HE4. apply in_map_iff. exists e0. split; [|exact H0]. unfold touch.
    rewrite H1, H2, N.eqb_refl, name_eqb_refl. reflexivity. }
  apply (finish n id s _ _ bd e U S P ND O G).
  assert (Hnow : now (schedule s4 n id t) = now s) by apply (ur_now _ _ _ _ _ U).
  assert (Hnow4 : now s4 = now s) by apply (ur_now _ _ _ _ _ U1).
  change (key_of (sched_f t (F4 e))) with (key_of e). set (B := bd (key_of e)) in *.
  assert (Bi' : forall r, In r (filter (fun r => negb (N.eqb (i_face r) face)) (p_ins e)) -> i_exp r <= B).
  { intros r Hr. apply filter_In in Hr. apply Bi. tauto. }
  unfold bounds_ok, rec_bounded. rewrite Hnow. simpl. split; [|split; [split|]].
  - unfold t, tmax. rewrite Hnow4. simpl. apply max_out_le; [apply max_in_le; [lia|]|].
    + intros r Hr. specialize (Bi' r Hr). lia.
    + intros o Ho'. specialize (Bo o Ho'). lia.
  - exact Bi'.
  - exact Bo.
  - intros Z1 Z2. unfold t, tmax. rewrite Hnow4. simpl. rewrite Z1, Z2. simpl. lia.
Qed.

Lemma ur_find_cs : forall s n0 id n cbp mbf, p_inv s -> upd_rel n0 id s (fst (find_cs s n cbp mbf)) (fun e => e).
Proof.
  intros s n0 id n cbp mbf P. destruct (find_cs_shape s n cbp mbf) as [Hn S]. destruct (find_cs_inv s n cbp mbf (pi_cs s P)) as [C' _].
  split.
  - apply (pinv_transfer s _ P C'); [rewrite Hn; apply (pi_names s P)|exact S].
  - rewrite (ps_E _ _ S), touch_idmap. reflexivity.
  - intros. rewrite (ps_heap _ _ S). tauto.
  - intros _. apply (ps_heap _ _ S).
  - apply (ps_now _ _ S).
  - apply (ps_timer _ _ S).
  - rewrite Hn. tauto.
  - intro e. split; reflexivity.
Qed.

(* the deadline of a key after an Interest for it arrived at time t with lifetime l *)
Definition bump (bd : key -> Z) (k : key) (t : Z) : key -> Z := fun k' => if pkey_eqb k k' then Z.max (bd k') t else bd k'.

Lemma pkey_eqb_refl : forall k, pkey_eqb k k = true.
Proof. intros [[a b] c]. unfold pkey_eqb. simpl. rewrite name_eqb_refl. destruct b; destruct c; reflexivity. Qed.

Lemma bump_ge : forall bd k t k', bd k' <= bump bd k t k'.
Proof. intros. unfold bump. destruct (pkey_eqb k k'); lia. Qed.

Lemma bump_same : forall bd k t, bump bd k t k = Z.max (bd k) t.
Proof. intros. unfold bump. rewrite pkey_eqb_refl. reflexivity. Qed.

Lemma others_weaken : forall (bd bd' : key -> Z) n id s, (forall k, bd k <= bd' k) -> others_ok bd n id s -> others_ok bd' n id s.
Proof.
  intros bd bd' n id s H O e He Hne. destruct (O e He Hne) as [Q1 [Q2 B]]. split; [exact Q1|]. split; [exact Q2|].
  apply (bounds_mono s (bd (key_of e))); [apply H|exact B].
Qed.

Lemma process_interest_ginv : forall s face n cbp mbf nonce life sent (bd : key -> Z), g_inv s bd ->
  g_inv (fst (fst (process_interest s face n cbp mbf nonce life sent))) (bump bd (n, cbp, mbf) (now s + lifetime_of life)).
Proof.
  intros s face n cbp mbf nonce life sent bd G0.
  set (bd' := bump bd (n, cbp, mbf) (now s + lifetime_of life)).
  assert (Hge : forall k, bd k <= bd' k) by (intro; apply bump_ge).
  assert (G : g_inv s bd') by (apply (g_inv_weaken s bd bd'); [intros; apply Hge|exact G0]).
  pose proof G as [P ND OK]. unfold process_interest.
  destruct (dnl_mem (n, nonce) (dnl s)); [exact G|].
  pose proof (insert_interest_spec s n cbp mbf nonce face P ND) as Sp. cbv zeta in Sp.
  destruct (insert_interest s n cbp mbf nonce face) as [[s1 id] dup]. simpl in Sp.
  destruct Sp as [P1 [ND1 [Hh1 [Hn1 [_ [_ [_ [_ [[e1 [G1 [Kc Km]]] Cases]]]]]]]]].
  destruct dup.
  { simpl. apply (g_inv_same s s1 bd' G P1 ND1); [|exact Hh1|exact Hn1].
    destruct Cases as [[_ [Hd _]]|[_ [Hd _]]]; [apply Hd; reflexivity|discriminate]. }
  (* the entries other than (n, id) are as before; the records of (n, id) are bounded *)
  assert (O1 : others_ok bd' n id s1).
  { intros e He Hne. assert (Hold : In e (E s)).
    { destruct Cases as [[_ [_ Hd]]|[_ [_ Pm]]].
      - rewrite (Hd eq_refl) in He. apply in_map_iff in He. destruct He as [x [Ex Hx]]. unfold touch in Ex.
        destruct (N.eqb (p_id x) id && name_eqb (p_name x) n) eqn:C; [|subst; exact Hx].
        exfalso. apply andb_true_iff in C. destruct C as [C1 C2]. apply N.eqb_eq in C1. apply name_eqb_eq in C2. subst e. simpl in Hne.
        destruct Hne; congruence.
      - apply (Permutation_in _ Pm) in He. destruct He as [<-|He]; [|exact He]. simpl in Hne. destruct Hne; congruence. }
    destruct (OK e Hold) as [Q1 [Q2 [B1 [B2 B3]]]]. unfold ok_entry, bounds_ok. rewrite Hh1, Hn1. tauto. }
  destruct (get_entry_match s1 n id e1 P1 G1) as [M1 [M2 M3]].
  assert (Hk : key_of e1 = (n, cbp, mbf)) by (unfold key_of; rewrite M3, Kc, Km; reflexivity).
  set (B := bd' (n, cbp, mbf)) in *.
  assert (HB : now s + lifetime_of life <= B) by (unfold B, bd'; rewrite bump_same; lia).
  assert (R1 : rec_bounded B e1).
  { destruct Cases as [[_ [_ Hd]]|[_ [_ Pm]]].
    - rewrite (Hd eq_refl) in M1. apply in_map_iff in M1. destruct M1 as [x [Ex Hx]]. destruct (OK x Hx) as [_ [_ [_ [B2 _]]]].
      assert (Hkx : key_of x = (n, cbp, mbf)).
      { unfold touch in Ex. destruct (_ && _); subst e1; exact Hk. }
      rewrite Hkx in B2. unfold touch in Ex. destruct (_ && _); subst e1; exact B2.
    - apply (Permutation_in _ Pm) in M1. destruct M1 as [<-|M1]; [split; intros ? []|].
      destruct (OK e1 M1) as [_ [_ [_ [B2 _]]]]. rewrite Hk in B2. exact B2. }
  rewrite G1. set (ex := now s1 + lifetime_of life).
  assert (HexB : ex <= B) by (unfold ex; rewrite Hn1; exact HB).
  destruct (put_inrec (p_ins e1) (mkin face nonce ex)) as [[ins' already] prev] eqn:Epi.
  assert (Bins : forall r, In r ins' -> i_exp r <= B).
  { intros r Hr. apply (put_inrec_bound (p_ins e1) (mkin face nonce ex) B); [apply R1|exact HexB|rewrite Epi; exact Hr]. }
  assert (Nins : ins' <> []) by (pose proof (put_inrec_nonempty (p_ins e1) (mkin face nonce ex)) as Hx; rewrite Epi in Hx; exact Hx).
  set (F2 := fun e => set_ins e ins').
  pose proof (ur_touch s1 n id F2 P1 (fun _ => eq_refl) (fun _ => eq_refl) (fun _ => eq_refl)) as U2.
  set (s2 := set_nodes s1 (upd_entry (nodes s1) n id F2)) in *.
  assert (G2 : get_entry (nodes s2) n id = Some (F2 e1)).
  { unfold s2. simpl. rewrite get_entry_upd by (intro; reflexivity). rewrite G1. reflexivity. }
  assert (P2 : p_inv s2) by apply (ur_p _ _ _ _ _ U2).
  assert (ND2 : no_dead (nodes s2)) by (apply (ur_nd _ _ _ _ _ U2); exact ND1).
  assert (O2 : others_ok bd' n id s2) by (apply (others_step n id s1 s2 F2 bd' U2 P1 O1)).
  assert (Hk2 : key_of (F2 e1) = (n, cbp, mbf)) by exact Hk.
  assert (R2 : rec_bounded (bd' (key_of (F2 e1))) (F2 e1)) by (rewrite Hk2; split; [exact Bins|apply R1]).
  assert (Hex : ex <= bd' (key_of (F2 e1))) by (rewrite Hk2; exact HexB).
  destruct already.
  { (* retransmission from the same face *)
    pose proof (ur_dnl_insert s2 n id (n, prev) P2) as U3.
    set (s3 := dnl_insert s2 (n, prev)) in *.
    destruct (dnl_insert_fields s2 (n, prev)) as [A1 [_ [A3 _]]]. fold s3 in A1, A3.
    simpl. apply (forward_ok s3 n id nonce ex sent bd' (F2 e1)); try assumption.
    - apply (ur_p _ _ _ _ _ U3).
    - apply (ur_nd _ _ _ _ _ U3); exact ND2.
    - apply (others_step n id s2 s3 _ bd' U3 P2 O2).
    - rewrite A1. exact G2. }
  assert (Fwd : forall sX, sX = s2 -> g_inv (let s3 := update_exp_timer sX n id in
         set_nodes s3 (upd_entry (nodes s3) n id (fun e => set_outs e
            (fold_left (fun l f => put_outrec l (mkout f nonce ex)) sent (outs_of s3 n id))))) bd').
  { intros sX ->. apply (forward_ok s2 n id nonce ex sent bd' (F2 e1)); assumption. }
  destruct (serving s2).
  2:{ simpl. apply Fwd. reflexivity. }
  pose proof (ur_find_cs s2 n id n cbp mbf P2) as U3.
  pose proof (find_cs_nil s2 n cbp mbf) as Hnil. pose proof (find_cs_shape s2 n cbp mbf) as [Hnodes Hsame].
  destruct (find_cs s2 n cbp mbf) as [s3 c]. simpl in U3, Hnil, Hnodes, Hsame.
  destruct c as [|c0 c].
  - rewrite (Hnil eq_refl). simpl. apply Fwd. reflexivity.
  - simpl. apply (hit_ok s3 n id face bd' (F2 e1)).
    + apply (ur_p _ _ _ _ _ U3).
    + apply (ur_nd _ _ _ _ _ U3). exact ND2.
    + apply (others_step n id s2 s3 _ bd' U3 P2 O2).
    + rewrite Hnodes. exact G2.
    + exact R2.
Qed.

(* ---- PitCsTree.Update: the reaper ---- *)
Definition keys (h : list (N * Z)) : list N := map fst h.

Lemma ins_sorted_perm : forall A (pr : A -> Z) x l, Permutation (ins_sorted pr x l) (x :: l).
Proof.
  intros A pr x l. induction l as [|y t IH]; simpl; [apply Permutation_refl|].
  destruct (pr x <=? pr y); [apply Permutation_refl|].
  apply Permutation_trans with (y :: x :: t); [apply perm_skip; exact IH|apply perm_swap].
Qed.

Lemma sort_by_perm : forall A (pr : A -> Z) l, Permutation (sort_by pr l) l.
Proof.
  intros A pr l. unfold sort_by. induction l as [|x t IH]; simpl; [constructor|].
  apply Permutation_trans with (x :: fold_right (ins_sorted pr) [] t); [apply ins_sorted_perm|apply perm_skip; exact IH].
Qed.

Lemma filter_split_perm : forall A (f : A -> bool) l, Permutation (filter (fun x => negb (f x)) l ++ filter f l) l.
Proof.
  intros A f l. induction l as [|x t IH]; simpl; [constructor|].
  destruct (f x); simpl; [|apply perm_skip; exact IH].
  apply Permutation_sym. apply Permutation_cons_app. apply Permutation_sym. exact IH.
Qed.

Lemma heap_key_unique : forall (h : list (N * Z)) k a b, NoDup (keys h) -> In (k, a) h -> In (k, b) h -> a = b.
Proof.
  intros h k a b Hn Ha Hb. assert ((k, a) = (k, b)); [|congruence].
  apply (NoDup_map_eq _ _ fst h); [exact Hn|exact Ha|exact Hb|reflexivity].
Qed.

Record tick_inv (s0 st : st) (D : list (N * Z)) : Prop := mk_tick_inv {
  ti_pw : pw_inv st;
  ti_nd : no_dead (nodes st);
  ti_keys_nd : NoDup (keys (heap st) ++ keys D);
  ti_keys : forall id, In id (keys (heap st) ++ keys D) <-> In id (qids (E st));
  ti_sub : forall e, In e (E st) -> In e (E s0);
  ti_now : now st = now s0 }.

Lemma expire_one_spec : forall s0 st x D, tick_inv s0 st (x :: D) ->
  tick_inv s0 (expire_one st x) D /\ heap (expire_one st x) = heap st.
Proof.
  intros s0 st [id pr] D [PW ND Kn K Sub Hnow]. unfold expire_one. simpl fst.
  pose proof PW as [C Nm I Tn T Pn X].
  assert (Hq : In id (qids (E st))) by (apply K; apply in_or_app; right; left; reflexivity).
  apply qids_In in Hq. destruct Hq as [e0 [H0 [Hid0 Hq0]]].
  destruct (find_entry (nodes st) id) as [e|] eqn:Fe.
  2:{ exfalso. apply find_entry_None in Fe. apply Fe. fold (E st). rewrite <- Hid0. apply in_map. exact H0. }
  destruct (find_entry_In _ _ _ Fe) as [He Hide].
  assert (e = e0) by (apply (NoDup_map_eq _ _ p_id (E st)); [exact I|exact He|exact H0|congruence]). subst e0.
  set (n := p_name e). rewrite Hide.
  destruct (touch_pwinv st n id (fun e1 => set_q e1 false) PW (fun _ => eq_refl) (fun _ => eq_refl)) as [PW1 HE1].
  set (st1 := set_nodes st (upd_entry (nodes st) n id (fun e1 => set_q e1 false))) in *.
  assert (ND1 : no_dead (nodes st1)) by (apply no_dead_upd_entry; exact ND).
  destruct (fold_dnl_insert_fields _ (fun o => (p_name e, o_nonce o)) (p_outs e) st1) as [A1 [A2 [A3 [A4 [A5 [A6 A7]]]]]].
  fold (finalize st1 e) in A1, A2, A3, A4, A5, A6, A7. set (st2 := finalize st1 e) in *.
  assert (PW2 : pw_inv st2).
  { apply (pwinv_same st1 st2 PW1); try assumption.
    - eapply frame_inv; [apply (pw_cs st1 PW1)|apply fr_finalize; apply (ci_tree _ (pw_cs st1 PW1))].
    - unfold st2, finalize. clear. generalize st1. induction (p_outs e) as [|o t IH]; intro s; simpl; [reflexivity|].
      rewrite IH. unfold dnl_insert. destruct (dnl_mem _ _); reflexivity. }
  assert (HE2 : E st2 = map (touch n id (fun e1 => set_q e1 false)) (E st)) by (unfold E; rewrite A1; exact HE1).
  assert (Hin2 : In (set_q e false) (E st2)).
  { rewrite HE2. apply in_map_iff. exists e. split; [|exact He]. unfold touch, n. rewrite Hide, N.eqb_refl, name_eqb_refl. reflexivity. }
  assert (ND2 : no_dead (nodes st2)) by (rewrite A1; exact ND1).
  destruct (remove_interest_spec st2 e (set_q e false) PW2 ND2 Hin2 eq_refl eq_refl) as [PW3 [ND3 [Pm [B1 [B2 _]]]]].
  set (st3 := remove_interest st2 e) in *.
  assert (NdI : NoDup (ids (set_q e false :: E st3))).
  { eapply Permutation_NoDup; [apply (Permutation_map p_id); exact Pm|]. apply (pw_ids st2 PW2). }
  unfold ids in NdI. simpl in NdI. apply NoDup_cons_iff in NdI. destruct NdI as [Hnot _]. fold (ids (E st3)) in Hnot.
  assert (Hsub3 : forall y, In y (E st3) -> In y (E st) /\ p_id y <> id).
  { intros y Hy. assert (Ny : p_id y <> id).
    { intro Ey. apply Hnot. rewrite Hide, <- Ey. apply in_map. exact Hy. }
    split; [|exact Ny]. assert (In y (E st2)) by (eapply Permutation_in; [apply Permutation_sym; exact Pm|right; exact Hy]).
    rewrite HE2 in H. apply in_map_iff in H. destruct H as [z [Ez Hz]]. unfold touch in Ez.
    destruct (N.eqb (p_id z) id && name_eqb (p_name z) n) eqn:Cz; [|subst; exact Hz].
    exfalso. apply andb_true_iff in Cz. destruct Cz as [Cz _]. apply N.eqb_eq in Cz. subst y. simpl in Ny. congruence. }
  assert (Hq3 : forall z, In z (qids (E st3)) <-> In z (qids (E st)) /\ z <> id).
  { intro z. rewrite !qids_In. split.
    - intros [y [Y1 [Y2 Y3]]]. destruct (Hsub3 y Y1) as [Y4 Y5]. split; [exists y; tauto|congruence].
    - intros [[y [Y1 [Y2 Y3]]] Nz]. exists y. split; [|tauto].
      assert (In y (E st2)).
      { rewrite HE2. apply in_map_iff. exists y. split; [|exact Y1]. apply touch_other. congruence. }
      apply (Permutation_in _ Pm) in H. destruct H as [H|H]; [|exact H]. subst y. simpl in Y2. congruence. }
  assert (Hh3 : heap st3 = heap st) by (rewrite B1, A2; reflexivity).
  split; [|exact Hh3]. split.
  - exact PW3.
  - exact ND3.
  - rewrite Hh3. simpl in Kn. apply NoDup_remove_1 in Kn. exact Kn.
  - intro z. rewrite Hh3, Hq3, <- K. simpl keys. simpl in Kn. apply NoDup_remove_2 in Kn.
    rewrite !in_app_iff. simpl. split.
    + intros [H|H]; (split; [tauto|]); intro Ez; subst z; apply Kn; apply in_or_app; tauto.
    + intros [[H|[H|H]] Nz]; [tauto|congruence|tauto].
  - intros y Hy. apply Sub. apply Hsub3. exact Hy.
  - rewrite B2, A3. exact Hnow.
Qed.

Lemma expire_fold : forall s0 D st, tick_inv s0 st D ->
  tick_inv s0 (fold_left expire_one D st) [] /\ heap (fold_left expire_one D st) = heap st.
Proof.
  intros s0 D. induction D as [|x D IH]; intros st TI; simpl; [split; [exact TI|reflexivity]|].
  destruct (expire_one_spec s0 st x D TI) as [TI' Hh]. destruct (IH _ TI') as [TI'' Hh']. split; [exact TI''|congruence].
Qed.

Lemma pit_update_spec : forall s L, g_inv s L ->
  let s' := pit_update s in
  g_inv s' L /\ (forall e, In e (E s') -> In e (E s) /\ now s < p_exp e) /\ now s' = now s /\
  now s < timer_at s' <= now s + tick_interval.
Proof.
  intros s L [P ND OK]. cbv zeta. unfold pit_update.
  set (due := sort_by snd (filter (fun x => snd x <=? now s) (heap s))).
  set (rest := filter (fun x => negb (snd x <=? now s)) (heap s)).
  set (s1 := set_heap s rest).
  apply p_inv_split in P. destruct P as [PW [Hnd Hk]].
  assert (Pk : Permutation (keys rest ++ keys due) (keys (heap s))).
  { unfold keys. rewrite <- map_app. apply Permutation_map. unfold rest, due.
    apply Permutation_trans with (filter (fun x => negb (snd x <=? now s)) (heap s) ++ filter (fun x => snd x <=? now s) (heap s)).
    - apply Permutation_app_head. apply sort_by_perm.
    - apply filter_split_perm. }
  assert (TI : tick_inv s s1 due).
  { split.
    - apply (pwinv_same s s1 PW); try reflexivity.
      eapply frame_inv; [apply (pw_cs s PW)|apply fr_heap; apply (ci_tree _ (pw_cs s PW))].
    - exact ND.
    - eapply Permutation_NoDup; [apply Permutation_sym; exact Pk|exact Hnd].
    - intro id. change (heap s1) with rest. change (E s1) with (E s). rewrite <- Hk. split; intro H.
      + eapply Permutation_in; [exact Pk|exact H].
      + eapply Permutation_in; [apply Permutation_sym; exact Pk|exact H].
    - intros e He. exact He.
    - reflexivity. }
  destruct (expire_fold s due s1 TI) as [[PW2 ND2 Kn2 K2 Sub2 Now2] Hh2].
  set (s2 := fold_left expire_one due s1) in *.
  change (heap s1) with rest in Hh2. rewrite app_nil_r in Kn2, K2.
  assert (P2 : p_inv s2) by (apply p_inv_split; split; [exact PW2|split; assumption]).
  assert (Hexp : forall e, In e (E s2) -> In e (E s) /\ now s < p_exp e /\ In (p_id e, p_exp e) rest).
  { intros e He. pose proof (Sub2 e He) as Hs. destruct (OK e Hs) as [Q1 [Q2 _]]. split; [exact Hs|].
    assert (In (p_id e) (keys (heap s2))) by (apply K2; apply qids_In; exists e; tauto).
    rewrite Hh2 in H. unfold keys in H. apply in_map_iff in H. destruct H as [[k pr] [Ek Hin]]. simpl in Ek. subst k.
    unfold rest in Hin. apply filter_In in Hin. destruct Hin as [Hin Hgt]. simpl in Hgt. apply negb_true_iff in Hgt. apply Z.leb_gt in Hgt.
    assert (pr = p_exp e) by (apply (heap_key_unique (heap s) (p_id e)); assumption). subst pr.
    split; [exact Hgt|]. unfold rest. apply filter_In. split; [exact Q2|]. simpl. apply negb_true_iff. apply Z.leb_gt. exact Hgt. }
  match goal with |- g_inv (set_timer s2 ?T) L /\ _ => set (tm := T) end.
  split; [|split; [|split]].
  - split.
    + apply (pinv_same s2 _ P2); try reflexivity.
      eapply frame_inv; [apply (pi_cs s2 P2)|apply fr_timer; apply (ci_tree _ (pi_cs s2 P2))].
    + exact ND2.
    + intros e He. change (E (set_timer s2 tm)) with (E s2) in He. destruct (Hexp e He) as [H1 [H2 H3]].
      destruct (OK e H1) as [Q1 [Q2 [B1 [B2 B3]]]]. split; [exact Q1|]. split; [change (heap (set_timer s2 tm)) with (heap s2); rewrite Hh2; exact H3|].
      unfold bounds_ok. change (now (set_timer s2 tm)) with (now s2). rewrite Now2. tauto.
  - intros e He. change (E (set_timer s2 tm)) with (E s2) in He. destruct (Hexp e He) as [H1 [H2 _]]. tauto.
  - exact Now2.
  - unfold tm. simpl. rewrite Now2. pose proof (proj1 consts_wf) as Tp.
    destruct (heap_min (heap s2)) as [m|]; [|lia].
    destruct (0 <? m - now s) eqn:E1; [|lia]. apply Z.ltb_lt in E1.
    destruct (tick_interval <? m - now s) eqn:E2; [lia|]. apply Z.ltb_ge in E2. lia.
Qed.

(* RemoveInterest on an entry that is in no node changes nothing *)
Lemma stale_remove_id : forall s id n, p_inv s -> stale_remove s id n = s.
Proof.
  intros s id n P. unfold stale_remove. destruct (mem_N id (tokmap s)) eqn:M; [reflexivity|].
  unfold remove_interest. cbn [p_name p_id]. destruct (get_node (nodes s) n) as [nd|] eqn:G; [|reflexivity].
  destruct (existsb (fun x => N.eqb (p_id x) id) (n_pit nd)) eqn:Ex; [|reflexivity]. exfalso.
  apply existsb_exists in Ex. destruct Ex as [x [X1 X2]]. apply N.eqb_eq in X2.
  assert (In id (tokmap s)).
  { apply (pi_tok s P). rewrite <- X2. apply in_map. apply ents_In. exists nd. split; [eapply get_node_In; exact G|exact X1]. }
  apply mem_N_In in H. congruence.
Qed.

(* ---- every operation, every history ---- *)
(* deadlines: an Interest raises the deadline of its key to arrival + lifetime *)
Definition bd_step (s : st) (bd : key -> Z) (o : op) : key -> Z :=
  match o with
  | OInterest _ n cbp mbf _ life _ => bump bd (n, cbp, mbf) (now s + lifetime_of life)
  | _ => bd
  end.

Lemma dnl_sweep_fields : forall s, nodes (dnl_sweep s) = nodes s /\ heap (dnl_sweep s) = heap s /\ now (dnl_sweep s) = now s /\
  tokmap (dnl_sweep s) = tokmap s /\ npit (dnl_sweep s) = npit s /\ next_id (dnl_sweep s) = next_id s /\ timer_at (dnl_sweep s) = timer_at s.
Proof.
  intro s. unfold dnl_sweep. generalize (firstn dnl_batch (sort_by snd (filter (fun x => snd x <? now s) (dnlq s)))). intro l.
  assert (H : forall (l : list (name * N * Z)) (s0 : st),
    let s' := fold_left (fun s1 x => set_dnlq (set_dnl s1 (dnl_del (fst x) (dnl s1))) (dnlq_del (fst x) (dnlq s1))) l s0 in
    nodes s' = nodes s0 /\ heap s' = heap s0 /\ now s' = now s0 /\ tokmap s' = tokmap s0 /\ npit s' = npit s0 /\ next_id s' = next_id s0 /\ timer_at s' = timer_at s0).
  { clear. induction l as [|x t IH]; intro s0; simpl; [repeat split; reflexivity|].
    specialize (IH (set_dnlq (set_dnl s0 (dnl_del (fst x) (dnl s0))) (dnlq_del (fst x) (dnlq s0)))). simpl in IH. exact IH. }
  apply H.
Qed.

Theorem step_ginv : forall s o (bd : key -> Z), g_inv s bd -> g_inv (fst (step s o)) (bd_step s bd o).
Proof.
  intros s o bd G. pose proof G as [P ND OK].
  destruct o as [d|c|n w f|n cbp mbf|face n cbp mbf nonce life sent|n w f tok| | |u|sid sn]; simpl.
  - (* time passes *)
    split.
    + apply (pinv_same s _ P); try reflexivity. destruct (pi_cs s P). split; assumption.
    + exact ND.
    + intros e He. change (E (set_now s (now s + Z.of_N d))) with (E s) in He. destruct (OK e He) as [Q1 [Q2 [B1 [B2 B3]]]].
      split; [exact Q1|]. split; [exact Q2|]. unfold bounds_ok. simpl.
      split; [lia|]. split; [exact B2|]. intros Z1 Z2. specialize (B3 Z1 Z2). lia.
  - apply (g_inv_same s _ bd G); try reflexivity; [|exact ND]. apply (pinv_same s _ P); try reflexivity.
    destruct (pi_cs s P). split; assumption.
  - apply insert_data_ginv. exact G.
  - destruct (find_cs s n cbp mbf) as [s' c] eqn:Ef.
    pose proof (ur_find_cs s [] 0%N n cbp mbf P) as U. rewrite Ef in U. simpl in U. simpl.
    apply (g_inv_same s s' bd G); [apply (ur_p _ _ _ _ _ U)|apply (ur_nd _ _ _ _ _ U); exact ND| | |apply (ur_now _ _ _ _ _ U)].
    + rewrite (ur_E _ _ _ _ _ U). apply touch_idmap.
    + pose proof (find_cs_shape s n cbp mbf) as [_ S]. rewrite Ef in S. apply (ps_heap _ _ S).
  - pose proof (process_interest_ginv s face n cbp mbf nonce life sent bd G) as H.
    destruct (process_interest s face n cbp mbf nonce life sent) as [[s' k] c]. exact H.
  - apply process_data_ginv; assumption.
  - destruct (pit_update_spec s bd G) as [G' _]. exact G'.
  - destruct (dnl_sweep_fields s) as [A1 [A2 [A3 [A4 [A5 [A6 A7]]]]]].
    apply (g_inv_same s _ bd G); [|rewrite A1; exact ND|unfold E; rewrite A1; reflexivity|exact A2|exact A3].
    apply (pinv_same s _ P); try assumption.
    eapply frame_inv; [apply (pi_cs s P)|apply fr_dnl_sweep; apply (ci_tree _ (pi_cs s P))].
  - unfold mgmt_cap. destruct (max_int <? u)%N; [exact G|].
    apply (g_inv_same s _ bd G); try reflexivity; [|exact ND]. apply (pinv_same s _ P); try reflexivity.
    destruct (pi_cs s P). split; assumption.
  - rewrite (stale_remove_id s sid sn P). exact G.
Qed.

Lemma init_ginv : forall t0 c sv ad life (bd : key -> Z), g_inv (init t0 c sv ad life) bd.
Proof.
  intros. split.
  - split.
    + apply init_cs.
    + intros nd e Hnd He. simpl in Hnd. destruct Hnd as [<-|[]]. destruct He.
    + constructor.
    + constructor.
    + intro id. simpl. tauto.
    + constructor.
    + intro id. simpl. tauto.
    + reflexivity.
    + intros id [].
  - intros p Hp H. simpl in Hp. destruct Hp as [<-|[]]. congruence.
  - intros e [].
Qed.

(* keys without an entry carry no deadline (reset to now), so that a deadline is "the latest arrival + lifetime among the
   Interests received for the key since its entry came into existence" *)
Definition has_key (s : st) (k : key) : bool := existsb (fun e => pkey_eqb (key_of e) k) (E s).
Definition tighten (s : st) (bd : key -> Z) : key -> Z := fun k => if has_key s k then bd k else now s.

Lemma g_inv_tighten : forall s bd, g_inv s bd -> g_inv s (tighten s bd).
Proof.
  intros s bd [P ND OK]. split; [exact P|exact ND|]. intros e He. unfold ok_entry, tighten.
  replace (has_key s (key_of e)) with true; [apply OK; exact He|]. symmetry. apply existsb_exists. exists e. split; [exact He|apply pkey_eqb_refl].
Qed.

Definition dl_step (s : st) (bd : key -> Z) (o : op) : key -> Z := tighten (fst (step s o)) (bd_step s bd o).
Fixpoint dl_run (s : st) (bd : key -> Z) (ops : list op) : key -> Z :=
  match ops with [] => bd | o :: t => dl_run (fst (step s o)) (dl_step s bd o) t end.

Theorem run_ginv : forall ops s bd, g_inv s bd -> g_inv (run s ops) (dl_run s bd ops).
Proof.
  induction ops as [|o t IH]; intros s bd G; [exact G|]. unfold run. simpl. apply IH. apply g_inv_tighten. apply step_ginv. exact G.
Qed.

(* ---- what the invariant gives ---- *)
Lemma pit_empty_all : forall s, p_inv s -> E s = [] -> npit s = 0 /\ tokmap s = [] /\ heap s = [].
Proof.
  intros s P HE. split; [rewrite (pi_npit s P), HE; reflexivity|]. split.
  - destruct (tokmap s) as [|x t] eqn:T; [reflexivity|]. exfalso. assert (In x (ids (E s))) by (apply (pi_tok s P); rewrite T; left; reflexivity).
    rewrite HE in H. destruct H.
  - destruct (heap s) as [|x t] eqn:T; [reflexivity|]. exfalso. assert (In (fst x) (qids (E s))) by (apply (pi_heap s P); rewrite T; left; reflexivity).
    rewrite HE in H. destruct H.
Qed.

(* all lifetimes elapsed: the reaper empties the PIT, its token map and its queue *)
Theorem pit_drains : forall s (L : key -> Z), g_inv s L -> (forall e, In e (E s) -> p_exp e <= now s) ->
  let s' := pit_update s in E s' = [] /\ npit s' = 0 /\ tokmap s' = [] /\ heap s' = [].
Proof.
  intros s L G Hall. destruct (pit_update_spec s L G) as [G' [Hsub _]]. cbv zeta.
  assert (HE : E (pit_update s) = []).
  { destruct (E (pit_update s)) as [|e t] eqn:Ee; [reflexivity|]. exfalso.
    destruct (Hsub e) as [H1 H2]; [left; reflexivity|]. specialize (Hall e H1). lia. }
  split; [exact HE|]. apply pit_empty_all; [apply (g_p _ _ G')|exact HE].
Qed.

(* tree = prefix closure of the names with a PIT entry or a cached packet; with an empty PIT: of the cached names *)
Lemma tree_closure : forall s (L : key -> Z), g_inv s L ->
  tree_ok (nodes s) /\
  (forall p, In p (paths (nodes s)) -> p <> [] -> exists q, is_prefix p q = true /\ (pit_at (nodes s) q <> [] \/ cs_at (nodes s) q <> None)) /\
  (forall q p, (pit_at (nodes s) q <> [] \/ cs_at (nodes s) q <> None) -> is_prefix p q = true -> In p (paths (nodes s))).
Proof.
  intros s L G. pose proof (ci_tree _ (pi_cs _ (g_p _ _ G))) as T. split; [exact T|]. split.
  - intros p Hp Hn. destruct (g_nd _ _ G p Hp Hn) as [q [Q1 [nd [Q2 Q3]]]]. exists q. split; [exact Q1|].
    unfold pit_at, cs_at. rewrite Q2. apply node_idle_false. exact Q3.
  - intros q p Hq Hp. assert (In q (paths (nodes s))).
    { apply has_node_In. unfold has_node. unfold pit_at, cs_at in Hq. destruct (get_node (nodes s) q); [reflexivity|destruct Hq; congruence]. }
    apply (closed_prefix _ (t_closed _ T) (length q) q p eq_refl H Hp).
Qed.

Lemma pit_at_empty : forall s q, E s = [] -> pit_at (nodes s) q = [].
Proof.
  intros s q HE. unfold pit_at. destruct (get_node (nodes s) q) as [nd|] eqn:G; [|reflexivity].
  destruct (n_pit nd) as [|e t] eqn:Pn; [reflexivity|]. exfalso.
  assert (In e (E s)) by (apply ents_In; exists nd; split; [eapply get_node_In; exact G|rewrite Pn; left; reflexivity]).
  rewrite HE in H. destruct H.
Qed.
