(* PitCs/Model.v — executable model of the PIT-CS table of one forwarding thread and of the part of the forwarding
   pipeline that creates, refreshes and reclaims its state.  No proofs here.

   Modelled Go code (pinned tree + the fix: commits listed in docs/C08.md):
     fw/table/pit-cs-tree.go   PitCsTree: InsertInterest, RemoveInterest, findInterestPrefixMatchByNameEnc,
                               FindInterestPrefixMatchByDataEnc, FindMatchingDataFromCS, findMatchingDataCSPrefix,
                               InsertData, eraseCsDataFromReplacementStrategy, fillTreeToPrefixEnc,
                               findExactMatchEntryEnc, findLongestPrefixEntryEnc, pruneIfEmpty, Update, updatePitExpiry
     fw/table/pit-cs.go        InsertInRecord, UpdateExpirationTimer, SetExpirationTimerToNow, Clear*Records
     fw/table/cs-lru.go        AfterInsert, AfterRefresh, BeforeUse, EvictEntries
     fw/table/dead-nonce-list.go  Find, Insert, RemoveExpiredEntries
     fw/table/init.go          csCapacity / SetCsCapacity (what fw/mgmt/cs.go config calls)
     fw/fw/thread.go           processIncomingInterest (from the dead-nonce test on), processIncomingData,
                               finalizeInterest; fw/fw/strategy.go SendData (in-record removal)

   Representation.  The pointer tree is a list of nodes, each carrying its path from the root (root = [], always
   present), its PIT entries in slice order and its CS entry.  Components are interned numbers (the harness checks
   that the 64-bit hashes of the components and names of a universe are pairwise distinct: tables keyed by a hash
   are modelled as keyed by the name).  Go maps (in/out records, csMap, token map, locations, DNL) are association
   lists / key lists; only their key sets and sizes are observable.  PIT entries carry an allocation number p_id
   standing for their identity (pointer) and for their random 32-bit token.  Time is UnixNano as Z. *)
From Coq Require Import List NArith ZArith Bool.
From PitCs Require Import GenConsts.
Import ListNotations.
Open Scope Z_scope.

Definition name := list N.

Fixpoint name_eqb (a b : name) : bool :=
  match a, b with
  | [], [] => true
  | x :: a', y :: b' => N.eqb x y && name_eqb a' b'
  | _, _ => false
  end.

Fixpoint is_prefix (p n : name) : bool :=
  match p, n with
  | [], _ => true
  | x :: p', y :: n' => N.eqb x y && is_prefix p' n'
  | _ :: _, [] => false
  end.

Definition parent (p : name) : name := removelast p.
Definition is_nil {A} (l : list A) : bool := match l with [] => true | _ => false end.

Fixpoint mem_name (n : name) (l : list name) : bool :=
  match l with [] => false | x :: t => name_eqb x n || mem_name n t end.
Fixpoint remove_name (n : name) (l : list name) : list name :=
  match l with [] => [] | x :: t => if name_eqb x n then remove_name n t else x :: remove_name n t end.
Definition add_name (n : name) (l : list name) : list name := if mem_name n l then l else l ++ [n].

Fixpoint mem_N (x : N) (l : list N) : bool :=
  match l with [] => false | y :: t => N.eqb y x || mem_N x t end.
Fixpoint remove_N (x : N) (l : list N) : list N :=
  match l with [] => [] | y :: t => if N.eqb y x then remove_N x t else y :: remove_N x t end.

(* ---- records ------------------------------------------------------------------------------------------- *)
Record csent := mkcs { cs_name : name; cs_wire : N; cs_stale : Z }.       (* baseCsEntry: index, wire, staleTime *)
Record inrec := mkin { i_face : N; i_nonce : N; i_exp : Z }.               (* PitInRecord *)
Record outrec := mkout { o_face : N; o_nonce : N; o_exp : Z }.             (* PitOutRecord; LatestInterest = entry name *)
Record pite := mkpit {                                                      (* nameTreePitEntry *)
  p_id : N; p_name : name; p_cbp : bool; p_mbf : bool;
  p_ins : list inrec; p_outs : list outrec; p_exp : Z; p_sat : bool;
  p_q : bool                                                                (* pqItem != nil *) }.
Record node := mknode { n_path : name; n_pit : list pite; n_cs : option csent }.

Record st := mkst {
  now : Z;
  nodes : list node;
  npit : Z;                        (* nPitEntries *)
  tokmap : list N;                 (* keys of pitTokenMap *)
  heap : list (N * Z);             (* pitExpiryQueue: (entry, priority) *)
  next_id : N;
  timer_at : Z;                    (* when the next updateTimer signal becomes ready *)
  ncs : Z;                         (* nCsEntries *)
  csmap : list name;               (* keys of csMap *)
  lruq : list name;                (* CsLRU.queue, front first *)
  locs : list name;                (* keys of CsLRU.locations *)
  cap : N;                         (* csCapacity *)
  dnl : list (name * N);           (* DeadNonceList.list keys *)
  dnlq : list (name * N * Z);      (* DeadNonceList.expirationQueue *)
  serving : bool; admitting : bool;      (* csServe, csAdmit *)
  dnl_life : Z                     (* deadNonceListLifetime (ns) *) }.

(* constants re-translated from the Go sources on every run (GenConsts.v); times in ns *)
Definition tick_interval : Z := gen_tick_ms * 1000000.             (* expiredPitTickerInterval *)
Definition default_lifetime : Z := gen_default_lifetime_ms * 1000000.  (* lifetime of an Interest that carries none *)
Definition dnl_batch : nat := gen_dnl_batch.                        (* RemoveExpiredEntries batch *)

(* SetCsCapacity(capacity int): a negative value (a uint64 >= 2^63 converted by fw/mgmt/cs.go) means unlimited (math.MaxInt) *)
Definition max_int : N := 9223372036854775807.
Definition cap_of_int (c : Z) : N := if c <? 0 then max_int else Z.to_N c.

Definition init (t0 : Z) (c : N) (sv ad : bool) (life : Z) : st :=
  mkst t0 [mknode [] [] None] 0 [] [] 1 (t0 + tick_interval) 0 [] [] [] c [] [] sv ad life.

Definition set_now (s : st) v := mkst v (nodes s) (npit s) (tokmap s) (heap s) (next_id s) (timer_at s) (ncs s) (csmap s) (lruq s) (locs s) (cap s) (dnl s) (dnlq s) (serving s) (admitting s) (dnl_life s).
Definition set_nodes (s : st) v := mkst (now s) v (npit s) (tokmap s) (heap s) (next_id s) (timer_at s) (ncs s) (csmap s) (lruq s) (locs s) (cap s) (dnl s) (dnlq s) (serving s) (admitting s) (dnl_life s).
Definition set_npit (s : st) v := mkst (now s) (nodes s) v (tokmap s) (heap s) (next_id s) (timer_at s) (ncs s) (csmap s) (lruq s) (locs s) (cap s) (dnl s) (dnlq s) (serving s) (admitting s) (dnl_life s).
Definition set_tokmap (s : st) v := mkst (now s) (nodes s) (npit s) v (heap s) (next_id s) (timer_at s) (ncs s) (csmap s) (lruq s) (locs s) (cap s) (dnl s) (dnlq s) (serving s) (admitting s) (dnl_life s).
Definition set_heap (s : st) v := mkst (now s) (nodes s) (npit s) (tokmap s) v (next_id s) (timer_at s) (ncs s) (csmap s) (lruq s) (locs s) (cap s) (dnl s) (dnlq s) (serving s) (admitting s) (dnl_life s).
Definition set_next_id (s : st) v := mkst (now s) (nodes s) (npit s) (tokmap s) (heap s) v (timer_at s) (ncs s) (csmap s) (lruq s) (locs s) (cap s) (dnl s) (dnlq s) (serving s) (admitting s) (dnl_life s).
Definition set_timer (s : st) v := mkst (now s) (nodes s) (npit s) (tokmap s) (heap s) (next_id s) v (ncs s) (csmap s) (lruq s) (locs s) (cap s) (dnl s) (dnlq s) (serving s) (admitting s) (dnl_life s).
Definition set_ncs (s : st) v := mkst (now s) (nodes s) (npit s) (tokmap s) (heap s) (next_id s) (timer_at s) v (csmap s) (lruq s) (locs s) (cap s) (dnl s) (dnlq s) (serving s) (admitting s) (dnl_life s).
Definition set_csmap (s : st) v := mkst (now s) (nodes s) (npit s) (tokmap s) (heap s) (next_id s) (timer_at s) (ncs s) v (lruq s) (locs s) (cap s) (dnl s) (dnlq s) (serving s) (admitting s) (dnl_life s).
Definition set_lruq (s : st) v := mkst (now s) (nodes s) (npit s) (tokmap s) (heap s) (next_id s) (timer_at s) (ncs s) (csmap s) v (locs s) (cap s) (dnl s) (dnlq s) (serving s) (admitting s) (dnl_life s).
Definition set_locs (s : st) v := mkst (now s) (nodes s) (npit s) (tokmap s) (heap s) (next_id s) (timer_at s) (ncs s) (csmap s) (lruq s) v (cap s) (dnl s) (dnlq s) (serving s) (admitting s) (dnl_life s).
Definition set_cap (s : st) v := mkst (now s) (nodes s) (npit s) (tokmap s) (heap s) (next_id s) (timer_at s) (ncs s) (csmap s) (lruq s) (locs s) v (dnl s) (dnlq s) (serving s) (admitting s) (dnl_life s).
Definition set_dnl (s : st) v := mkst (now s) (nodes s) (npit s) (tokmap s) (heap s) (next_id s) (timer_at s) (ncs s) (csmap s) (lruq s) (locs s) (cap s) v (dnlq s) (serving s) (admitting s) (dnl_life s).
Definition set_dnlq (s : st) v := mkst (now s) (nodes s) (npit s) (tokmap s) (heap s) (next_id s) (timer_at s) (ncs s) (csmap s) (lruq s) (locs s) (cap s) (dnl s) v (serving s) (admitting s) (dnl_life s).

(* ---- the name tree (pitCsTreeNode) ----------------------------------------------------------------------- *)
Fixpoint get_node (l : list node) (p : name) : option node :=
  match l with [] => None | nd :: t => if name_eqb (n_path nd) p then Some nd else get_node t p end.
Definition has_node (l : list node) (p : name) : bool := match get_node l p with Some _ => true | None => false end.
Definition upd_node (l : list node) (p : name) (f : node -> node) : list node :=
  map (fun nd => if name_eqb (n_path nd) p then f nd else nd) l.
Fixpoint del_node (l : list node) (p : name) : list node :=
  match l with [] => [] | nd :: t => if name_eqb (n_path nd) p then del_node t p else nd :: del_node t p end.

(* findLongestPrefixEntryEnc: number of components matched walking down child by child from the root *)
Fixpoint descend_from (l : list node) (k : nat) (fuel : nat) (n : name) : nat :=
  match fuel with
  | O => k
  | S f => if (k <? length n)%nat && has_node l (firstn (S k) n) then descend_from l (S k) f n else k
  end.
Definition descend (l : list node) (n : name) : nat := descend_from l 0 (length n) n.

(* findExactMatchEntryEnc *)
Definition exact_node (l : list node) (n : name) : option node :=
  if (descend l n =? length n)%nat then get_node l n else None.

(* fillTreeToPrefixEnc: create the missing nodes below the longest existing prefix *)
Fixpoint fill_from (l : list node) (k : nat) (fuel : nat) (n : name) : list node :=
  match fuel with
  | O => l
  | S f => fill_from (l ++ [mknode (firstn (S k) n) [] None]) (S k) f n
  end.
Definition fill (l : list node) (n : name) : list node :=
  let k := descend l n in fill_from l k (length n - k) n.

Definition has_child (l : list node) (p : name) : bool :=
  existsb (fun nd => negb (is_nil (n_path nd)) && name_eqb (parent (n_path nd)) p) l.

Definition node_idle (nd : node) : bool := is_nil (n_pit nd) && match n_cs nd with None => true | Some _ => false end.

(* pruneIfEmpty: walk up from p deleting nodes with no children, no PIT entries and no CS entry; never the root *)
Fixpoint prune_from (l : list node) (fuel : nat) (p : name) : list node :=
  match fuel with
  | O => l
  | S f =>
    if is_nil p then l else
    match get_node l p with
    | None => l
    | Some nd => if negb (has_child l p) && node_idle nd then prune_from (del_node l p) f (parent p) else l
    end
  end.
Definition prune (l : list node) (p : name) : list node := prune_from l (S (length p)) p.

(* ---- dead nonce list ------------------------------------------------------------------------------------- *)
Definition key_eqb (a b : name * N) : bool := name_eqb (fst a) (fst b) && N.eqb (snd a) (snd b).
Fixpoint dnl_mem (k : name * N) (l : list (name * N)) : bool :=
  match l with [] => false | x :: t => key_eqb x k || dnl_mem k t end.
Fixpoint dnl_del (k : name * N) (l : list (name * N)) : list (name * N) :=
  match l with [] => [] | x :: t => if key_eqb x k then dnl_del k t else x :: dnl_del k t end.

Definition dnl_insert (s : st) (k : name * N) : st :=            (* DeadNonceList.Insert *)
  if dnl_mem k (dnl s) then s
  else set_dnlq (set_dnl s (dnl s ++ [k])) (dnlq s ++ [(k, now s + dnl_life s)]).

Fixpoint ins_sorted {A} (pr : A -> Z) (x : A) (l : list A) : list A :=
  match l with [] => [x] | y :: t => if pr x <=? pr y then x :: l else y :: ins_sorted pr x t end.
Definition sort_by {A} (pr : A -> Z) (l : list A) : list A := fold_right (ins_sorted pr) [] l.

Fixpoint dnlq_del (k : name * N) (l : list (name * N * Z)) : list (name * N * Z) :=
  match l with [] => [] | x :: t => if key_eqb (fst x) k then dnlq_del k t else x :: dnlq_del k t end.

Definition dnl_sweep (s : st) : st :=                             (* RemoveExpiredEntries: at most 100 per call *)
  let due := firstn dnl_batch (sort_by snd (filter (fun x => snd x <? now s) (dnlq s))) in
  fold_left (fun s x => set_dnlq (set_dnl s (dnl_del (fst x) (dnl s))) (dnlq_del (fst x) (dnlq s))) due s.

(* ---- content store ---------------------------------------------------------------------------------------- *)
Definition lru_touch (s : st) (n : name) : st :=                  (* AfterRefresh / BeforeUse *)
  set_locs (set_lruq s (remove_name n (lruq s) ++ [n])) (add_name n (locs s)).

Definition erase_cs (s : st) (n : name) : st :=                   (* eraseCsDataFromReplacementStrategy *)
  if mem_name n (csmap s) then
    let l1 := upd_node (nodes s) n (fun nd => mknode (n_path nd) (n_pit nd) None) in
    set_ncs (set_csmap (set_nodes s (prune l1 n)) (remove_name n (csmap s))) (ncs s - 1)
  else s.

(* EvictEntries: while queue.Len() > csCapacity: erase front, pop front (and forget its location) *)
Fixpoint evict (fuel : nat) (s : st) : st :=
  match fuel with
  | O => s
  | S f =>
    match lruq s with
    | [] => s
    | x :: q => if (cap s <? N.of_nat (length (lruq s)))%N
                then evict f (set_locs (set_lruq (erase_cs s x) q) (remove_name x (locs s)))
                else s
    end
  end.

Definition stale_of (s : st) (fresh : option N) : Z :=
  match fresh with Some f => now s + Z.of_N f | None => now s end.

Definition insert_data (s : st) (n : name) (w : N) (fresh : option N) : st :=   (* InsertData *)
  let e := mkcs n w (stale_of s fresh) in
  if mem_name n (csmap s) then
    lru_touch (set_nodes s (upd_node (nodes s) n (fun nd => mknode (n_path nd) (n_pit nd) (Some e)))) n
  else
    let l1 := fill (nodes s) n in
    let l2 := upd_node l1 n (fun nd => mknode (n_path nd) (n_pit nd) (Some e)) in
    let s1 := set_csmap (set_nodes (set_ncs s (ncs s + 1)) l2) (csmap s ++ [n]) in
    let s2 := set_locs (set_lruq s1 (lruq s1 ++ [n])) (add_name n (locs s1)) in      (* AfterInsert *)
    evict (S (length (lruq s2))) s2.

Definition acceptable (s : st) (mbf : bool) (e : csent) : bool := negb mbf || (now s <? cs_stale e).

Definition node_hit (s : st) (mbf : bool) (nd : node) : option csent :=
  match n_cs nd with Some e => if acceptable s mbf e then Some e else None | None => None end.

(* A CanBePrefix lookup may answer with ANY cached packet whose name extends the Interest name and that is fresh enough
   (that is all the property demands; which one is the implementation's choice - Go map order, first found, deepest ...):
   `prefix_cands` is that set.  The pinned findMatchingDataCSPrefix (own entry before descendants, children in map order) picks
   inside the narrower `dfs_cands` (no acceptable entry strictly above the answer); Tree.v proves dfs_cands <= prefix_cands and
   that every visiting order of the code's search answers in dfs_cands and answers nil only when prefix_cands is empty. *)
Fixpoint blocked (s : st) (mbf : bool) (from : nat) (fuel : nat) (p : name) : bool :=
  (* some node firstn k p with from <= k < from + fuel has an acceptable entry *)
  match fuel with
  | O => false
  | S f => match get_node (nodes s) (firstn from p) with
           | Some nd => match node_hit s mbf nd with Some _ => true | None => blocked s mbf (S from) f p end
           | None => blocked s mbf (S from) f p
           end
  end.

Definition prefix_cands (s : st) (n : name) (mbf : bool) : list csent :=
  flat_map (fun nd =>
    match node_hit s mbf nd with
    | Some e => if is_prefix n (n_path nd) then [e] else []
    | None => []
    end) (nodes s).

Definition dfs_cands (s : st) (n : name) (mbf : bool) : list csent :=
  flat_map (fun nd =>
    match node_hit s mbf nd with
    | Some e => if is_prefix n (n_path nd) && negb (blocked s mbf (length n) (length (n_path nd) - length n) (n_path nd))
                then [e] else []
    | None => []
    end) (nodes s).

(* findMatchingDataCSPrefix as written: the node's own entry if acceptable, else the children in the order `ord` gives
   (Go map iteration: any order), first non-nil answer wins.  `fuel` bounds the depth. *)
Definition children_of (l : list node) (p : name) : list name :=
  map n_path (filter (fun nd => negb (is_nil (n_path nd)) && name_eqb (parent (n_path nd)) p) l).

Fixpoint first_some {A B} (f : A -> option B) (l : list A) : option B :=
  match l with [] => None | x :: t => match f x with Some y => Some y | None => first_some f t end end.

Fixpoint dfs (ord : list name -> list name) (s : st) (mbf : bool) (fuel : nat) (p : name) : option csent :=
  match get_node (nodes s) p with
  | None => None
  | Some nd =>
    match node_hit s mbf nd with
    | Some e => Some e
    | None => match fuel with
              | O => None
              | S f => first_some (dfs ord s mbf f) (ord (children_of (nodes s) p))
              end
    end
  end.

Definition depth_of (s : st) : nat := fold_left Nat.max (map (fun nd => length (n_path nd)) (nodes s)) 0%nat.

(* FindMatchingDataFromCS: new state and the list of admissible answers ([] = nil) *)
Definition find_cs (s : st) (n : name) (cbp mbf : bool) : st * list csent :=
  match exact_node (nodes s) n with
  | None => (s, [])
  | Some nd =>
    if cbp then (s, prefix_cands s n mbf)
    else match node_hit s mbf nd with
         | Some e => (lru_touch s (cs_name e), [e])          (* BeforeUse(index) *)
         | None => (s, [])
         end
  end.

(* ---- PIT ---------------------------------------------------------------------------------------------------- *)
Definition upd_entry (l : list node) (n : name) (id : N) (f : pite -> pite) : list node :=
  upd_node l n (fun nd => mknode (n_path nd) (map (fun e => if N.eqb (p_id e) id then f e else e) (n_pit nd)) (n_cs nd)).

Fixpoint find_entry (l : list node) (id : N) : option pite :=
  match l with
  | [] => None
  | nd :: t => match find (fun e => N.eqb (p_id e) id) (n_pit nd) with Some e => Some e | None => find_entry t id end
  end.

Definition get_entry (l : list node) (n : name) (id : N) : option pite :=
  match get_node l n with Some nd => find (fun e => N.eqb (p_id e) id) (n_pit nd) | None => None end.

Definition set_ins (e : pite) v := mkpit (p_id e) (p_name e) (p_cbp e) (p_mbf e) v (p_outs e) (p_exp e) (p_sat e) (p_q e).
Definition set_outs (e : pite) v := mkpit (p_id e) (p_name e) (p_cbp e) (p_mbf e) (p_ins e) v (p_exp e) (p_sat e) (p_q e).
Definition set_exp (e : pite) v := mkpit (p_id e) (p_name e) (p_cbp e) (p_mbf e) (p_ins e) (p_outs e) v (p_sat e) (p_q e).
Definition set_sat (e : pite) v := mkpit (p_id e) (p_name e) (p_cbp e) (p_mbf e) (p_ins e) (p_outs e) (p_exp e) v (p_q e).
Definition set_q (e : pite) v := mkpit (p_id e) (p_name e) (p_cbp e) (p_mbf e) (p_ins e) (p_outs e) (p_exp e) (p_sat e) v.

(* InsertInterest (forwarding hint always nil in the modelled histories): returns state, entry id, duplicate flag *)
Definition insert_interest (s : st) (n : name) (cbp mbf : bool) (nonce face : N) : st * N * bool :=
  let l1 := fill (nodes s) n in
  let cur := match get_node l1 n with Some nd => n_pit nd | None => [] end in
  match find (fun e => Bool.eqb (p_cbp e) cbp && Bool.eqb (p_mbf e) mbf) cur with
  | Some e =>
    if existsb (fun r => negb (N.eqb (i_face r) face) && N.eqb (i_nonce r) nonce) (p_ins e)
    then (set_nodes s l1, p_id e, true)
    else (set_nodes s (upd_entry l1 n (p_id e) (fun e => set_exp e 0)), p_id e, false)
  | None =>
    let id := next_id s in
    let e := mkpit id n cbp mbf [] [] 0 false false in
    let l2 := upd_node l1 n (fun nd => mknode (n_path nd) (n_pit nd ++ [e]) (n_cs nd)) in
    (set_next_id (set_tokmap (set_npit (set_nodes s l2) (npit s + 1)) (tokmap s ++ [id])) (id + 1)%N, id, false)
  end.

(* InsertInRecord: returns new in-record list, whether the face already had one, and its previous nonce *)
Fixpoint put_inrec (l : list inrec) (r : inrec) : list inrec * bool * N :=
  match l with
  | [] => ([r], false, 0%N)
  | x :: t => if N.eqb (i_face x) (i_face r) then (r :: t, true, i_nonce x)
              else let '(t', b, pn) := put_inrec t r in (x :: t', b, pn)
  end.

Fixpoint put_outrec (l : list outrec) (r : outrec) : list outrec :=      (* InsertOutRecord *)
  match l with
  | [] => [r]
  | x :: t => if N.eqb (o_face x) (o_face r) then r :: t else x :: put_outrec t r
  end.

Definition max_in (b : Z) (l : list inrec) : Z := fold_left (fun a r => Z.max a (i_exp r)) l b.
Definition max_out (b : Z) (l : list outrec) : Z := fold_left (fun a r => Z.max a (o_exp r)) l b.

Fixpoint heap_set (h : list (N * Z)) (id : N) (pr : Z) : list (N * Z) :=
  match h with [] => [] | x :: t => if N.eqb (fst x) id then (id, pr) :: t else x :: heap_set t id pr end.

(* SetExpirationTime(t) followed by updatePitExpiry *)
Definition schedule (s : st) (n : name) (id : N) (t : Z) : st :=
  match get_entry (nodes s) n id with
  | None => s
  | Some e =>
    let s1 := set_nodes s (upd_entry (nodes s) n id (fun e => set_q (set_exp e t) true)) in
    if p_q e then set_heap s1 (heap_set (heap s) id t) else set_heap s1 (heap s ++ [(id, t)])
  end.

Definition update_exp_timer (s : st) (n : name) (id : N) : st :=          (* UpdateExpirationTimer *)
  match get_entry (nodes s) n id with
  | None => s
  | Some e => schedule s n id (max_out (max_in (now s) (p_ins e)) (p_outs e))
  end.

Definition set_exp_now (s : st) (n : name) (id : N) : st := schedule s n id (now s).   (* SetExpirationTimerToNow *)

(* RemoveInterest: swap with the last entry of the node's slice, shrink, prune when the slice became empty *)
Fixpoint swap_del (l : list pite) (id : N) : list pite :=
  match l with
  | [] => []
  | e :: t => if N.eqb (p_id e) id
              then match t with [] => [] | _ => last t e :: removelast t end
              else e :: swap_del t id
  end.

Definition remove_interest (s : st) (e : pite) : st :=
  match get_node (nodes s) (p_name e) with
  | None => s
  | Some nd =>
    if existsb (fun x => N.eqb (p_id x) (p_id e)) (n_pit nd) then
      let l1 := upd_node (nodes s) (p_name e) (fun nd => mknode (n_path nd) (swap_del (n_pit nd) (p_id e)) (n_cs nd)) in
      let l2 := match get_node l1 (p_name e) with
                | Some nd' => if is_nil (n_pit nd') then prune l1 (p_name e) else l1
                | None => l1 end in
      set_tokmap (set_npit (set_nodes s l2) (npit s - 1)) (remove_N (p_id e) (tokmap s))
    else s
  end.

(* finalizeInterest: out-record nonces go to the dead nonce list *)
Definition finalize (s : st) (e : pite) : st :=
  fold_left (fun s o => dnl_insert s (p_name e, o_nonce o)) (p_outs e) s.

Definition expire_one (s : st) (x : N * Z) : st :=
  match find_entry (nodes s) (fst x) with
  | None => s
  | Some e =>
    let s1 := set_nodes s (upd_entry (nodes s) (p_name e) (p_id e) (fun e => set_q e false)) in
    remove_interest (finalize s1 e) e
  end.

Definition heap_min (h : list (N * Z)) : option Z :=
  match h with [] => None | x :: t => Some (fold_left (fun a y => Z.min a (snd y)) t (snd x)) end.

(* PitCsTree.Update *)
Definition pit_update (s : st) : st :=
  let due := sort_by snd (filter (fun x => snd x <=? now s) (heap s)) in
  let s1 := set_heap s (filter (fun x => negb (snd x <=? now s)) (heap s)) in
  let s2 := fold_left expire_one due s1 in
  let d := match heap_min (heap s2) with
           | None => tick_interval
           | Some m => let sl := m - now s2 in
                       if 0 <? sl then (if tick_interval <? sl then tick_interval else sl) else tick_interval
           end in
  set_timer s2 (now s2 + d).

(* findInterestPrefixMatchByNameEnc: from the longest existing prefix of the Data name up to the root *)
Fixpoint match_up (l : list node) (n : name) (k : nat) : list pite :=
  let here := match get_node l (firstn k n) with
              | Some nd => filter (fun e => p_cbp e || (k =? length n)%nat) (n_pit nd)
              | None => [] end in
  match k with O => here | S k' => here ++ match_up l n k' end.

Definition pit_matches (s : st) (n : name) (tok : option N) : list pite :=   (* FindInterestPrefixMatchByDataEnc *)
  match tok with
  | Some t => if mem_N t (tokmap s) then match find_entry (nodes s) t with Some e => [e] | None => [] end else []
  | None => match_up (nodes s) n (descend (nodes s) n)
  end.

Definition clear_records (s : st) (n : name) (id : N) : st :=
  set_nodes s (upd_entry (nodes s) n id (fun e => set_outs (set_ins e []) [])).
Definition mark_sat (s : st) (n : name) (id : N) : st :=
  set_nodes s (upd_entry (nodes s) n id (fun e => set_sat e true)).

Definition outs_of (s : st) (n : name) (id : N) : list outrec :=
  match get_entry (nodes s) n id with Some e => p_outs e | None => [] end.

(* one satisfied entry; `src` is the entry whose out-records feed the dead nonce list
   (the entry itself on the single-match path, pitEntries[0] on the multiple-match path) *)
Definition satisfy (dn : name) (src : pite) (s : st) (e : pite) : st :=
  let s1 := set_exp_now s (p_name e) (p_id e) in
  let s2 := mark_sat s1 (p_name e) (p_id e) in
  let s3 := fold_left (fun s o => dnl_insert s (dn, o_nonce o)) (outs_of s2 (p_name src) (p_id src)) s2 in
  clear_records s3 (p_name e) (p_id e).

(* processIncomingData (face known, no /localhost violation) *)
Definition process_data (s : st) (n : name) (w : N) (fresh : option N) (tok : option N) : st :=
  let s1 := if admitting s then insert_data s n w fresh else s in
  match pit_matches s1 n tok with
  | [] => s1
  | [e] => satisfy n e s1 e
  | e0 :: rest => fold_left (satisfy n e0) (e0 :: rest) s1
  end.

Definition del_inrec (s : st) (n : name) (id face : N) : st :=               (* StrategyBase.SendData *)
  set_nodes s (upd_entry (nodes s) n id (fun e => set_ins e (filter (fun r => negb (N.eqb (i_face r) face)) (p_ins e)))).

Definition lifetime_of (life : option N) : Z := match life with Some l => Z.of_N l | None => default_lifetime end.

(* processIncomingInterest from the dead-nonce test on (face known, hop limit > 0, no /localhost violation, nonce
   present, no forwarding hint, no NextHopFaceId).  `sent` = faces the strategy sent the Interest to (an input:
   theorems hold for every choice; the harness supplies what the implementation did).
   Result kind: 1 dropped (dead nonce), 2 dropped (duplicate nonce), 3 answered from the CS, 4 passed to the strategy. *)
Definition process_interest (s : st) (face : N) (n : name) (cbp mbf : bool) (nonce : N) (life : option N)
           (sent : list N) : st * N * list csent :=
  if dnl_mem (n, nonce) (dnl s) then (s, 1%N, []) else
  let '(s1, id, dup) := insert_interest s n cbp mbf nonce face in
  if dup then (s1, 2%N, []) else
  let ex := now s1 + lifetime_of life in
  let '(ins', already, prev) := put_inrec (match get_entry (nodes s1) n id with Some e => p_ins e | None => [] end)
                                          (mkin face nonce ex) in
  let s2 := set_nodes s1 (upd_entry (nodes s1) n id (fun e => set_ins e ins')) in
  let forward (s : st) :=
    let s3 := update_exp_timer s n id in
    let outs' := fold_left (fun l f => put_outrec l (mkout f nonce ex)) sent (outs_of s3 n id) in
    (set_nodes s3 (upd_entry (nodes s3) n id (fun e => set_outs e outs')), 4%N, []) in
  if already then forward (dnl_insert s2 (n, prev))
  else if serving s2 then
    match find_cs s2 n cbp mbf with
    | (s3, []) => forward s3
    | (s3, c) => (update_exp_timer (del_inrec s3 n id face) n id, 3%N, c)
    end
  else forward s2.

(* ---- histories ------------------------------------------------------------------------------------------------ *)
Inductive op :=
| OAdv (d : N)                                                        (* virtual time passes *)
| OCap (c : Z)                                                        (* table.SetCsCapacity(int) (management cs/config) *)
| OIns (n : name) (w : N) (fresh : option N)                          (* PitCsTable.InsertData *)
| OFind (n : name) (cbp mbf : bool)                                   (* PitCsTable.FindMatchingDataFromCS *)
| OInterest (face : N) (n : name) (cbp mbf : bool) (nonce : N) (life : option N) (sent : list N)
| OData (n : name) (w : N) (fresh : option N) (tok : option N)
| OTick                                                               (* PitCsTable.Update *)
| ODnl                                                                (* DeadNonceList.RemoveExpiredEntries *)
| OMgmtCap (u : N)                                                    (* cs/config command with Capacity = u handled by fw/mgmt/cs.go *)
| OStaleRemove (id : N) (n : name).                                   (* RemoveInterest on a handle whose entry (id, at name n) is no longer in the table *)

(* fw/mgmt/cs.go ContentStoreModule.config carrying a Capacity (uint64 on the wire): a value above math.MaxInt is refused
   (400) and nothing changes; otherwise table.SetCsCapacity(int(capacity)) *)
Definition mgmt_cap (s : st) (u : N) : st := if (max_int <? u)%N then s else set_cap s (cap_of_int (Z.of_N u)).

(* PitCsTree.RemoveInterest called with a stale handle: the entry `id` (created under name n) was removed earlier (reaper), the
   handle was kept.  The code walks the pitEntries of the handle's node, finds nothing, returns false; the model evaluates the
   same RemoveInterest on an entry value that is in no node.  (Handles of live entries are not removed this way.) *)
Definition stale_remove (s : st) (id : N) (n : name) : st :=
  if mem_N id (tokmap s) then s else remove_interest s (mkpit id n false false [] [] 0 false false).

Inductive res := RNone | RFind (c : list csent) | RInt (k : N) (c : list csent).

Definition step (s : st) (o : op) : st * res :=
  match o with
  | OAdv d => (set_now s (now s + Z.of_N d), RNone)
  | OCap c => (set_cap s (cap_of_int c), RNone)
  | OIns n w f => (insert_data s n w f, RNone)
  | OFind n cbp mbf => let '(s', c) := find_cs s n cbp mbf in (s', RFind c)
  | OInterest face n cbp mbf nonce life sent =>
      let '(s', k, c) := process_interest s face n cbp mbf nonce life sent in (s', RInt k c)
  | OData n w f tok => (process_data s n w f tok, RNone)
  | OTick => (pit_update s, RNone)
  | ODnl => (dnl_sweep s, RNone)
  | OMgmtCap u => (mgmt_cap s u, RNone)
  | OStaleRemove id n => (stale_remove s id n, RNone)
  end.

Definition run (s : st) (ops : list op) : st := fold_left (fun s o => fst (step s o)) ops s.
