(* PitCs/Spec.v — what C07 and C08 demand, as short executable definitions (no proofs here).
   These are (a) the right-hand sides of the theorems in Props_C07.v / Props_C08.v and (b) extracted and evaluated by
   the runner on the IMPLEMENTATION's observations (the failing-input search). *)
From Coq Require Import List NArith ZArith Bool.
From PitCs Require Import Model.
Import ListNotations.
Open Scope Z_scope.

(* ================================================================================================================
   C07: the cache is a list of (name, wire, stale-at) in recency order, least recently used first.
   ================================================================================================================ *)
Record cache := mkcache { c_now : Z; c_list : list csent; c_cap : N }.

Definition c_init (t0 : Z) (c : N) : cache := mkcache t0 [] c.

Fixpoint c_lookup (l : list csent) (n : name) : option csent :=
  match l with [] => None | e :: t => if name_eqb (cs_name e) n then Some e else c_lookup t n end.
Fixpoint c_remove (l : list csent) (n : name) : list csent :=
  match l with [] => [] | e :: t => if name_eqb (cs_name e) n then c_remove t n else e :: c_remove t n end.

Definition c_fresh (c : cache) (mbf : bool) (e : csent) : bool := negb mbf || (c_now c <? cs_stale e).

(* time passes / capacity is set *)
Definition c_adv (c : cache) (d : N) : cache := mkcache (c_now c + Z.of_N d) (c_list c) (c_cap c).
Definition c_setcap (c : cache) (k : Z) : cache := mkcache (c_now c) (c_list c) (cap_of_int k).
(* capacity set through the management command: refused above the int range *)
Definition c_mgmtcap (c : cache) (u : N) : cache := if (max_int <? u)%N then c else c_setcap c (Z.of_N u).

(* insertion: a refresh moves the entry to the most-recent end; a new name is appended and then the least recently
   used entries are dropped until at most the CURRENT capacity remain *)
Definition c_insert (c : cache) (n : name) (w : N) (fresh : option N) : cache :=
  let e := mkcs n w (match fresh with Some f => c_now c + Z.of_N f | None => c_now c end) in
  match c_lookup (c_list c) n with
  | Some _ => mkcache (c_now c) (c_remove (c_list c) n ++ [e]) (c_cap c)
  | None => let l := c_list c ++ [e] in mkcache (c_now c) (skipn (N.to_nat (N.of_nat (length l) - c_cap c)) l) (c_cap c)
  end.

(* exact-name lookup: the entry, if cached and (when MustBeFresh) not yet stale; a hit makes it most recent *)
Definition c_exact (c : cache) (n : name) (mbf : bool) : cache * option csent :=
  match c_lookup (c_list c) n with
  | Some e => if c_fresh c mbf e then (mkcache (c_now c) (c_remove (c_list c) n ++ [e]) (c_cap c), Some e) else (c, None)
  | None => (c, None)
  end.

(* CanBePrefix lookup: any cached entry whose name extends n and that is fresh enough may be returned; the order is untouched *)
Definition c_prefix_ok (c : cache) (n : name) (mbf : bool) (e : csent) : bool :=
  match c_lookup (c_list c) (cs_name e) with
  | Some e' => is_prefix n (cs_name e) && c_fresh c mbf e' && N.eqb (cs_wire e') (cs_wire e) && (cs_stale e' =? cs_stale e)
  | None => false
  end.
Definition c_prefix_any (c : cache) (n : name) (mbf : bool) : bool :=
  existsb (fun e => is_prefix n (cs_name e) && c_fresh c mbf e) (c_list c).

(* the answer `r` (name, wire) an implementation gave to a lookup, judged against the cache.
   0 = fine; otherwise the number of the clause of the statement that fails:
   1 wrong name (not equal / not an extension)   2 not cached under that name (evicted or never inserted)
   3 stale entry returned although MustBeFresh     4 bytes differ from the latest insertion
   5 a cached, unevicted, fresh-enough entry was not found by an exact-name lookup *)
Definition c_judge (c : cache) (n : name) (cbp mbf : bool) (r : option (name * N)) : N :=
  match r with
  | Some (m, w) =>
    if negb (if cbp then is_prefix n m else name_eqb n m) then 1%N else
    match c_lookup (c_list c) m with
    | None => 2%N
    | Some e => if negb (c_fresh c mbf e) then 3%N else if negb (N.eqb (cs_wire e) w) then 4%N else 0%N
    end
  | None =>
    if cbp then 0%N
    else match c_lookup (c_list c) n with Some e => if c_fresh c mbf e then 5%N else 0%N | None => 0%N end
  end.

(* the cache-level meaning of one operation of a history (r = what the step answered: an Interest touches the cache
   only when it was answered from it by an exact-name lookup) *)
Definition cache_step (c : cache) (ad : bool) (o : op) (r : res) : cache :=
  match o with
  | OAdv d => c_adv c d
  | OCap k => c_setcap c k
  | OIns n w f => c_insert c n w f
  | OFind n cbp mbf => if cbp then c else fst (c_exact c n mbf)
  | OInterest _ n cbp mbf _ _ _ =>
      match r with RInt 3%N _ => if cbp then c else fst (c_exact c n mbf) | _ => c end
  | OData n w f _ => if ad then c_insert c n w f else c
  | OTick => c
  | ODnl => c
  | OMgmtCap u => c_mgmtcap c u
  | OStaleRemove _ _ => c
  end.

(* a history seen from the cache: each element is (csAdmit flag, operation, what the step answered) *)
Definition tstep : Type := (bool * op * res)%type.
Definition cache_run (c : cache) (tr : list tstep) : cache :=
  fold_left (fun c x => cache_step c (fst (fst x)) (snd (fst x)) (snd x)) tr c.

(* the packet most recently inserted under name n in a history that starts at time t0: its wire and the time at
   which it turns stale (insertion time + FreshnessPeriod; insertion time itself when there is none) *)
Definition inserted (x : tstep) (n : name) : option (N * option N) :=
  match snd (fst x) with
  | OIns m w f => if name_eqb m n then Some (w, f) else None
  | OData m w f _ => if fst (fst x) && name_eqb m n then Some (w, f) else None
  | _ => None
  end.
Definition adv_of (x : tstep) : Z := match snd (fst x) with OAdv d => Z.of_N d | _ => 0 end.
Definition clock (t0 : Z) (tr : list tstep) : Z := fold_left (fun c x => c + adv_of x) tr t0.
Definition latest_step (n : name) (a : Z * option (N * Z)) (x : tstep) : Z * option (N * Z) :=
  (fst a + adv_of x,
   match inserted x n with
   | Some (w, f) => Some (w, fst a + match f with Some d => Z.of_N d | None => 0 end)
   | None => snd a
   end).
Definition latest (t0 : Z) (tr : list tstep) (n : name) : option (N * Z) := snd (fold_left (latest_step n) tr (t0, None)).

(* content comparison used after every operation: the implementation caches exactly the entries of the spec
   (which is how "evicts the least recently used" and "at most capacity" are observed) *)
Definition csent_eqb (a b : csent) : bool :=
  name_eqb (cs_name a) (cs_name b) && N.eqb (cs_wire a) (cs_wire b) && (cs_stale a =? cs_stale b).
Definition c_same_content (c : cache) (impl : list csent) : bool :=
  forallb (fun e => existsb (csent_eqb e) impl) (c_list c) && forallb (fun e => existsb (csent_eqb e) (c_list c)) impl
  && (length impl =? length (c_list c))%nat.

(* ================================================================================================================
   C08: what a white-box dump must satisfy.  A dump is what fw/table/zz_verif_pitcs.go reports.
   ================================================================================================================ *)
Record dentry := mkde { de_q : bool (* in the expiry queue *); de_norec : bool (* no in- and no out-record left *); de_exp : Z }.
Record dnode := mkdn { dn_path : name; dn_ents : list dentry (* one per PIT entry *); dn_cs : bool }.
Definition dn_queued (d : dnode) : list bool := map de_q (dn_ents d).
Record dump := mkdump {
  d_now : Z; d_npit : Z; d_ncs : Z; d_tok : Z; d_heap : Z; d_csmap : Z; d_lruq : list name; d_locs : Z; d_dnl : Z; d_dnlq : Z;
  d_nodes : list dnode }.

Definition dn_busy (d : dnode) : bool := negb (is_nil (dn_queued d)) || dn_cs d.
Definition count_pit (l : list dnode) : Z := Z.of_nat (length (flat_map dn_queued l)).
Definition count_cs (l : list dnode) : Z := Z.of_nat (length (filter dn_cs l)).

(* clauses that must hold after every pipeline/table operation; returns the numbers of the failing clauses
   1 reported PIT size = number of entries     2 reported CS size = number of cached packets = csMap size
   3 token map holds exactly the PIT entries   4 every PIT entry is in the expiry queue and the queue holds nothing else
   5 LRU queue and locations hold exactly the cached names
   6 every tree node lies on the path to a node with a PIT entry or a cached packet (no dead branch), tree is prefix closed
   7 dead nonce map and its queue have the same size
   8 an entry with no record left (satisfied, or answered from the cache) is already due: removed by the next Update() *)
Definition c08_always (d : dump) : list N :=
  (if d_npit d =? count_pit (d_nodes d) then [] else [1%N]) ++
  (if (d_ncs d =? count_cs (d_nodes d)) && (d_csmap d =? d_ncs d) then [] else [2%N]) ++
  (if d_tok d =? count_pit (d_nodes d) then [] else [3%N]) ++
  (if forallb (fun b => b) (flat_map dn_queued (d_nodes d)) && (d_heap d =? count_pit (d_nodes d)) then [] else [4%N]) ++
  (if (Z.of_nat (length (d_lruq d)) =? d_ncs d) && (d_locs d =? d_ncs d)
      && forallb (fun n => existsb (fun x => name_eqb (dn_path x) n && dn_cs x) (d_nodes d)) (d_lruq d) then [] else [5%N]) ++
  (if forallb (fun x => is_nil (dn_path x)
                        || (existsb (fun y => dn_busy y && is_prefix (dn_path x) (dn_path y)) (d_nodes d)
                            && existsb (fun y => name_eqb (dn_path y) (parent (dn_path x))) (d_nodes d))) (d_nodes d)
   then [] else [6%N]) ++
  (if d_dnl d =? d_dnlq d then [] else [7%N]) ++
  (if forallb (fun e => negb (de_norec e) || (de_exp e <=? d_now d)) (flat_map dn_ents (d_nodes d)) then [] else [8%N]).

(* additionally, once every lifetime has elapsed:
   11 PIT empty (no entries, token map, queue)   12 the tree is exactly the prefix closure of the cached names
   13 dead nonce list empty *)
Definition c08_quiescent (d : dump) : list N :=
  (if (d_npit d =? 0) && (count_pit (d_nodes d) =? 0) && (d_tok d =? 0) && (d_heap d =? 0) then [] else [11%N]) ++
  (if forallb (fun x => is_nil (dn_path x) || existsb (fun y => dn_cs y && is_prefix (dn_path x) (dn_path y)) (d_nodes d)) (d_nodes d)
   then [] else [12%N]) ++
  (if (d_dnl d =? 0) && (d_dnlq d =? 0) then [] else [13%N]).

(* the dump of a model state *)
Definition dump_of (s : st) : dump :=
  mkdump (now s) (npit s) (ncs s) (Z.of_nat (length (tokmap s))) (Z.of_nat (length (heap s))) (Z.of_nat (length (csmap s)))
         (lruq s) (Z.of_nat (length (locs s))) (Z.of_nat (length (dnl s))) (Z.of_nat (length (dnlq s)))
         (map (fun nd => mkdn (n_path nd)
                              (map (fun e => mkde (p_q e) (is_nil (p_ins e) && is_nil (p_outs e)) (p_exp e)) (n_pit nd))
                              (match n_cs nd with Some _ => true | None => false end)) (nodes s)).

(* the cache of a model state: entries in LRU-queue order *)
Definition cache_of (s : st) : cache :=
  mkcache (now s)
          (flat_map (fun n => match get_node (nodes s) n with
                              | Some nd => match n_cs nd with Some e => [e] | None => [] end
                              | None => [] end) (lruq s))
          (cap s).
