(* PitCs/TreeInv.v — the name tree: well-formedness, what fill / prune do to it, "no dead branch". *)
From Coq Require Import List NArith ZArith Bool Lia.
From PitCs Require Import Model Lib.
Import ListNotations.

Definition cs_at (l : list node) (n : name) : option csent := match get_node l n with Some nd => n_cs nd | None => None end.
Definition pit_at (l : list node) (n : name) : list pite := match get_node l n with Some nd => n_pit nd | None => [] end.
Definition busy (l : list node) (q : name) : Prop := exists nd, get_node l q = Some nd /\ node_idle nd = false.

Record tree_ok (l : list node) : Prop := mk_tree_ok {
  t_root : has_node l [] = true;
  t_nodup : NoDup (paths l);
  t_closed : closed l }.

(* every node other than the root lies on the path to a node holding a PIT entry or a cached packet *)
Definition no_dead (l : list node) : Prop :=
  forall p, In p (paths l) -> p <> [] -> exists q, is_prefix p q = true /\ busy l q.
Definition no_dead_except (l : list node) (p0 : name) : Prop :=
  forall p, In p (paths l) -> p <> [] -> (exists q, is_prefix p q = true /\ busy l q) \/ is_prefix p p0 = true.

Lemma no_dead_weaken : forall l p0, no_dead l -> no_dead_except l p0.
Proof. intros l p0 H p Hp Hn. left. apply H; assumption. Qed.

Lemma node_idle_false : forall nd, node_idle nd = false <-> n_pit nd <> [] \/ n_cs nd <> None.
Proof.
  intro nd. unfold node_idle. destruct (n_pit nd); destruct (n_cs nd); simpl; split; intro H; try reflexivity; try discriminate;
    try (left; discriminate); try (right; discriminate); destruct H; congruence.
Qed.

(* ---- prune ---- *)
Lemma prune_from_get : forall fuel l p q,
  get_node (prune_from l fuel p) q = get_node l q \/
  (get_node (prune_from l fuel p) q = None /\ exists nd, get_node l q = Some nd /\ node_idle nd = true).
Proof.
  induction fuel as [|f IH]; intros l p q; simpl; [left; reflexivity|].
  destruct (is_nil p); [left; reflexivity|].
  destruct (get_node l p) as [nd|] eqn:G; [|left; reflexivity].
  destruct (negb (has_child l p) && node_idle nd) eqn:E; [|left; reflexivity].
  apply andb_true_iff in E. destruct E as [_ E].
  destruct (IH (del_node l p) (parent p) q) as [H|[H1 [nd' [H2 H3]]]].
  - rewrite H. rewrite get_node_del. destruct (name_eqb p q) eqn:Epq; [|left; reflexivity].
    apply name_eqb_eq in Epq. subst q. right. split; [reflexivity|]. exists nd. split; assumption.
  - right. split; [exact H1|]. rewrite get_node_del in H2. destruct (name_eqb p q); [discriminate|].
    exists nd'. split; assumption.
Qed.

Lemma prune_get : forall l p q,
  get_node (prune l p) q = get_node l q \/
  (get_node (prune l p) q = None /\ exists nd, get_node l q = Some nd /\ node_idle nd = true).
Proof. intros. apply prune_from_get. Qed.

Lemma prune_get_busy : forall l p q nd, get_node l q = Some nd -> node_idle nd = false -> get_node (prune l p) q = Some nd.
Proof.
  intros l p q nd G I. destruct (prune_get l p q) as [H|[_ [nd' [H2 H3]]]]; [congruence|].
  rewrite G in H2. inversion H2; subst. congruence.
Qed.

Lemma prune_get_some : forall l p q nd, get_node (prune l p) q = Some nd -> get_node l q = Some nd.
Proof. intros l p q nd G. destruct (prune_get l p q) as [H|[H _]]; congruence. Qed.

Lemma prune_paths_sub : forall l p q, In q (paths (prune l p)) -> In q (paths l).
Proof.
  intros l p q H. apply has_node_In in H. apply has_node_In. unfold has_node in *.
  destruct (get_node (prune l p) q) eqn:G; [|discriminate]. apply prune_get_some in G. rewrite G. reflexivity.
Qed.

Lemma cs_at_prune : forall l p q, cs_at (prune l p) q = cs_at l q.
Proof.
  intros l p q. unfold cs_at. destruct (prune_get l p q) as [H|[H1 [nd [H2 H3]]]]; [rewrite H; reflexivity|].
  rewrite H1, H2. unfold node_idle in H3. apply andb_true_iff in H3. destruct H3 as [_ H3].
  destruct (n_cs nd); [discriminate|reflexivity].
Qed.

Lemma pit_at_prune : forall l p q, pit_at (prune l p) q = pit_at l q.
Proof.
  intros l p q. unfold pit_at. destruct (prune_get l p q) as [H|[H1 [nd [H2 H3]]]]; [rewrite H; reflexivity|].
  rewrite H1, H2. unfold node_idle in H3. apply andb_true_iff in H3. destruct H3 as [H3 _].
  apply is_nil_true in H3. symmetry. exact H3.
Qed.

Lemma tree_ok_del_leaf : forall l p, tree_ok l -> p <> [] -> has_child l p = false -> tree_ok (del_node l p).
Proof.
  intros l p [R N C] Hp Hc. split.
  - apply has_node_In. apply paths_del. split; [apply has_node_In; exact R|congruence].
  - apply NoDup_paths_del. exact N.
  - apply closed_del_leaf; assumption.
Qed.

Lemma prune_from_ok : forall fuel l p, tree_ok l -> tree_ok (prune_from l fuel p).
Proof.
  induction fuel as [|f IH]; intros l p T; simpl; [exact T|].
  destruct (is_nil p) eqn:Ep; [exact T|].
  destruct (get_node l p) as [nd|] eqn:G; [|exact T].
  destruct (negb (has_child l p) && node_idle nd) eqn:E; [|exact T].
  apply andb_true_iff in E. destruct E as [E _]. apply negb_true_iff in E.
  apply IH. apply tree_ok_del_leaf; [exact T| |exact E]. intro H. subst p. discriminate.
Qed.

Lemma prune_ok : forall l p, tree_ok l -> tree_ok (prune l p).
Proof. intros. apply prune_from_ok. assumption. Qed.

Lemma busy_del : forall l p q, busy l q -> q <> p -> busy (del_node l p) q.
Proof.
  intros l p q [nd [G I]] N. exists nd. split; [|exact I]. rewrite get_node_del.
  destruct (name_eqb p q) eqn:E; [apply name_eqb_eq in E; congruence|exact G].
Qed.

Lemma prune_from_no_dead : forall fuel l p, (length p < fuel)%nat -> tree_ok l -> In p (paths l) ->
  no_dead_except l p -> no_dead (prune_from l fuel p).
Proof.
  induction fuel as [|f IH]; intros l p Hf T Hp ND; [lia|]. simpl.
  destruct (is_nil p) eqn:Ep.
  { apply is_nil_true in Ep. subst p. intros q Hq Hn. destruct (ND q Hq Hn) as [H|H]; [exact H|].
    apply is_prefix_nil in H. congruence. }
  assert (Hpn : p <> []) by (intro; subst; discriminate).
  destruct (get_node l p) as [nd|] eqn:G.
  2:{ exfalso. apply has_node_In in Hp. unfold has_node in Hp. rewrite G in Hp. discriminate. }
  destruct (negb (has_child l p) && node_idle nd) eqn:E.
  - apply andb_true_iff in E. destruct E as [E1 E2]. apply negb_true_iff in E1.
    destruct T as [R N C]. apply IH.
    + rewrite parent_length. destruct p; [congruence|simpl in *; lia].
    + apply tree_ok_del_leaf; [split; assumption|exact Hpn|exact E1].
    + apply paths_del. split; [apply C; assumption|apply parent_neq; exact Hpn].
    + intros q Hq Hn. apply paths_del in Hq. destruct Hq as [Hq Nq].
      destruct (ND q Hq Hn) as [[d [D1 D2]]|H].
      * left. exists d. split; [exact D1|]. apply busy_del; [exact D2|].
        intro Ed. subst d. destruct D2 as [nd' [G' I']]. rewrite G in G'. inversion G'; subst. congruence.
      * right. apply prefix_of_parent; assumption.
  - intros q Hq Hn. destruct (ND q Hq Hn) as [H|H]; [exact H|].
    apply andb_false_iff in E. destruct E as [E|E].
    + apply negb_false_iff in E. apply has_child_spec in E. destruct E as [c [C1 [C2 C3]]].
      destruct (ND c C1 C2) as [[d [D1 D2]]|Hc].
      * exists d. split; [|exact D2]. apply is_prefix_trans with p; [exact H|].
        apply is_prefix_trans with c; [rewrite <- C3; apply parent_prefix|exact D1].
      * exfalso. pose proof (is_prefix_length _ _ Hc) as L. rewrite <- C3 in L. rewrite parent_length in L.
        destruct c; [congruence|simpl in L; lia].
    + exists p. split; [exact H|]. exists nd. split; assumption.
Qed.

Lemma prune_no_dead : forall l p, tree_ok l -> In p (paths l) -> no_dead_except l p -> no_dead (prune l p).
Proof. intros. apply prune_from_no_dead; [lia|assumption..]. Qed.

(* ---- fill ---- *)
Lemma fill_ok : forall l n, tree_ok l -> tree_ok (fill l n).
Proof.
  intros l n [R N C]. split.
  - apply has_node_In. apply paths_fill. left. apply has_node_In. exact R.
  - apply NoDup_paths_fill; assumption.
  - apply closed_fill; assumption.
Qed.

Lemma fill_has : forall l n, tree_ok l -> In n (paths (fill l n)).
Proof.
  intros l n [R N C]. apply paths_fill. destruct n as [|x n]; [left; apply has_node_In; exact R|].
  right. split; [apply is_prefix_refl|discriminate].
Qed.

Lemma cs_at_fill : forall l n q, cs_at (fill l n) q = cs_at l q.
Proof.
  intros l n q. unfold cs_at. rewrite get_node_fill. destruct (get_node l q); [reflexivity|].
  destruct (is_prefix q n && negb (is_nil q)); reflexivity.
Qed.

Lemma pit_at_fill : forall l n q, pit_at (fill l n) q = pit_at l q.
Proof.
  intros l n q. unfold pit_at. rewrite get_node_fill. destruct (get_node l q); [reflexivity|].
  destruct (is_prefix q n && negb (is_nil q)); reflexivity.
Qed.

Lemma busy_fill : forall l n q, busy l q -> busy (fill l n) q.
Proof. intros l n q [nd [G I]]. exists nd. split; [|exact I]. rewrite get_node_fill, G. reflexivity. Qed.

Lemma fill_no_dead_except : forall l n, no_dead l -> no_dead_except (fill l n) n.
Proof.
  intros l n ND p Hp Hn. apply paths_fill in Hp. destruct Hp as [Hp|[Hp _]].
  - left. destruct (ND p Hp Hn) as [q [Q1 Q2]]. exists q. split; [exact Q1|apply busy_fill; exact Q2].
  - right. exact Hp.
Qed.

(* ---- upd_node ---- *)
Lemma upd_ok : forall l p f, (forall nd, n_path (f nd) = n_path nd) -> tree_ok l -> tree_ok (upd_node l p f).
Proof.
  intros l p f Hf [R N C]. split.
  - apply has_node_In. rewrite paths_upd by exact Hf. apply has_node_In. exact R.
  - rewrite paths_upd by exact Hf. exact N.
  - apply closed_upd; assumption.
Qed.

(* making node n busy turns "no dead branch except towards n" into "no dead branch" *)
Lemma no_dead_after_busy : forall l n, no_dead_except l n -> busy l n -> no_dead l.
Proof.
  intros l n ND B p Hp Hn. destruct (ND p Hp Hn) as [H|H]; [exact H|]. exists n. split; assumption.
Qed.

(* an update that keeps every busy node busy *)
Lemma no_dead_except_upd : forall l p f n, (forall nd, n_path (f nd) = n_path nd) ->
  (forall nd, node_idle nd = false -> node_idle (f nd) = false) ->
  no_dead_except l n -> no_dead_except (upd_node l p f) n.
Proof.
  intros l p f n Hf Hb ND q Hq Hn. rewrite paths_upd in Hq by exact Hf.
  destruct (ND q Hq Hn) as [[d [D1 [nd [G I]]]]|H]; [|right; exact H].
  left. exists d. split; [exact D1|]. unfold busy. rewrite get_node_upd by exact Hf.
  destruct (name_eqb p d); [exists (f nd); rewrite G; split; [reflexivity|apply Hb; exact I]|exists nd; split; assumption].
Qed.
