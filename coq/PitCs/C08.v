(* PitCs/C08.v — the C08 theorems assembled for every history (lemmas; Props_C08.v restates them), and the link between
   the invariants and the extracted dump oracle (Spec.c08_always / c08_quiescent). *)
From Coq Require Import List NArith ZArith Bool Lia Permutation.
From PitCs Require Import Model Spec Lib TreeInv Cs Pit Reclaim Dnl C07.
Import ListNotations.
Open Scope Z_scope.

Definition life_ok (L : Z) (o : op) : Prop :=
  match o with OInterest _ _ _ _ _ life _ => lifetime_of life <= L | _ => True end.
Definition lifetimes_within (L : Z) (ops : list op) : Prop := Forall (life_ok L) ops.

(* the deadlines of a history: per PIT key, the latest (arrival + lifetime) among the Interests received for it since its
   entry came into existence (Reclaim.dl_run); keys without an entry carry "now" *)
Definition deadlines (t0 : Z) (c : N) (sv ad : bool) (life : Z) (ops : list op) : key -> Z :=
  dl_run (start t0 c sv ad life) (fun _ => t0) ops.

Lemma reach_gd : forall t0 c sv ad life ops, g_inv (run (start t0 c sv ad life) ops) (deadlines t0 c sv ad life ops).
Proof. intros. apply run_ginv. apply init_ginv. Qed.

Lemma step_now : forall s o, now (fst (step s o)) = match o with OAdv d => now s + Z.of_N d | _ => now s end.
Proof.
  intros s o. destruct o as [d|c|n w f|n cbp mbf|face n cbp mbf nonce life sent|n w f tok| | |u|sid sn]; simpl; try reflexivity.
  - apply (dsame_insert_data s n w f).
  - pose proof (dsame_find_cs s n cbp mbf) as [_ [_ [_ H]]]. destruct (find_cs s n cbp mbf). exact H.
  - pose proof (drel_process_interest s face n cbp mbf nonce life sent) as [_ [H _]].
    destruct (process_interest s face n cbp mbf nonce life sent) as [[s' k] c]. exact H.
  - apply (drel_process_data s n w f tok).
  - apply (drel_pit_update s).
  - destruct (dnl_sweep_fields s) as [_ [_ [H _]]]. exact H.
  - unfold mgmt_cap. destruct (max_int <? u)%N; reflexivity.
  - unfold stale_remove. destruct (mem_N sid (tokmap s)); [reflexivity|]. apply (dsame_remove_interest s (mkpit sid sn false false [] [] 0 false false)).
Qed.

Lemma dl_step_le : forall s bd o L, 0 <= L -> life_ok L o -> (forall k, bd k <= now s + L) ->
  forall k, dl_step s bd o k <= now (fst (step s o)) + L.
Proof.
  intros s bd o L HL Hl Hb k. unfold dl_step, tighten. destruct (has_key (fst (step s o)) k); [|lia].
  assert (Hn : now s <= now (fst (step s o))) by (rewrite step_now; destruct o; lia).
  destruct o; simpl bd_step; try (specialize (Hb k); lia).
  unfold bump. simpl in Hl. destruct (pkey_eqb (n, cbp, mbf) k); specialize (Hb k); lia.
Qed.

Lemma dl_run_le : forall ops s bd L, 0 <= L -> lifetimes_within L ops -> (forall k, bd k <= now s + L) ->
  forall k, dl_run s bd ops k <= now (run s ops) + L.
Proof.
  induction ops as [|o t IH]; intros s bd L HL Hl Hb k; [apply Hb|]. inversion Hl; subst. simpl dl_run.
  change (run s (o :: t)) with (run (fst (step s o)) t). apply IH; [exact HL|assumption|]. apply dl_step_le; assumption.
Qed.

Lemma deadlines_le : forall t0 c sv ad life ops L, 0 <= L -> lifetimes_within L ops ->
  forall k, deadlines t0 c sv ad life ops k <= now (run (start t0 c sv ad life) ops) + L.
Proof. intros. apply dl_run_le; try assumption. intro. simpl. lia. Qed.

Lemma reach_d : forall t0 c sv ad life ops, d_inv (run (start t0 c sv ad life) ops).
Proof. intros. apply run_dinv. apply init_dinv. Qed.

Lemma NoDup_same_length : forall A (a b : list A), NoDup a -> NoDup b -> (forall x, In x a <-> In x b) -> length a = length b.
Proof. intros A a b Ha Hb H. apply Permutation_length. apply NoDup_Permutation; assumption. Qed.

Lemma filter_all : forall A (f : A -> bool) l, (forall x, In x l -> f x = true) -> filter f l = l.
Proof.
  intros A f l H. induction l as [|x t IH]; [reflexivity|]. simpl. rewrite (H x (or_introl eq_refl)). f_equal. apply IH.
  intros y Hy. apply H. right. exact Hy.
Qed.

(* ---- sizes ---- *)
Lemma sizes_truthful : forall s (L : key -> Z), g_inv s L ->
  npit s = Z.of_nat (length (E s)) /\ length (tokmap s) = length (E s) /\ length (heap s) = length (E s) /\
  ncs s = Z.of_nat (length (c_list (cache_of s))) /\ length (csmap s) = length (lruq s) /\ length (locs s) = length (lruq s).
Proof.
  intros s L [P ND OK]. pose proof (pi_cs s P) as C.
  split; [apply (pi_npit s P)|]. split.
  { rewrite <- (map_length p_id (E s)). apply NoDup_same_length; [apply (pi_tok_nd s P)|apply (pi_ids s P)|apply (pi_tok s P)]. }
  split.
  { rewrite <- (map_length fst (heap s)), <- (map_length p_id (E s)).
    assert (Hq : qids (E s) = ids (E s)).
    { unfold qids, ids. f_equal. apply filter_all. intros e He. apply (OK e He). }
    apply NoDup_same_length; [apply (pi_heap_nd s P)|apply (pi_ids s P)|]. intro x. rewrite (pi_heap s P), Hq. tauto. }
  split; [apply size_truthful; exact C|]. split.
  - apply NoDup_same_length; [apply (ci_map_nodup s C)|apply (ci_q_nodup s C)|apply (ci_map s C)].
  - apply NoDup_same_length; [apply (ci_locs_nodup s C)|apply (ci_q_nodup s C)|apply (ci_locs s C)].
Qed.

(* ---- the dump oracle holds on every reachable state of the model ---- *)
Definition de_of (e : pite) : dentry := mkde (p_q e) (is_nil (p_ins e) && is_nil (p_outs e)) (p_exp e).
Definition dn_of (nd : node) : dnode := mkdn (n_path nd) (map de_of (n_pit nd)) (match n_cs nd with Some _ => true | None => false end).

Lemma dump_nodes : forall s, d_nodes (dump_of s) = map dn_of (nodes s).
Proof. reflexivity. Qed.

Lemma count_pit_E : forall s, count_pit (map dn_of (nodes s)) = Z.of_nat (length (E s)).
Proof.
  intro s. unfold count_pit, E, ents. f_equal. induction (nodes s) as [|nd t IH]; [reflexivity|]. simpl.
  unfold dn_queued at 1. simpl. rewrite !app_length, !map_length, IH. reflexivity.
Qed.

Lemma flags_E : forall s, flat_map dn_queued (map dn_of (nodes s)) = map p_q (E s).
Proof.
  intro s. unfold E, ents. induction (nodes s) as [|nd t IH]; [reflexivity|]. simpl. rewrite map_app, IH.
  unfold dn_queued. simpl. rewrite map_map. reflexivity.
Qed.

Lemma dents_E : forall s, flat_map dn_ents (map dn_of (nodes s)) = map de_of (E s).
Proof.
  intro s. unfold E, ents. induction (nodes s) as [|nd t IH]; [reflexivity|]. simpl. rewrite map_app, IH. reflexivity.
Qed.

Lemma count_cs_q : forall s, cs_inv s -> count_cs (map dn_of (nodes s)) = Z.of_nat (length (lruq s)).
Proof.
  intros s C. unfold count_cs. f_equal.
  assert (Hlen : length (filter dn_cs (map dn_of (nodes s))) = length (map n_path (filter (fun nd => match n_cs nd with Some _ => true | None => false end) (nodes s)))).
  { rewrite map_length. induction (nodes s) as [|nd t IH]; [reflexivity|]. simpl. destruct (n_cs nd); simpl; rewrite IH; reflexivity. }
  rewrite Hlen. pose proof (t_nodup _ (ci_tree s C)) as Nd.
  apply NoDup_same_length.
  - clear Hlen. unfold paths in Nd. induction (nodes s) as [|nd t IH]; [constructor|]. simpl in *. inversion Nd; subst.
    destruct (n_cs nd); simpl; [|apply IH; assumption]. constructor; [|apply IH; assumption].
    intro H. apply H1. apply in_map_iff in H. destruct H as [x [Ex Hx]]. apply filter_In in Hx. rewrite <- Ex. apply in_map. tauto.
  - apply (ci_q_nodup s C).
  - intro p. rewrite (ci_q s C). split.
    + intro H. apply in_map_iff in H. destruct H as [nd [Ep Hnd]]. apply filter_In in Hnd. destruct Hnd as [Hnd Hcs].
      unfold cs_at. rewrite <- Ep. rewrite (In_get_node _ _ Nd Hnd). destruct (n_cs nd); [discriminate|discriminate].
    + intro H. unfold cs_at in H. destruct (get_node (nodes s) p) as [nd|] eqn:G; [|congruence].
      apply in_map_iff. exists nd. split; [eapply get_node_path; exact G|]. apply filter_In. split; [eapply get_node_In; exact G|].
      destruct (n_cs nd); [reflexivity|congruence].
Qed.

Lemma dn_busy_idle : forall nd, dn_busy (dn_of nd) = negb (node_idle nd).
Proof. intro nd. unfold dn_busy, dn_of, node_idle, dn_queued. simpl. destruct (n_pit nd); destruct (n_cs nd); reflexivity. Qed.

Theorem oracle_always : forall s (L : key -> Z), g_inv s L -> d_inv s -> c08_always (dump_of s) = [].
Proof.
  intros s L G D. pose proof G as [P ND OK]. pose proof (pi_cs s P) as C.
  destruct (sizes_truthful s L G) as [S1 [S2 [S3 [S4 [S5 S6]]]]].
  unfold c08_always. rewrite dump_nodes. cbn [d_now d_npit d_ncs d_tok d_heap d_csmap d_lruq d_locs d_dnl d_dnlq dump_of].
  rewrite count_pit_E, (count_cs_q s C), flags_E, dents_E.
  assert (C1 : (npit s =? Z.of_nat (length (E s))) = true) by (apply Z.eqb_eq; exact S1).
  assert (C2 : ((ncs s =? Z.of_nat (length (lruq s))) && (Z.of_nat (length (csmap s)) =? ncs s)) = true).
  { rewrite (ci_ncs s C), S5. rewrite !Z.eqb_refl. reflexivity. }
  assert (C3 : (Z.of_nat (length (tokmap s)) =? Z.of_nat (length (E s))) = true) by (rewrite S2; apply Z.eqb_refl).
  assert (C4 : (forallb (fun b => b) (map p_q (E s)) && (Z.of_nat (length (heap s)) =? Z.of_nat (length (E s)))) = true).
  { rewrite S3, Z.eqb_refl, andb_true_r. apply forallb_forall. intros b Hb. apply in_map_iff in Hb. destruct Hb as [e [Eb He]].
    rewrite <- Eb. apply (OK e He). }
  assert (C5 : ((Z.of_nat (length (lruq s)) =? ncs s) && (Z.of_nat (length (locs s)) =? ncs s)
               && forallb (fun n => existsb (fun x => name_eqb (dn_path x) n && dn_cs x) (map dn_of (nodes s))) (lruq s)) = true).
  { rewrite (ci_ncs s C), S5, S6, !Z.eqb_refl. simpl. apply forallb_forall. intros n Hn. apply existsb_exists.
    apply (ci_q s C) in Hn. unfold cs_at in Hn. destruct (get_node (nodes s) n) as [nd|] eqn:Gn; [|congruence].
    exists (dn_of nd). split; [apply in_map; eapply get_node_In; exact Gn|]. simpl. rewrite (get_node_path _ _ _ Gn), name_eqb_refl.
    destruct (n_cs nd); [reflexivity|congruence]. }
  assert (C6 : forallb (fun x => is_nil (dn_path x)
                        || (existsb (fun y => dn_busy y && is_prefix (dn_path x) (dn_path y)) (map dn_of (nodes s))
                            && existsb (fun y => name_eqb (dn_path y) (parent (dn_path x))) (map dn_of (nodes s)))) (map dn_of (nodes s)) = true).
  { apply forallb_forall. intros x Hx. apply in_map_iff in Hx. destruct Hx as [nd [Ex Hnd]]. subst x. simpl dn_path.
    destruct (n_path nd) as [|c p] eqn:Pn; [reflexivity|]. simpl is_nil. simpl orb.
    assert (Hp : In (c :: p) (paths (nodes s))) by (rewrite <- Pn; apply in_map; exact Hnd).
    destruct (ND (c :: p) Hp ltac:(discriminate)) as [q [Q1 [qn [Q2 Q3]]]].
    apply andb_true_iff. split.
    - apply existsb_exists. exists (dn_of qn). split; [apply in_map; eapply get_node_In; exact Q2|].
      rewrite dn_busy_idle, Q3. simpl. rewrite (get_node_path _ _ _ Q2). exact Q1.
    - apply existsb_exists. pose proof (t_closed _ (ci_tree s C) (c :: p) Hp ltac:(discriminate)) as Hpar.
      apply in_map_iff in Hpar. destruct Hpar as [pn [Ep Hpn]]. exists (dn_of pn). split; [apply in_map; exact Hpn|].
      simpl. rewrite Ep. apply name_eqb_refl. }
  assert (C7 : (Z.of_nat (length (dnl s)) =? Z.of_nat (length (dnlq s))) = true).
  { apply Z.eqb_eq. f_equal. rewrite <- (map_length fst (dnlq s)). apply NoDup_same_length; [apply (di_nd s D)|apply (di_qnd s D)|apply (di_eq s D)]. }
  assert (C8 : forallb (fun e => negb (de_norec e) || (de_exp e <=? now s)) (map de_of (E s)) = true).
  { apply forallb_forall. intros x Hx. apply in_map_iff in Hx. destruct Hx as [e [Ex He]]. subst x. simpl.
    destruct (OK e He) as [_ [_ [_ [_ B3]]]].
    destruct (p_ins e) as [|i li] eqn:Ei; [|reflexivity]. destruct (p_outs e) as [|o lo] eqn:Eo; [|reflexivity].
    simpl. apply Z.leb_le. apply B3; reflexivity. }
  rewrite C1, C2, C3, C4, C5, C6, C7, C8. reflexivity.
Qed.

Theorem oracle_quiescent : forall s (L : key -> Z), g_inv s L -> E s = [] -> dnl s = [] -> dnlq s = [] -> c08_quiescent (dump_of s) = [].
Proof.
  intros s L G HE Hd Hq. pose proof G as [P ND OK]. pose proof (pi_cs s P) as C.
  destruct (pit_empty_all s P HE) as [E1 [E2 E3]].
  unfold c08_quiescent. rewrite dump_nodes. cbn [d_npit d_tok d_heap d_dnl d_dnlq dump_of]. rewrite count_pit_E, HE, E1, E2, E3, Hd, Hq. simpl.
  assert (C12 : forallb (fun x => is_nil (dn_path x) || existsb (fun y => dn_cs y && is_prefix (dn_path x) (dn_path y)) (map dn_of (nodes s))) (map dn_of (nodes s)) = true).
  { apply forallb_forall. intros x Hx. apply in_map_iff in Hx. destruct Hx as [nd [Ex Hnd]]. subst x. simpl dn_path.
    destruct (n_path nd) as [|c p] eqn:Pn; [reflexivity|]. cbn [is_nil orb].
    assert (Hp : In (c :: p) (paths (nodes s))) by (rewrite <- Pn; apply in_map; exact Hnd).
    destruct (ND (c :: p) Hp ltac:(discriminate)) as [q [Q1 [qn [Q2 Q3]]]].
    apply existsb_exists. exists (dn_of qn). split; [apply in_map; eapply get_node_In; exact Q2|].
    change (dn_path (dn_of qn)) with (n_path qn). rewrite (get_node_path _ _ _ Q2), Q1, andb_true_r.
    change (dn_cs (dn_of qn)) with (match n_cs qn with Some _ => true | None => false end).
    apply node_idle_false in Q3. destruct Q3 as [Q3|Q3]; [|destruct (n_cs qn); [reflexivity|congruence]].
    exfalso. apply Q3. pose proof (pit_at_empty s q HE) as Z. unfold pit_at in Z. rewrite Q2 in Z. exact Z. }
  rewrite C12. reflexivity.
Qed.

(* ---- assembled statements ---- *)
Lemma run_app : forall a b s, run s (a ++ b) = run (run s a) b.
Proof. intros. unfold run. apply fold_left_app. Qed.

Lemma run_life : forall ops s, d_inv s -> dnl_life (run s ops) = dnl_life s.
Proof.
  induction ops as [|o t IH]; intros s D; [reflexivity|]. unfold run. simpl. fold (run (fst (step s o)) t).
  destruct (step_dinv s o D) as [D' Hl]. rewrite IH by exact D'. exact Hl.
Qed.

Lemma sweeps_run : forall k s, sweeps k s = run s (repeat ODnl k).
Proof. induction k as [|k IH]; intro s; [reflexivity|]. simpl. rewrite IH. reflexivity. Qed.

Lemma lifetimes_app : forall L a b, lifetimes_within L a -> lifetimes_within L b -> lifetimes_within L (a ++ b).
Proof. intros. apply Forall_app. split; assumption. Qed.

Lemma E_sweeps : forall k s, E (sweeps k s) = E s /\ now (sweeps k s) = now s.
Proof.
  induction k as [|k IH]; intro s; [split; reflexivity|]. simpl. destruct (IH (dnl_sweep s)) as [A B].
  destruct (dnl_sweep_fields s) as [N1 [_ [N3 _]]]. unfold E in *. rewrite A, B, N1, N3. split; reflexivity.
Qed.

(* PIT entries are always queued for expiry; their expiration time is at most the deadline of their key (the latest
   arrival + lifetime among the Interests received for it), and at most now once no record is left *)
Lemma pit_deadline : forall t0 c sv ad life ops,
  let s := run (start t0 c sv ad life) ops in
  forall e, In e (E s) -> p_q e = true /\ In (p_id e, p_exp e) (heap s) /\
                          p_exp e <= Z.max (now s) (deadlines t0 c sv ad life ops (key_of e)) /\
                          (p_ins e = [] -> p_outs e = [] -> p_exp e <= now s).
Proof.
  intros t0 c sv ad life ops s e He. destruct (g_ok _ _ (reach_gd t0 c sv ad life ops) e He) as [Q1 [Q2 [B1 [_ B3]]]]. tauto.
Qed.

Lemma pit_queued : forall t0 c sv ad life ops L, 0 <= L -> lifetimes_within L ops ->
  let s := run (start t0 c sv ad life) ops in
  forall e, In e (E s) -> p_q e = true /\ In (p_id e, p_exp e) (heap s) /\ p_exp e <= now s + L /\
                          (p_ins e = [] -> p_outs e = [] -> p_exp e <= now s).
Proof.
  intros t0 c sv ad life ops L HL Hl s e He. destruct (pit_deadline t0 c sv ad life ops e He) as [Q1 [Q2 [B1 B3]]].
  pose proof (deadlines_le t0 c sv ad life ops L HL Hl (key_of e)) as D. subst s. split; [exact Q1|]. split; [exact Q2|]. split; [lia|exact B3].
Qed.

(* the reaper removes exactly the due entries, and asks to be called again within 100 ms *)
Lemma reaper : forall t0 c sv ad life ops,
  let s := run (start t0 c sv ad life) ops in let s' := pit_update s in
  (forall e, In e (E s') -> In e (E s) /\ now s < p_exp e) /\ now s < timer_at s' <= now s + tick_interval.
Proof.
  intros t0 c sv ad life ops s s'. destruct (pit_update_spec s _ (reach_gd t0 c sv ad life ops)) as [_ [A [_ B]]]. split; assumption.
Qed.

(* once every lifetime has elapsed the next Update() empties PIT, token map and expiry queue *)
Lemma drains : forall t0 c sv ad life ops L d, 0 <= L -> lifetimes_within L ops -> L <= Z.of_N d ->
  let s := run (start t0 c sv ad life) (ops ++ [OAdv d; OTick]) in
  E s = [] /\ npit s = 0 /\ tokmap s = [] /\ heap s = [].
Proof.
  intros t0 c sv ad life ops L d HL Hl Hd s. unfold s. rewrite run_app.
  set (s0 := run (start t0 c sv ad life) ops). pose proof (reach_gd t0 c sv ad life ops) as G0. fold s0 in G0.
  change (run s0 [OAdv d; OTick]) with (pit_update (set_now s0 (now s0 + Z.of_N d))).
  pose proof (step_ginv s0 (OAdv d) _ G0) as G1. simpl in G1.
  apply (pit_drains _ _ G1). intros e He. change (E (set_now s0 (now s0 + Z.of_N d))) with (E s0) in He.
  destruct (pit_queued t0 c sv ad life ops L HL Hl e He) as [_ [_ [B _]]]. subst s0. simpl. lia.
Qed.

(* name tree = prefix closure of the names holding a PIT entry or a cached packet *)
Lemma tree_is_closure : forall t0 c sv ad life ops L, 0 <= L -> lifetimes_within L ops ->
  let s := run (start t0 c sv ad life) ops in
  NoDup (paths (nodes s)) /\
  (forall p, In p (paths (nodes s)) -> p <> [] -> exists q, is_prefix p q = true /\ (pit_at (nodes s) q <> [] \/ cs_at (nodes s) q <> None)) /\
  (forall q p, (pit_at (nodes s) q <> [] \/ cs_at (nodes s) q <> None) -> is_prefix p q = true -> In p (paths (nodes s))) /\
  (E s = [] -> forall p, In p (paths (nodes s)) -> p <> [] -> exists q, is_prefix p q = true /\ cs_at (nodes s) q <> None).
Proof.
  intros t0 c sv ad life ops L HL Hl s. pose proof (reach_gd t0 c sv ad life ops) as G. fold s in G.
  destruct (tree_closure s _ G) as [T [A B]]. split; [apply (t_nodup _ T)|]. split; [exact A|]. split; [exact B|].
  intros HE p Hp Hn. destruct (A p Hp Hn) as [q [Q1 [Q2|Q2]]]; [exfalso; apply Q2; apply pit_at_empty; exact HE|exists q; tauto].
Qed.

(* LRU queue, locations and csMap hold exactly the cached names *)
Lemma lru_bookkeeping : forall t0 c sv ad life ops,
  let s := run (start t0 c sv ad life) ops in
  NoDup (lruq s) /\ NoDup (locs s) /\ NoDup (csmap s) /\
  forall n, (In n (lruq s) <-> cs_at (nodes s) n <> None) /\ (In n (locs s) <-> In n (lruq s)) /\ (In n (csmap s) <-> In n (lruq s)).
Proof.
  intros t0 c sv ad life ops s. pose proof (reach_inv t0 c sv ad life ops) as C. fold s in C.
  split; [apply (ci_q_nodup s C)|]. split; [apply (ci_locs_nodup s C)|]. split; [apply (ci_map_nodup s C)|].
  intro n. split; [apply (ci_q s C)|]. split; [apply (ci_locs s C)|apply (ci_map s C)].
Qed.

(* dead nonce records: same keys in map and queue, every record due at most dnl_life after now; k sweeps drain 100 k *)
Lemma dnl_wf : forall t0 c sv ad life ops,
  let s := run (start t0 c sv ad life) ops in
  length (dnl s) = length (dnlq s) /\ (forall x, In x (dnlq s) -> snd x <= now s + life).
Proof.
  intros t0 c sv ad life ops s. pose proof (reach_d t0 c sv ad life ops) as D. fold s in D. split.
  - rewrite <- (map_length fst (dnlq s)). apply NoDup_same_length; [apply (di_nd s D)|apply (di_qnd s D)|apply (di_eq s D)].
  - intros x Hx. pose proof (di_bound s D x Hx) as B. unfold s in B at 2. rewrite run_life in B by apply init_dinv. exact B.
Qed.

Lemma dnl_drain : forall t0 c sv ad life ops d k, life < Z.of_N d ->
  let s0 := run (start t0 c sv ad life) ops in
  let s := run (start t0 c sv ad life) (ops ++ [OAdv d] ++ repeat ODnl k) in
  length (dnlq s) = (length (dnlq s0) - dnl_batch * k)%nat /\ length (dnl s) = length (dnlq s).
Proof.
  intros t0 c sv ad life ops d k Hd s0 s. unfold s. rewrite !run_app. fold s0.
  pose proof (reach_d t0 c sv ad life ops) as D0. fold s0 in D0.
  change (run s0 [OAdv d]) with (set_now s0 (now s0 + Z.of_N d)). rewrite <- sweeps_run.
  assert (D1 : d_inv (set_now s0 (now s0 + Z.of_N d))) by (apply (d_inv_same s0 _ D0); try reflexivity; simpl; lia).
  assert (Hl : dnl_life s0 = life) by (unfold s0; rewrite run_life by apply init_dinv; reflexivity).
  apply (dnl_drains k _ D1). apply (all_dnl_due_after s0 d D0). rewrite Hl. exact Hd.
Qed.

(* the whole of "observed after a quiescent period longer than every lifetime involved" in one statement *)
Lemma quiescence : forall t0 c sv ad life ops L d1 d2 k, 0 <= L -> lifetimes_within L ops -> L <= Z.of_N d1 -> life < Z.of_N d2 ->
  let s1 := run (start t0 c sv ad life) (ops ++ [OAdv d1; OTick]) in
  (length (dnlq s1) <= dnl_batch * k)%nat ->
  let s := run (start t0 c sv ad life) ((ops ++ [OAdv d1; OTick]) ++ [OAdv d2] ++ repeat ODnl k) in
  E s = [] /\ npit s = 0 /\ tokmap s = [] /\ heap s = [] /\ dnl s = [] /\ dnlq s = [] /\
  c08_always (dump_of s) = [] /\ c08_quiescent (dump_of s) = [].
Proof.
  intros t0 c sv ad life ops L d1 d2 k HL Hl Hd1 Hd2 s1 Hk s.
  assert (Hl' : lifetimes_within L ((ops ++ [OAdv d1; OTick]) ++ [OAdv d2] ++ repeat ODnl k)).
  { apply lifetimes_app; [apply lifetimes_app; [exact Hl|repeat constructor]|]. apply lifetimes_app; [repeat constructor|].
    apply Forall_forall. intros x Hx. apply repeat_spec in Hx. subst x. exact Logic.I. }
  pose proof (reach_gd t0 c sv ad life ((ops ++ [OAdv d1; OTick]) ++ [OAdv d2] ++ repeat ODnl k)) as G. fold s in G.
  pose proof (reach_d t0 c sv ad life ((ops ++ [OAdv d1; OTick]) ++ [OAdv d2] ++ repeat ODnl k)) as D. fold s in D.
  destruct (drains t0 c sv ad life ops L d1 HL Hl Hd1) as [E1 _]. fold s1 in E1.
  destruct (dnl_drain t0 c sv ad life (ops ++ [OAdv d1; OTick]) d2 k Hd2) as [Q1 Q2]. fold s1 in Q1. fold s in Q1, Q2.
  assert (HE : E s = []).
  { unfold s. rewrite run_app. fold s1. rewrite run_app. change (run s1 [OAdv d2]) with (set_now s1 (now s1 + Z.of_N d2)).
    rewrite <- sweeps_run. destruct (E_sweeps k (set_now s1 (now s1 + Z.of_N d2))) as [A _]. rewrite A. exact E1. }
  assert (Hq : dnlq s = []).
  { destruct (dnlq s) as [|x0 t0'] eqn:Eq0; [reflexivity|]. exfalso. cbn [length] in Q1. remember (dnl_batch * k)%nat as bk. clear - Q1 Hk. lia. }
  assert (Hd : dnl s = []) by (destruct (dnl s); [reflexivity|rewrite Hq in Q2; simpl in Q2; lia]).
  destruct (pit_empty_all s (g_p _ _ G) HE) as [A1 [A2 A3]].
  repeat (split; [assumption|]). split; [apply (oracle_always s _ G D)|apply (oracle_quiescent s _ G HE Hd Hq)].
Qed.

Lemma oracle_always_reach : forall t0 c sv ad life ops L, 0 <= L -> lifetimes_within L ops ->
  c08_always (dump_of (run (start t0 c sv ad life) ops)) = [].
Proof. intros. apply (oracle_always _ (deadlines t0 c sv ad life ops)); [apply reach_gd|apply reach_d]. Qed.

Lemma sizes_reach : forall t0 c sv ad life ops L, 0 <= L -> lifetimes_within L ops ->
  let s := run (start t0 c sv ad life) ops in
  npit s = Z.of_nat (length (E s)) /\ length (tokmap s) = length (E s) /\ length (heap s) = length (E s) /\
  ncs s = Z.of_nat (length (c_list (cache_of s))) /\ length (csmap s) = length (lruq s) /\ length (locs s) = length (lruq s).
Proof. intros. apply (sizes_truthful _ (deadlines t0 c sv ad life ops)). apply reach_gd. Qed.

(* the hypothesis `lifetimes_within L ops` is satisfiable for every history *)
Lemma lifetimes_exist : forall ops, exists L, 0 <= L /\ lifetimes_within L ops.
Proof.
  induction ops as [|o t [L [HL HF]]]; [exists 0; split; [lia|constructor]|].
  assert (Hmono : forall L', L <= L' -> lifetimes_within L' t).
  { intros L' Hle. eapply Forall_impl; [|exact HF]. intros x Hx. destruct x; simpl in *; try exact Logic.I. lia. }
  destruct o as [d|c|n w f|n cbp mbf|face n cbp mbf nonce life sent|n w f tok| | |u|sid sn];
    try (exists L; split; [exact HL|constructor; [exact Logic.I|exact HF]]).
  exists (Z.max L (lifetime_of life)). split; [lia|]. constructor; [simpl; lia|apply Hmono; lia].
Qed.
