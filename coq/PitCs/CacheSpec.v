(* PitCs/CacheSpec.v — properties of the recency-ordered cache of Spec.v itself (what C07 demands, read off the spec),
   for every history. *)
From Coq Require Import List NArith ZArith Bool Lia.
From PitCs Require Import Model Spec Lib.
Import ListNotations.
Open Scope Z_scope.

Definition names (l : list csent) : list name := map cs_name l.
Definition c_wf (c : cache) : Prop := NoDup (names (c_list c)).

Lemma c_lookup_some : forall l n e, c_lookup l n = Some e -> In e l /\ cs_name e = n.
Proof.
  induction l as [|x t IH]; simpl; intros n e H; [discriminate|].
  destruct (name_eqb (cs_name x) n) eqn:E.
  - inversion H; subst. apply name_eqb_eq in E. tauto.
  - destruct (IH n e H). tauto.
Qed.

Lemma c_lookup_none : forall l n, c_lookup l n = None <-> ~ In n (names l).
Proof.
  induction l as [|x t IH]; simpl; intros n; [tauto|].
  destruct (name_eqb (cs_name x) n) eqn:E.
  - apply name_eqb_eq in E. split; [discriminate|tauto].
  - apply name_eqb_neq in E. rewrite IH. tauto.
Qed.

Lemma names_remove : forall l n, names (c_remove l n) = remove_name n (names l).
Proof.
  induction l as [|x t IH]; simpl; intros n; [reflexivity|].
  destruct (name_eqb (cs_name x) n); [apply IH|simpl; f_equal; apply IH].
Qed.

Lemma c_lookup_remove_same : forall l n, c_lookup (c_remove l n) n = None.
Proof. intros l n. apply c_lookup_none. rewrite names_remove, remove_name_In. tauto. Qed.

Lemma c_lookup_remove_other : forall l n m, m <> n -> c_lookup (c_remove l m) n = c_lookup l n.
Proof.
  induction l as [|x t IH]; simpl; intros n m H; [reflexivity|].
  destruct (name_eqb (cs_name x) m) eqn:E1.
  - apply name_eqb_eq in E1. rewrite IH by exact H. destruct (name_eqb (cs_name x) n) eqn:E2; [|reflexivity].
    apply name_eqb_eq in E2. congruence.
  - simpl. destruct (name_eqb (cs_name x) n); [reflexivity|apply IH; exact H].
Qed.

Lemma c_lookup_app2 : forall a b n, c_lookup (a ++ b) n = match c_lookup a n with Some e => Some e | None => c_lookup b n end.
Proof.
  induction a as [|e a IH]; intros b n; simpl; [reflexivity|]. destruct (name_eqb (cs_name e) n); [reflexivity|apply IH].
Qed.

Lemma NoDup_skipn : forall A (l : list A) k, NoDup l -> NoDup (skipn k l).
Proof.
  intros A l k H. rewrite <- (firstn_skipn k l) in H. apply NoDup_app_r in H. exact H.
Qed.

Lemma c_lookup_skipn : forall l k n e, NoDup (names l) -> c_lookup (skipn k l) n = Some e -> c_lookup l n = Some e.
Proof.
  intros l k n e H L. rewrite <- (firstn_skipn k l). rewrite c_lookup_app2.
  destruct (c_lookup (firstn k l) n) as [x|] eqn:F; [|exact L]. exfalso.
  apply c_lookup_some in F. apply c_lookup_some in L. destruct F as [F1 F2]. destruct L as [L1 L2].
  rewrite <- (firstn_skipn k l) in H. unfold names in H. rewrite map_app in H.
  assert (In n (map cs_name (firstn k l))) by (rewrite <- F2; apply in_map; exact F1).
  assert (In n (map cs_name (skipn k l))) by (rewrite <- L2; apply in_map; exact L1).
  clear - H H0 H1. induction (map cs_name (firstn k l)) as [|y t IH]; [destruct H0|].
  simpl in H. inversion H; subst. destruct H0 as [->|H0]; [apply H4; apply in_or_app; right; exact H1|apply IH; assumption].
Qed.

(* ---- meaning of the judge ---- *)
Lemma c_judge_some_meaning : forall c n cbp mbf m w, c_judge c n cbp mbf (Some (m, w)) = 0%N ->
  (if cbp then exists r, m = n ++ r else m = n) /\
  exists e, In e (c_list c) /\ cs_name e = m /\ cs_wire e = w /\ (mbf = true -> c_now c < cs_stale e).
Proof.
  intros c n cbp mbf m w H. unfold c_judge in H.
  destruct (if cbp then is_prefix n m else name_eqb n m) eqn:E1; [|discriminate]. cbn [negb] in H.
  destruct (c_lookup (c_list c) m) as [e|] eqn:L; [|discriminate].
  destruct (c_fresh c mbf e) eqn:F; [|discriminate]. cbn [negb] in H.
  destruct (N.eqb (cs_wire e) w) eqn:W; [|discriminate].
  split.
  - destruct cbp; [apply is_prefix_spec; exact E1|symmetry; apply name_eqb_eq; exact E1].
  - exists e. apply c_lookup_some in L. destruct L as [L1 L2]. apply N.eqb_eq in W.
    split; [exact L1|]. split; [exact L2|]. split; [exact W|]. intro M. subst mbf. unfold c_fresh in F. simpl in F.
    apply Z.ltb_lt. exact F.
Qed.

Lemma c_judge_none_meaning : forall c n mbf e, c_judge c n false mbf None = 0%N -> c_lookup (c_list c) n = Some e ->
  mbf = true /\ cs_stale e <= c_now c.
Proof.
  intros c n mbf e H L. unfold c_judge in H. rewrite L in H. destruct (c_fresh c mbf e) eqn:F; [discriminate|].
  unfold c_fresh in F. apply orb_false_iff in F. destruct F as [F1 F2]. apply negb_false_iff in F1.
  apply Z.ltb_ge in F2. tauto.
Qed.

(* ---- capacity and eviction order ---- *)
Lemma c_insert_new_list : forall c n w f, c_lookup (c_list c) n = None ->
  let e := mkcs n w (match f with Some x => c_now c + Z.of_N x | None => c_now c end) in
  c_list (c_insert c n w f) = skipn (length (c_list c) + 1 - N.to_nat (c_cap c)) (c_list c ++ [e]).
Proof.
  intros c n w f H. unfold c_insert. rewrite H. cbn [c_list]. rewrite app_length. f_equal.
  rewrite N2Nat.inj_sub, Nat2N.id. reflexivity.
Qed.

Lemma c_insert_new_capacity : forall c n w f, c_lookup (c_list c) n = None ->
  (length (c_list (c_insert c n w f)) <= N.to_nat (c_cap c))%nat.
Proof.
  intros c n w f H. rewrite c_insert_new_list by exact H. rewrite skipn_length, app_length. simpl. lia.
Qed.

Lemma c_insert_refresh_list : forall c n w f e0, c_lookup (c_list c) n = Some e0 ->
  let e := mkcs n w (match f with Some x => c_now c + Z.of_N x | None => c_now c end) in
  c_list (c_insert c n w f) = c_remove (c_list c) n ++ [e].
Proof. intros c n w f e0 H. unfold c_insert. rewrite H. reflexivity. Qed.

(* ---- well-formedness and "bytes of the latest insertion" for every history ---- *)
Lemma c_insert_wf : forall c n w f, c_wf c -> c_wf (c_insert c n w f).
Proof.
  intros c n w f H. unfold c_wf, c_insert in *. destruct (c_lookup (c_list c) n) eqn:L; cbn [c_list].
  - unfold names. rewrite map_app. fold (names (c_remove (c_list c) n)). rewrite names_remove. simpl.
    apply NoDup_app_intro; [apply remove_name_NoDup; exact H|constructor; [simpl; tauto|constructor]|].
    intros x H1 [<-|[]]. apply remove_name_In in H1. tauto.
  - unfold names. rewrite <- skipn_map. apply NoDup_skipn. rewrite map_app. simpl. apply NoDup_app_intro; [exact H|constructor; [simpl; tauto|constructor]|].
    intros x H1 [<-|[]]. apply c_lookup_none in L. exact (L H1).
Qed.

Lemma c_exact_wf : forall c n mbf, c_wf c -> c_wf (fst (c_exact c n mbf)).
Proof.
  intros c n mbf H. unfold c_exact. destruct (c_lookup (c_list c) n) as [e|] eqn:L; [|exact H].
  destruct (c_fresh c mbf e); [|exact H]. unfold c_wf. cbn [fst c_list].
  unfold names. rewrite map_app. fold (names (c_remove (c_list c) n)). rewrite names_remove. simpl.
  apply c_lookup_some in L. destruct L as [_ L]. rewrite L.
  apply NoDup_app_intro; [apply remove_name_NoDup; exact H|constructor; [simpl; tauto|constructor]|].
  intros x H1 [<-|[]]. apply remove_name_In in H1. tauto.
Qed.

Lemma cache_step_wf : forall c ad o r, c_wf c -> c_wf (cache_step c ad o r).
Proof.
  intros c ad o r H. destruct o; simpl; try exact H.
  - apply c_insert_wf. exact H.
  - destruct cbp; [exact H|apply c_exact_wf; exact H].
  - destruct r; try exact H. destruct k as [|p]; try exact H. destruct p as [p|p|]; try exact H.
    destruct p; try exact H. destruct cbp; [exact H|apply c_exact_wf; exact H].
  - destruct ad; [apply c_insert_wf; exact H|exact H].
  - unfold c_mgmtcap. destruct (max_int <? u)%N; exact H.
Qed.

Definition bytes_ok (c : cache) (t0 : Z) (tr : list tstep) : Prop :=
  c_now c = clock t0 tr /\
  forall n e, c_lookup (c_list c) n = Some e -> latest t0 tr n = Some (cs_wire e, cs_stale e).

Lemma latest_clock : forall n tr t0 a, fst (fold_left (latest_step n) tr (t0, a)) = clock t0 tr.
Proof.
  intros n tr. induction tr as [|x tr IH]; intros t0 a; [reflexivity|]. unfold clock. simpl. apply IH.
Qed.

Lemma clock_snoc : forall t0 tr x, clock t0 (tr ++ [x]) = clock t0 tr + adv_of x.
Proof. intros. unfold clock. rewrite fold_left_app. reflexivity. Qed.

Lemma latest_snoc : forall t0 tr x n, latest t0 (tr ++ [x]) n =
  match inserted x n with
  | Some (w, f) => Some (w, clock t0 tr + match f with Some d => Z.of_N d | None => 0 end)
  | None => latest t0 tr n
  end.
Proof.
  intros. unfold latest. rewrite fold_left_app. cbn [fold_left]. unfold latest_step at 1. cbn [snd]. rewrite latest_clock.
  destruct (inserted x n) as [[w f]|]; reflexivity.
Qed.

Lemma c_insert_bytes : forall c t0 tr ad o r m w f, c_wf c -> bytes_ok c t0 tr ->
  (forall n, inserted (ad, o, r) n = if name_eqb m n then Some (w, f) else None) -> adv_of (ad, o, r) = 0 ->
  bytes_ok (c_insert c m w f) t0 (tr ++ [(ad, o, r)]).
Proof.
  intros c t0 tr ad o r m w f W [Bc B] Hi Ha. split.
  { rewrite clock_snoc, Ha, <- Bc. unfold c_insert. destruct (c_lookup (c_list c) m); simpl; lia. }
  intros n e L. rewrite latest_snoc, Hi.
  assert (St : forall x : unit, match f with Some f0 => c_now c + Z.of_N f0 | None => c_now c end = clock t0 tr + match f with Some d => Z.of_N d | None => 0 end).
  { intros _. rewrite <- Bc. destruct f; lia. }
  unfold c_insert in L. destruct (c_lookup (c_list c) m) as [e0|] eqn:Lm; cbn [c_list] in L.
  - rewrite c_lookup_app2 in L. destruct (name_eqb m n) eqn:E.
    + apply name_eqb_eq in E. subst n. rewrite c_lookup_remove_same in L. simpl in L. rewrite name_eqb_refl in L.
      inversion L; subst. simpl. rewrite (St tt). reflexivity.
    + apply name_eqb_neq in E. rewrite c_lookup_remove_other in L by exact E.
      destruct (c_lookup (c_list c) n) as [x|] eqn:Ln.
      * inversion L; subst. apply B. exact Ln.
      * simpl in L. destruct (name_eqb m n) eqn:E2; [apply name_eqb_eq in E2; congruence|discriminate].
  - apply c_lookup_skipn in L.
    2:{ unfold names. rewrite map_app. simpl. apply NoDup_app_intro; [exact W|constructor; [simpl; tauto|constructor]|].
        intros x H1 [<-|[]]. apply c_lookup_none in Lm. exact (Lm H1). }
    rewrite c_lookup_app2 in L. destruct (c_lookup (c_list c) n) as [x|] eqn:Ln.
    + inversion L; subst. destruct (name_eqb m n) eqn:E; [apply name_eqb_eq in E; congruence|apply B; exact Ln].
    + simpl in L. destruct (name_eqb m n) eqn:E; [inversion L; subst; simpl; rewrite (St tt); reflexivity|discriminate].
Qed.

Lemma c_exact_bytes : forall c t0 tr x m mbf, bytes_ok c t0 tr -> (forall n, inserted x n = None) -> adv_of x = 0 ->
  bytes_ok (fst (c_exact c m mbf)) t0 (tr ++ [x]).
Proof.
  intros c t0 tr x m mbf [Bc B] Hi Ha. split.
  { rewrite clock_snoc, Ha, <- Bc. unfold c_exact. destruct (c_lookup (c_list c) m) as [e0|]; [destruct (c_fresh c mbf e0)|]; simpl; lia. }
  intros n e L. rewrite latest_snoc, Hi. unfold c_exact in L.
  destruct (c_lookup (c_list c) m) as [e0|] eqn:Lm; [|apply B; exact L].
  destruct (c_fresh c mbf e0); [|apply B; exact L]. cbn [fst c_list] in L. rewrite c_lookup_app2 in L.
  destruct (name_eq_dec m n) as [->|N].
  - rewrite c_lookup_remove_same in L. simpl in L. pose proof (c_lookup_some _ _ _ Lm) as [_ Hn]. rewrite Hn, name_eqb_refl in L.
    inversion L; subst. apply B. exact Lm.
  - rewrite c_lookup_remove_other in L by exact N. destruct (c_lookup (c_list c) n) as [y|] eqn:Ln.
    + inversion L; subst. apply B. exact Ln.
    + simpl in L. pose proof (c_lookup_some _ _ _ Lm) as [_ Hn]. rewrite Hn in L.
      destruct (name_eqb m n) eqn:E; [apply name_eqb_eq in E; congruence|discriminate].
Qed.

Lemma bytes_ok_same : forall c c' t0 tr x, c_list c' = c_list c -> c_now c' = c_now c + adv_of x -> (forall n, inserted x n = None) ->
  bytes_ok c t0 tr -> bytes_ok c' t0 (tr ++ [x]).
Proof.
  intros c c' t0 tr x E En Hi [Bc B]. split; [rewrite clock_snoc, En, Bc; reflexivity|].
  intros n e L. rewrite latest_snoc, Hi. apply B. rewrite <- E. exact L.
Qed.

Lemma cache_step_bytes : forall c t0 tr ad o r, c_wf c -> bytes_ok c t0 tr -> bytes_ok (cache_step c ad o r) t0 (tr ++ [(ad, o, r)]).
Proof.
  intros c t0 tr ad o r W B.
  assert (Same : forall o', (forall n, inserted (ad, o', r) n = None) -> adv_of (ad, o', r) = 0 -> bytes_ok c t0 (tr ++ [(ad, o', r)])).
  { intros o' H1 H2. apply bytes_ok_same with c; [reflexivity|rewrite H2; lia|exact H1|exact B]. }
  destruct o; cbn [cache_step].
  - apply bytes_ok_same with c; [reflexivity|reflexivity|intro; reflexivity|exact B].
  - apply bytes_ok_same with c; [reflexivity|simpl; unfold adv_of; simpl; lia|intro; reflexivity|exact B].
  - apply c_insert_bytes; [exact W|exact B|intro; reflexivity|reflexivity].
  - destruct cbp; [apply Same; [intro; reflexivity|reflexivity]|].
    apply c_exact_bytes; [exact B|intro; reflexivity|reflexivity].
  - assert (D : bytes_ok c t0 (tr ++ [(ad, OInterest face n cbp mbf nonce life sent, r)])) by (apply Same; [intro; reflexivity|reflexivity]).
    destruct r; try exact D. destruct k as [|p]; try exact D. destruct p as [p|p|]; try exact D. destruct p; try exact D.
    destruct cbp; [exact D|]. apply c_exact_bytes; [exact B|intro; reflexivity|reflexivity].
  - destruct ad.
    + apply c_insert_bytes; [exact W|exact B|intro; reflexivity|reflexivity].
    + apply Same; [intro; reflexivity|reflexivity].
  - apply Same; [intro; reflexivity|reflexivity].
  - apply Same; [intro; reflexivity|reflexivity].
  - apply bytes_ok_same with c; [unfold c_mgmtcap; destruct (max_int <? u)%N; reflexivity|unfold c_mgmtcap; destruct (max_int <? u)%N; simpl; unfold adv_of; simpl; lia|intro; reflexivity|exact B].
  - apply Same; [intro; reflexivity|reflexivity].
Qed.

(* for every history: entries have distinct names, the cache clock is the history's clock, and each cached entry carries
   the wire most recently inserted under its name and turns stale at that insertion's time + FreshnessPeriod *)
Theorem cache_run_ok : forall tr t0 cap, c_wf (cache_run (c_init t0 cap) tr) /\ bytes_ok (cache_run (c_init t0 cap) tr) t0 tr.
Proof.
  intros tr t0 cap. induction tr as [|x tr IH] using rev_ind.
  - split; [constructor|]. split; [reflexivity|]. intros n e L. discriminate.
  - destruct IH as [W B]. unfold cache_run in *. rewrite fold_left_app. simpl. destruct x as [[ad o] r]. simpl. split.
    + apply cache_step_wf. exact W.
    + apply cache_step_bytes; assumption.
Qed.
