(* PitCs/Cs.v — C07: the Content Store of the model refines the recency-ordered cache of Spec.v. *)
From Coq Require Import List NArith ZArith Bool Lia.
From PitCs Require Import Model Spec Lib TreeInv.
Import ListNotations.
Open Scope Z_scope.

Definition entries_of (l : list node) (q : list name) : list csent :=
  flat_map (fun n => match cs_at l n with Some e => [e] | None => [] end) q.

Lemma cache_of_list : forall s, c_list (cache_of s) = entries_of (nodes s) (lruq s).
Proof.
  intro s. unfold cache_of, entries_of. simpl. apply flat_map_ext. intro n. unfold cs_at.
  destruct (get_node (nodes s) n); reflexivity.
Qed.

Lemma entries_ext : forall l l' q, (forall m, In m q -> cs_at l m = cs_at l' m) -> entries_of l q = entries_of l' q.
Proof.
  intros l l' q H. induction q as [|m t IH]; [reflexivity|]. unfold entries_of in *. simpl.
  rewrite (H m) by (left; reflexivity). f_equal. apply IH. intros x Hx. apply H. right. exact Hx.
Qed.

Lemma entries_app : forall l a b, entries_of l (a ++ b) = entries_of l a ++ entries_of l b.
Proof. intros. unfold entries_of. apply flat_map_app. Qed.

Lemma c_remove_app : forall a b n, c_remove (a ++ b) n = c_remove a n ++ c_remove b n.
Proof.
  induction a as [|e a IH]; intros b n; simpl; [reflexivity|].
  destruct (name_eqb (cs_name e) n); [apply IH|simpl; f_equal; apply IH].
Qed.

Definition named (l : list node) : Prop := forall n e, cs_at l n = Some e -> cs_name e = n.

Lemma entries_remove : forall l q n, named l -> entries_of l (remove_name n q) = c_remove (entries_of l q) n.
Proof.
  intros l q n Hn. induction q as [|m t IH]; [reflexivity|]. simpl.
  change (entries_of l (m :: t)) with ((match cs_at l m with Some e => [e] | None => [] end) ++ entries_of l t).
  rewrite c_remove_app. destruct (name_eqb m n) eqn:E.
  - apply name_eqb_eq in E. subst m. rewrite IH. destruct (cs_at l n) as [e|] eqn:C; [|reflexivity].
    simpl. rewrite (Hn n e C), name_eqb_refl. reflexivity.
  - change (entries_of l (m :: remove_name n t)) with ((match cs_at l m with Some e => [e] | None => [] end) ++ entries_of l (remove_name n t)).
    rewrite IH. f_equal. destruct (cs_at l m) as [e|] eqn:C; [|reflexivity]. simpl. rewrite (Hn m e C), E. reflexivity.
Qed.

Lemma c_lookup_app : forall a b n, c_lookup (a ++ b) n = match c_lookup a n with Some e => Some e | None => c_lookup b n end.
Proof.
  induction a as [|e a IH]; intros b n; simpl; [reflexivity|]. destruct (name_eqb (cs_name e) n); [reflexivity|apply IH].
Qed.

Lemma c_lookup_entries : forall l q n, named l -> c_lookup (entries_of l q) n = if mem_name n q then cs_at l n else None.
Proof.
  intros l q n Hn. induction q as [|m t IH]; [reflexivity|].
  change (entries_of l (m :: t)) with ((match cs_at l m with Some e => [e] | None => [] end) ++ entries_of l t).
  rewrite c_lookup_app. simpl mem_name. destruct (name_eqb m n) eqn:E.
  - apply name_eqb_eq in E. subst m. simpl. destruct (cs_at l n) as [e|] eqn:C.
    + simpl. rewrite (Hn n e C), name_eqb_refl. reflexivity.
    + simpl. rewrite IH. destruct (mem_name n t); reflexivity.
  - simpl. destruct (cs_at l m) as [e|] eqn:C; [|exact IH]. simpl. rewrite (Hn m e C), E. exact IH.
Qed.

Lemma entries_length : forall l q, (forall n, In n q -> cs_at l n <> None) -> length (entries_of l q) = length q.
Proof.
  intros l q H. induction q as [|m t IH]; [reflexivity|].
  change (entries_of l (m :: t)) with ((match cs_at l m with Some e => [e] | None => [] end) ++ entries_of l t).
  rewrite app_length. rewrite IH by (intros; apply H; right; assumption).
  specialize (H m (or_introl eq_refl)). destruct (cs_at l m); [reflexivity|congruence].
  
Qed.

Lemma entries_In : forall l q e, In e (entries_of l q) <-> exists n, In n q /\ cs_at l n = Some e.
Proof.
  intros l q e. unfold entries_of. rewrite in_flat_map. split.
  - intros [n [H1 H2]]. exists n. split; [exact H1|]. destruct (cs_at l n); [destruct H2 as [->|[]]; reflexivity|destruct H2].
  - intros [n [H1 H2]]. exists n. split; [exact H1|]. rewrite H2. left. reflexivity.
Qed.

(* ---- invariant ---- *)
Record cs_inv (s : st) : Prop := mk_cs_inv {
  ci_tree : tree_ok (nodes s);
  ci_q_nodup : NoDup (lruq s);
  ci_q : forall n, In n (lruq s) <-> cs_at (nodes s) n <> None;
  ci_map_nodup : NoDup (csmap s);
  ci_map : forall n, In n (csmap s) <-> In n (lruq s);
  ci_named : named (nodes s);
  ci_ncs : ncs s = Z.of_nat (length (csmap s));
  ci_locs_nodup : NoDup (locs s);
  ci_locs : forall n, In n (locs s) <-> In n (lruq s) }.

(* a transformation that leaves the content store alone *)
Record cs_frame (s s' : st) : Prop := mk_cs_frame {
  cf_cs : forall n, cs_at (nodes s') n = cs_at (nodes s) n;
  cf_tree : tree_ok (nodes s');
  cf_q : lruq s' = lruq s; cf_map : csmap s' = csmap s; cf_locs : locs s' = locs s; cf_ncs : ncs s' = ncs s;
  cf_cap : cap s' = cap s; cf_now : now s' = now s; cf_ad : admitting s' = admitting s; cf_sv : serving s' = serving s }.

Lemma cs_frame_refl : forall s, tree_ok (nodes s) -> cs_frame s s.
Proof. intros s T. split; auto. Qed.

Lemma cs_frame_trans : forall a b c, cs_frame a b -> cs_frame b c -> cs_frame a c.
Proof.
  intros a b c [A1 A2 A3 A4 A5 A6 A7 A8 A9 A10] [B1 B2 B3 B4 B5 B6 B7 B8 B9 B10].
  split; try congruence; intro n; rewrite B1; apply A1.
Qed.

Lemma frame_inv : forall s s', cs_inv s -> cs_frame s s' -> cs_inv s'.
Proof.
  intros s s' [I1 I2 I3 I4 I5 I6 I7 I8 I9] [F1 F2 F3 F4 F5 F6 F7 F8 F9 F10].
  split; try rewrite ?F3, ?F4, ?F5, ?F6; auto.
  - intro n. rewrite F1. apply I3.
  - intros n e. rewrite F1. apply I6.
Qed.

Lemma frame_cache : forall s s', cs_frame s s' -> cache_of s' = cache_of s.
Proof.
  intros s s' [F1 F2 F3 F4 F5 F6 F7 F8 F9 F10].
  assert (c_list (cache_of s') = c_list (cache_of s)).
  { rewrite !cache_of_list, F3. apply entries_ext. intros. apply F1. }
  unfold cache_of in *. simpl in *. rewrite H, F7, F8. reflexivity.
Qed.

(* node updates that keep paths and CS entries *)
Lemma cs_at_upd_keep : forall l p f q, (forall nd, n_path (f nd) = n_path nd) -> (forall nd, n_cs (f nd) = n_cs nd) ->
  cs_at (upd_node l p f) q = cs_at l q.
Proof.
  intros l p f q H1 H2. unfold cs_at. rewrite get_node_upd by exact H1.
  destruct (name_eqb p q); [|reflexivity]. destruct (get_node l q); simpl; [apply H2|reflexivity].
Qed.

Lemma cs_at_upd_entry : forall l n id f q, cs_at (upd_entry l n id f) q = cs_at l q.
Proof. intros. unfold upd_entry. apply cs_at_upd_keep; intros; reflexivity. Qed.

Lemma upd_entry_ok : forall l n id f, tree_ok l -> tree_ok (upd_entry l n id f).
Proof. intros. unfold upd_entry. apply upd_ok; [intros; reflexivity|assumption]. Qed.

(* ---- LRU touch ---- *)
Lemma touch_set : forall n q, In n q -> forall m, In m (remove_name n q ++ [n]) <-> In m q.
Proof.
  intros n q Hn m. rewrite in_app_iff, remove_name_In. simpl. split.
  - intros [[H _]|[<-|[]]]; assumption.
  - intro H. destruct (name_eq_dec m n) as [->|N]; [right; left; reflexivity|left; tauto].
Qed.

Lemma touch_nodup : forall n q, NoDup q -> NoDup (remove_name n q ++ [n]).
Proof.
  intros n q H. apply NoDup_app_intro; [apply remove_name_NoDup; exact H|constructor; [simpl; tauto|constructor]|].
  intros x H1 [<-|[]]. apply remove_name_In in H1. tauto.
Qed.

Lemma lru_touch_inv : forall s n e, cs_inv s -> cs_at (nodes s) n = Some e ->
  cs_inv (lru_touch s n) /\
  cache_of (lru_touch s n) = mkcache (now s) (c_remove (c_list (cache_of s)) n ++ [e]) (cap s).
Proof.
  intros s n e [I1 I2 I3 I4 I5 I6 I7 I8 I9] C.
  assert (Hin : In n (lruq s)) by (apply I3; congruence).
  split.
  - unfold lru_touch. split; simpl; auto.
    + apply touch_nodup. exact I2.
    + intro m. rewrite touch_set by exact Hin. apply I3.
    + intro m. rewrite touch_set by exact Hin. apply I5.
    + apply add_name_NoDup. exact I8.
    + intro m. rewrite add_name_In, touch_set by exact Hin. rewrite I9. split; [intros [H| ->]; assumption|tauto].
  - assert (c_list (cache_of (lru_touch s n)) = c_remove (c_list (cache_of s)) n ++ [e]).
    { rewrite !cache_of_list. unfold lru_touch. simpl. rewrite entries_app, entries_remove by exact I6.
      f_equal. unfold entries_of. simpl. rewrite C. reflexivity. }
    unfold cache_of in *. simpl in *. rewrite H. reflexivity.
Qed.

(* ---- erase / evict ---- *)
Lemma cs_at_upd_set : forall l p v q, cs_at (upd_node l p (fun nd => mknode (n_path nd) (n_pit nd) v)) q =
  if name_eqb p q then (if has_node l q then v else None) else cs_at l q.
Proof.
  intros l p v q. unfold cs_at, has_node. rewrite get_node_upd by (intros; reflexivity).
  destruct (name_eqb p q); [|reflexivity]. destruct (get_node l q); reflexivity.
Qed.

Lemma erase_cs_inv : forall s x q, cs_inv s -> lruq s = x :: q ->
  let s' := set_locs (set_lruq (erase_cs s x) q) (remove_name x (locs s)) in
  cs_inv s' /\ c_list (cache_of s') = tl (c_list (cache_of s)) /\ now s' = now s /\ cap s' = cap s /\
  admitting s' = admitting s /\ serving s' = serving s /\ npit s' = npit s /\ tokmap s' = tokmap s /\ heap s' = heap s.
Proof.
  intros s x q [I1 I2 I3 I4 I5 I6 I7 I8 I9] Hq s'. rewrite Hq in *.
  assert (Hx : In x (csmap s)) by (apply I5; left; reflexivity).
  assert (Hxq : ~ In x q) by (inversion I2; assumption).
  set (l1 := upd_node (nodes s) x (fun nd => mknode (n_path nd) (n_pit nd) None)).
  assert (Es : s' = set_locs (set_lruq (set_ncs (set_csmap (set_nodes s (prune l1 x)) (remove_name x (csmap s))) (ncs s - 1)) q) (remove_name x (locs s))).
  { unfold s', erase_cs. apply mem_name_In in Hx. rewrite Hx. reflexivity. }
  assert (N' : nodes s' = prune l1 x) by (rewrite Es; reflexivity).
  assert (Q' : lruq s' = q) by (rewrite Es; reflexivity).
  assert (M' : csmap s' = remove_name x (csmap s)) by (rewrite Es; reflexivity).
  assert (L' : locs s' = remove_name x (locs s)) by (rewrite Es; reflexivity).
  assert (C' : ncs s' = ncs s - 1) by (rewrite Es; reflexivity).
  assert (R' : now s' = now s /\ cap s' = cap s /\ admitting s' = admitting s /\ serving s' = serving s /\
               npit s' = npit s /\ tokmap s' = tokmap s /\ heap s' = heap s) by (rewrite Es; repeat split; reflexivity).
  clearbody s'. clear Es.
  assert (T1 : tree_ok l1) by (apply upd_ok; [intros; reflexivity|exact I1]).
  assert (Hcs : forall m, cs_at (nodes s') m = if name_eqb x m then None else cs_at (nodes s) m).
  { intro m. rewrite N', cs_at_prune. unfold l1. rewrite cs_at_upd_set. destruct (name_eqb x m); [|reflexivity].
    destruct (has_node (nodes s) m); reflexivity. }
  split; [|split; [|exact R']].
  - split.
    + rewrite N'. apply prune_ok. exact T1.
    + rewrite Q'. inversion I2; assumption.
    + intro m. rewrite Q', Hcs. destruct (name_eqb x m) eqn:E.
      * apply name_eqb_eq in E. subst m. split; [tauto|congruence].
      * apply name_eqb_neq in E. rewrite <- I3. simpl. split; [tauto|intros [H|H]; [congruence|exact H]].
    + rewrite M'. apply remove_name_NoDup. exact I4.
    + intro m. rewrite M', Q', remove_name_In, I5. simpl. split; [intros [[H|H] N]; [congruence|exact H]|].
      intro H. split; [right; exact H|]. intro E. subst m. exact (Hxq H).
    + intros m e. rewrite Hcs. destruct (name_eqb x m); [discriminate|apply I6].
    + rewrite C', M', I7. pose proof (remove_name_length x (csmap s) I4 Hx). lia.
    + rewrite L'. apply remove_name_NoDup. exact I8.
    + intro m. rewrite L', Q', remove_name_In, I9. simpl. split; [intros [[H|H] N]; [congruence|exact H]|].
      intro H. split; [right; exact H|]. intro E. subst m. exact (Hxq H).
  - rewrite !cache_of_list. rewrite Q', Hq.
    change (entries_of (nodes s) (x :: q)) with ((match cs_at (nodes s) x with Some e => [e] | None => [] end) ++ entries_of (nodes s) q).
    assert (cs_at (nodes s) x <> None) by (apply I3; left; reflexivity).
    destruct (cs_at (nodes s) x); [|congruence]. simpl. apply entries_ext. intros m Hm. rewrite Hcs.
    destruct (name_eqb x m) eqn:E; [apply name_eqb_eq in E; subst m; tauto|reflexivity].
Qed.

Lemma skipn_cons_gt : forall A (x : A) l c, (c <= length l)%nat -> skipn (S (length l) - c) (x :: l) = skipn (length l - c) l.
Proof. intros A x l c H. replace (S (length l) - c)%nat with (S (length l - c)) by lia. reflexivity. Qed.

Lemma evict_inv : forall fuel s, cs_inv s -> (length (lruq s) <= fuel)%nat ->
  let s' := evict fuel s in
  cs_inv s' /\ c_list (cache_of s') = skipn (length (lruq s) - N.to_nat (cap s)) (c_list (cache_of s)) /\
  now s' = now s /\ cap s' = cap s /\ admitting s' = admitting s /\ serving s' = serving s /\
  npit s' = npit s /\ tokmap s' = tokmap s /\ heap s' = heap s.
Proof.
  induction fuel as [|f IH]; intros s I Hf; cbv zeta; cbn [evict].
  - destruct (lruq s) eqn:Q; [|simpl in Hf; lia]. split; [exact I|]. split; [reflexivity|repeat split; reflexivity].
  - destruct (lruq s) as [|x q] eqn:Q.
    + split; [exact I|]. split; [reflexivity|repeat split; reflexivity].
    + destruct (cap s <? N.of_nat (length (x :: q)))%N eqn:E.
      * apply N.ltb_lt in E.
        destruct (erase_cs_inv s x q I Q) as [I' [C' [E1 [E2 [E3 [E4 [E5 [E6 E7]]]]]]]].
        set (s1 := set_locs (set_lruq (erase_cs s x) q) (remove_name x (locs s))) in *.
        assert (Hq1 : lruq s1 = q) by reflexivity.
        specialize (IH s1 I' ltac:(rewrite Hq1; simpl in Hf; lia)). cbv zeta in IH.
        destruct IH as [J1 [J2 [J3 [J4 [J5 [J6 [J7 [J8 J9]]]]]]]].
        split; [exact J1|]. split; [|repeat split; congruence].
        rewrite J2, C', Hq1, E2.
        assert (Hl : length (c_list (cache_of s)) = length (x :: q)).
        { rewrite cache_of_list, Q. apply entries_length. intros m Hm. apply (ci_q s I). rewrite Q. exact Hm. }
        destruct (c_list (cache_of s)) as [|e es]; [simpl in Hl; lia|]. cbn [tl].
        cbn [length] in *.
        assert (length es = length q) by lia.
        rewrite <- H. symmetry. apply skipn_cons_gt. lia.
      * apply N.ltb_ge in E. split; [exact I|]. split; [|repeat split; reflexivity].
        replace (length (x :: q) - N.to_nat (cap s))%nat with 0%nat by (cbn [length] in *; lia). reflexivity.
Qed.

(* ---- InsertData ---- *)
Lemma insert_data_inv : forall s n w f, cs_inv s ->
  cs_inv (insert_data s n w f) /\ cache_of (insert_data s n w f) = c_insert (cache_of s) n w f.
Proof.
  intros s n w f I. pose proof I as [I1 I2 I3 I4 I5 I6 I7 I8 I9]. unfold insert_data.
  set (e := mkcs n w (stale_of s f)).
  assert (Hlk : c_lookup (c_list (cache_of s)) n = if mem_name n (lruq s) then cs_at (nodes s) n else None).
  { rewrite cache_of_list. apply c_lookup_entries. exact I6. }
  assert (He : mkcs n w (match f with Some f0 => c_now (cache_of s) + Z.of_N f0 | None => c_now (cache_of s) end) = e) by reflexivity.
  destruct (mem_name n (csmap s)) eqn:M.
  - (* refresh *)
    apply mem_name_In in M. assert (Hq : In n (lruq s)) by (apply I5; exact M).
    assert (Hc : cs_at (nodes s) n <> None) by (apply I3; exact Hq).
    set (l' := upd_node (nodes s) n (fun nd => mknode (n_path nd) (n_pit nd) (Some e))).
    assert (Hcs : forall m, cs_at l' m = if name_eqb n m then Some e else cs_at (nodes s) m).
    { intro m. unfold l'. rewrite cs_at_upd_set. destruct (name_eqb n m) eqn:E; [|reflexivity].
      apply name_eqb_eq in E. subst m. unfold cs_at, has_node in *. destruct (get_node (nodes s) n); [reflexivity|congruence]. }
    assert (I0 : cs_inv (set_nodes s l')).
    { split; simpl; auto.
      - apply upd_ok; [intros; reflexivity|exact I1].
      - intro m. rewrite Hcs. destruct (name_eqb n m) eqn:E; [|apply I3].
        apply name_eqb_eq in E. subst m. split; [congruence|intros _; exact Hq].
      - intros m x. rewrite Hcs. destruct (name_eqb n m) eqn:E; [|apply I6].
        apply name_eqb_eq in E. subst m. intro H. inversion H. reflexivity. }
    destruct (lru_touch_inv (set_nodes s l') n e I0) as [J1 J2].
    { simpl. rewrite Hcs, name_eqb_refl. reflexivity. }
    split; [exact J1|]. rewrite J2. unfold c_insert. rewrite Hlk.
    apply mem_name_In in Hq. rewrite Hq. destruct (cs_at (nodes s) n) eqn:C; [|congruence].
    rewrite He. f_equal. f_equal.
    rewrite !cache_of_list. simpl. rewrite <- !entries_remove.
    + apply entries_ext. intros m Hm. rewrite Hcs. apply remove_name_In in Hm.
      destruct (name_eqb n m) eqn:E; [apply name_eqb_eq in E; subst m; tauto|reflexivity].
    + exact I6.
    + intros m x. rewrite Hcs. destruct (name_eqb n m) eqn:E; [|apply I6].
      apply name_eqb_eq in E. subst m. intro H. inversion H. reflexivity.
  - (* new name *)
    apply mem_name_false in M.
    assert (Hq : ~ In n (lruq s)) by (rewrite <- I5; exact M).
    assert (Hc : cs_at (nodes s) n = None).
    { destruct (cs_at (nodes s) n) eqn:C; [|reflexivity]. exfalso. apply Hq. apply I3. congruence. }
    set (l1 := fill (nodes s) n).
    set (l2 := upd_node l1 n (fun nd => mknode (n_path nd) (n_pit nd) (Some e))).
    assert (T1 : tree_ok l1) by (apply fill_ok; exact I1).
    assert (Hcs : forall m, cs_at l2 m = if name_eqb n m then Some e else cs_at (nodes s) m).
    { intro m. unfold l2. rewrite cs_at_upd_set. destruct (name_eqb n m) eqn:E.
      - apply name_eqb_eq in E. subst m. replace (has_node l1 n) with true; [reflexivity|].
        symmetry. apply has_node_In. apply fill_has. exact I1.
      - unfold l1. apply cs_at_fill. }
    match goal with |- cs_inv (evict ?F ?S2) /\ _ => set (s2 := S2) end.
    assert (N2 : nodes s2 = l2) by reflexivity.
    assert (Q2 : lruq s2 = lruq s ++ [n]) by reflexivity.
    assert (I2' : cs_inv s2).
    { split.
      - rewrite N2. apply upd_ok; [intros; reflexivity|exact T1].
      - rewrite Q2. apply NoDup_app_intro; [exact I2|constructor; [simpl; tauto|constructor]|].
        intros x H1 [<-|[]]. exact (Hq H1).
      - intro m. rewrite Q2, N2, Hcs, in_app_iff. simpl. destruct (name_eqb n m) eqn:E.
        + apply name_eqb_eq in E. subst m. split; [congruence|tauto].
        + apply name_eqb_neq in E. rewrite <- I3. split; [intros [H|[H|[]]]; [exact H|congruence]|tauto].
      - change (csmap s2) with (csmap s ++ [n]). apply NoDup_app_intro; [exact I4|constructor; [simpl; tauto|constructor]|].
        intros x H1 [<-|[]]. exact (M H1).
      - intro m. change (csmap s2) with (csmap s ++ [n]). rewrite Q2, !in_app_iff, I5. tauto.
      - intros m x. rewrite N2, Hcs. destruct (name_eqb n m) eqn:E; [|apply I6].
        apply name_eqb_eq in E. subst m. intro H. inversion H. reflexivity.
      - change (csmap s2) with (csmap s ++ [n]). change (ncs s2) with (ncs s + 1). rewrite app_length, I7. simpl. lia.
      - change (locs s2) with (add_name n (locs s)). apply add_name_NoDup. exact I8.
      - intro m. change (locs s2) with (add_name n (locs s)). rewrite Q2, add_name_In, in_app_iff, I9. simpl.
        split; [intros [H| ->]; [tauto|right; left; reflexivity]|intros [H|[H|[]]]; [tauto|right; congruence]]. }
    destruct (evict_inv (S (length (lruq s2))) s2 I2' ltac:(lia)) as [J1 [J2 [J3 [J4 _]]]].
    split; [exact J1|].
    assert (L2 : c_list (cache_of s2) = c_list (cache_of s) ++ [e]).
    { rewrite !cache_of_list, Q2, N2, entries_app. f_equal.
      - apply entries_ext. intros m Hm. rewrite Hcs. destruct (name_eqb n m) eqn:E; [|reflexivity].
        apply name_eqb_eq in E. subst m. tauto.
      - unfold entries_of. simpl. rewrite Hcs, name_eqb_refl. reflexivity. }
    unfold c_insert. rewrite Hlk. replace (mem_name n (lruq s)) with false by (symmetry; apply mem_name_false; exact Hq).
    rewrite He.
    assert (Hlen : length (c_list (cache_of s) ++ [e]) = length (lruq s2)).
    { rewrite Q2, !app_length, cache_of_list. rewrite entries_length; [reflexivity|]. intros m Hm. apply I3. exact Hm. }
    rewrite Hlen.
    assert (forall c1 c2 : cache, c_now c1 = c_now c2 -> c_list c1 = c_list c2 -> c_cap c1 = c_cap c2 -> c1 = c2) as Ext.
    { intros [a1 b1 d1] [a2 b2 d2]; simpl; intros; subst; reflexivity. }
    apply Ext.
    + exact J3.
    + etransitivity; [exact J2|]. rewrite L2. cbn [c_list]. rewrite N2Nat.inj_sub, Nat2N.id. reflexivity.
    + exact J4.
Qed.

(* ---- FindMatchingDataFromCS ---- *)
Lemma node_hit_spec : forall s mbf nd e, node_hit s mbf nd = Some e <-> n_cs nd = Some e /\ acceptable s mbf e = true.
Proof.
  intros s mbf nd e. unfold node_hit. destruct (n_cs nd) as [x|]; [|split; [discriminate|intros [H _]; discriminate]].
  destruct (acceptable s mbf x) eqn:A; split.
  - intro H. inversion H; subst. tauto.
  - intros [H _]. exact H.
  - discriminate.
  - intros [H1 H2]. inversion H1; subst. congruence.
Qed.

Lemma find_cs_exact : forall s n mbf, cs_inv s ->
  find_cs s n false mbf =
  match cs_at (nodes s) n with
  | Some e => if acceptable s mbf e then (lru_touch s n, [e]) else (s, [])
  | None => (s, [])
  end.
Proof.
  intros s n mbf I. unfold find_cs. destruct (ci_tree s I) as [R N C]. rewrite exact_node_closed by assumption.
  pose proof (ci_named s I n) as Hn. unfold cs_at in *. destruct (get_node (nodes s) n) as [nd|]; [|reflexivity].
  unfold node_hit. destruct (n_cs nd) as [e|]; [|reflexivity].
  destruct (acceptable s mbf e); [rewrite (Hn e eq_refl)|]; reflexivity.
Qed.

Lemma c_lookup_cache : forall s n, cs_inv s -> c_lookup (c_list (cache_of s)) n = cs_at (nodes s) n.
Proof.
  intros s n I. rewrite cache_of_list, c_lookup_entries by (apply (ci_named s I)).
  destruct (mem_name n (lruq s)) eqn:M; [reflexivity|]. apply mem_name_false in M.
  destruct (cs_at (nodes s) n) eqn:C; [|reflexivity]. exfalso. apply M. apply (ci_q s I). congruence.
Qed.

Lemma find_cs_inv : forall s n cbp mbf, cs_inv s ->
  cs_inv (fst (find_cs s n cbp mbf)) /\
  cache_of (fst (find_cs s n cbp mbf)) = (if cbp then cache_of s else fst (c_exact (cache_of s) n mbf)).
Proof.
  intros s n cbp mbf I. destruct cbp.
  - unfold find_cs. destruct (exact_node (nodes s) n); simpl; split; try exact I; reflexivity.
  - rewrite find_cs_exact by exact I. unfold c_exact. rewrite c_lookup_cache by exact I.
    destruct (cs_at (nodes s) n) as [e|] eqn:C; [|split; [exact I|reflexivity]].
    change (c_fresh (cache_of s) mbf e) with (acceptable s mbf e).
    destruct (acceptable s mbf e); [|split; [exact I|reflexivity]].
    destruct (lru_touch_inv s n e I C) as [J1 J2]. split; [exact J1|exact J2].
Qed.

Lemma find_cs_frame_rest : forall s n cbp mbf,
  let s' := fst (find_cs s n cbp mbf) in
  nodes s' = nodes s /\ now s' = now s /\ cap s' = cap s /\ npit s' = npit s /\ tokmap s' = tokmap s /\ heap s' = heap s /\
  dnl s' = dnl s /\ dnlq s' = dnlq s /\ admitting s' = admitting s /\ serving s' = serving s /\ next_id s' = next_id s /\
  timer_at s' = timer_at s /\ dnl_life s' = dnl_life s /\ ncs s' = ncs s /\ csmap s' = csmap s.
Proof.
  intros s n cbp mbf. unfold find_cs. destruct (exact_node (nodes s) n); [|repeat split; reflexivity].
  destruct cbp; [repeat split; reflexivity|]. destruct (node_hit s mbf n0); repeat split; reflexivity.
Qed.

Lemma prefix_cands_sound : forall s n mbf e, cs_inv s -> In e (prefix_cands s n mbf) ->
  cs_at (nodes s) (cs_name e) = Some e /\ acceptable s mbf e = true /\ is_prefix n (cs_name e) = true.
Proof.
  intros s n mbf e I H. unfold prefix_cands in H. apply in_flat_map in H. destruct H as [nd [H1 H2]].
  destruct (node_hit s mbf nd) as [x|] eqn:Hh; [|destruct H2].
  destruct (is_prefix n (n_path nd)) eqn:E; [|destruct H2].
  destruct H2 as [->|[]].
  apply node_hit_spec in Hh. destruct Hh as [Hc Ha].
  assert (G : get_node (nodes s) (n_path nd) = Some nd) by (apply In_get_node; [apply (t_nodup _ (ci_tree s I))|exact H1]).
  assert (C : cs_at (nodes s) (n_path nd) = Some e) by (unfold cs_at; rewrite G; exact Hc).
  rewrite (ci_named s I _ _ C). tauto.
Qed.

(* every answer the model admits is judged fine by the spec (name matches, cached, fresh enough, bytes of the latest
   insertion), and an exact-name miss is justified *)
Lemma find_cs_sound : forall s n cbp mbf e, cs_inv s -> In e (snd (find_cs s n cbp mbf)) ->
  c_judge (cache_of s) n cbp mbf (Some (cs_name e, cs_wire e)) = 0%N.
Proof.
  intros s n cbp mbf e I H.
  assert (K : cs_at (nodes s) (cs_name e) = Some e /\ acceptable s mbf e = true /\ (if cbp then is_prefix n (cs_name e) else name_eqb n (cs_name e)) = true).
  { destruct cbp.
    - unfold find_cs in H. destruct (exact_node (nodes s) n); [|destruct H]. simpl in H. apply prefix_cands_sound; assumption.
    - rewrite find_cs_exact in H by exact I. destruct (cs_at (nodes s) n) as [x|] eqn:C; [|destruct H].
      destruct (acceptable s mbf x) eqn:A; [|destruct H]. destruct H as [->|[]].
      rewrite (ci_named s I _ _ C). rewrite name_eqb_refl. tauto. }
  destruct K as [K1 [K2 K3]]. unfold c_judge. rewrite K3. cbn [negb]. rewrite c_lookup_cache, K1 by exact I.
  change (c_fresh (cache_of s) mbf e) with (acceptable s mbf e). rewrite K2. cbn [negb]. rewrite N.eqb_refl. reflexivity.
Qed.

Lemma find_cs_complete : forall s n mbf, cs_inv s -> snd (find_cs s n false mbf) = [] ->
  c_judge (cache_of s) n false mbf None = 0%N.
Proof.
  intros s n mbf I H. rewrite find_cs_exact in H by exact I. unfold c_judge. rewrite c_lookup_cache by exact I.
  destruct (cs_at (nodes s) n) as [e|]; [|reflexivity]. change (c_fresh (cache_of s) mbf e) with (acceptable s mbf e).
  destruct (acceptable s mbf e); [discriminate|reflexivity].
Qed.

(* ---- PIT / DNL operations leave the content store alone ---- *)
Lemma fr_nodes : forall s l', tree_ok l' -> (forall n, cs_at l' n = cs_at (nodes s) n) -> cs_frame s (set_nodes s l').
Proof. intros. split; try reflexivity; assumption. Qed.

Lemma fr_upd_entry : forall s n id f, tree_ok (nodes s) -> cs_frame s (set_nodes s (upd_entry (nodes s) n id f)).
Proof. intros. apply fr_nodes; [apply upd_entry_ok; assumption|intro; apply cs_at_upd_entry]. Qed.

Lemma fr_heap : forall s v, tree_ok (nodes s) -> cs_frame s (set_heap s v).
Proof. intros. split; try reflexivity; assumption. Qed.
Lemma fr_dnl : forall s v, tree_ok (nodes s) -> cs_frame s (set_dnl s v).
Proof. intros. split; try reflexivity; assumption. Qed.
Lemma fr_dnlq : forall s v, tree_ok (nodes s) -> cs_frame s (set_dnlq s v).
Proof. intros. split; try reflexivity; assumption. Qed.
Lemma fr_npit : forall s v, tree_ok (nodes s) -> cs_frame s (set_npit s v).
Proof. intros. split; try reflexivity; assumption. Qed.
Lemma fr_tokmap : forall s v, tree_ok (nodes s) -> cs_frame s (set_tokmap s v).
Proof. intros. split; try reflexivity; assumption. Qed.
Lemma fr_next_id : forall s v, tree_ok (nodes s) -> cs_frame s (set_next_id s v).
Proof. intros. split; try reflexivity; assumption. Qed.
Lemma fr_timer : forall s v, tree_ok (nodes s) -> cs_frame s (set_timer s v).
Proof. intros. split; try reflexivity; assumption. Qed.

Lemma fr_fold : forall A (f : st -> A -> st), (forall s x, tree_ok (nodes s) -> cs_frame s (f s x)) ->
  forall l s, tree_ok (nodes s) -> cs_frame s (fold_left f l s).
Proof.
  intros A f Hf l. induction l as [|x t IH]; intros s T; simpl; [apply cs_frame_refl; exact T|].
  eapply cs_frame_trans; [apply Hf; exact T|]. apply IH. apply (cf_tree _ _ (Hf s x T)).
Qed.

Lemma fr_dnl_insert : forall s k, tree_ok (nodes s) -> cs_frame s (dnl_insert s k).
Proof.
  intros s k T. unfold dnl_insert. destruct (dnl_mem k (dnl s)); [apply cs_frame_refl; exact T|].
  eapply cs_frame_trans; [apply fr_dnl; exact T|]. apply fr_dnlq. exact T.
Qed.

Lemma fr_dnl_sweep : forall s, tree_ok (nodes s) -> cs_frame s (dnl_sweep s).
Proof.
  intros s T. unfold dnl_sweep. apply fr_fold; [|exact T]. intros s0 x T0.
  eapply cs_frame_trans; [apply fr_dnl; exact T0|]. apply fr_dnlq. exact T0.
Qed.

Lemma fr_schedule : forall s n id t, tree_ok (nodes s) -> cs_frame s (schedule s n id t).
Proof.
  intros s n id t T. unfold schedule. destruct (get_entry (nodes s) n id) as [e|]; [|apply cs_frame_refl; exact T].
  pose proof (fr_upd_entry s n id (fun e0 => set_q (set_exp e0 t) true) T) as F.
  destruct (p_q e); (eapply cs_frame_trans; [exact F|]; apply fr_heap; apply (cf_tree _ _ F)).
Qed.

Lemma fr_update_exp_timer : forall s n id, tree_ok (nodes s) -> cs_frame s (update_exp_timer s n id).
Proof.
  intros s n id T. unfold update_exp_timer. destruct (get_entry (nodes s) n id); [apply fr_schedule; exact T|apply cs_frame_refl; exact T].
Qed.

Lemma fr_set_exp_now : forall s n id, tree_ok (nodes s) -> cs_frame s (set_exp_now s n id).
Proof. intros. apply fr_schedule. assumption. Qed.

Lemma fr_remove_interest : forall s e, tree_ok (nodes s) -> cs_frame s (remove_interest s e).
Proof.
  intros s e T. unfold remove_interest. destruct (get_node (nodes s) (p_name e)) as [nd|]; [|apply cs_frame_refl; exact T].
  destruct (existsb (fun x => N.eqb (p_id x) (p_id e)) (n_pit nd)); [|apply cs_frame_refl; exact T].
  set (l1 := upd_node (nodes s) (p_name e) (fun nd0 => mknode (n_path nd0) (swap_del (n_pit nd0) (p_id e)) (n_cs nd0))).
  assert (T1 : tree_ok l1) by (apply upd_ok; [intros; reflexivity|exact T]).
  assert (C1 : forall n, cs_at l1 n = cs_at (nodes s) n) by (intro; apply cs_at_upd_keep; intros; reflexivity).
  match goal with |- cs_frame s (set_tokmap (set_npit (set_nodes s ?L2) _) _) => set (l2 := L2) end.
  assert (T2 : tree_ok l2 /\ forall n, cs_at l2 n = cs_at (nodes s) n).
  { unfold l2. destruct (get_node l1 (p_name e)) as [nd'|]; [|split; assumption].
    destruct (is_nil (n_pit nd')); [|split; assumption].
    split; [apply prune_ok; exact T1|]. intro n. rewrite cs_at_prune. apply C1. }
  destruct T2 as [T2 C2].
  eapply cs_frame_trans; [apply fr_nodes; [exact T2|exact C2]|].
  eapply cs_frame_trans; [apply fr_npit; exact T2|]. apply fr_tokmap. exact T2.
Qed.

Lemma fr_finalize : forall s e, tree_ok (nodes s) -> cs_frame s (finalize s e).
Proof. intros s e T. unfold finalize. apply fr_fold; [|exact T]. intros. apply fr_dnl_insert. assumption. Qed.

Lemma fr_expire_one : forall s x, tree_ok (nodes s) -> cs_frame s (expire_one s x).
Proof.
  intros s x T. unfold expire_one. destruct (find_entry (nodes s) (fst x)) as [e|]; [|apply cs_frame_refl; exact T].
  pose proof (fr_upd_entry s (p_name e) (p_id e) (fun e0 => set_q e0 false) T) as F1.
  eapply cs_frame_trans; [exact F1|].
  pose proof (fr_finalize _ e (cf_tree _ _ F1)) as F2.
  eapply cs_frame_trans; [exact F2|]. apply fr_remove_interest. apply (cf_tree _ _ F2).
Qed.

Lemma fr_pit_update : forall s, tree_ok (nodes s) -> cs_frame s (pit_update s).
Proof.
  intros s T. unfold pit_update.
  pose proof (fr_heap s (filter (fun x => negb (snd x <=? now s)) (heap s)) T) as F1.
  pose proof (fr_fold _ expire_one fr_expire_one (sort_by snd (filter (fun x => snd x <=? now s) (heap s))) _ (cf_tree _ _ F1)) as F2.
  eapply cs_frame_trans; [exact F1|]. eapply cs_frame_trans; [exact F2|]. apply fr_timer. apply (cf_tree _ _ F2).
Qed.

Lemma fr_satisfy : forall dn src s e, tree_ok (nodes s) -> cs_frame s (satisfy dn src s e).
Proof.
  intros dn src s e T. unfold satisfy.
  pose proof (fr_set_exp_now s (p_name e) (p_id e) T) as F1.
  pose proof (fr_upd_entry _ (p_name e) (p_id e) (fun e0 => set_sat e0 true) (cf_tree _ _ F1)) as F2.
  fold (mark_sat (set_exp_now s (p_name e) (p_id e)) (p_name e) (p_id e)) in F2.
  set (s2 := mark_sat (set_exp_now s (p_name e) (p_id e)) (p_name e) (p_id e)) in *.
  pose proof (fr_fold _ (fun s0 o => dnl_insert s0 (dn, o_nonce o)) (fun s0 o T0 => fr_dnl_insert s0 _ T0)
                (outs_of s2 (p_name src) (p_id src)) s2 (cf_tree _ _ F2)) as F3.
  eapply cs_frame_trans; [exact F1|]. eapply cs_frame_trans; [exact F2|]. eapply cs_frame_trans; [exact F3|].
  unfold clear_records. apply fr_upd_entry. apply (cf_tree _ _ F3).
Qed.

Lemma fr_insert_interest : forall s n cbp mbf nonce face, tree_ok (nodes s) ->
  cs_frame s (fst (fst (insert_interest s n cbp mbf nonce face))).
Proof.
  intros s n cbp mbf nonce face T. unfold insert_interest.
  set (l1 := fill (nodes s) n).
  assert (T1 : tree_ok l1) by (apply fill_ok; exact T).
  assert (C1 : forall m, cs_at l1 m = cs_at (nodes s) m) by (intro; apply cs_at_fill).
  destruct (find _ _) as [e|].
  - destruct (existsb _ (p_ins e)); simpl.
    + apply fr_nodes; assumption.
    + apply fr_nodes; [apply upd_entry_ok; exact T1|]. intro m. rewrite cs_at_upd_entry. apply C1.
  - simpl.
    set (l2 := upd_node l1 n _).
    assert (T2 : tree_ok l2) by (apply upd_ok; [intros; reflexivity|exact T1]).
    assert (C2 : forall m, cs_at l2 m = cs_at (nodes s) m).
    { intro m. unfold l2. rewrite cs_at_upd_keep by (intros; reflexivity). apply C1. }
    eapply cs_frame_trans; [apply fr_nodes; [exact T2|exact C2]|].
    eapply cs_frame_trans; [apply fr_npit; exact T2|].
    eapply cs_frame_trans; [apply fr_tokmap; exact T2|]. apply fr_next_id. exact T2.
Qed.

(* ---- the pipeline operations ---- *)
Lemma process_data_cs : forall s n w f tok, cs_inv s ->
  cs_inv (process_data s n w f tok) /\
  cache_of (process_data s n w f tok) = (if admitting s then c_insert (cache_of s) n w f else cache_of s).
Proof.
  intros s n w f tok I. unfold process_data.
  set (s1 := if admitting s then insert_data s n w f else s).
  assert (I1 : cs_inv s1 /\ cache_of s1 = (if admitting s then c_insert (cache_of s) n w f else cache_of s)).
  { unfold s1. destruct (admitting s); [apply insert_data_inv; exact I|split; [exact I|reflexivity]]. }
  destruct I1 as [I1 C1]. pose proof (ci_tree s1 I1) as T1.
  assert (F : cs_frame s1 match pit_matches s1 n tok with
                           | [] => s1 | [e] => satisfy n e s1 e | e0 :: rest => fold_left (satisfy n e0) (e0 :: rest) s1 end).
  { destruct (pit_matches s1 n tok) as [|e0 rest]; [apply cs_frame_refl; exact T1|].
    destruct rest as [|e1 rest]; [apply fr_satisfy; exact T1|].
    apply fr_fold; [|exact T1]. intros. apply fr_satisfy. assumption. }
  split; [eapply frame_inv; [exact I1|exact F]|]. rewrite (frame_cache _ _ F). exact C1.
Qed.

Lemma find_cs_nil : forall s n cbp mbf, snd (find_cs s n cbp mbf) = [] -> fst (find_cs s n cbp mbf) = s.
Proof.
  intros s n cbp mbf. unfold find_cs. destruct (exact_node (nodes s) n); [|reflexivity].
  destruct cbp; [reflexivity|]. destruct (node_hit s mbf n0); [discriminate|reflexivity].
Qed.

Lemma fr_forward : forall s n id nonce ex sent, tree_ok (nodes s) ->
  cs_frame s (let s3 := update_exp_timer s n id in
              set_nodes s3 (upd_entry (nodes s3) n id (fun e => set_outs e
                (fold_left (fun l f => put_outrec l (mkout f nonce ex)) sent (outs_of s3 n id))))).
Proof.
  intros s n id nonce ex sent T. cbv zeta.
  pose proof (fr_update_exp_timer s n id T) as F1.
  eapply cs_frame_trans; [exact F1|]. apply fr_upd_entry. apply (cf_tree _ _ F1).
Qed.

Lemma process_interest_cs : forall s face n cbp mbf nonce life sent, cs_inv s ->
  let r := process_interest s face n cbp mbf nonce life sent in
  cs_inv (fst (fst r)) /\
  cache_of (fst (fst r)) = cache_step (cache_of s) (admitting s) (OInterest face n cbp mbf nonce life sent) (RInt (snd (fst r)) (snd r)).
Proof.
  intros s face n cbp mbf nonce life sent I. cbv zeta. unfold process_interest.
  destruct (dnl_mem (n, nonce) (dnl s)); [split; [exact I|reflexivity]|].
  pose proof (fr_insert_interest s n cbp mbf nonce face (ci_tree s I)) as F1.
  destruct (insert_interest s n cbp mbf nonce face) as [[s1 id] dup]. simpl in F1.
  destruct dup.
  { simpl. split; [eapply frame_inv; [exact I|exact F1]|apply frame_cache; exact F1]. }
  destruct (put_inrec _ _) as [[ins' already] prev].
  pose proof (fr_upd_entry s1 n id (fun e => set_ins e ins') (cf_tree _ _ F1)) as F2.
  set (s2 := set_nodes s1 (upd_entry (nodes s1) n id (fun e => set_ins e ins'))) in *.
  assert (F12 : cs_frame s s2) by (eapply cs_frame_trans; eassumption).
  assert (I2 : cs_inv s2) by (eapply frame_inv; eassumption).
  destruct already.
  { pose proof (fr_dnl_insert s2 (n, prev) (cf_tree _ _ F12)) as F3.
    pose proof (fr_forward _ n id nonce (now s1 + lifetime_of life) sent (cf_tree _ _ F3)) as F4. cbv zeta in F4.
    assert (F : cs_frame s _) by (eapply cs_frame_trans; [exact F12|]; eapply cs_frame_trans; [exact F3|exact F4]).
    simpl. split; [eapply frame_inv; [exact I|exact F]|apply frame_cache; exact F]. }
  replace (serving s2) with (serving s) by (symmetry; apply (cf_sv _ _ F12)).
  destruct (serving s).
  2:{ pose proof (fr_forward s2 n id nonce (now s1 + lifetime_of life) sent (cf_tree _ _ F12)) as F4. cbv zeta in F4.
      assert (F : cs_frame s _) by (eapply cs_frame_trans; [exact F12|exact F4]).
      simpl. split; [eapply frame_inv; [exact I|exact F]|apply frame_cache; exact F]. }
  destruct (find_cs_inv s2 n cbp mbf I2) as [I3 C3].
  pose proof (find_cs_nil s2 n cbp mbf) as Hnil.
  pose proof (find_cs_frame_rest s2 n cbp mbf) as Hrest. cbv zeta in Hrest.
  destruct (find_cs s2 n cbp mbf) as [s3 c]. simpl in I3, C3, Hnil, Hrest.
  destruct c as [|e c].
  - rewrite (Hnil eq_refl) in *.
    pose proof (fr_forward s2 n id nonce (now s1 + lifetime_of life) sent (cf_tree _ _ F12)) as F4. cbv zeta in F4.
    assert (F : cs_frame s _) by (eapply cs_frame_trans; [exact F12|exact F4]).
    simpl. split; [eapply frame_inv; [exact I|exact F]|apply frame_cache; exact F].
  - pose proof (fr_upd_entry s3 n id (fun e0 => set_ins e0 (filter (fun r => negb (N.eqb (i_face r) face)) (p_ins e0))) (ci_tree s3 I3)) as F5.
    fold (del_inrec s3 n id face) in F5.
    pose proof (fr_update_exp_timer _ n id (cf_tree _ _ F5)) as F6.
    assert (F : cs_frame s3 (update_exp_timer (del_inrec s3 n id face) n id)) by (eapply cs_frame_trans; eassumption).
    simpl. split; [eapply frame_inv; [exact I3|exact F]|].
    rewrite (frame_cache _ _ F), C3. rewrite (frame_cache _ _ F12). reflexivity.
Qed.

(* ---- every operation ---- *)
Theorem step_cs : forall s o, cs_inv s ->
  cs_inv (fst (step s o)) /\ cache_of (fst (step s o)) = cache_step (cache_of s) (admitting s) o (snd (step s o)).
Proof.
  intros s o I. destruct o as [d|c|n w f|n cbp mbf|face n cbp mbf nonce life sent|n w f tok| | |u|sid sn]; simpl.
  - split; [|reflexivity]. destruct I. split; assumption.
  - split; [|reflexivity]. destruct I. split; assumption.
  - apply insert_data_inv. exact I.
  - pose proof (find_cs_inv s n cbp mbf I) as H. destruct (find_cs s n cbp mbf). exact H.
  - pose proof (process_interest_cs s face n cbp mbf nonce life sent I) as H. cbv zeta in H.
    destruct (process_interest s face n cbp mbf nonce life sent) as [[s' k] c]. exact H.
  - apply process_data_cs. exact I.
  - pose proof (fr_pit_update s (ci_tree s I)) as F. split; [eapply frame_inv; eassumption|apply frame_cache; exact F].
  - pose proof (fr_dnl_sweep s (ci_tree s I)) as F. split; [eapply frame_inv; eassumption|apply frame_cache; exact F].
  - unfold mgmt_cap, c_mgmtcap. change (c_cap (cache_of s)) with (cap s). destruct (max_int <? u)%N; [split; [exact I|reflexivity]|].
    split; [|reflexivity]. destruct I. split; assumption.
  - unfold stale_remove. destruct (mem_N sid (tokmap s)); [split; [exact I|reflexivity]|].
    pose proof (fr_remove_interest s (mkpit sid sn false false [] [] 0 false false) (ci_tree s I)) as F.
    split; [eapply frame_inv; eassumption|apply frame_cache; exact F].
Qed.

Lemma init_tree_ok : tree_ok [mknode [] [] None].
Proof.
  split.
  - reflexivity.
  - simpl. constructor; [simpl; tauto|constructor].
  - intros p Hp H. simpl in Hp. destruct Hp as [<-|[]]. exfalso. apply H. reflexivity.
Qed.

Lemma init_cs : forall t0 c sv ad life, cs_inv (init t0 c sv ad life) /\ cache_of (init t0 c sv ad life) = c_init t0 c.
Proof.
  intros. split; [|reflexivity]. split.
  - exact init_tree_ok.
  - constructor.
  - intro n. unfold cs_at. simpl. destruct n; simpl; split; try tauto; congruence.
  - constructor.
  - intro n. simpl. tauto.
  - intros n e. unfold cs_at. simpl. destruct n; simpl; discriminate.
  - reflexivity.
  - constructor.
  - intro n. simpl. tauto.
Qed.

Lemma run_cs : forall ops s, cs_inv s -> cs_inv (run s ops).
Proof.
  induction ops as [|o t IH]; intros s I; [exact I|]. unfold run. simpl. apply IH. apply step_cs. exact I.
Qed.

(* the cache seen through the model equals the cache obtained by running the spec on the same history *)
Fixpoint run_both (s : st) (c : cache) (ops : list op) : st * cache :=
  match ops with
  | [] => (s, c)
  | o :: t => run_both (fst (step s o)) (cache_step c (admitting s) o (snd (step s o))) t
  end.

Lemma run_both_refines : forall ops s c, cs_inv s -> cache_of s = c ->
  cache_of (fst (run_both s c ops)) = snd (run_both s c ops) /\ fst (run_both s c ops) = run s ops.
Proof.
  induction ops as [|o t IH]; intros s c I E; simpl; [split; [exact E|reflexivity]|].
  destruct (step_cs s o I) as [I' C']. apply IH; [exact I'|]. rewrite C', E. reflexivity.
Qed.
