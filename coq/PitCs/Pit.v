(* PitCs/Pit.v — the PIT seen as the list of its entries: what each table operation does to it. *)
From Coq Require Import List NArith ZArith Bool Lia Permutation.
From PitCs Require Import Model Lib TreeInv.
Import ListNotations.
Open Scope Z_scope.

Definition ents (l : list node) : list pite := flat_map n_pit l.
Definition names_ok (l : list node) : Prop := forall nd e, In nd l -> In e (n_pit nd) -> p_name e = n_path nd.

Lemma ents_app : forall a b, ents (a ++ b) = ents a ++ ents b.
Proof. intros. unfold ents. apply flat_map_app. Qed.

Lemma ents_In : forall l e, In e (ents l) <-> exists nd, In nd l /\ In e (n_pit nd).
Proof. intros. unfold ents. apply in_flat_map. Qed.

(* the node with path p splits the list *)
Lemma split_node : forall l p nd, NoDup (paths l) -> get_node l p = Some nd ->
  exists a b, l = a ++ nd :: b /\ (forall x, In x a -> n_path x <> p) /\ (forall x, In x b -> n_path x <> p).
Proof.
  induction l as [|x t IH]; simpl; intros p nd H G; [discriminate|].
  inversion H as [|? ? Hx Ht]; subst.
  destruct (name_eqb (n_path x) p) eqn:E.
  - inversion G; subst. apply name_eqb_eq in E. exists [], t. split; [reflexivity|]. split; [intros y []|].
    intros y Hy Ey. apply Hx. rewrite E, <- Ey. apply in_map. exact Hy.
  - destruct (IH p nd Ht G) as [a [b [E1 [E2 E3]]]]. exists (x :: a), b. split; [simpl; rewrite E1; reflexivity|].
    split; [|exact E3]. intros y [<-|Hy]; [apply name_eqb_neq; exact E|apply E2; exact Hy].
Qed.

Lemma upd_node_other : forall a p f, (forall x, In x a -> n_path x <> p) -> upd_node a p f = a.
Proof.
  induction a as [|x a IH]; simpl; intros p f H; [reflexivity|].
  destruct (name_eqb (n_path x) p) eqn:E; [apply name_eqb_eq in E; exfalso; apply (H x); [left; reflexivity|exact E]|].
  f_equal. apply IH. intros y Hy. apply H. right. exact Hy.
Qed.

Lemma upd_node_split : forall a nd b p f, n_path nd = p ->
  (forall x, In x a -> n_path x <> p) -> (forall x, In x b -> n_path x <> p) ->
  upd_node (a ++ nd :: b) p f = a ++ f nd :: b.
Proof.
  intros a nd b p f E Ha Hb. unfold upd_node. rewrite map_app. simpl. rewrite E, name_eqb_refl.
  fold (upd_node a p f). fold (upd_node b p f). rewrite !upd_node_other by assumption. reflexivity.
Qed.

(* ---- upd_entry ---- *)
Definition touch (n : name) (id : N) (f : pite -> pite) (e : pite) : pite :=
  if N.eqb (p_id e) id && name_eqb (p_name e) n then f e else e.

Lemma ents_upd_entry : forall l n id f, names_ok l -> ents (upd_entry l n id f) = map (touch n id f) (ents l).
Proof.
  intros l n id f. induction l as [|x t IH]; intros Hn; [reflexivity|].
  unfold upd_entry, upd_node in *. simpl. unfold ents in *. simpl. rewrite map_app. f_equal.
  - destruct (name_eqb (n_path x) n) eqn:E; simpl.
    + apply map_ext_in. intros e He. unfold touch. rewrite (Hn x e (or_introl eq_refl) He), E, andb_true_r. reflexivity.
    + rewrite <- (map_id (n_pit x)) at 1. apply map_ext_in. intros e He. unfold touch.
      rewrite (Hn x e (or_introl eq_refl) He), E, andb_false_r. reflexivity.
  - apply IH. intros nd e H1 H2. apply Hn; [right; exact H1|exact H2].
Qed.

Lemma names_ok_upd_node : forall l p f, names_ok l -> (forall nd, n_path (f nd) = n_path nd) ->
  (forall nd e, In nd l -> n_path nd = p -> In e (n_pit (f nd)) -> p_name e = p) -> names_ok (upd_node l p f).
Proof.
  intros l p f Hn Hf Hp nd e H1 H2. unfold upd_node in H1. apply in_map_iff in H1. destruct H1 as [x [E Hx]].
  destruct (name_eqb (n_path x) p) eqn:Ep.
  - apply name_eqb_eq in Ep. subst nd. rewrite Hf. rewrite Ep. apply (Hp x); assumption.
  - subst nd. apply Hn; assumption.
Qed.

Lemma names_ok_upd_entry : forall l n id f, names_ok l -> (forall e, p_name (f e) = p_name e) -> names_ok (upd_entry l n id f).
Proof.
  intros l n id f Hn Hf nd e H1 H2. unfold upd_entry, upd_node in H1. apply in_map_iff in H1. destruct H1 as [x [E Hx]].
  destruct (name_eqb (n_path x) n); subst nd; [|apply Hn; assumption].
  simpl in *. apply in_map_iff in H2. destruct H2 as [e0 [E0 He0]]. subst e.
  destruct (N.eqb (p_id e0) id); [rewrite Hf|]; apply Hn; assumption.
Qed.

(* ---- fill / prune keep the entries ---- *)
Lemma ents_fill : forall l n, ents (fill l n) = ents l.
Proof.
  intros l n. rewrite fill_app, ents_app. rewrite <- (app_nil_r (ents l)) at 2. f_equal.
  unfold ents. induction (seq (descend l n) (length n - descend l n)); [reflexivity|]. simpl. assumption.
Qed.

Lemma names_ok_fill : forall l n, names_ok l -> names_ok (fill l n).
Proof.
  intros l n Hn nd e H1 H2. rewrite fill_app in H1. apply in_app_or in H1. destruct H1 as [H1|H1]; [apply Hn; assumption|].
  apply in_map_iff in H1. destruct H1 as [j [E _]]. subst nd. destruct H2.
Qed.

Lemma ents_del_idle : forall l p, (forall nd, In nd l -> n_path nd = p -> n_pit nd = []) -> ents (del_node l p) = ents l.
Proof.
  induction l as [|x t IH]; simpl; intros p H; [reflexivity|].
  destruct (name_eqb (n_path x) p) eqn:E.
  - apply name_eqb_eq in E. unfold ents in *. simpl. rewrite (H x (or_introl eq_refl) E). simpl. apply IH.
    intros nd H1 H2. apply H; [right; exact H1|exact H2].
  - unfold ents in *. simpl. f_equal. apply IH. intros nd H1 H2. apply H; [right; exact H1|exact H2].
Qed.

Lemma prune_from_ents : forall fuel l p, NoDup (paths l) -> ents (prune_from l fuel p) = ents l.
Proof.
  induction fuel as [|f IH]; intros l p N; simpl; [reflexivity|].
  destruct (is_nil p); [reflexivity|]. destruct (get_node l p) as [nd|] eqn:G; [|reflexivity].
  destruct (negb (has_child l p) && node_idle nd) eqn:E; [|reflexivity].
  apply andb_true_iff in E. destruct E as [_ E]. unfold node_idle in E. apply andb_true_iff in E. destruct E as [E _].
  apply is_nil_true in E. rewrite IH by (apply NoDup_paths_del; exact N). apply ents_del_idle.
  intros x Hx Px. assert (get_node l (n_path x) = Some x) by (apply In_get_node; assumption).
  rewrite Px, G in H. inversion H; subst. exact E.
Qed.

Lemma ents_prune : forall l p, NoDup (paths l) -> ents (prune l p) = ents l.
Proof. intros. apply prune_from_ents. assumption. Qed.

Lemma prune_from_sub : forall fuel l p nd, In nd (prune_from l fuel p) -> In nd l.
Proof.
  induction fuel as [|f IH]; intros l p nd H; simpl in H; [exact H|].
  destruct (is_nil p); [exact H|]. destruct (get_node l p) as [x|]; [|exact H].
  destruct (negb (has_child l p) && node_idle x); [|exact H]. apply IH in H. apply del_node_In in H. tauto.
Qed.

Lemma names_ok_prune : forall l p, names_ok l -> names_ok (prune l p).
Proof. intros l p Hn nd e H1 H2. apply Hn; [eapply prune_from_sub; exact H1|exact H2]. Qed.

(* ---- nodes whose PIT list is rewritten ---- *)
Lemma ents_upd_node : forall l p nd f, NoDup (paths l) -> get_node l p = Some nd -> (forall x, n_path (f x) = n_path x) ->
  exists a b, ents l = a ++ n_pit nd ++ b /\ ents (upd_node l p f) = a ++ n_pit (f nd) ++ b.
Proof.
  intros l p nd f N G Hf. destruct (split_node l p nd N G) as [a [b [E [Ha Hb]]]].
  exists (ents a), (ents b). subst l. rewrite upd_node_split by (try assumption; eapply get_node_path; exact G).
  rewrite !ents_app. unfold ents. simpl. split; reflexivity.
Qed.

Lemma find_entry_In : forall l id e, find_entry l id = Some e -> In e (ents l) /\ p_id e = id.
Proof.
  induction l as [|x t IH]; simpl; intros id e H; [discriminate|].
  destruct (find (fun e0 => N.eqb (p_id e0) id) (n_pit x)) as [y|] eqn:F.
  - inversion H; subst. apply find_some in F. destruct F as [F1 F2]. apply N.eqb_eq in F2.
    split; [unfold ents; simpl; apply in_or_app; left; exact F1|exact F2].
  - destruct (IH id e H) as [H1 H2]. split; [unfold ents in *; simpl; apply in_or_app; right; exact H1|exact H2].
Qed.

Lemma find_entry_None : forall l id, find_entry l id = None -> ~ In id (map p_id (ents l)).
Proof.
  induction l as [|x t IH]; simpl; intros id H; [tauto|].
  destruct (find (fun e0 => N.eqb (p_id e0) id) (n_pit x)) as [y|] eqn:F; [discriminate|].
  unfold ents. simpl. rewrite map_app, in_app_iff. intros [Hi|Hi]; [|exact (IH id H Hi)].
  apply in_map_iff in Hi. destruct Hi as [e [E He]]. pose proof (find_none _ _ F e He) as Hn. simpl in Hn.
  rewrite E, N.eqb_refl in Hn. discriminate.
Qed.

Lemma get_entry_In : forall l n id e, get_entry l n id = Some e ->
  In e (ents l) /\ p_id e = id /\ exists nd, get_node l n = Some nd /\ In e (n_pit nd).
Proof.
  intros l n id e H. unfold get_entry in H. destruct (get_node l n) as [nd|] eqn:G; [|discriminate].
  apply find_some in H. destruct H as [H1 H2]. apply N.eqb_eq in H2. split; [|split; [exact H2|exists nd; tauto]].
  apply ents_In. exists nd. split; [eapply get_node_In; exact G|exact H1].
Qed.
