(* Property C07 — the Content Store answers only with matching, fresh-enough Data, within capacity.
   Only theorem statements closed by `exact`, each followed by Print Assumptions.

   Reading guide.  `start t0 cap serve admit life` is the initial state of a forwarding thread; `run s ops` applies a
   history of operations (Model.op: time passing, capacity changes through management, InsertData and
   FindMatchingDataFromCS at the table API, incoming Interests and Data through the pipeline, the PIT reaper and the DNL
   sweep) — every theorem below is for EVERY history, every capacity, every name universe.  `cache_of s` is the cache as
   the statement of C07 sees it: the list of (name, wire, stale-at) in recency order, least recently used first.
   `find_cs s n cbp mbf` is FindMatchingDataFromCS: new state and the list of answers the code may give ([] = nil; more
   than one only for CanBePrefix, where Go map order decides). *)
From Coq Require Import List NArith ZArith Bool.
From PitCs Require Import Model Spec Lib TreeInv Cs CacheSpec C07 Tree.
Import ListNotations.
Open Scope Z_scope.

(* The model's Content Store IS the recency-ordered cache of Spec.v run over the same history: inserts and refreshes
   (c_insert), exact-name hits (c_exact) move an entry to the most-recent end, CanBePrefix hits and everything else leave
   the order alone, a new name evicts from the least-recent end down to the current capacity. *)
Theorem cs_refines : forall t0 c sv ad life ops,
  cache_of (run (start t0 c sv ad life) ops) = cache_run (c_init t0 c) (trace_of (start t0 c sv ad life) ops).
Proof. exact refines. Qed.
Print Assumptions cs_refines.

(* A lookup returns only a cached packet whose name equals the Interest name, or extends it when CanBePrefix is set, and,
   when MustBeFresh is set, only one that is not yet stale. *)
Theorem cs_sound : forall t0 c sv ad life ops n cbp mbf e,
  let s := run (start t0 c sv ad life) ops in
  In e (snd (find_cs s n cbp mbf)) ->
  (if cbp then exists r, cs_name e = n ++ r else cs_name e = n) /\
  exists e', In e' (c_list (cache_of s)) /\ cs_name e' = cs_name e /\ cs_wire e' = cs_wire e /\ (mbf = true -> now s < cs_stale e').
Proof. exact sound. Qed.
Print Assumptions cs_sound.

(* The bytes returned are those most recently inserted under that name in the history, and "stale" means: the freshness
   period counted from that insertion has elapsed (latest = wire and insertion-time + FreshnessPeriod of the last
   insertion under the name; clock = time of the history). *)
Theorem cs_bytes_latest : forall t0 c sv ad life ops n cbp mbf e,
  let s := run (start t0 c sv ad life) ops in
  In e (snd (find_cs s n cbp mbf)) ->
  exists stale, latest t0 (trace_of (start t0 c sv ad life) ops) (cs_name e) = Some (cs_wire e, stale) /\
                (mbf = true -> clock t0 (trace_of (start t0 c sv ad life) ops) < stale).
Proof. exact bytes_latest. Qed.
Print Assumptions cs_bytes_latest.

(* Inserting a packet under a new name leaves at most the CURRENT capacity of packets cached (whatever the capacity was
   before: `cap s` is what management last set), and the reported size is the true size ... *)
Theorem cs_capacity_after_new_insert : forall t0 c sv ad life ops n w f,
  let s := run (start t0 c sv ad life) ops in
  c_lookup (c_list (cache_of s)) n = None ->
  let s' := insert_data s n w f in
  ncs s' = Z.of_nat (length (c_list (cache_of s'))) /\ ncs s' <= Z.of_N (cap s).
Proof. exact capacity_after_new_insert. Qed.
Print Assumptions cs_capacity_after_new_insert.

(* ... also when the packet arrives through the Data pipeline *)
Theorem cs_capacity_after_new_data : forall t0 c sv ad life ops n w f tok,
  let s := run (start t0 c sv ad life) ops in
  admitting s = true -> c_lookup (c_list (cache_of s)) n = None ->
  let s' := process_data s n w f tok in
  ncs s' = Z.of_nat (length (c_list (cache_of s'))) /\ ncs s' <= Z.of_N (cap s).
Proof. exact capacity_after_new_data. Qed.
Print Assumptions cs_capacity_after_new_data.

(* Eviction removes the least recently inserted / refreshed / exact-hit entries: exactly the first k of the recency order,
   k = the excess over the current capacity. *)
Theorem cs_evicts_lru : forall t0 c sv ad life ops n w f,
  let s := run (start t0 c sv ad life) ops in
  c_lookup (c_list (cache_of s)) n = None ->
  c_list (cache_of (insert_data s n w f)) =
  skipn (length (c_list (cache_of s)) + 1 - N.to_nat (cap s)) (c_list (cache_of s) ++ [mkcs n w (stale_of s f)]).
Proof. exact evicts_lru. Qed.
Print Assumptions cs_evicts_lru.

(* A packet that is cached, unevicted and fresh (or MustBeFresh not set) is always found by an exact-name lookup. *)
Theorem cs_exact_complete : forall t0 c sv ad life ops n mbf e,
  let s := run (start t0 c sv ad life) ops in
  c_lookup (c_list (cache_of s)) n = Some e -> (mbf = true -> now s < cs_stale e) ->
  snd (find_cs s n false mbf) = [e].
Proof. exact exact_complete. Qed.
Print Assumptions cs_exact_complete.

(* The CanBePrefix answers.  find_cs admits ANY cached packet that extends the Interest name and is fresh enough
   (prefix_cands: exactly what the property demands; cs_sound / cs_bytes_latest are about that whole set, so they hold for
   whatever choice an implementation makes).  The pinned findMatchingDataCSPrefix (Model.dfs: own entry, else the children in
   whatever order the Go map yields - `ord` is any reordering) answers inside it - more precisely inside dfs_cands, the matching
   entries with no acceptable entry strictly above them - and answers nil only when no matching fresh entry exists at all. *)
Theorem cs_tree_flat_equiv : forall t0 c sv ad life ops n mbf ord,
  let s := run (start t0 c sv ad life) ops in
  (forall l x, In x (ord l) <-> In x l) -> In n (paths (nodes s)) ->
  (forall fuel e, dfs ord s mbf fuel n = Some e -> In e (dfs_cands s n mbf) /\ In e (prefix_cands s n mbf)) /\
  (dfs ord s mbf (depth_of s) n = None -> prefix_cands s n mbf = []).
Proof. exact (fun t0 c sv ad life ops n mbf ord => tree_flat_equiv _ n mbf ord (reach_inv t0 c sv ad life ops)). Qed.
Print Assumptions cs_tree_flat_equiv.

(* The extracted oracle c_judge means what it says (used by the runner on the implementation's answers). *)
Theorem c_judge_meaning : forall c n cbp mbf m w, c_judge c n cbp mbf (Some (m, w)) = 0%N ->
  (if cbp then exists r, m = n ++ r else m = n) /\
  exists e, In e (c_list c) /\ cs_name e = m /\ cs_wire e = w /\ (mbf = true -> c_now c < cs_stale e).
Proof. exact c_judge_some_meaning. Qed.
Print Assumptions c_judge_meaning.

(* non-vacuity: capacity 2, three inserts, an exact hit, a capacity change; /1/2 is evicted as least recently used,
   a CanBePrefix lookup for /1 finds /1/3, a MustBeFresh lookup after the freshness period finds nothing *)
Example c07_example :
  let ops := [OIns [1;2]%N 7 (Some 5%N); OIns [1;3]%N 8 (Some 50%N); OFind [1;2]%N false false; OIns [4]%N 9 None;
              OAdv 10; OCap 1; OIns [5]%N 10 (Some 1%N)] in
  let s := run (start 100 2 true true 6000) ops in
  map cs_name (c_list (cache_of s)) = [[5%N]] /\
  map cs_name (c_list (cache_of (run (start 100 2 true true 6000) (firstn 4 ops)))) = [[1;2]%N; [4%N]] /\
  snd (find_cs (run (start 100 2 true true 6000) (firstn 2 ops)) [1%N] true false) <> [] /\
  snd (find_cs s [5%N] false true) <> [] /\
  snd (find_cs (run s [OAdv 1]) [5%N] false true) = [].
Proof. vm_compute. repeat split; discriminate. Qed.
