(* Property C07 — placeholder while the proofs are being written (see Cs.v). *)
From Coq Require Import List NArith ZArith.
From PitCs Require Import Model Spec.
Import ListNotations.
Open Scope Z_scope.
Example c07_example : c_judge (c_insert (c_init 0 2) [1%N;2%N] 7 (Some 5%N)) [1%N;2%N] false true (Some ([1%N;2%N], 7%N)) = 0%N.
Proof. vm_compute. reflexivity. Qed.
