(* Tables/Lpm.v — longest-prefix match: declarative meaning of [lpm], and the walk-up loops expressed through it *)
From Tables Require Import ModelAssoc ModelFib Assoc.
From Coq Require Import Lia.
Local Open Scope nat_scope.

Section Lpm.
  Context {A : Type}.
  Implicit Types (sel : name -> option A) (n : name) (k : nat).

  Lemma lpm_ext : forall sel1 sel2 n k,
    (forall j, j <= k -> sel1 (firstn j n) = sel2 (firstn j n)) -> lpm sel1 n k = lpm sel2 n k.
  Proof.
    intros sel1 sel2 n. induction k as [|k IH]; intro H; cbn [lpm].
    - rewrite (H 0) by lia. reflexivity.
    - rewrite (H (S k)) by lia. destruct (sel2 (firstn (S k) n)); [reflexivity|]. apply IH. intros j Hj. apply H. lia.
  Qed.

  Lemma lpm_skip : forall sel n k1 k2, k1 <= k2 ->
    (forall j, k1 < j <= k2 -> sel (firstn j n) = None) -> lpm sel n k2 = lpm sel n k1.
  Proof.
    intros sel n k1 k2 Hle. induction Hle as [|k2 Hle IH]; intro H; [reflexivity|].
    cbn [lpm]. rewrite (H (S k2)) by lia. apply IH. intros j Hj. apply H. lia.
  Qed.

  Lemma lpm_prefix : forall sel n k j, k <= j -> lpm sel (firstn j n) k = lpm sel n k.
  Proof.
    intros sel n k j. induction k as [|k IH]; intro H; cbn [lpm].
    - reflexivity.
    - rewrite firstn_firstn_le by lia. destruct (sel (firstn (S k) n)); [reflexivity|]. apply IH. lia.
  Qed.

  (* the declarative reading: the value selected at the longest prefix (of length <= k) that selects anything *)
  Lemma lpm_Some : forall sel n k a,
    lpm sel n k = Some a <->
    exists j, j <= k /\ sel (firstn j n) = Some a /\ forall i, j < i <= k -> sel (firstn i n) = None.
  Proof.
    intros sel n. induction k as [|k IH]; intro a; cbn [lpm].
    - destruct (sel (firstn 0 n)) eqn:E; split.
      + intro H. exists 0. split; [lia|]. split; [congruence | intros; lia].
      + intros [j [Hj [H1 _]]]. assert (j = 0) by lia. subst. congruence.
      + discriminate.
      + intros [j [Hj [H1 _]]]. assert (j = 0) by lia. subst. congruence.
    - destruct (sel (firstn (S k) n)) eqn:E; split.
      + intro H. exists (S k). split; [lia|]. split; [congruence | intros; lia].
      + intros [j [Hj [H1 H2]]]. destruct (Nat.eq_dec j (S k)) as [->|Hne]; [congruence|].
        rewrite (H2 (S k)) in E by lia. discriminate.
      + intro H. apply IH in H. destruct H as [j [Hj [H1 H2]]]. exists j. split; [lia|]. split; [exact H1|].
        intros i Hi. destruct (Nat.eq_dec i (S k)) as [->|Hne]; [exact E | apply H2; lia].
      + intros [j [Hj [H1 H2]]]. apply IH. destruct (Nat.eq_dec j (S k)) as [->|Hne]; [congruence|].
        exists j. split; [lia|]. split; [exact H1|]. intros i Hi. apply H2. lia.
  Qed.

  Lemma lpm_None : forall sel n k, lpm sel n k = None <-> forall j, j <= k -> sel (firstn j n) = None.
  Proof.
    intros sel n. induction k as [|k IH]; cbn [lpm].
    - destruct (sel (firstn 0 n)) eqn:E; split; intro H; try discriminate; try reflexivity.
      + specialize (H 0 (le_n 0)). congruence.
      + intros j Hj. assert (j = 0) by lia. subst. exact E.
    - destruct (sel (firstn (S k) n)) eqn:E; split; intro H; try discriminate.
      + specialize (H (S k) (le_n _)). congruence.
      + intros j Hj. destruct (Nat.eq_dec j (S k)) as [->|Hne]; [exact E|]. apply (proj1 IH H). lia.
      + apply IH. intros j Hj. apply H. lia.
  Qed.
End Lpm.

(* selection functions over a table of entries *)
Definition tsel_nh (t : amap fent) (p : name) : option (list nexthop) :=
  match get t p with Some e => match nhs e with [] => None | l => Some l end | None => None end.
Definition tsel_strat (t : amap fent) (p : name) : option N :=
  match get t p with Some e => strat e | None => None end.

Lemma walk_nh_lpm : forall t n k,
  walk_nh t n k = match lpm (tsel_nh t) n k with Some l => l | None => [] end.
Proof.
  intros t n. induction k as [|k IH]; cbn [walk_nh lpm]; unfold tsel_nh.
  - destruct (get t (firstn 0 n)) as [e|]; [destruct (nhs e)|]; reflexivity.
  - destruct (get t (firstn (S k) n)) as [e|]; [destruct (nhs e)|]; try reflexivity; exact IH.
Qed.

Lemma walk_strat_lpm : forall t n k, walk_strat t n k = lpm (tsel_strat t) n k.
Proof.
  intros t n. induction k as [|k IH]; cbn [walk_strat lpm]; unfold tsel_strat.
  - destruct (get t (firstn 0 n)) as [e|]; [destruct (strat e)|]; reflexivity.
  - destruct (get t (firstn (S k) n)) as [e|]; [destruct (strat e)|]; try reflexivity; exact IH.
Qed.

(* the spec's selections never return an empty list *)
Lemma sel_nh_nonempty : forall s p l, sel_nh s p = Some l -> l <> [].
Proof. intros s p l. unfold sel_nh. destruct (nhs (sget s p)); [discriminate|]. intro H. inversion H. discriminate. Qed.
