(* Property C16 — shared tables tolerate concurrent updates, teardown and lookups (PARTIAL BY NATURE).
   Proved here: the logic of the lock discipline, over an abstract lock semantics (ModelLock.v), and that the discipline
   holds for the lock facts the translator extracted from the CURRENT source (GenLockFacts.v, regenerated every run).
   Not provable here (exercised by harness/conc under the race detector instead): the Go scheduler, the Go memory model,
   runtime aborts such as "concurrent map writes", and that the translator's conservative AST analysis missed nothing.
   Only theorem statements closed by `exact`, each followed by Print Assumptions. *)
From Tables Require Import ModelLock Lock GenLockFacts ModelFace Face.
Local Open Scope nat_scope.
Local Open Scope list_scope.

(* Under the discipline (every access to a table inside its mutex, writes inside the write lock, mutexes taken in rank
   order, released at the end) no two conflicting accesses are ever concurrent, in any interleaving. *)
Theorem guarded_race_free : forall (mu rank : nat -> nat) (P0 P : pool),
  initial mu rank P0 -> reach P0 P -> ~ race P.
Proof. exact guarded_race_free_thm. Qed.
Print Assumptions guarded_race_free.

(* ... and no reachable state is a deadlock: while some thread has work left some thread can move. *)
Theorem no_deadlock : forall (mu rank : nat -> nat) (B : nat), (forall m, rank m <= B) ->
  forall N P0 P, initial mu rank P0 -> idle_above N P0 -> reach P0 P ->
  (exists i, th_prog (P i) <> []) -> exists P', step P P'.
Proof. exact no_deadlock_thm. Qed.
Print Assumptions no_deadlock.

(* Every concurrent execution of guarded methods on a table is equivalent to the sequential execution of the same
   methods in lock-acquisition order (which respects real time: a method that returned before another was invoked
   acquired first): the final table is that of the sequential run, and every lookup saw, in all its reads, one state of
   that run lying between the operations overlapping it — never a torn or partially updated one. *)
Theorem guarded_linearizable : forall (S : Type) (s0 : S) (P0 : dpool S) (c : config S),
  dinitial S P0 -> dreach S (mkc S s0 P0 []) c ->
  ((forall i, is_writing S (cur S (threads S c i)) = false) -> shared S c = seq_state S (log S c) s0) /\
  (forall i k seen, cur S (threads S c i) = InR S k seen -> forall x, In x seen -> x = seq_state S (log S c) s0) /\
  (forall i seen, In seen (results S (threads S c i)) ->
     exists pre post, log S c = pre ++ post /\ forall x, In x seen -> x = seq_state S pre s0).
Proof. exact guarded_linearizable_thm. Qed.
Print Assumptions guarded_linearizable.

(* the guard is needed: an unguarded two-sample lookup concurrent with a two-step writer sees a state ([1;0]: first
   sample 0, second sample 1) that is no state of any sequential run (those are 0 and 2) *)
Theorem unguarded_lookup_torn : exists c,
  dreach nat (mkc nat 0 (fun i => match i with
                                   | 0 => mkd nat (Idle nat) [MW [Nat.succ; Nat.succ]] []
                                   | 1 => mkd nat (Idle nat) [MU 2] []
                                   | _ => mkd nat (Idle nat) [] [] end) []) c /\
  In [1; 0] (results nat (threads nat c 1)).
Proof. exact unguarded_torn. Qed.
Print Assumptions unguarded_lookup_torn.

(* The instance: the lock facts of the current source satisfy the discipline (RIB mutex before FIB mutex, every API
   method of FibStrategyTree / FibStrategyHashTable / RibTable / mgmt.NlsrReadvertiser bracketed by its own mutex in the
   right mode and released on every path, the readvertiser called under the RIB mutex and calling nothing back, no result
   aliasing memory that is modified in place, face.Table only touches self-synchronising fields). *)
Theorem lockfacts_ok : all_guarded gen_mu gen_rank gen_facts = true /\ forall m, gen_rank m <= gen_rank_bound.
Proof.
  exact (conj (eq_refl : all_guarded gen_mu gen_rank gen_facts = true)
              (fun m => proj1 (Nat.leb_le (gen_rank m) gen_rank_bound)
                 (match m return (gen_rank m <=? gen_rank_bound) = true with
                  | 0 => eq_refl | 1 => eq_refl | 2 => eq_refl | 3 => eq_refl | 4 => eq_refl
                  | Datatypes.S (Datatypes.S (Datatypes.S (Datatypes.S (Datatypes.S _)))) => eq_refl end))).
Qed.
Print Assumptions lockfacts_ok.

(* hence: threads that each perform ANY sequence of the tables' API calls never race and never deadlock *)
Definition api_pool (calls : nat -> list fact) : pool := fun i => mkth [] (flat_map (body_of gen_facts) (calls i)).

Theorem tables_race_and_deadlock_free : forall (calls : nat -> list fact) (N : nat),
  (forall i f, In f (calls i) -> In f gen_facts) -> (forall i, N <= i -> calls i = []) ->
  forall P, reach (api_pool calls) P ->
  ~ race P /\ ((exists i, th_prog (P i) <> []) -> exists P', step P P').
Proof.
  exact (fun calls N Hin Hidle P R =>
    let Hinit : initial gen_mu gen_rank (api_pool calls) :=
      fun i => conj eq_refl (all_guarded_bodies_safe gen_mu gen_rank gen_facts (proj1 lockfacts_ok) (calls i) (Hin i)) in
    conj (guarded_race_free_thm gen_mu gen_rank _ P Hinit R)
         (no_deadlock_thm gen_mu gen_rank gen_rank_bound (proj2 lockfacts_ok) N _ P Hinit
            (fun i Hi => @eq_ind_r (list fact) [] (fun l => mkth [] (flat_map (body_of gen_facts) l) = mkth [] []) eq_refl (calls i) (Hidle i Hi)) R)).
Qed.
Print Assumptions tables_race_and_deadlock_free.


(* Face table (fw/face/table.go: sync.Map + atomic FaceID counter, mirrored in dispatch.FaceDispatch).  What EVERY
   sequential order of Add/Remove operations produces: the FaceIDs handed out are consecutive from the counter (so no
   two faces ever share an id), and afterwards the table binds exactly the faces that were added and not removed, each
   under the id its Add returned.  The search side compares the concurrent outcome with this (face rounds of harness/conc). *)
Theorem face_table_sequential : forall t0 ops,
  (forall b, In b (ft_faces t0) -> (fst b < ft_next t0)%N) -> wf_ops (mkfx t0 [] []) ops ->
  let x := fx_run t0 ops in
  map snd (fx_adds x) = nseq (ft_next t0) (List.length (fx_adds x)) /\
  NoDup (map snd (fx_adds x)) /\
  (forall id tok, (ft_next t0 <= id)%N ->
     (In (id, tok) (ft_faces (fx_table x)) <-> (In (tok, id) (fx_adds x) /\ ~ In id (fx_rems x)))).
Proof. exact face_table_sequential_thm. Qed.
Print Assumptions face_table_sequential.

(* non-vacuity: the facts are there (a RIB writer nests the FIB write lock inside the RIB lock; a lookup takes the read lock) *)
Example c16_example :
  (exists f, find_fact gen_facts "RibTable.AddEncRoute"%string = Some f /\
             body_of gen_facts f = [Acq 2 true; Rd 2; Wr 2; Acq 1 true; Rd 1; Wr 1; Rel 1; Acq 0 true; Rd 0; Wr 0; Rel 0; Acq 4 true; Rd 4; Wr 4; Rel 4; Rel 2]) /\
  (exists f, find_fact gen_facts "FibStrategyTree.FindNextHopsEnc"%string = Some f /\ body_of gen_facts f = [Acq 0 false; Rd 0; Rel 0]) /\
  List.length gen_facts >= 28.
Proof. split; [eexists; split; reflexivity | split; [eexists; split; reflexivity | vm_compute; repeat constructor]]. Qed.
