(* Tables/ModelFib.v — executable models of the two FIB-strategy tables and of their flat specification.
     fw/table/fib-strategy-tree.go       -> tree_*   (name tree as a prefix-closed set of paths with payloads)
     fw/table/fib-strategy-hashtable.go  -> ht_*     (real table, virtual table with md, virtual-name sets; parameter m)
     spec                                -> spec_*   (a map name -> entry, longest-prefix match by definition)
   No proofs here. *)
From Tables Require Export ModelAssoc ModelTree.
Open Scope N_scope.

Definition nexthop := (N * N)%type.          (* (face id, cost) *)
Record fent := mkfent { nhs : list nexthop; strat : option N }.   (* baseFibStrategyEntry: nexthops, strategy (interned) *)
Definition empty_ent : fent := mkfent [] None.
Definition ent_empty (e : fent) : bool :=
  match nhs e, strat e with [], None => true | _, _ => false end.
Definition default_strategy : N := 0.       (* /localhost/nfd/strategy/best-route/v=1 *)

Inductive fibop :=
| Ins (n : name) (f c : N)      (* InsertNextHopEnc *)
| Clr (n : name)                (* ClearNextHopsEnc *)
| Rem (n : name) (f : N)        (* RemoveNextHopEnc *)
| SetS (n : name) (s : N)       (* SetStrategyEnc *)
| UnS (n : name).               (* UnSetStrategyEnc *)

(* ---- next-hop lists ---- *)
(* InsertNextHopEnc loop: update the first entry with that face, else append *)
Fixpoint upd_nh (l : list nexthop) (f c : N) : list nexthop :=
  match l with
  | [] => [(f, c)]
  | (g, d) :: r => if g =? f then (g, c) :: r else (g, d) :: upd_nh r f c
  end.
Definition has_face (l : list nexthop) (f : N) : bool := existsb (fun x => fst x =? f) l.
(* tree RemoveNextHopEnc: delete the first match, keep order *)
Fixpoint rem_nh (l : list nexthop) (f : N) : list nexthop :=
  match l with
  | [] => []
  | (g, d) :: r => if g =? f then r else (g, d) :: rem_nh r f
  end.
(* hash-table RemoveNextHopEnc: overwrite the first match with the last element, drop the last *)
Fixpoint rem_nh_swap (l : list nexthop) (f : N) : list nexthop :=
  match l with
  | [] => []
  | (g, d) :: r => if g =? f then match r with [] => [] | _ => last r (g, d) :: removelast r end
                   else (g, d) :: rem_nh_swap r f
  end.

(* ================= name tree ================= *)
Record tree := mktree { nodes : amap fent; pfx : list name }.   (* pfx = fibPrefixes side map (key set) *)
Definition tree_init : tree := mktree [([], mkfent [] (Some default_strategy))] [].

(* the tree primitives (descend, find_exact, fill, has_child, prune) are generic in the payload: ModelTree.v *)
Definition fib_fill (t : amap fent) (n : name) : amap fent := fill empty_ent t n.
Definition fib_prune (t : amap fent) (n : name) : amap fent := prune ent_empty t n.

(* walk towards the root until a node with next hops / a strategy *)
Fixpoint walk_nh (t : amap fent) (n : name) (k : nat) : list nexthop :=
  let here := match get t (firstn k n) with Some e => nhs e | None => [] end in
  match here, k with
  | _ :: _, _ => here
  | [], S k' => walk_nh t n k'
  | [], O => []
  end.
Fixpoint walk_strat (t : amap fent) (n : name) (k : nat) : option N :=
  let here := match get t (firstn k n) with Some e => strat e | None => None end in
  match here, k with
  | Some s, _ => Some s
  | None, S k' => walk_strat t n k'
  | None, O => None
  end.

Definition tree_find_nh (t : tree) (n : name) : list nexthop :=
  let d := lpm_node (nodes t) n in walk_nh (nodes t) d (length d).
Definition tree_find_strat (t : tree) (n : name) : option N :=
  let d := lpm_node (nodes t) n in walk_strat (nodes t) d (length d).

Definition tree_step (t : tree) (o : fibop) : tree :=
  match o with
  | Ins n f c =>
      let t1 := fib_fill (nodes t) n in
      let e := match get t1 n with Some e => e | None => empty_ent end in
      mktree (set t1 n (mkfent (upd_nh (nhs e) f c) (strat e)))
             (if has_face (nhs e) f then pfx t else nadd n (pfx t))
  | Clr n =>
      match find_exact (nodes t) n with
      | Some e => mktree (fib_prune (set (nodes t) n (mkfent [] (strat e))) n) (nrem n (pfx t))
      | None => t
      end
  | Rem n f =>
      match find_exact (nodes t) n with
      | Some e => let l := rem_nh (nhs e) f in
                  mktree (fib_prune (set (nodes t) n (mkfent l (strat e))) n)
                         (match l with [] => nrem n (pfx t) | _ => pfx t end)
      | None => t
      end
  | SetS n s =>
      let t1 := fib_fill (nodes t) n in
      let e := match get t1 n with Some e => e | None => empty_ent end in
      mktree (set t1 n (mkfent (nhs e) (Some s))) (pfx t)
  | UnS n =>
      match find_exact (nodes t) n with
      | Some e => mktree (fib_prune (set (nodes t) n (mkfent (nhs e) None)) n) (pfx t)
      | None => t
      end
  end.

(* GetAllFIBEntries / GetAllForwardingStrategies (order of the walk not modelled: compared as sets) *)
Definition has_nh (e : fent) : bool := match nhs e with [] => false | _ => true end.
Definition has_strat (e : fent) : bool := match strat e with None => false | _ => true end.
Definition list_fib (t : amap fent) : list (name * list nexthop) :=
  map (fun kv => (fst kv, nhs (snd kv))) (filter (fun kv => has_nh (snd kv)) t).
Definition list_strat (t : amap fent) : list (name * N) :=
  flat_map (fun kv => match strat (snd kv) with Some s => [(fst kv, s)] | None => [] end) t.

(* ================= hash table with virtual nodes ================= *)
Record ht := mkht { real : amap fent; virt : amap nat; vnames : amap (list name) }.
Definition ht_init : ht := mkht [([], mkfent [] (Some default_strategy))] [] [].

(* for pfx := k; pfx >= 0; pfx-- { if realTable[prefix pfx] exists return } *)
Fixpoint scan_real (r : amap fent) (n : name) (k : nat) : option nat :=
  match get r (firstn k n) with
  | Some _ => Some k
  | None => match k with O => None | S k' => scan_real r n k' end
  end.
(* for pfx := k; pfx > lo; pfx-- *)
Fixpoint scan_above (r : amap fent) (n : name) (lo k : nat) : option nat :=
  match k with
  | O => None
  | S k' => if Nat.leb k lo then None
            else match get r (firstn k n) with Some _ => Some k | None => scan_above r n lo k' end
  end.
(* findLongestPrefixMatchEnc: length of the matched real entry's name *)
Definition ht_lpm (m : nat) (h : ht) (n : name) : option nat :=
  if Nat.leb (length n) m then scan_real (real h) n (length n)
  else match get (virt h) (firstn m n) with
       | Some md => match scan_above (real h) n m (Nat.min md (length n)) with
                    | Some k => Some k
                    | None => scan_real (real h) n m
                    end
       | None => scan_real (real h) n m
       end.

Definition ht_find_nh (m : nat) (h : ht) (n : name) : list nexthop :=
  match ht_lpm m h n with Some k => walk_nh (real h) n k | None => [] end.
Definition ht_find_strat (m : nat) (h : ht) (n : name) : option N :=
  match ht_lpm m h n with Some k => walk_strat (real h) n k | None => None end.

(* insertEntryEnc *)
Definition ht_insert_entry (m : nat) (h : ht) (n : name) : ht :=
  let real' := match get (real h) n with Some _ => real h | None => set (real h) n empty_ent end in
  if Nat.ltb (length n) m then mkht real' (virt h) (vnames h)
  else
    let v := firstn m n in
    let md0 := match get (virt h) v with Some md => md | None => length n end in
    let l0 := match get (vnames h) v with Some l => l | None => [] end in
    mkht real' (set (virt h) v (Nat.max md0 (length n))) (set (vnames h) v (nadd n l0)).

Definition maxlen (l : list name) : nat := list_max (map (@length N) l).

(* pruneTables(entry) for the entry stored under n *)
Definition ht_prune (m : nat) (h : ht) (n : name) : ht :=
  match get (real h) n with
  | None => h
  | Some e =>
    if negb (ent_empty e) then h
    else
      let real' := del (real h) n in
      if Nat.ltb (length n) m then mkht real' (virt h) (vnames h)
      else
        let v := firstn m n in
        match get (virt h) v with
        | None => mkht real' (virt h) (vnames h)
        | Some md =>
            let vn' := match get (vnames h) v with
                       | Some l => if nmem n l
                                   then match nrem n l with [] => del (vnames h) v | l' => set (vnames h) v l' end
                                   else vnames h
                       | None => vnames h
                       end in
            let virt' := match get vn' v with
                         | None => del (virt h) v
                         | Some l' => if Nat.eqb (length n) md then set (virt h) v (maxlen l') else virt h
                         end in
            mkht real' virt' vn'
        end
  end.

Definition ht_set_ent (h : ht) (n : name) (e : fent) : ht := mkht (set (real h) n e) (virt h) (vnames h).

Definition ht_step (m : nat) (h : ht) (o : fibop) : ht :=
  match o with
  | Ins n f c =>
      let h1 := ht_insert_entry m h n in
      let e := match get (real h1) n with Some e => e | None => empty_ent end in
      ht_set_ent h1 n (mkfent (upd_nh (nhs e) f c) (strat e))
  | Clr n =>
      match get (real h) n with
      | Some e => ht_prune m (ht_set_ent h n (mkfent [] (strat e))) n
      | None => h
      end
  | Rem n f =>
      match get (real h) n with
      | Some e => if has_face (nhs e) f
                  then ht_prune m (ht_set_ent h n (mkfent (rem_nh_swap (nhs e) f) (strat e))) n
                  else h
      | None => h
      end
  | SetS n s =>
      let h1 := ht_insert_entry m h n in
      let e := match get (real h1) n with Some e => e | None => empty_ent end in
      ht_set_ent h1 n (mkfent (nhs e) (Some s))
  | UnS n =>
      match get (real h) n with
      | Some e => ht_prune m (ht_set_ent h n (mkfent (nhs e) None)) n
      | None => h
      end
  end.

(* ================= specification: a flat map from names to entries ================= *)
Definition spec := amap fent.
Definition spec_init : spec := [([], mkfent [] (Some default_strategy))].
Definition sget (s : spec) (n : name) : fent := match get s n with Some e => e | None => empty_ent end.
Definition spec_step (s : spec) (o : fibop) : spec :=
  match o with
  | Ins n f c => set s n (mkfent (upd_nh (nhs (sget s n)) f c) (strat (sget s n)))
  | Clr n => set s n (mkfent [] (strat (sget s n)))
  | Rem n f => set s n (mkfent (rem_nh (nhs (sget s n)) f) (strat (sget s n)))
  | SetS n s' => set s n (mkfent (nhs (sget s n)) (Some s'))
  | UnS n => set s n (mkfent (nhs (sget s n)) None)
  end.

(* longest-prefix match, by definition: try the prefixes of n from the longest (length k) to the root *)
Fixpoint lpm {A} (sel : name -> option A) (n : name) (k : nat) : option A :=
  match sel (firstn k n) with
  | Some a => Some a
  | None => match k with O => None | S k' => lpm sel n k' end
  end.
Definition sel_nh (s : spec) (p : name) : option (list nexthop) :=
  match nhs (sget s p) with [] => None | l => Some l end.
Definition sel_strat (s : spec) (p : name) : option N := strat (sget s p).
Definition spec_find_nh (s : spec) (n : name) : list nexthop :=
  match lpm (sel_nh s) n (length n) with Some l => l | None => [] end.
Definition spec_find_strat (s : spec) (n : name) : option N := lpm (sel_strat s) n (length n).
Definition spec_list_fib (s : spec) : list (name * list nexthop) := list_fib s.
Definition spec_list_strat (s : spec) : list (name * N) := list_strat s.

(* ---- the batch operation of the FibStrategy interface ----
   ReplaceNextHopsEnc(updates): under ONE acquisition of the table's write lock, for every update in order,
   clearNextHopsEnc(name) and then insertNextHopEnc(name, face, cost) for each listed next hop.  Sequentially a batch is
   therefore exactly that sequence of Clr / Ins steps, in both tables. *)
Inductive bop :=
| Atom (o : fibop)
| Rep (batch : list (name * list nexthop)).     (* ReplaceNextHopsEnc *)
Definition expand_update (u : name * list nexthop) : list fibop :=
  Clr (fst u) :: map (fun fc => Ins (fst u) (fst fc) (snd fc)) (snd u).
Definition expand_bop (b : bop) : list fibop :=
  match b with Atom o => [o] | Rep batch => flat_map expand_update batch end.
Definition expand (bs : list bop) : list fibop := flat_map expand_bop bs.
Definition tree_step_b (t : tree) (b : bop) : tree := fold_left tree_step (expand_bop b) t.
Definition ht_step_b (m : nat) (h : ht) (b : bop) : ht := fold_left (ht_step m) (expand_bop b) h.
Definition spec_step_b (s : spec) (b : bop) : spec := fold_left spec_step (expand_bop b) s.
Definition run_tree_b (bs : list bop) : tree := fold_left tree_step_b bs tree_init.
Definition run_ht_b (m : nat) (bs : list bop) : ht := fold_left (ht_step_b m) bs ht_init.
Definition run_spec_b (bs : list bop) : spec := fold_left spec_step_b bs spec_init.

(* runs *)
Definition run_tree (ops : list fibop) : tree := fold_left tree_step ops tree_init.
Definition run_ht (m : nat) (ops : list fibop) : ht := fold_left (ht_step m) ops ht_init.
Definition run_spec (ops : list fibop) : spec := fold_left spec_step ops spec_init.

(* ================= minimality predicates (table part of C08), decidable ================= *)
(* name tree: every non-root node is needed, i.e. it or a node below it carries next hops or a strategy *)
Definition needed (t : amap fent) (p : name) : bool :=
  existsb (fun kv => is_prefix p (fst kv) && negb (ent_empty (snd kv))) t.
Definition tree_minimal_b (t : tree) : bool :=
  forallb (fun kv => match fst kv with [] => true | _ => needed (nodes t) (fst kv) end) (nodes t)
  && forallb (fun p => match get (nodes t) p with Some e => has_nh e | None => false end) (pfx t).
(* hash table: real entries are non-empty; virtual entries and name sets are exactly those induced by the real names
   of length >= m; md is the exact maximum *)
Definition under (m : nat) (v x : name) : bool := Nat.leb m (length x) && name_eqb (firstn m x) v.
Definition ht_minimal_b (m : nat) (h : ht) : bool :=
  forallb (fun kv => negb (ent_empty (snd kv))) (real h)
  && forallb (fun kv => existsb (fun re => under m (fst kv) (fst re)) (real h)
                        && Nat.eqb (snd kv) (maxlen (map fst (filter (fun re => under m (fst kv) (fst re)) (real h))))
                        && mem (vnames h) (fst kv)) (virt h)
  && forallb (fun kv => mem (virt h) (fst kv)
                        && negb (Nat.eqb (length (snd kv)) 0)
                        && forallb (fun x => under m (fst kv) x && mem (real h) x) (snd kv)) (vnames h).
