(* Property C08, table part — the FIB and RIB structures hold nothing beyond what their live entries require.
   Only theorem statements closed by `exact`, each followed by Print Assumptions.  (The PIT/CS/DNL part of C08 is in the
   forwarder family; checks/C08.py calls checks/C08_tables.py part(R).) *)
From Tables Require Import ModelAssoc ModelTree ModelFib ModelRib Assoc Tree Lpm FibTree FibHash Rib Minimal.
From Coq Require Import Permutation.
Local Open Scope nat_scope.

(* FIB name tree after any history: node set = root + prefix closure of the names carrying next hops or a strategy;
   the fibPrefixes side map = the names with next hops; no duplicates *)
Theorem fib_tree_minimal : forall ops,
  let t := run_tree ops in let s := run_spec ops in
  (forall p, mem (nodes t) p = true <-> (p = [] \/ exists w, is_prefix p w = true /\ has_payload s w)) /\
  (forall p, In p (pfx t) <-> nhs (sget s p) <> []) /\ NoDup (pfx t) /\ NoDup (keys (nodes t)) /\
  tree_minimal_b t = true.
Proof. exact fib_tree_minimal_thm. Qed.
Print Assumptions fib_tree_minimal.

(* hash-table FIB after any history, any m >= 1: real table = live names; virtual table = m-prefixes of live names of
   length >= m with md their exact maximum length; virtual-name sets = those live names *)
Theorem fib_ht_minimal : forall m ops, 1 <= m ->
  let h := run_ht m ops in let s := run_spec ops in
  (forall p, mem (real h) p = true <-> has_payload s p) /\
  (forall v, mem (virt h) v = true <-> exists x, has_payload s x /\ under m v x = true) /\
  (forall v md, get (virt h) v = Some md ->
     (forall x, has_payload s x -> under m v x = true -> length x <= md) /\
     (exists x, has_payload s x /\ under m v x = true /\ length x = md)) /\
  (forall v l, get (vnames h) v = Some l -> forall x, In x l <-> (has_payload s x /\ under m v x = true)) /\
  (forall v, mem (vnames h) v = mem (virt h) v) /\
  ht_minimal_b m h = true.
Proof. exact fib_ht_minimal_thm. Qed.
Print Assumptions fib_ht_minimal.

(* RIB tree after any history: node set = root + prefix closure of the names that have routes *)
Theorem rib_minimal : forall shuffle, (forall l, Permutation (shuffle l) l) -> forall ops,
  let t := fst (rib_run shuffle ops) in let R := routes_after ops in
  (forall p, mem t p = true <-> (p = [] \/ exists w, is_prefix p w = true /\ rget R w <> [])) /\
  rib_minimal_b t = true.
Proof. exact (fun sh H ops => conj (proj1 (rib_minimal_thm sh H ops)) (proj1 (proj2 (rib_minimal_thm sh H ops)))). Qed.
Print Assumptions rib_minimal.

(* and after a history that removes everything the structures are back to their initial shape *)
Example c08_tables_example :
  let ops := [Ins [1;2;3] 7 10; SetS [1;2] 4; Ins [1] 8 5; Rem [1;2;3] 7; UnS [1;2]; Clr [1]]%N in
  nodes (run_tree ops) = nodes tree_init /\ pfx (run_tree ops) = [] /\
  run_ht 2 ops = ht_init /\
  let rops := [Reg [1;2;3] (mkroute 7 0 10 1); Reg [1] (mkroute 8 0 5 1); Unreg [1;2;3] 7 0; Cleanup 8]%N in
  fst (rib_run (fun l => l) rops) = rib_init /\ nodes (run_tree (snd (rib_run (fun l => l) rops))) = nodes tree_init.
Proof. vm_compute. repeat split; reflexivity. Qed.
