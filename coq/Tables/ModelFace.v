(* Tables/ModelFace.v — model of fw/face/table.go (Table.Add / Remove / Get over a sync.Map and an atomic FaceID counter;
   dispatch.FaceDispatch mirrors the same id -> face binding) for the concurrency check C16.  No proofs here.
   A face is an opaque token (the harness numbers its stub faces). *)
From Coq Require Export List NArith Bool.
Export ListNotations.
Open Scope N_scope.

Record ftable := mkft { ft_next : N; ft_faces : list (N * N) }.    (* nextFaceID; FaceID -> face token *)

Inductive fop :=
| FAdd (tok : N)      (* Table.Add(face): faceID := nextFaceID.Add(1) - 1; faces.Store(faceID, face) *)
| FRem (id : N).      (* Table.Remove(id): faces.Delete(id) *)

Definition unbind (id : N) (l : list (N * N)) : list (N * N) := filter (fun x => negb (fst x =? id)) l.

Definition ft_step (t : ftable) (o : fop) : ftable * option N :=
  match o with
  | FAdd tok => (mkft (ft_next t + 1) ((ft_next t, tok) :: unbind (ft_next t) (ft_faces t)), Some (ft_next t))
  | FRem id => (mkft (ft_next t) (unbind id (ft_faces t)), None)
  end.

Fixpoint ft_get (l : list (N * N)) (id : N) : option N :=
  match l with [] => None | (i, tok) :: r => if i =? id then Some tok else ft_get r id end.

(* a sequential execution: the table, the (token, id) of every Add in execution order, the ids removed *)
Record fexec := mkfx { fx_table : ftable; fx_adds : list (N * N); fx_rems : list N }.
Definition fx_step (x : fexec) (o : fop) : fexec :=
  match o with
  | FAdd tok => mkfx (fst (ft_step (fx_table x) o)) (fx_adds x ++ [(tok, ft_next (fx_table x))]) (fx_rems x)
  | FRem id => mkfx (fst (ft_step (fx_table x) o)) (fx_adds x) (fx_rems x ++ [id])
  end.
Definition fx_run (t0 : ftable) (ops : list fop) : fexec := fold_left fx_step ops (mkfx t0 [] []).

(* ---- oracle for a heavy (unrecorded) round: what EVERY sequential order of the same operations produces ----
   adds: (goroutine, token, returned id) in each goroutine's program order; rems: the ids removed (each by the goroutine
   that was given it, after its Add returned); final: id -> token bindings with id >= n0 observed afterwards *)
Fixpoint nodupb (l : list N) : bool :=
  match l with [] => true | x :: r => negb (existsb (N.eqb x) r) && nodupb r end.
Fixpoint increasing_per_thread (l : list (nat * N * N)) : bool :=
  match l with
  | [] => true
  | (g, _, id) :: r => forallb (fun y => match y with (g', _, id') => negb (Nat.eqb g g') || (id <? id') end) r
                       && increasing_per_thread r
  end.
Definition expected_final (adds : list (nat * N * N)) (rems : list N) : list (N * N) :=
  flat_map (fun a => match a with (_, tok, id) => if existsb (N.eqb id) rems then [] else [(id, tok)] end) adds.
Definition same_bindings (a b : list (N * N)) : bool :=
  forallb (fun x => existsb (fun y => (fst x =? fst y) && (snd x =? snd y)) b) a &&
  forallb (fun x => existsb (fun y => (fst x =? fst y) && (snd x =? snd y)) a) b.
Definition face_round_ok (n0 : N) (adds : list (nat * N * N)) (rems : list N) (final : list (N * N)) : bool :=
  let ids := map (fun a => snd a) adds in
  nodupb ids
  && forallb (fun id => (n0 <=? id) && (id <? n0 + N.of_nat (length adds))) ids
  && increasing_per_thread adds
  && nodupb (map fst final)
  && same_bindings final (expected_final adds rems).
