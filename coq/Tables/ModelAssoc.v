(* Tables/ModelAssoc.v — names as lists of interned component numbers and association-list maps keyed by names.
   Tables keyed by a 64-bit name hash in the Go code are modelled as keyed by the name itself (collision freedom on the
   names of a history is assumed; the harness checks it on every generated universe).  No proofs here. *)
From Coq Require Export List NArith Bool Arith.
Export ListNotations.

Definition name := list N.

Fixpoint name_eqb (a b : name) : bool :=
  match a, b with
  | [], [] => true
  | x :: a', y :: b' => N.eqb x y && name_eqb a' b'
  | _, _ => false
  end.

(* a is a prefix of b *)
Fixpoint is_prefix (a b : name) : bool :=
  match a, b with
  | [], _ => true
  | x :: a', y :: b' => N.eqb x y && is_prefix a' b'
  | _ :: _, [] => false
  end.

Section Map.
  Context {A : Type}.
  Definition amap := list (name * A).

  Fixpoint get (t : amap) (n : name) : option A :=
    match t with
    | [] => None
    | (k, v) :: r => if name_eqb k n then Some v else get r n
    end.

  (* replace in place, or append *)
  Fixpoint set (t : amap) (n : name) (v : A) : amap :=
    match t with
    | [] => [(n, v)]
    | (k, w) :: r => if name_eqb k n then (k, v) :: r else (k, w) :: set r n v
    end.

  Definition del (t : amap) (n : name) : amap :=
    filter (fun kv => negb (name_eqb (fst kv) n)) t.

  Definition keys (t : amap) : list name := map fst t.
  Definition mem (t : amap) (n : name) : bool := match get t n with Some _ => true | None => false end.
End Map.
Arguments amap : clear implicits.

(* name sets as lists *)
Definition nmem (n : name) (l : list name) : bool := existsb (name_eqb n) l.
Definition nadd (n : name) (l : list name) : list name := if nmem n l then l else l ++ [n].
Definition nrem (n : name) (l : list name) : list name := filter (fun k => negb (name_eqb k n)) l.
