(* Tables/Tree.v — lemmas about the generic name-tree primitives of ModelTree.v (descend, fill, has_child, prune) *)
From Tables Require Import ModelAssoc ModelTree Assoc.
From Coq Require Import Lia.
Local Open Scope nat_scope.

Section TreeLemmas.
  Context {A : Type}.
  Variable dflt : A.
  Variable emp : A -> bool.
  Implicit Types (t : amap A).

(* ---------- descend ---------- *)
Lemma app_snoc_firstn : forall (pre : name) c r i, (pre ++ [c]) ++ firstn i r = pre ++ firstn (S i) (c :: r).
Proof. intros. rewrite <- app_assoc. reflexivity. Qed.

Lemma descend_spec : forall (t : amap A) rest pre,
  exists j, j <= length rest /\ descend t pre rest = pre ++ firstn j rest /\
            (forall i, 0 < i <= j -> mem t (pre ++ firstn i rest) = true) /\
            (j < length rest -> get t (pre ++ firstn (S j) rest) = None).
Proof.
  intros t. induction rest as [|c r IH]; intro pre.
  - exists 0. split; [simpl; lia|]. split; [simpl; rewrite app_nil_r; reflexivity|]. split; [intros; lia | simpl; lia].
  - simpl descend. destruct (get t (pre ++ [c])) eqn:E.
    + destruct (IH (pre ++ [c])) as [j [Hj [Hd [Hm Hn]]]]. exists (S j). split; [simpl; lia|].
      split; [rewrite Hd; apply app_snoc_firstn|]. split.
      * intros i Hi. destruct i as [|i]; [lia|]. rewrite <- app_snoc_firstn. destruct i as [|i].
        -- simpl. rewrite app_nil_r. apply mem_get. congruence.
        -- apply Hm. lia.
      * intro Hlt. rewrite <- app_snoc_firstn. apply Hn. simpl in Hlt. lia.
    + exists 0. split; [simpl; lia|]. split; [simpl; rewrite app_nil_r; reflexivity|]. split; [intros; lia|].
      intros _. simpl. exact E.
Qed.

Definition closed t : Prop := forall p k, mem t p = true -> mem t (firstn k p) = true.

Lemma lpm_node_spec : forall t n, closed t ->
  exists kd, kd <= length n /\ lpm_node t n = firstn kd n /\
             (forall i, 0 < i <= kd -> mem t (firstn i n) = true) /\
             (forall i, kd < i -> i <= length n -> get t (firstn i n) = None).
Proof.
  intros t n Hc. unfold lpm_node. destruct (descend_spec t n []) as [j [Hj [Hd [Hm Hn]]]]. simpl in *.
  exists j. split; [exact Hj|]. split; [exact Hd|]. split; [exact Hm|].
  intros i Hi Hi2. destruct (get t (firstn i n)) eqn:E; [|reflexivity]. exfalso.
  assert (Hmem : mem t (firstn i n) = true) by (apply mem_get; congruence).
  apply (Hc _ (S j)) in Hmem. rewrite firstn_firstn_le in Hmem by lia.
  apply mem_get in Hmem. apply Hmem. apply Hn. lia.
Qed.

(* ---------- fill ---------- *)
Lemma add_chain_get : forall rest (t : amap A) pre p e,
  get (add_chain dflt t pre rest) p = Some e ->
  get t p = Some e \/ (e = dflt /\ exists i, 0 < i <= length rest /\ p = pre ++ firstn i rest).
Proof.
  induction rest as [|c r IH]; intros t pre p e H; simpl in H; [left; exact H|].
  apply IH in H. destruct H as [H|[He [i [Hi Hp]]]].
  - rewrite get_set in H. destruct (name_eqb (pre ++ [c]) p) eqn:E.
    + apply name_eqb_eq in E. right. split; [congruence|]. exists 1. split; [simpl; lia|]. simpl. symmetry. exact E.
    + left. exact H.
  - right. split; [exact He|]. exists (S i). split; [simpl; lia|]. rewrite Hp. apply app_snoc_firstn.
Qed.

Lemma mem_set_mono : forall (t : amap A) k v p, mem t p = true -> mem (set t k v) p = true.
Proof. intros t k v p H. apply mem_get. rewrite get_set. destruct (name_eqb k p); [discriminate | apply mem_get; exact H]. Qed.

Lemma add_chain_mono : forall rest (t : amap A) pre p, mem t p = true -> mem (add_chain dflt t pre rest) p = true.
Proof. induction rest as [|c r IH]; intros t pre p H; simpl; [exact H|]. apply IH. apply mem_set_mono. exact H. Qed.

Lemma add_chain_mem : forall rest (t : amap A) pre i, 0 < i <= length rest -> mem (add_chain dflt t pre rest) (pre ++ firstn i rest) = true.
Proof.
  induction rest as [|c r IH]; intros t pre i Hi; simpl in Hi; [lia|]. simpl add_chain.
  destruct i as [|i]; [lia|]. rewrite <- app_snoc_firstn. destruct i as [|i].
  - simpl. rewrite app_nil_r. apply add_chain_mono. apply mem_get. rewrite get_set_same. discriminate.
  - apply IH. lia.
Qed.

Lemma add_chain_nodup : forall rest (t : amap A) pre, NoDup (keys t) -> NoDup (keys (add_chain dflt t pre rest)).
Proof. induction rest as [|c r IH]; intros t pre H; simpl; [exact H|]. apply IH. apply NoDup_keys_set. exact H. Qed.

Lemma firstn_add_skipn : forall (a b : nat) (l : name), firstn a l ++ firstn b (skipn a l) = firstn (a + b) l.
Proof.
  induction a as [|a IH]; intros b l; simpl; [reflexivity|].
  destruct l as [|x l]; simpl; [rewrite firstn_nil; reflexivity|]. f_equal. apply IH.
Qed.

Lemma length_firstn_le : forall (k : nat) (n : name), k <= length n -> length (firstn k n) = k.
Proof. intros. rewrite firstn_length. lia. Qed.

Lemma prefix_is_firstn : forall p n, is_prefix p n = true -> p = firstn (length p) n /\ length p <= length n.
Proof. intros p n H. split; [apply is_prefix_eq_firstn; exact H | apply is_prefix_length; exact H]. Qed.

Section Fill.
  Variables (t : amap A) (n : name).
  Hypothesis Hc : closed t.
  Hypothesis Hroot : mem t [] = true.

  Lemma fill_get : forall p e, get (fill dflt t n) p = Some e ->
    get t p = Some e \/ (e = dflt /\ get t p = None /\ is_prefix p n = true).
  Proof.
    intros p e H. unfold fill in H. destruct (lpm_node_spec t n Hc) as [kd [Hkd [Hd [Hm Hn]]]].
    rewrite Hd in H. rewrite length_firstn_le in H by exact Hkd.
    apply add_chain_get in H. destruct H as [H|[He [i [Hi Hp]]]]; [left; exact H|].
    rewrite firstn_add_skipn in Hp. rewrite skipn_length in Hi. right. split; [exact He|]. subst p.
    split; [apply Hn; lia | apply is_prefix_firstn_self].
  Qed.

  Lemma fill_mem : forall p, mem (fill dflt t n) p = true <-> (mem t p = true \/ is_prefix p n = true).
  Proof.
    intros p. destruct (lpm_node_spec t n Hc) as [kd [Hkd [Hd [Hm Hn]]]]. split.
    - intro H. apply mem_get in H. destruct (get (fill dflt t n) p) as [e|] eqn:E; [|congruence].
      apply fill_get in E. destruct E as [E|[_ [_ E]]]; [left; apply mem_get; congruence | right; exact E].
    - unfold fill. rewrite Hd. rewrite length_firstn_le by exact Hkd. intros [H|H]; [apply add_chain_mono; exact H|].
      apply prefix_is_firstn in H. destruct H as [Hp Hl]. destruct (le_lt_dec (length p) kd) as [Hle|Hgt].
      + apply add_chain_mono. rewrite Hp. destruct (length p) as [|j] eqn:El; [simpl; exact Hroot | apply Hm; lia].
      + rewrite Hp. replace (length p) with (kd + (length p - kd)) by lia. rewrite <- firstn_add_skipn.
        apply add_chain_mem. rewrite skipn_length. lia.
  Qed.

  Lemma fill_nodup : NoDup (keys t) -> NoDup (keys (fill dflt t n)).
  Proof. intro H. unfold fill. apply add_chain_nodup. exact H. Qed.
End Fill.

Lemma mem_del : forall t n p, mem (del t n) p = if name_eqb n p then false else mem t p.
Proof. intros. unfold mem. rewrite get_del. destruct (name_eqb n p); reflexivity. Qed.

Lemma mem_set : forall t n (v : A) p, mem (set t n v) p = if name_eqb n p then true else mem t p.
Proof. intros. unfold mem. rewrite get_set. destruct (name_eqb n p); reflexivity. Qed.

(* ---------- children ---------- *)
Lemma has_child_true : forall (t : amap A) p,
  has_child t p = true <-> exists c, mem t c = true /\ length c = S (length p) /\ is_prefix p c = true.
Proof.
  intros t p. unfold has_child. rewrite existsb_exists. split.
  - intros [[k v] [Hin H]]. unfold is_child_of in H. simpl in H. apply andb_true_iff in H. destruct H as [H1 H2].
    apply Nat.eqb_eq in H1. exists k. split; [|split; assumption].
    apply mem_get. intro Hn. apply get_None_notin in Hn. apply Hn. apply (in_map fst) in Hin. exact Hin.
  - intros [c [Hm [Hl Hp]]]. apply mem_get in Hm. destruct (get t c) as [v|] eqn:E; [|congruence].
    exists (c, v). split; [apply get_In; exact E|]. unfold is_child_of. simpl. rewrite Hp, Hl, Nat.eqb_refl. reflexivity.
Qed.

Lemma find_exact_get : forall t n, closed t -> mem t [] = true -> find_exact t n = get t n.
Proof.
  intros t n Hc Hr. unfold find_exact. destruct (name_eqb (lpm_node t n) n) eqn:E; [reflexivity|].
  apply name_eqb_neq in E. destruct (lpm_node_spec t n Hc) as [kd [Hkd [Hd [Hm Hn]]]].
  destruct (Nat.eq_dec kd (length n)) as [->|Hne]; [exfalso; apply E; rewrite Hd; apply firstn_all|].
  symmetry. rewrite <- (firstn_all n). apply Hn; lia.
Qed.


(* ---------- prune ---------- *)
(* Loop invariant of pruneIfEmpty, for any prefix-closed set C of names that (i) contains every node with a payload
   of its own and (ii) has, below each of its non-root members, a node with a payload: if the node set is C plus
   possibly the prefixes of n of length 1..k, the loop started at length k ends with exactly C; payloads untouched. *)
Lemma prune_at_gen : forall (C : name -> Prop) k t n,
  k <= length n -> NoDup (keys t) ->
  (forall p j, C p -> C (firstn j p)) ->
  (forall p, mem t p = true <-> (C p \/ exists j, 0 < j <= k /\ p = firstn j n)) ->
  (forall p e, get t p = Some e -> emp e = false -> C p) ->
  (forall p, C p -> p <> [] -> exists w e, is_prefix p w = true /\ get t w = Some e /\ emp e = false) ->
  NoDup (keys (prune_at emp t n k)) /\
  (forall p, mem (prune_at emp t n k) p = true <-> C p) /\
  (forall p, get (prune_at emp t n k) p = if mem (prune_at emp t n k) p then get t p else None).
Proof.
  intros C. induction k as [|k IH]; intros t n Hk ND Hcl Hmem Hne Hwit.
  - simpl. split; [exact ND|]. split.
    + intro p. rewrite Hmem. split; [intros [H|[j [Hj _]]]; [exact H | lia] | intro H; left; exact H].
    + intro p. unfold mem. destruct (get t p); reflexivity.
  - cbn [prune_at]. set (p0 := firstn (S k) n).
    assert (Hlen0 : length p0 = S k) by (apply length_firstn_le; exact Hk).
    assert (Hin0 : mem t p0 = true) by (apply Hmem; right; exists (S k); split; [lia | reflexivity]).
    destruct (get t p0) as [e|] eqn:E; [|apply mem_get in Hin0; congruence].
    assert (Hself : forall p, get t p = if mem t p then get t p else None) by (intro p; unfold mem; destruct (get t p); reflexivity).
    assert (Hstay : (has_child t p0 = true \/ emp e = false) -> forall p, mem t p = true <-> C p).
    { intros Hor p. rewrite Hmem. split; [|intro H; left; exact H]. intros [H|[j [Hj Hp]]]; [exact H|].
      assert (HC0 : C p0).
      { destruct Hor as [Hch|Hnemp].
        - apply has_child_true in Hch. destruct Hch as [c [Hc1 [Hc2 Hc3]]]. apply Hmem in Hc1.
          destruct Hc1 as [Hc1|[j' [Hj' Hc']]].
          + apply is_prefix_eq_firstn in Hc3. rewrite Hc3. apply Hcl. exact Hc1.
          + exfalso. rewrite Hc' in Hc2. rewrite firstn_length in Hc2. lia.
        - eapply Hne; eassumption. }
      subst p. replace (firstn j n) with (firstn j p0) by (unfold p0; apply firstn_firstn_le; lia).
      apply Hcl. exact HC0. }
    destruct (has_child t p0) eqn:Hch; simpl.
    { split; [exact ND|]. split; [apply Hstay; left; reflexivity | exact Hself]. }
    destruct (emp e) eqn:Hemp.
    2:{ split; [exact ND|]. split; [apply Hstay; right; reflexivity | exact Hself]. }
    assert (Hnot : ~ C p0).
    { intro HC0. destruct (Hwit p0 HC0) as [w [ew [Hw1 [Hw2 Hw3]]]]; [intro H0; rewrite H0 in Hlen0; simpl in Hlen0; lia|].
      assert (Hneq : w <> p0) by (intro; subst w; congruence).
      assert (Hlw : length p0 < length w).
      { pose proof (is_prefix_length _ _ Hw1). destruct (Nat.eq_dec (length p0) (length w)) as [El|]; [|lia].
        exfalso. apply Hneq. symmetry. apply is_prefix_antisym_len; assumption. }
      assert (Hc : has_child t p0 = true).
      { apply has_child_true. exists (firstn (S (length p0)) w). split; [|split].
        - apply Hmem. left. apply Hcl. eapply Hne; eassumption.
        - apply length_firstn_le. lia.
        - apply is_prefix_firstn. rewrite firstn_firstn_le by lia. apply is_prefix_firstn. exact Hw1. }
      congruence. }
    destruct (IH (del t p0) n) as [I1 [I2 I3]].
    + lia.
    + apply NoDup_keys_del. exact ND.
    + exact Hcl.
    + intro p. rewrite mem_del.
      destruct (name_eqb p0 p) eqn:Ep.
      * apply name_eqb_eq in Ep. subst p. split; [congruence|]. intros [H|[j [Hj Hp]]]; [contradiction|].
        exfalso. rewrite Hp in Hlen0. rewrite firstn_length in Hlen0. lia.
      * apply name_eqb_neq in Ep. rewrite Hmem. split.
        -- intros [H|[j [Hj Hp]]]; [left; exact H|]. right. exists j. split; [|exact Hp].
           destruct (Nat.eq_dec j (S k)) as [->|]; [exfalso; apply Ep; symmetry; exact Hp | lia].
        -- intros [H|[j [Hj Hp]]]; [left; exact H | right; exists j; split; [lia | exact Hp]].
    + intros p e' H He'. rewrite get_del in H. destruct (name_eqb p0 p); [discriminate | eapply Hne; eassumption].
    + intros p HC Hp. destruct (Hwit p HC Hp) as [w [ew [Hw1 [Hw2 Hw3]]]]. exists w, ew. split; [exact Hw1|]. split; [|exact Hw3].
      rewrite get_del. destruct (name_eqb p0 w) eqn:Ew; [|exact Hw2]. apply name_eqb_eq in Ew. subst w. congruence.
    + split; [exact I1|]. split; [exact I2|]. intro p. rewrite I3. destruct (mem (prune_at emp (del t p0) n k) p) eqn:Em; [|reflexivity].
      rewrite get_del. destruct (name_eqb p0 p) eqn:Ep; [|reflexivity]. apply name_eqb_eq in Ep. subst p.
      apply I2 in Em. contradiction.
Qed.
End TreeLemmas.

Lemma NoDup_map_fst_filter : forall (A : Type) (g : name * A -> bool) (t : amap A),
  NoDup (keys t) -> NoDup (map fst (filter g t)).
Proof.
  intros A g. induction t as [|[k v] r IH]; intro ND; simpl; [constructor|].
  inversion ND as [|? ? Hk ND']; subst. destruct (g (k, v)); simpl; [|apply IH; exact ND'].
  constructor; [|apply IH; exact ND']. intro H. apply Hk. apply in_map_iff in H. destruct H as [[k' v'] [H1 H2]].
  simpl in H1. subst k'. apply filter_In in H2. destruct H2 as [H2 _]. apply (in_map fst) in H2. exact H2.
Qed.

Lemma In_amap_get : forall (A : Type) (t : amap A) p v, NoDup (keys t) -> (In (p, v) t <-> get t p = Some v).
Proof. intros A t p v ND. split; [apply In_get; exact ND | apply get_In]. Qed.

