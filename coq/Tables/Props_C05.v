(* Property C05 — FIB lookup is longest-prefix match under every update history, in both FIB implementations.
   Only theorem statements closed by `exact`, each followed by Print Assumptions.
   Models: ModelFib.v (tree_* = fw/table/fib-strategy-tree.go, ht_* = fw/table/fib-strategy-hashtable.go with virtual
   depth m, spec_* = a flat map name -> entry).  run_X ops = the table after the operation history ops. *)
From Tables Require Import ModelAssoc ModelTree ModelFib ModelRib Assoc Tree Lpm FibTree FibHash Rib.
From Coq Require Import Permutation.
Local Open Scope nat_scope.

(* What the specification's lookup means: the value selected at the LONGEST prefix of n that selects anything
   (sel = "has next hops" for FindNextHops, "has a strategy" for FindStrategy). *)
Theorem lpm_is_longest_prefix_match : forall (A : Type) (sel : name -> option A) (n : name) (a : A),
  lpm sel n (length n) = Some a <->
  exists j, j <= length n /\ sel (firstn j n) = Some a /\ forall i, j < i <= length n -> sel (firstn i n) = None.
Proof. exact (fun A sel n a => lpm_Some sel n (length n) a). Qed.
Print Assumptions lpm_is_longest_prefix_match.

(* name tree: after ANY history, for ANY lookup name, next hops (same list, same order) and strategy are those of
   longest-prefix match over the flat map *)
Theorem fib_tree_refines : forall (ops : list fibop) (n : name),
  tree_find_nh (run_tree ops) n = spec_find_nh (run_spec ops) n /\
  tree_find_strat (run_tree ops) n = spec_find_strat (run_spec ops) n.
Proof. exact (fun ops n => tree_refines_inv _ _ n (tree_run_inv ops)). Qed.
Print Assumptions fib_tree_refines.

(* hash table with virtual nodes: for EVERY m >= 1, any history, any lookup name; next hops agree as finite maps
   (the hash table's RemoveNextHop moves the last element into the hole) *)
Theorem fib_ht_refines : forall (m : nat) (ops : list fibop) (n : name), 1 <= m ->
  Permutation (ht_find_nh m (run_ht m ops) n) (spec_find_nh (run_spec ops) n) /\
  ht_find_strat m (run_ht m ops) n = spec_find_strat (run_spec ops) n.
Proof. exact ht_refines. Qed.
Print Assumptions fib_ht_refines.


(* the same over the extended alphabet: histories that also contain the batch operation ReplaceNextHopsEnc (which, under one
   acquisition of the write lock, clears and re-inserts the next hops of every listed prefix, in order) *)
Theorem fib_tree_refines_batch : forall (bs : list bop) (n : name),
  tree_find_nh (run_tree_b bs) n = spec_find_nh (run_spec_b bs) n /\
  tree_find_strat (run_tree_b bs) n = spec_find_strat (run_spec_b bs) n.
Proof.
  exact (fun bs n => eq_ind_r (fun t => tree_find_nh t n = spec_find_nh (run_spec_b bs) n /\ tree_find_strat t n = spec_find_strat (run_spec_b bs) n)
           (eq_ind_r (fun s => tree_find_nh (run_tree (expand bs)) n = spec_find_nh s n /\ tree_find_strat (run_tree (expand bs)) n = spec_find_strat s n)
              (fib_tree_refines (expand bs) n) (run_spec_b_expand bs)) (run_tree_b_expand bs)).
Qed.
Print Assumptions fib_tree_refines_batch.

Theorem fib_ht_refines_batch : forall (m : nat) (bs : list bop) (n : name), 1 <= m ->
  Permutation (ht_find_nh m (run_ht_b m bs) n) (spec_find_nh (run_spec_b bs) n) /\
  ht_find_strat m (run_ht_b m bs) n = spec_find_strat (run_spec_b bs) n.
Proof.
  exact (fun m bs n Hm => eq_ind_r (fun h => Permutation (ht_find_nh m h n) (spec_find_nh (run_spec_b bs) n) /\ ht_find_strat m h n = spec_find_strat (run_spec_b bs) n)
           (eq_ind_r (fun s => Permutation (ht_find_nh m (run_ht m (expand bs)) n) (spec_find_nh s n) /\ ht_find_strat m (run_ht m (expand bs)) n = spec_find_strat s n)
              (ht_refines m (expand bs) n Hm) (run_spec_b_expand bs)) (run_ht_b_expand m bs)).
Qed.
Print Assumptions fib_ht_refines_batch.

(* what one update of a batch means on the flat map: the prefix holds exactly the listed next hops afterwards (none for an
   empty list), keeps its strategy, and no other prefix changes -- so the rest of the batch is still applied after an
   emptied prefix *)
Theorem replace_update_meaning : forall (s : spec) (u : name * list nexthop), NoDup (map fst (snd u)) ->
  let s' := fold_left spec_step (expand_update u) s in
  nhs (sget s' (fst u)) = snd u /\ strat (sget s' (fst u)) = strat (sget s (fst u)) /\
  forall p, p <> fst u -> sget s' p = sget s p.
Proof. exact replace_update_effect. Qed.
Print Assumptions replace_update_meaning.

(* the two implementations are observationally identical *)
Theorem fib_tree_ht_equiv : forall (m : nat) (ops : list fibop) (n : name), 1 <= m ->
  Permutation (tree_find_nh (run_tree ops) n) (ht_find_nh m (run_ht m ops) n) /\
  tree_find_strat (run_tree ops) n = ht_find_strat m (run_ht m ops) n.
Proof.
  exact (fun m ops n Hm =>
    match fib_tree_refines ops n, ht_refines m ops n Hm with
    | conj t1 t2, conj h1 h2 =>
        conj (eq_ind_r (fun l => Permutation l _) (Permutation_sym h1) t1) (eq_trans t2 (eq_sym h2))
    end).
Qed.
Print Assumptions fib_tree_ht_equiv.

(* listings contain exactly the prefixes that currently hold next hops / a strategy, with exactly those values *)
Theorem fib_listing_exact_tree : forall (ops : list fibop),
  let t := nodes (run_tree ops) in let s := run_spec ops in
  (forall p l, In (p, l) (list_fib t) <-> (l = nhs (sget s p) /\ l <> [])) /\
  NoDup (map fst (list_fib t)) /\
  (forall p x, In (p, x) (list_strat t) <-> strat (sget s p) = Some x).
Proof. exact (fun ops => tree_listing_inv _ _ (tree_run_inv ops)). Qed.
Print Assumptions fib_listing_exact_tree.

Theorem fib_listing_exact_ht : forall (m : nat) (ops : list fibop), 1 <= m ->
  let h := run_ht m ops in let s := run_spec ops in
  (forall p l, In (p, l) (list_fib (real h)) -> Permutation l (nhs (sget s p)) /\ l <> []) /\
  (forall p, nhs (sget s p) <> [] -> exists l, In (p, l) (list_fib (real h))) /\
  NoDup (map fst (list_fib (real h))) /\
  (forall p x, In (p, x) (list_strat (real h)) <-> strat (sget s p) = Some x).
Proof. exact ht_listing. Qed.
Print Assumptions fib_listing_exact_ht.

(* the root always has a strategy: it can be replaced but (under the management guard, which refuses it — C17) not
   unset; at the table API the exclusion of an explicit `UnS []` is the visible hypothesis no_unset_root *)
Theorem root_strategy_total : forall (ops : list fibop) (n : name), no_unset_root ops ->
  tree_find_strat (run_tree ops) n <> None /\
  forall m, 1 <= m -> ht_find_strat m (run_ht m ops) n <> None.
Proof.
  exact (fun ops n H =>
    conj (eq_ind_r (fun x => x <> None) (spec_root_strategy_total ops n H) (proj2 (fib_tree_refines ops n)))
         (fun m Hm => eq_ind_r (fun x => x <> None) (spec_root_strategy_total ops n H) (proj2 (ht_refines m ops n Hm)))).
Qed.
Print Assumptions root_strategy_total.

(* the hypothesis is needed: unsetting the root leaves names without any strategy *)
Theorem root_unset_refuted : exists ops n, tree_find_strat (run_tree ops) n = None.
Proof. exact (ex_intro _ [UnS []] (ex_intro _ [1%N] eq_refl)). Qed.
Print Assumptions root_unset_refuted.

(* non-vacuity: a history over nested prefixes straddling m = 2 (remove the middle of a chain, strategy on an inner
   node, re-add), with non-trivial answers that agree in all three *)
Example c05_example :
  let ops := [Ins [1;2;3] 7 10; Ins [1] 8 5; SetS [1;2] 4; Ins [1;2;3;4;5] 9 1; Rem [1;2;3] 7; Ins [1;2;3] 6 2; UnS [1;2]; Clr [1;2;3;4;5]]%N in
  no_unset_root ops /\
  tree_find_nh (run_tree ops) [1;2;3;4;5;6]%N = [(6, 2)]%N /\
  ht_find_nh 2 (run_ht 2 ops) [1;2;3;4;5;6]%N = [(6, 2)]%N /\
  spec_find_nh (run_spec ops) [1;2;9]%N = [(8, 5)]%N /\
  tree_find_strat (run_tree ops) [1;2;3]%N = Some 0%N.
Proof.
  split; [repeat constructor; discriminate | vm_compute; repeat split; reflexivity].
Qed.
