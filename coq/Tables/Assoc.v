(* Tables/Assoc.v — lemmas about names and the association-list maps of ModelAssoc.v *)
From Tables Require Import ModelAssoc.
From Coq Require Import Lia.

Lemma name_eqb_eq : forall a b, name_eqb a b = true <-> a = b.
Proof.
  induction a as [|x a IH]; destruct b as [|y b]; simpl; split; intro H; try reflexivity; try discriminate.
  - apply andb_true_iff in H. destruct H as [H1 H2]. apply N.eqb_eq in H1. apply IH in H2. subst. reflexivity.
  - inversion H; subst. apply andb_true_iff. split. apply N.eqb_refl. apply IH. reflexivity.
Qed.

Lemma name_eqb_refl : forall a, name_eqb a a = true.
Proof. intro a. apply name_eqb_eq. reflexivity. Qed.

Lemma name_eqb_neq : forall a b, name_eqb a b = false <-> a <> b.
Proof.
  intros a b. split.
  - intros H E. apply name_eqb_eq in E. congruence.
  - intro H. destruct (name_eqb a b) eqn:E; [apply name_eqb_eq in E; contradiction | reflexivity].
Qed.

Lemma name_eqb_sym : forall a b, name_eqb a b = name_eqb b a.
Proof.
  intros a b. destruct (name_eqb a b) eqn:E.
  - apply name_eqb_eq in E. subst. symmetry. apply name_eqb_refl.
  - symmetry. apply name_eqb_neq. apply name_eqb_neq in E. congruence.
Qed.

Lemma name_eq_dec : forall a b : name, {a = b} + {a <> b}.
Proof. intros a b. destruct (name_eqb a b) eqn:E; [left; apply name_eqb_eq; exact E | right; apply name_eqb_neq; exact E]. Qed.

(* ---- prefixes ---- *)
Lemma is_prefix_firstn : forall a b, is_prefix a b = true <-> firstn (length a) b = a.
Proof.
  induction a as [|x a IH]; destruct b as [|y b]; simpl; split; intro H; try reflexivity; try discriminate.
  - apply andb_true_iff in H. destruct H as [H1 H2]. apply N.eqb_eq in H1. apply IH in H2. subst. rewrite H2. reflexivity.
  - inversion H; subst. apply andb_true_iff. split. apply N.eqb_refl. rewrite H2. apply IH. exact H2.
Qed.

Lemma is_prefix_app : forall a b, is_prefix a b = true <-> exists c, b = a ++ c.
Proof.
  intros a b. rewrite is_prefix_firstn. split.
  - intro H. exists (skipn (length a) b). rewrite <- H at 1. symmetry. apply firstn_skipn.
  - intros [c ->]. rewrite firstn_app, Nat.sub_diag, firstn_all. simpl. apply app_nil_r.
Qed.

Lemma is_prefix_refl : forall a, is_prefix a a = true.
Proof. intro a. apply is_prefix_app. exists []. symmetry. apply app_nil_r. Qed.

Lemma is_prefix_firstn_self : forall k n, is_prefix (firstn k n) n = true.
Proof. intros k n. apply is_prefix_app. exists (skipn k n). symmetry. apply firstn_skipn. Qed.

Lemma is_prefix_trans : forall a b c, is_prefix a b = true -> is_prefix b c = true -> is_prefix a c = true.
Proof.
  intros a b c H1 H2. apply is_prefix_app in H1. apply is_prefix_app in H2. destruct H1 as [x ->]. destruct H2 as [y ->].
  apply is_prefix_app. exists (x ++ y). symmetry. apply app_assoc.
Qed.

Lemma is_prefix_length : forall a b, is_prefix a b = true -> length a <= length b.
Proof. intros a b H. apply is_prefix_app in H. destruct H as [c ->]. rewrite app_length. lia. Qed.

Lemma is_prefix_eq_firstn : forall a b, is_prefix a b = true -> a = firstn (length a) b.
Proof. intros a b H. symmetry. apply is_prefix_firstn. exact H. Qed.

Lemma is_prefix_nil : forall b, is_prefix [] b = true.
Proof. reflexivity. Qed.

Lemma is_prefix_antisym_len : forall a b, is_prefix a b = true -> length a = length b -> a = b.
Proof.
  intros a b H L. apply is_prefix_firstn in H. rewrite L in H. rewrite firstn_all in H. congruence.
Qed.

Lemma firstn_firstn_le : forall (k j : nat) (n : name), k <= j -> firstn k (firstn j n) = firstn k n.
Proof. intros k j n H. rewrite firstn_firstn. f_equal. lia. Qed.

Lemma firstn_S_snoc : forall (k : nat) (n : name), k < length n -> exists c, firstn (S k) n = firstn k n ++ [c].
Proof.
  induction k as [|k IH]; intros n H.
  - destruct n as [|x n]; simpl in *; [lia|]. exists x. reflexivity.
  - destruct n as [|x n]; simpl in H; [lia|]. destruct (IH n) as [c Hc]; [lia|].
    exists c. change (firstn (S (S k)) (x :: n)) with (x :: firstn (S k) n). rewrite Hc. reflexivity.
Qed.

Lemma firstn_length_le_eq : forall (k : nat) (n : name), length (firstn k n) = Nat.min k (length n).
Proof. intros. apply firstn_length. Qed.

Lemma NoDup_app_snoc : forall (X : Type) (l : list X) (x : X), NoDup l -> ~ In x l -> NoDup (l ++ [x]).
Proof.
  intros X l x ND H. induction l as [|y l IH]; simpl.
  - constructor; [intros [] | constructor].
  - inversion ND as [|? ? Hy ND']; subst. constructor.
    + rewrite in_app_iff. simpl. intros [H1|[H1|[]]]; [contradiction | subst; apply H; left; reflexivity].
    + apply IH; [exact ND' | intro H1; apply H; right; exact H1].
Qed.
Arguments NoDup_app_snoc {X}.

(* ---- maps ---- *)
Section MapLemmas.
  Context {A : Type}.
  Implicit Types (t : amap A) (n m : name) (v : A).

  Lemma get_set_same : forall t n v, get (set t n v) n = Some v.
  Proof.
    induction t as [|[k w] r IH]; intros n v; simpl.
    - rewrite name_eqb_refl. reflexivity.
    - destruct (name_eqb k n) eqn:E; simpl; rewrite E; [reflexivity | apply IH].
  Qed.

  Lemma get_set_other : forall t n m v, n <> m -> get (set t n v) m = get t m.
  Proof.
    induction t as [|[k w] r IH]; intros n m v H; simpl.
    - apply name_eqb_neq in H. rewrite H. reflexivity.
    - destruct (name_eqb k n) eqn:E; simpl.
      + apply name_eqb_eq in E. subst k. apply name_eqb_neq in H. rewrite H. reflexivity.
      + destruct (name_eqb k m); [reflexivity | apply IH; exact H].
  Qed.

  Lemma get_set : forall t n m v, get (set t n v) m = if name_eqb n m then Some v else get t m.
  Proof.
    intros t n m v. destruct (name_eqb n m) eqn:E.
    - apply name_eqb_eq in E. subst. apply get_set_same.
    - apply name_eqb_neq in E. apply get_set_other. exact E.
  Qed.

  Lemma get_del : forall t n m, get (del t n) m = if name_eqb n m then None else get t m.
  Proof.
    induction t as [|[k w] r IH]; intros n m; simpl.
    - destruct (name_eqb n m); reflexivity.
    - destruct (name_eqb k n) eqn:E; simpl.
      + apply name_eqb_eq in E. subst k. rewrite IH. destruct (name_eqb n m); reflexivity.
      + rewrite IH. destruct (name_eqb k m) eqn:E2; [|reflexivity].
        apply name_eqb_eq in E2. subst k. rewrite name_eqb_sym, E. reflexivity.
  Qed.

  Lemma get_In : forall t n v, get t n = Some v -> In (n, v) t.
  Proof.
    induction t as [|[k w] r IH]; intros n v H; simpl in *; [discriminate|].
    destruct (name_eqb k n) eqn:E.
    - apply name_eqb_eq in E. inversion H; subst. left. reflexivity.
    - right. apply IH. exact H.
  Qed.

  Lemma get_None_notin : forall t n, get t n = None <-> ~ In n (keys t).
  Proof.
    induction t as [|[k w] r IH]; intros n; simpl.
    - split; [intros _ [] | reflexivity].
    - destruct (name_eqb k n) eqn:E.
      + apply name_eqb_eq in E. subst. split; [discriminate | intro H; exfalso; apply H; left; reflexivity].
      + apply name_eqb_neq in E. rewrite IH. split; intro H; [intros [H1|H1]; [contradiction | apply H; exact H1] | intro H1; apply H; right; exact H1].
  Qed.

  Lemma In_get : forall t n v, NoDup (keys t) -> In (n, v) t -> get t n = Some v.
  Proof.
    induction t as [|[k w] r IH]; intros n v ND H; simpl in *; [contradiction|].
    inversion ND as [|? ? Hk ND']; subst. destruct H as [H|H].
    - inversion H; subst. rewrite name_eqb_refl. reflexivity.
    - destruct (name_eqb k n) eqn:E.
      + apply name_eqb_eq in E. subst. exfalso. apply Hk. apply (in_map fst) in H. exact H.
      + apply IH; assumption.
  Qed.

  Lemma keys_set_in : forall t n v, get t n <> None -> keys (set t n v) = keys t.
  Proof.
    induction t as [|[k w] r IH]; intros n v H; simpl in *; [congruence|].
    destruct (name_eqb k n) eqn:E; simpl; [reflexivity|]. f_equal. apply IH. exact H.
  Qed.

  Lemma keys_set_notin : forall t n v, get t n = None -> keys (set t n v) = keys t ++ [n].
  Proof.
    induction t as [|[k w] r IH]; intros n v H; simpl in *; [reflexivity|].
    destruct (name_eqb k n) eqn:E; [discriminate|]. simpl. f_equal. apply IH. exact H.
  Qed.

  Lemma NoDup_keys_set : forall t n v, NoDup (keys t) -> NoDup (keys (set t n v)).
  Proof.
    intros t n v ND. destruct (get t n) eqn:E.
    - rewrite keys_set_in; [exact ND | congruence].
    - rewrite keys_set_notin by exact E. apply NoDup_app_snoc; [exact ND|]. apply get_None_notin. exact E.
  Qed.

  Lemma keys_del : forall t n, keys (del t n) = filter (fun k => negb (name_eqb k n)) (keys t).
  Proof.
    induction t as [|[k w] r IH]; intros n; simpl; [reflexivity|].
    destruct (name_eqb k n); simpl; rewrite IH; reflexivity.
  Qed.

  Lemma NoDup_keys_del : forall t n, NoDup (keys t) -> NoDup (keys (del t n)).
  Proof. intros. rewrite keys_del. apply NoDup_filter. assumption. Qed.

  Lemma mem_get : forall t n, mem t n = true <-> get t n <> None.
  Proof. intros t n. unfold mem. destruct (get t n); split; intro H; congruence. Qed.

  Lemma mem_false : forall t n, mem t n = false <-> get t n = None.
  Proof. intros t n. unfold mem. destruct (get t n); split; intro H; congruence. Qed.

  Lemma In_keys_get : forall t n, In n (keys t) -> exists v, get t n = Some v.
  Proof.
    intros t n H. destruct (get t n) eqn:E; [eexists; reflexivity|]. apply get_None_notin in E. contradiction.
  Qed.
End MapLemmas.

(* ---- name sets ---- *)
Lemma nmem_In : forall n l, nmem n l = true <-> In n l.
Proof.
  intros n l. unfold nmem. rewrite existsb_exists. split.
  - intros [x [H1 H2]]. apply name_eqb_eq in H2. subst. exact H1.
  - intro H. exists n. split; [exact H | apply name_eqb_refl].
Qed.

Lemma In_nadd : forall x n l, In x (nadd n l) <-> x = n \/ In x l.
Proof.
  intros x n l. unfold nadd. destruct (nmem n l) eqn:E.
  - apply nmem_In in E. split; [intro H; right; exact H | intros [->|H]; assumption].
  - rewrite in_app_iff. simpl. split; [intros [H|[H|[]]]; [right; exact H | left; symmetry; exact H] | intros [->|H]; [right; left; reflexivity | left; exact H]].
Qed.

Lemma In_nrem : forall x n l, In x (nrem n l) <-> x <> n /\ In x l.
Proof.
  intros x n l. unfold nrem. rewrite filter_In. split.
  - intros [H1 H2]. split; [|exact H1]. apply negb_true_iff in H2. apply name_eqb_neq in H2. exact H2.
  - intros [H1 H2]. split; [exact H2|]. apply negb_true_iff. apply name_eqb_neq. exact H1.
Qed.

Lemma NoDup_nadd : forall n l, NoDup l -> NoDup (nadd n l).
Proof.
  intros n l ND. unfold nadd. destruct (nmem n l) eqn:E; [exact ND|].
  apply NoDup_app_snoc; [exact ND|]. intro H. apply nmem_In in H. congruence.
Qed.

Lemma NoDup_nrem : forall n l, NoDup l -> NoDup (nrem n l).
Proof. intros. apply NoDup_filter. assumption. Qed.
