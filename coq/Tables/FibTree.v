(* Tables/FibTree.v — the name-tree FIB model refines the flat specification (C05), and holds exactly the nodes its
   live entries require (table part of C08). *)
From Tables Require Import ModelAssoc ModelTree ModelFib Assoc Tree Lpm.
From Coq Require Import Lia.
Local Open Scope nat_scope.

(* ---------- entries ---------- *)
Lemma ent_empty_eq : forall e, ent_empty e = true -> e = empty_ent.
Proof. intros [l s]. unfold ent_empty. simpl. destruct l; [destruct s|]; intro H; try discriminate. reflexivity. Qed.

Lemma ent_empty_empty : ent_empty empty_ent = true.
Proof. reflexivity. Qed.

(* a name is live in the spec if its entry carries next hops or a strategy *)
Definition live (s : spec) (w : name) : Prop := ent_empty (sget s w) = false.
(* the prefix closure of the live names, plus the root *)
Definition inC (s : spec) (p : name) : Prop := p = [] \/ exists w, is_prefix p w = true /\ live s w.

Lemma inC_prefix : forall s p k, inC s p -> inC s (firstn k p).
Proof.
  intros s p k [->|[w [H1 H2]]].
  - left. apply firstn_nil.
  - right. exists w. split; [|exact H2]. eapply is_prefix_trans; [apply is_prefix_firstn_self | exact H1].
Qed.

Lemma inC_live : forall s p, live s p -> inC s p.
Proof. intros s p H. right. exists p. split; [apply is_prefix_refl | exact H]. Qed.

Lemma not_live_empty : forall s p, ~ live s p -> sget s p = empty_ent.
Proof. intros s p H. apply ent_empty_eq. unfold live in H. destruct (ent_empty (sget s p)); [reflexivity | exfalso; apply H; reflexivity]. Qed.

(* ---------- the effect of one operation on the spec, pointwise ---------- *)
Definition op_name (o : fibop) : name :=
  match o with Ins n _ _ => n | Clr n => n | Rem n _ => n | SetS n _ => n | UnS n => n end.
Definition op_ent (e : fent) (o : fibop) : fent :=
  match o with
  | Ins _ f c => mkfent (upd_nh (nhs e) f c) (strat e)
  | Clr _ => mkfent [] (strat e)
  | Rem _ f => mkfent (rem_nh (nhs e) f) (strat e)
  | SetS _ s' => mkfent (nhs e) (Some s')
  | UnS _ => mkfent (nhs e) None
  end.

Lemma sget_set : forall (s : spec) n e p, sget (set s n e) p = if name_eqb n p then e else sget s p.
Proof. intros. unfold sget. rewrite get_set. destruct (name_eqb n p); reflexivity. Qed.

Lemma sget_step : forall s o p,
  sget (spec_step s o) p = if name_eqb (op_name o) p then op_ent (sget s (op_name o)) o else sget s p.
Proof. intros s o p. destruct o; simpl; apply sget_set. Qed.

Lemma upd_nh_nonempty : forall l f c, upd_nh l f c <> [].
Proof. intros [|[g d] r] f c; simpl; [discriminate|]. destruct (N.eqb g f); discriminate. Qed.

Definition growing (o : fibop) : bool := match o with Ins _ _ _ | SetS _ _ => true | _ => false end.

Lemma growing_live : forall e o, growing o = true -> ent_empty (op_ent e o) = false.
Proof.
  intros e o H. destruct o; try discriminate; unfold ent_empty; simpl.
  - destruct (upd_nh (nhs e) f c) eqn:E; [exfalso; eapply upd_nh_nonempty; exact E | reflexivity].
  - destruct (nhs e); reflexivity.
Qed.

Lemma rem_nh_nil : forall f, rem_nh [] f = [].
Proof. reflexivity. Qed.

Lemma rem_nh_nonempty : forall l f, rem_nh l f <> [] -> l <> [].
Proof. intros [|x l] f H; [exact H | discriminate]. Qed.

Lemma shrinking_live : forall e o, growing o = false -> ent_empty (op_ent e o) = false -> ent_empty e = false.
Proof.
  intros [l s] o H. destruct o; try discriminate; unfold ent_empty; simpl; intro H1.
  - destruct l; [exact H1 | reflexivity].
  - destruct l; [simpl in H1; exact H1 | reflexivity].
  - destruct l; [discriminate | reflexivity].
Qed.

Lemma shrinking_empty : forall o, growing o = false -> op_ent empty_ent o = empty_ent.
Proof. intros o H. destruct o; try discriminate; reflexivity. Qed.

(* ---------- prune ---------- *)
(* Loop invariant of pruneIfEmpty: the node set is the closure of the live names plus possibly the prefixes of n of
   length 1..k; when the loop stops every remaining node is in the closure. *)
Lemma prune_at_spec : forall k (t : amap fent) n s,
  k <= length n -> NoDup (keys t) ->
  (forall p, mem t p = true <-> (inC s p \/ exists j, 0 < j <= k /\ p = firstn j n)) ->
  (forall p e, get t p = Some e -> e = sget s p) ->
  NoDup (keys (prune_at ent_empty t n k)) /\
  (forall p, mem (prune_at ent_empty t n k) p = true <-> inC s p) /\
  (forall p e, get (prune_at ent_empty t n k) p = Some e -> e = sget s p).
Proof.
  intros k t n s Hk ND Hmem Hent.
  destruct (prune_at_gen ent_empty (inC s) k t n Hk ND) as [H1 [H2 H3]].
  - intros p j H. apply inC_prefix. exact H.
  - exact Hmem.
  - intros p e H He. apply inC_live. unfold live. rewrite <- (Hent p e H). exact He.
  - intros p [H0|[w [Hw1 Hw2]]] Hp; [contradiction|]. exists w, (sget s w). split; [exact Hw1|]. split; [|exact Hw2].
    assert (Hm : mem t w = true) by (apply Hmem; left; apply inC_live; exact Hw2).
    apply mem_get in Hm. destruct (get t w) as [e|] eqn:E; [|congruence]. f_equal. apply Hent. exact E.
  - split; [exact H1|]. split; [exact H2|]. intros p e H. rewrite H3 in H.
    destruct (mem (prune_at ent_empty t n k) p); [apply Hent; exact H | discriminate].
Qed.

(* ---------- the refinement invariant ---------- *)
Record TInv (t : tree) (s : spec) : Prop := {
  ti_nodup : NoDup (keys (nodes t));
  ti_nodes : forall p, mem (nodes t) p = true <-> inC s p;          (* node set = root + prefix closure of live names *)
  ti_ent : forall p e, get (nodes t) p = Some e -> e = sget s p;      (* payloads are the spec's entries *)
  ti_pfx_nodup : NoDup (pfx t);
  ti_pfx : forall p, In p (pfx t) <-> has_nh (sget s p) = true        (* side map = names with next hops *)
}.

Lemma TInv_closed : forall t s, TInv t s -> closed (nodes t).
Proof. intros t s I p k H. apply (ti_nodes _ _ I). apply inC_prefix. apply (ti_nodes _ _ I). exact H. Qed.

Lemma TInv_root : forall t s, TInv t s -> mem (nodes t) [] = true.
Proof. intros t s I. apply (ti_nodes _ _ I). left. reflexivity. Qed.

Lemma TInv_absent : forall t s p, TInv t s -> get (nodes t) p = None -> sget s p = empty_ent.
Proof.
  intros t s p I H. apply not_live_empty. intro Hl. apply inC_live in Hl. apply (ti_nodes _ _ I) in Hl.
  apply mem_get in Hl. contradiction.
Qed.

Lemma TInv_get : forall t s p, TInv t s -> match get (nodes t) p with Some e => e | None => empty_ent end = sget s p.
Proof.
  intros t s p I. destruct (get (nodes t) p) eqn:E; [apply (ti_ent _ _ I); exact E | symmetry; eapply TInv_absent; eassumption].
Qed.

Lemma tree_init_inv : TInv tree_init spec_init.
Proof.
  constructor; simpl.
  - constructor; [intros [] | constructor].
  - intro p. unfold mem. simpl. destruct p as [|x p]; simpl.
    + split; [intros _; left; reflexivity | reflexivity].
    + split; [discriminate|]. intros [H|[w [H1 H2]]]; [discriminate|]. exfalso. unfold live, sget in H2. simpl in H2.
      destruct w; simpl in *; discriminate.
  - intros p e. destruct p; simpl; [|discriminate]. intro H. inversion H. reflexivity.
  - constructor.
  - intro p. unfold sget. simpl. destruct p; simpl; split; intro H; try contradiction; discriminate.
Qed.

Lemma has_nh_upd : forall l f c, has_nh (mkfent (upd_nh l f c) None) = true.
Proof. intros. unfold has_nh. simpl. destruct (upd_nh l f c) eqn:E; [exfalso; eapply upd_nh_nonempty; exact E | reflexivity]. Qed.

Lemma has_face_nonempty : forall l f, has_face l f = true -> l <> [].
Proof. intros [|x l] f H; [discriminate | discriminate]. Qed.

(* pointwise-equal specs are interchangeable *)
Lemma TInv_ext : forall t s s', (forall p, sget s' p = sget s p) -> TInv t s -> TInv t s'.
Proof.
  intros t s s' Heq I. assert (HC : forall p, inC s' p <-> inC s p).
  { intro p. unfold inC, live. split; intros [H|[w [H1 H2]]]; try (left; exact H); right; exists w; split; try exact H1;
    [rewrite <- Heq | rewrite Heq]; exact H2. }
  constructor.
  - apply (ti_nodup _ _ I).
  - intro p. rewrite HC. apply (ti_nodes _ _ I).
  - intros p e H. rewrite Heq. apply (ti_ent _ _ I). exact H.
  - apply (ti_pfx_nodup _ _ I).
  - intro p. rewrite Heq. apply (ti_pfx _ _ I).
Qed.

(* structure part of a growing operation (Ins, SetS) *)
Lemma grow_nodes : forall t s o, TInv t s -> growing o = true ->
  let n := op_name o in
  let t1 := fib_fill (nodes t) n in
  let e := match get t1 n with Some e => e | None => empty_ent end in
  let t2 := set t1 n (op_ent e o) in
  NoDup (keys t2) /\ (forall p, mem t2 p = true <-> inC (spec_step s o) p) /\
  (forall p e', get t2 p = Some e' -> e' = sget (spec_step s o) p) /\ e = sget s n.
Proof.
  intros t s o I Hg n t1 e t2.
  pose proof (TInv_closed _ _ I) as Hc. pose proof (TInv_root _ _ I) as Hr.
  assert (He : e = sget s n).
  { unfold e. destruct (get t1 n) as [e0|] eqn:E.
    - apply (fill_get empty_ent _ _ Hc) in E. destruct E as [E|[E1 [E2 _]]]; [apply (ti_ent _ _ I); exact E|].
      rewrite E1. symmetry. eapply TInv_absent; eassumption.
    - exfalso. assert (Hm : mem t1 n = true) by (apply (fill_mem empty_ent _ _ Hc Hr); right; apply is_prefix_refl).
      apply mem_get in Hm. contradiction. }
  assert (Hlive : live (spec_step s o) n).
  { unfold live. rewrite sget_step. fold n. rewrite name_eqb_refl. apply growing_live. exact Hg. }
  split; [apply NoDup_keys_set; apply (fill_nodup empty_ent); apply (ti_nodup _ _ I)|]. split; [|split; [|exact He]].
  - intro p. unfold t2. rewrite mem_set. destruct (name_eqb n p) eqn:Ep.
    + apply name_eqb_eq in Ep. subst p. split; [intros _; apply inC_live; exact Hlive | reflexivity].
    + unfold t1. rewrite (fill_mem empty_ent _ _ Hc Hr). rewrite (ti_nodes _ _ I). apply name_eqb_neq in Ep. split.
      * intros [[H|[w [H1 H2]]]|H]; [left; exact H | | right; exists n; split; [exact H | exact Hlive]].
        right. exists w. split; [exact H1|]. unfold live. rewrite sget_step. fold n.
        destruct (name_eqb n w) eqn:Ew; [apply growing_live; exact Hg | exact H2].
      * intros [H|[w [H1 H2]]]; [left; left; exact H|]. unfold live in H2. rewrite sget_step in H2. fold n in H2.
        destruct (name_eqb n w) eqn:Ew; [apply name_eqb_eq in Ew; subst w; right; exact H1|].
        left. right. exists w. split; assumption.
  - intros p e' H. unfold t2 in H. rewrite get_set in H. rewrite sget_step. fold n. destruct (name_eqb n p) eqn:Ep.
    + inversion H. rewrite He. reflexivity.
    + apply (fill_get empty_ent _ _ Hc) in H. destruct H as [H|[E1 [E2 _]]]; [apply (ti_ent _ _ I); exact H|].
      rewrite E1. symmetry. eapply TInv_absent; eassumption.
Qed.

(* structure part of a shrinking operation (Clr, Rem, UnS) on an existing node *)
Lemma shrink_nodes : forall t s o e, TInv t s -> growing o = false ->
  let n := op_name o in
  get (nodes t) n = Some e ->
  let t2 := fib_prune (set (nodes t) n (op_ent e o)) n in
  NoDup (keys t2) /\ (forall p, mem t2 p = true <-> inC (spec_step s o) p) /\
  (forall p e', get t2 p = Some e' -> e' = sget (spec_step s o) p).
Proof.
  intros t s o e I Hg n E t2. unfold t2, fib_prune, prune.
  assert (He : e = sget s n) by (apply (ti_ent _ _ I); exact E).
  apply prune_at_spec.
  - lia.
  - apply NoDup_keys_set. apply (ti_nodup _ _ I).
  - intro p. rewrite mem_set. destruct (name_eqb n p) eqn:Ep.
    + apply name_eqb_eq in Ep. subst p. split; [|reflexivity]. intros _.
      destruct n as [|x n'] eqn:En; [left; left; reflexivity|]. right. exists (length (x :: n')).
      split; [simpl; lia | symmetry; apply firstn_all].
    + apply name_eqb_neq in Ep. rewrite (ti_nodes _ _ I). split.
      * intros [H|[w [H1 H2]]]; [left; left; exact H|]. destruct (name_eqb n w) eqn:Ew.
        -- apply name_eqb_eq in Ew. subst w. apply prefix_is_firstn in H1. destruct H1 as [H1 H1'].
           destruct p as [|x p'] eqn:Ep'; [left; left; reflexivity|]. right. exists (length (x :: p')).
           split; [simpl in *; lia | exact H1].
        -- left. right. exists w. split; [exact H1|]. unfold live. rewrite sget_step. fold n. rewrite Ew. exact H2.
      * intros [[H|[w [H1 H2]]]|[j [Hj Hp]]]; [left; exact H | |].
        -- right. exists w. split; [exact H1|]. unfold live in *. rewrite sget_step in H2. fold n in H2.
           destruct (name_eqb n w) eqn:Ew; [|exact H2]. apply name_eqb_eq in Ew. subst w.
           rewrite <- He in H2. rewrite He in H2. eapply shrinking_live; [exact Hg | exact H2].
        -- subst p. apply inC_prefix. apply (ti_nodes _ _ I). apply mem_get. congruence.
  - intros p e' H. rewrite get_set in H. rewrite sget_step. fold n. destruct (name_eqb n p).
    + inversion H. rewrite He. reflexivity.
    + apply (ti_ent _ _ I). exact H.
Qed.

(* ---------- one step ---------- *)
Lemma sget_step_other : forall s o p, op_name o <> p -> sget (spec_step s o) p = sget s p.
Proof. intros s o p H. rewrite sget_step. apply name_eqb_neq in H. rewrite H. reflexivity. Qed.

Lemma sget_step_same : forall s o, sget (spec_step s o) (op_name o) = op_ent (sget s (op_name o)) o.
Proof. intros s o. rewrite sget_step. rewrite name_eqb_refl. reflexivity. Qed.

(* an operation on an absent node that cannot create it leaves the spec unchanged pointwise *)
Lemma shrink_absent : forall t s o, TInv t s -> growing o = false -> get (nodes t) (op_name o) = None ->
  forall p, sget (spec_step s o) p = sget s p.
Proof.
  intros t s o I Hg E p. rewrite sget_step. destruct (name_eqb (op_name o) p) eqn:Ep; [|reflexivity].
  apply name_eqb_eq in Ep. subst p. rewrite (TInv_absent _ _ _ I E). apply shrinking_empty. exact Hg.
Qed.

Lemma pfx_other : forall s o (P : list name) (P' : list name) ,
  (forall p, In p P <-> has_nh (sget s p) = true) ->
  (forall p, p <> op_name o -> (In p P' <-> In p P)) ->
  (In (op_name o) P' <-> has_nh (sget (spec_step s o) (op_name o)) = true) ->
  forall p, In p P' <-> has_nh (sget (spec_step s o) p) = true.
Proof.
  intros s o P P' H1 H2 H3 p. destruct (name_eq_dec p (op_name o)) as [->|Hne]; [exact H3|].
  rewrite H2 by exact Hne. rewrite sget_step_other by congruence. apply H1.
Qed.

Theorem tree_step_inv : forall t s o, TInv t s -> TInv (tree_step t o) (spec_step s o).
Proof.
  intros t s o I.
  pose proof (TInv_closed _ _ I) as Hc. pose proof (TInv_root _ _ I) as Hr.
  destruct o as [n f c|n|n f|n s'|n].
  - (* Ins *)
    destruct (grow_nodes t s (Ins n f c) I eq_refl) as [ND [Hm [He Hs]]]. simpl in ND, Hm, He, Hs. cbn [tree_step].
    set (e := match get (fib_fill (nodes t) n) n with Some e => e | None => empty_ent end) in *.
    constructor; cbn [nodes pfx]; [exact ND | exact Hm | exact He | |].
    + destruct (has_face (nhs e) f); [apply (ti_pfx_nodup _ _ I) | apply NoDup_nadd; apply (ti_pfx_nodup _ _ I)].
    + apply (pfx_other s (Ins n f c) (pfx t)); [apply (ti_pfx _ _ I) | |]; cbn [op_name].
      * intros p Hp. destruct (has_face (nhs e) f); [reflexivity|]. rewrite In_nadd. split; [intros [H|H]; [contradiction | exact H] | intro H; right; exact H].
      * rewrite (sget_step s (Ins n f c) n); cbn [op_name op_ent]; rewrite name_eqb_refl.
        assert (Ht : has_nh (mkfent (upd_nh (nhs (sget s n)) f c) (strat (sget s n))) = true).
        { unfold has_nh. simpl. destruct (upd_nh (nhs (sget s n)) f c) eqn:E; [exfalso; eapply upd_nh_nonempty; exact E | reflexivity]. }
        rewrite Ht. split; [reflexivity|]. intros _. destruct (has_face (nhs e) f) eqn:Hf.
        -- apply (ti_pfx _ _ I). rewrite <- Hs. unfold has_nh. apply has_face_nonempty in Hf. destruct (nhs e); [congruence | reflexivity].
        -- apply In_nadd. left. reflexivity.
  - (* Clr *)
    cbn [tree_step]. rewrite (find_exact_get _ _ Hc Hr). destruct (get (nodes t) n) as [e|] eqn:E.
    + destruct (shrink_nodes t s (Clr n) e I eq_refl E) as [ND [Hm He]]. simpl in ND, Hm, He.
      constructor; cbn [nodes pfx]; [exact ND | exact Hm | exact He | apply NoDup_nrem; apply (ti_pfx_nodup _ _ I) |].
      apply (pfx_other s (Clr n) (pfx t)); [apply (ti_pfx _ _ I) | |]; cbn [op_name].
      * intros p Hp. rewrite In_nrem. split; [intros [_ H]; exact H | intro H; split; assumption].
      * rewrite (sget_step s (Clr n) n); cbn [op_name op_ent]; rewrite name_eqb_refl. unfold has_nh. simpl. rewrite In_nrem.
        split; [intros [H _]; congruence | discriminate].
    + eapply TInv_ext; [|exact I]. apply (shrink_absent t s (Clr n) I eq_refl E).
  - (* Rem *)
    cbn [tree_step]. rewrite (find_exact_get _ _ Hc Hr). destruct (get (nodes t) n) as [e|] eqn:E.
    + destruct (shrink_nodes t s (Rem n f) e I eq_refl E) as [ND [Hm He]]. simpl in ND, Hm, He.
      assert (Hs : e = sget s n) by (apply (ti_ent _ _ I); exact E).
      constructor; cbn [nodes pfx]; [exact ND | exact Hm | exact He | |].
      * destruct (rem_nh (nhs e) f); [apply NoDup_nrem|]; apply (ti_pfx_nodup _ _ I).
      * apply (pfx_other s (Rem n f) (pfx t)); [apply (ti_pfx _ _ I) | |]; cbn [op_name].
        -- intros p Hp. destruct (rem_nh (nhs e) f); [|reflexivity]. rewrite In_nrem. split; [intros [_ H]; exact H | intro H; split; assumption].
        -- rewrite (sget_step s (Rem n f) n); cbn [op_name op_ent]; rewrite name_eqb_refl. rewrite <- Hs. unfold has_nh at 1. simpl.
           destruct (rem_nh (nhs e) f) eqn:El.
           ++ rewrite In_nrem. split; [intros [H _]; congruence | discriminate].
           ++ split; [reflexivity|]. intros _. apply (ti_pfx _ _ I). rewrite <- Hs. unfold has_nh.
              destruct (nhs e); [simpl in El; discriminate | reflexivity].
    + eapply TInv_ext; [|exact I]. apply (shrink_absent t s (Rem n f) I eq_refl E).
  - (* SetS *)
    destruct (grow_nodes t s (SetS n s') I eq_refl) as [ND [Hm [He Hs]]]. simpl in ND, Hm, He, Hs. cbn [tree_step].
    set (e := match get (fib_fill (nodes t) n) n with Some e => e | None => empty_ent end) in *.
    constructor; cbn [nodes pfx]; [exact ND | exact Hm | exact He | apply (ti_pfx_nodup _ _ I) |].
    apply (pfx_other s (SetS n s') (pfx t)); [apply (ti_pfx _ _ I) | reflexivity |]; cbn [op_name].
    rewrite (sget_step s (SetS n s') n); cbn [op_name op_ent]; rewrite name_eqb_refl. apply (ti_pfx _ _ I).
  - (* UnS *)
    cbn [tree_step]. rewrite (find_exact_get _ _ Hc Hr). destruct (get (nodes t) n) as [e|] eqn:E.
    + destruct (shrink_nodes t s (UnS n) e I eq_refl E) as [ND [Hm He]]. simpl in ND, Hm, He.
      constructor; cbn [nodes pfx]; [exact ND | exact Hm | exact He | apply (ti_pfx_nodup _ _ I) |].
      apply (pfx_other s (UnS n) (pfx t)); [apply (ti_pfx _ _ I) | reflexivity |]; cbn [op_name].
      rewrite (sget_step s (UnS n) n); cbn [op_name op_ent]; rewrite name_eqb_refl. apply (ti_pfx _ _ I).
    + eapply TInv_ext; [|exact I]. apply (shrink_absent t s (UnS n) I eq_refl E).
Qed.

Lemma tree_run_inv_from : forall ops t s, TInv t s -> TInv (fold_left tree_step ops t) (fold_left spec_step ops s).
Proof. induction ops as [|o ops IH]; intros t s I; simpl; [exact I|]. apply IH. apply tree_step_inv. exact I. Qed.

Theorem tree_run_inv : forall ops, TInv (run_tree ops) (run_spec ops).
Proof. intro ops. apply tree_run_inv_from. apply tree_init_inv. Qed.

(* ---------- lookups ---------- *)
Lemma tsel_nh_spec : forall t s p, TInv t s -> tsel_nh (nodes t) p = sel_nh s p.
Proof.
  intros t s p I. unfold tsel_nh, sel_nh. rewrite <- (TInv_get _ _ p I). destruct (get (nodes t) p); reflexivity.
Qed.

Lemma tsel_strat_spec : forall t s p, TInv t s -> tsel_strat (nodes t) p = sel_strat s p.
Proof.
  intros t s p I. unfold tsel_strat, sel_strat. rewrite <- (TInv_get _ _ p I). destruct (get (nodes t) p); reflexivity.
Qed.

Lemma tree_lookup_lpm : forall (A : Type) (tsel ssel : name -> option A) (t : amap fent) n,
  closed t ->
  (forall p, tsel p = ssel p) -> (forall p, get t p = None -> ssel p = None) ->
  let d := lpm_node t n in lpm tsel d (length d) = lpm ssel n (length n).
Proof.
  intros A tsel ssel t n Hc Heq Hnone d. unfold d.
  destruct (lpm_node_spec t n Hc) as [kd [Hkd [Hd [Hm Hn]]]]. rewrite Hd.
  rewrite length_firstn_le by exact Hkd. rewrite lpm_prefix by lia.
  rewrite (lpm_skip ssel n kd (length n) Hkd).
  - apply lpm_ext. intros j _. apply Heq.
  - intros j Hj. apply Hnone. apply Hn; lia.
Qed.

Theorem tree_refines_inv : forall t s n, TInv t s ->
  tree_find_nh t n = spec_find_nh s n /\ tree_find_strat t n = spec_find_strat s n.
Proof.
  intros t s n I. pose proof (TInv_closed _ _ I) as Hc. split.
  - unfold tree_find_nh, spec_find_nh. rewrite walk_nh_lpm.
    rewrite (tree_lookup_lpm _ (tsel_nh (nodes t)) (sel_nh s)); [reflexivity | exact Hc | |].
    + intro p. apply tsel_nh_spec. exact I.
    + intros p H. rewrite <- (tsel_nh_spec _ _ _ I). unfold tsel_nh. rewrite H. reflexivity.
  - unfold tree_find_strat, spec_find_strat. rewrite walk_strat_lpm.
    apply (tree_lookup_lpm _ (tsel_strat (nodes t)) (sel_strat s)); [exact Hc | |].
    + intro p. apply tsel_strat_spec. exact I.
    + intros p H. rewrite <- (tsel_strat_spec _ _ _ I). unfold tsel_strat. rewrite H. reflexivity.
Qed.

(* ---------- listings ---------- *)
Lemma live_get : forall t s p, TInv t s -> live s p -> get (nodes t) p = Some (sget s p).
Proof.
  intros t s p I Hl. apply inC_live in Hl. apply (ti_nodes _ _ I) in Hl. apply mem_get in Hl.
  destruct (get (nodes t) p) as [e|] eqn:E; [|congruence]. f_equal. apply (ti_ent _ _ I). exact E.
Qed.

Theorem tree_listing_inv : forall t s, TInv t s ->
  (forall p l, In (p, l) (list_fib (nodes t)) <-> (l = nhs (sget s p) /\ l <> [])) /\
  NoDup (map fst (list_fib (nodes t))) /\
  (forall p x, In (p, x) (list_strat (nodes t)) <-> strat (sget s p) = Some x).
Proof.
  intros t s I. pose proof (ti_nodup _ _ I) as ND. split; [|split].
  - intros p l. unfold list_fib. rewrite in_map_iff. split.
    + intros [[k e] [H1 H2]]. simpl in H1. inversion H1; subst. apply filter_In in H2. destruct H2 as [H2 H3]. simpl in H3.
      apply In_amap_get in H2; [|exact ND]. apply (ti_ent _ _ I) in H2. subst e. split; [reflexivity|].
      unfold has_nh in H3. destruct (nhs (sget s p)); [discriminate | discriminate].
    + intros [H1 H2]. exists (p, sget s p). split; [simpl; rewrite H1; reflexivity|]. apply filter_In. split.
      * apply get_In. apply (live_get _ _ _ I). unfold live, ent_empty. subst l. destruct (nhs (sget s p)); [congruence | reflexivity].
      * simpl. unfold has_nh. subst l. destruct (nhs (sget s p)); [congruence | reflexivity].
  - unfold list_fib. rewrite map_map. simpl. apply NoDup_map_fst_filter. exact ND.
  - intros p x. unfold list_strat. rewrite in_flat_map. split.
    + intros [[k e] [H1 H2]]. simpl in H2. apply In_amap_get in H1; [|exact ND]. apply (ti_ent _ _ I) in H1. subst e.
      destruct (strat (sget s k)) eqn:E; [|contradiction]. destruct H2 as [H2|[]]. inversion H2; subst. exact E.
    + intro H. exists (p, sget s p). split.
      * apply get_In. apply (live_get _ _ _ I). unfold live, ent_empty. rewrite H. destruct (nhs (sget s p)); reflexivity.
      * simpl. rewrite H. left. reflexivity.
Qed.

(* ---------- minimality (table part of C08) ---------- *)
Theorem tree_minimal_inv : forall t s, TInv t s -> tree_minimal_b t = true.
Proof.
  intros t s I. pose proof (ti_nodup _ _ I) as ND. unfold tree_minimal_b. apply andb_true_iff. split.
  - apply forallb_forall. intros [p e] Hin. simpl. destruct p as [|x p']; [reflexivity|].
    assert (Hm : mem (nodes t) (x :: p') = true).
    { apply mem_get. apply In_amap_get in Hin; [congruence | exact ND]. }
    apply (ti_nodes _ _ I) in Hm. destruct Hm as [Hm|[w [H1 H2]]]; [discriminate|].
    unfold needed. apply existsb_exists. exists (w, sget s w). split; [apply get_In; apply (live_get _ _ _ I); exact H2|].
    cbn [fst snd]. rewrite H1. unfold live in H2. rewrite H2. reflexivity.
  - apply forallb_forall. intros p Hin. apply (ti_pfx _ _ I) in Hin.
    rewrite (live_get _ _ _ I); [exact Hin|]. unfold live, ent_empty. unfold has_nh in Hin. destruct (nhs (sget s p)); [discriminate | reflexivity].
Qed.

(* ---------- the root always has a strategy unless it is explicitly unset ---------- *)
Definition not_unset_root (o : fibop) : Prop := o <> UnS [].
Definition no_unset_root (ops : list fibop) : Prop := Forall not_unset_root ops.

Lemma root_strat_step : forall s o, not_unset_root o -> strat (sget s []) <> None -> strat (sget (spec_step s o) []) <> None.
Proof.
  intros s o Ho H. rewrite sget_step. destruct (name_eqb (op_name o) []) eqn:E; [|exact H].
  apply name_eqb_eq in E. destruct o; simpl in *; subst; try exact H; try discriminate.
  exfalso. apply Ho. reflexivity.
Qed.

Lemma root_strat_run : forall ops s, no_unset_root ops -> strat (sget s []) <> None ->
  strat (sget (fold_left spec_step ops s) []) <> None.
Proof.
  induction ops as [|o ops IH]; intros s Hn H; simpl; [exact H|]. inversion Hn; subst.
  apply IH; [assumption|]. apply root_strat_step; assumption.
Qed.

Theorem spec_root_strategy_total : forall ops n, no_unset_root ops -> spec_find_strat (run_spec ops) n <> None.
Proof.
  intros ops n Hn H. unfold spec_find_strat in H. rewrite lpm_None in H. specialize (H 0 (Nat.le_0_l _)).
  simpl in H. revert H. apply root_strat_run; [exact Hn|]. simpl. discriminate.
Qed.
