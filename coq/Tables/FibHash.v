(* Tables/FibHash.v — the hash-table FIB model (real table, virtual table with md, virtual-name sets; any m) refines
   the flat specification (C05), and its three tables hold exactly what the live entries require (C08 tables part). *)
From Tables Require Import ModelAssoc ModelTree ModelFib Assoc Tree Lpm FibTree.
From Coq Require Import Lia Permutation.
Local Open Scope nat_scope.

(* ---------- maxlen ---------- *)
Lemma maxlen_In : forall l x, In x l -> length x <= maxlen l.
Proof.
  intros l x H. unfold maxlen. assert (Hf : Forall (fun k => k <= list_max (map (@length N) l)) (map (@length N) l)) by (apply list_max_le; lia).
  rewrite Forall_forall in Hf. apply Hf. apply in_map. exact H.
Qed.

Lemma maxlen_cons : forall y l, maxlen (y :: l) = Nat.max (length y) (maxlen l).
Proof. reflexivity. Qed.

Lemma maxlen_witness : forall l, l <> [] -> exists x, In x l /\ length x = maxlen l.
Proof.
  induction l as [|y l IH]; intro H; [congruence|]. rewrite maxlen_cons.
  destruct l as [|z l'].
  - exists y. split; [left; reflexivity|]. change (maxlen []) with 0. lia.
  - destruct IH as [x [Hx1 Hx2]]; [discriminate|].
    destruct (le_lt_dec (length y) (maxlen (z :: l'))) as [Hle|Hgt].
    + exists x. split; [right; exact Hx1|]. rewrite Hx2. lia.
    + exists y. split; [left; reflexivity | lia].
Qed.

Lemma maxlen_le : forall l k, (forall x, In x l -> length x <= k) -> maxlen l <= k.
Proof.
  intros l k H. unfold maxlen. apply list_max_le. apply Forall_forall. intros j Hj. apply in_map_iff in Hj.
  destruct Hj as [x [<- Hx]]. apply H. exact Hx.
Qed.

Lemma maxlen_nadd : forall n l, maxlen (nadd n l) = Nat.max (maxlen l) (length n).
Proof.
  intros n l. unfold nadd. destruct (nmem n l) eqn:E.
  - apply nmem_In in E. apply maxlen_In in E. lia.
  - unfold maxlen. rewrite map_app, list_max_app. change (list_max (map (@length N) [n])) with (Nat.max (length n) 0). rewrite Nat.max_0_r. reflexivity.
Qed.

Lemma maxlen_nrem : forall n l, length n < maxlen l -> maxlen (nrem n l) = maxlen l.
Proof.
  intros n l H. apply Nat.le_antisymm.
  - apply maxlen_le. intros x Hx. apply In_nrem in Hx. apply maxlen_In. tauto.
  - destruct (maxlen_witness l) as [x [Hx1 Hx2]]; [intro; subst; unfold maxlen in H; simpl in H; lia|].
    rewrite <- Hx2. apply maxlen_In. apply In_nrem. split; [intro; subst; lia | exact Hx1].
Qed.

(* ---------- the hash table's own reference: the spec with the hash table's removal order ---------- *)
Definition op_ent_sw (e : fent) (o : fibop) : fent :=
  match o with Rem _ f => mkfent (rem_nh_swap (nhs e) f) (strat e) | _ => op_ent e o end.
Definition spec_step_sw (s : spec) (o : fibop) : spec := set s (op_name o) (op_ent_sw (sget s (op_name o)) o).
Definition run_spec_sw (ops : list fibop) : spec := fold_left spec_step_sw ops spec_init.

Lemma sget_step_sw : forall s o p,
  sget (spec_step_sw s o) p = if name_eqb (op_name o) p then op_ent_sw (sget s (op_name o)) o else sget s p.
Proof. intros. apply sget_set. Qed.

Lemma rem_nh_swap_noface : forall l f, has_face l f = false -> rem_nh_swap l f = l.
Proof.
  induction l as [|[g d] r IH]; intros f H; simpl in *; [reflexivity|].
  apply orb_false_iff in H. destruct H as [H1 H2]. rewrite H1. f_equal. apply IH. exact H2.
Qed.

Lemma under_spec : forall m v x, under m v x = true <-> (m <= length x /\ firstn m x = v).
Proof.
  intros. unfold under. rewrite andb_true_iff, Nat.leb_le, name_eqb_eq. reflexivity.
Qed.

(* ---------- invariant ---------- *)
Record HInv (m : nat) (h : ht) (s : spec) : Prop := {
  hi_nd_real : NoDup (keys (real h));
  hi_nd_virt : NoDup (keys (virt h));
  hi_nd_vn : NoDup (keys (vnames h));
  hi_real : forall p, get (real h) p = if ent_empty (sget s p) then None else Some (sget s p);
  hi_vn : forall v l, get (vnames h) v = Some l -> l <> [] /\ forall x, In x l <-> (live s x /\ under m v x = true);
  hi_vn_none : forall v x, get (vnames h) v = None -> live s x -> under m v x = false;
  hi_virt : forall v, get (virt h) v = option_map maxlen (get (vnames h) v)
}.

Lemma HInv_ext : forall m h s s', (forall p, sget s' p = sget s p) -> HInv m h s -> HInv m h s'.
Proof.
  intros m h s s' Heq I.
  assert (HL : forall x, live s' x <-> live s x) by (intro x; unfold live; rewrite Heq; reflexivity).
  constructor; try apply I.
  - intro p. rewrite Heq. apply (hi_real _ _ _ I).
  - intros v l H. destruct (hi_vn _ _ _ I v l H) as [H1 H2]. split; [exact H1|]. intro x. rewrite HL. apply H2.
  - intros v x H Hl. apply (hi_vn_none _ _ _ I v x H). apply HL. exact Hl.
Qed.

Lemma ht_init_inv : forall m, 1 <= m -> HInv m ht_init spec_init.
Proof.
  intros m Hm. constructor; cbn [ht_init real virt vnames keys map fst].
  - constructor; [intros [] | constructor].
  - constructor.
  - constructor.
  - intro p. unfold sget. simpl. destruct p; reflexivity.
  - intros v l H. discriminate.
  - intros v x _ Hl. unfold live, sget in Hl. simpl in Hl. destruct x; simpl in Hl; [|discriminate].
    unfold under. simpl. destruct m; [lia | reflexivity].
  - intro v. reflexivity.
Qed.

Lemma live_real : forall m h s p e, HInv m h s -> get (real h) p = Some e -> e = sget s p /\ live s p.
Proof.
  intros m h s p e I H. rewrite (hi_real _ _ _ I) in H. unfold live. destruct (ent_empty (sget s p)); [discriminate|].
  inversion H. split; reflexivity.
Qed.

(* ---------- growing step: insertEntryEnc followed by storing a live entry ---------- *)
Lemma ht_grow : forall m h s s' n e', HInv m h s ->
  ent_empty e' = false ->
  (forall p, sget s' p = if name_eqb n p then e' else sget s p) ->
  HInv m (ht_set_ent (ht_insert_entry m h n) n e') s'.
Proof.
  intros m h s s' n e' I Hlive Hs'.
  assert (HLn : live s' n) by (unfold live; rewrite Hs', name_eqb_refl; exact Hlive).
  assert (HLo : forall x, x <> n -> (live s' x <-> live s x)).
  { intros x Hx. unfold live. rewrite Hs'. apply not_eq_sym in Hx. apply name_eqb_neq in Hx. rewrite Hx. reflexivity. }
  assert (HL1 : forall x, live s' x <-> (x = n \/ live s x)).
  { intro x. destruct (name_eq_dec x n) as [->|Hx]; [split; [left; reflexivity | intros _; exact HLn]|].
    rewrite (HLo x Hx). split; [right; assumption | intros [H|H]; [contradiction | exact H]]. }
  assert (Hreal : forall r0, (forall p, get r0 p = if name_eqb n p then get r0 n else get (real h) p) ->
                  forall p, get (set r0 n e') p = if ent_empty (sget s' p) then None else Some (sget s' p)).
  { intros r0 Hr0 p. rewrite get_set, Hs'. destruct (name_eqb n p) eqn:Ep; [rewrite Hlive; reflexivity|].
    rewrite Hr0, Ep. apply (hi_real _ _ _ I). }
  set (real' := match get (real h) n with Some _ => real h | None => set (real h) n empty_ent end).
  assert (Hr' : forall p, get real' p = if name_eqb n p then get real' n else get (real h) p).
  { intro p. destruct (name_eqb n p) eqn:Ep; [apply name_eqb_eq in Ep; subst; reflexivity|].
    unfold real'. destruct (get (real h) n); [reflexivity|]. rewrite get_set, Ep. reflexivity. }
  assert (NDr : NoDup (keys (set real' n e'))).
  { apply NoDup_keys_set. unfold real'. destruct (get (real h) n); [|apply NoDup_keys_set]; apply (hi_nd_real _ _ _ I). }
  unfold ht_insert_entry, ht_set_ent. fold real'. destruct (Nat.ltb (length n) m) eqn:Hlt; cbn [real virt vnames].
  - (* shorter than m: no virtual bookkeeping *)
    apply Nat.ltb_lt in Hlt.
    assert (Hun : forall v, under m v n = false) by (intro v; unfold under; destruct (Nat.leb m (length n)) eqn:E; [apply Nat.leb_le in E; lia | reflexivity]).
    constructor; cbn [real virt vnames]; [exact NDr | apply I | apply I | apply Hreal; exact Hr' | | | apply I].
    + intros v l H. destruct (hi_vn _ _ _ I v l H) as [H1 H2]. split; [exact H1|]. intro x. rewrite H2, HL1.
      split; [intros [Ha Hb]; split; [right; exact Ha | exact Hb]|]. intros [[->|Ha] Hb]; [rewrite Hun in Hb; discriminate | split; assumption].
    + intros v x H Hl. apply HL1 in Hl. destruct Hl as [->|Hl]; [apply Hun | apply (hi_vn_none _ _ _ I v x H Hl)].
  - apply Nat.ltb_ge in Hlt. set (v0 := firstn m n).
    assert (Hun0 : under m v0 n = true) by (apply under_spec; split; [exact Hlt | reflexivity]).
    assert (Hunv : forall v, v <> v0 -> under m v n = false).
    { intros v Hv. destruct (under m v n) eqn:E; [|reflexivity]. apply under_spec in E. destruct E as [_ E]. exfalso. apply Hv. symmetry. exact E. }
    set (l0 := match get (vnames h) v0 with Some l => l | None => [] end).
    assert (Hl0 : forall x, In x l0 <-> (live s x /\ under m v0 x = true)).
    { intro x. unfold l0. destruct (get (vnames h) v0) as [l|] eqn:E.
      - apply (hi_vn _ _ _ I v0 l E).
      - split; [intros [] | intros [Ha Hb]; rewrite (hi_vn_none _ _ _ I v0 x E Ha) in Hb; discriminate]. }
    constructor; cbn [real virt vnames];
      [exact NDr | apply NoDup_keys_set; apply I | apply NoDup_keys_set; apply I | apply Hreal; exact Hr' | | |].
    + intros v l. rewrite get_set. destruct (name_eqb v0 v) eqn:Ev.
      * apply name_eqb_eq in Ev. subst v. intro H. inversion H; subst l. split.
        -- intro Hnil. assert (Hin : In n (nadd n l0)) by (apply In_nadd; left; reflexivity). rewrite Hnil in Hin. destruct Hin.
        -- intro x. rewrite In_nadd, Hl0, HL1. split.
           ++ intros [->|[Ha Hb]]; [split; [left; reflexivity | exact Hun0] | split; [right; exact Ha | exact Hb]].
           ++ intros [[->|Ha] Hb]; [left; reflexivity | right; split; assumption].
      * apply name_eqb_neq in Ev. intro H. destruct (hi_vn _ _ _ I v l H) as [H1 H2]. split; [exact H1|]. intro x. rewrite H2, HL1.
        split; [intros [Ha Hb]; split; [right; exact Ha | exact Hb]|].
        intros [[->|Ha] Hb]; [rewrite Hunv in Hb by congruence; discriminate | split; assumption].
    + intros v x. rewrite get_set. destruct (name_eqb v0 v) eqn:Ev; [discriminate|]. apply name_eqb_neq in Ev.
      intros H Hl. apply HL1 in Hl. destruct Hl as [->|Hl]; [apply Hunv; congruence | apply (hi_vn_none _ _ _ I v x H Hl)].
    + intro v. rewrite !get_set. destruct (name_eqb v0 v) eqn:Ev; [|apply I]. cbn [option_map]. f_equal.
      rewrite maxlen_nadd. pose proof (hi_virt _ _ _ I v0) as Hv. unfold l0. destruct (get (vnames h) v0) as [l|] eqn:E; simpl in Hv; rewrite Hv.
      * reflexivity.
      * unfold maxlen. simpl. lia.
Qed.

(* ---------- shrinking step: store the (possibly empty) entry, then pruneTables ---------- *)
Lemma ht_shrink : forall m h s s' n e e', HInv m h s ->
  get (real h) n = Some e ->
  (forall p, sget s' p = if name_eqb n p then e' else sget s p) ->
  HInv m (ht_prune m (ht_set_ent h n e') n) s'.
Proof.
  intros m h s s' n e e' I E Hs'.
  destruct (live_real _ _ _ _ _ I E) as [He Hln].
  assert (Hsn : sget s' n = e') by (rewrite Hs', name_eqb_refl; reflexivity).
  assert (HLo : forall x, x <> n -> (live s' x <-> live s x)).
  { intros x Hx. unfold live. rewrite Hs'. apply not_eq_sym in Hx. apply name_eqb_neq in Hx. rewrite Hx. reflexivity. }
  unfold ht_prune, ht_set_ent. cbn [real virt vnames]. rewrite get_set_same.
  destruct (ent_empty e') eqn:Hemp; cbn [negb].
  - (* the entry became empty: it leaves the real table, and the virtual bookkeeping follows *)
    assert (HL1 : forall x, live s' x <-> (x <> n /\ live s x)).
    { intro x. destruct (name_eq_dec x n) as [->|Hx].
      - unfold live at 1. rewrite Hsn, Hemp. split; [discriminate | intros [H _]; congruence].
      - rewrite (HLo x Hx). split; [intro H; split; assumption | intros [_ H]; exact H]. }
    assert (Hreal : forall p, get (del (set (real h) n e') n) p = if ent_empty (sget s' p) then None else Some (sget s' p)).
    { intro p. rewrite get_del, get_set, Hs'. destruct (name_eqb n p); [rewrite Hemp; reflexivity | apply (hi_real _ _ _ I)]. }
    assert (NDr : NoDup (keys (del (set (real h) n e') n))) by (apply NoDup_keys_del, NoDup_keys_set, I).
    destruct (Nat.ltb (length n) m) eqn:Hlt.
    + apply Nat.ltb_lt in Hlt.
      assert (Hun : forall v, under m v n = false) by (intro v; unfold under; destruct (Nat.leb m (length n)) eqn:E1; [apply Nat.leb_le in E1; lia | reflexivity]).
      constructor; cbn [real virt vnames]; [exact NDr | apply I | apply I | exact Hreal | | | apply I].
      * intros v l H. destruct (hi_vn _ _ _ I v l H) as [H1 H2]. split; [exact H1|]. intro x. rewrite H2, HL1.
        split; [|intros [[_ Ha] Hb]; split; assumption]. intros [Ha Hb]. split; [|exact Hb]. split; [|exact Ha].
        intro; subst x. rewrite Hun in Hb. discriminate.
      * intros v x H Hl. apply HL1 in Hl. apply (hi_vn_none _ _ _ I v x H). tauto.
    + apply Nat.ltb_ge in Hlt. set (v0 := firstn m n).
      assert (Hun0 : under m v0 n = true) by (apply under_spec; split; [exact Hlt | reflexivity]).
      assert (Hunv : forall v, v <> v0 -> under m v n = false).
      { intros v Hv. destruct (under m v n) eqn:E1; [|reflexivity]. apply under_spec in E1. destruct E1 as [_ E1]. exfalso. apply Hv. symmetry. exact E1. }
      pose proof (hi_virt _ _ _ I v0) as Hvirt0.
      destruct (get (vnames h) v0) as [l|] eqn:Evn.
      2:{ exfalso. rewrite (hi_vn_none _ _ _ I v0 n Evn Hln) in Hun0. discriminate. }
      simpl in Hvirt0. rewrite Hvirt0.
      destruct (hi_vn _ _ _ I v0 l Evn) as [Hlne Hl].
      assert (Hnl : nmem n l = true) by (apply nmem_In; apply Hl; split; assumption).
      rewrite Hnl.
      (* facts shared by both outcomes, for virtual names other than v0 *)
      assert (Hvn_other : forall v l1, v <> v0 -> get (vnames h) v = Some l1 ->
                l1 <> [] /\ forall x, In x l1 <-> (live s' x /\ under m v x = true)).
      { intros v l1 Hv H. destruct (hi_vn _ _ _ I v l1 H) as [H1 H2]. split; [exact H1|]. intro x. rewrite H2, HL1.
        split; [|intros [[_ Ha] Hb]; split; assumption]. intros [Ha Hb]. split; [|exact Hb]. split; [|exact Ha].
        intro; subst x. rewrite Hunv in Hb by exact Hv. discriminate. }
      assert (Hnone_other : forall v x, get (vnames h) v = None -> live s' x -> under m v x = false).
      { intros v x H Hl'. apply HL1 in Hl'. apply (hi_vn_none _ _ _ I v x H). tauto. }
      assert (Hin' : forall x, In x (nrem n l) <-> (live s' x /\ under m v0 x = true)).
      { intro x. rewrite In_nrem, Hl, HL1. tauto. }
      destruct (nrem n l) as [|y l'] eqn:El.
      * (* last real name under v0: both the name set and the virtual entry go *)
        rewrite get_del, name_eqb_refl.
        constructor; cbn [real virt vnames]; [exact NDr | apply NoDup_keys_del, I | apply NoDup_keys_del, I | exact Hreal | | |].
        -- intros v l1. rewrite get_del. destruct (name_eqb v0 v) eqn:Ev; [discriminate|]. apply name_eqb_neq in Ev.
           apply Hvn_other. congruence.
        -- intros v x. rewrite get_del. destruct (name_eqb v0 v) eqn:Ev.
           ++ apply name_eqb_eq in Ev. subst v. intros _ Hl'. destruct (under m v0 x) eqn:Eu; [|reflexivity].
              exfalso. apply (proj2 (Hin' x)). split; assumption.
           ++ apply Hnone_other.
        -- intro v. rewrite !get_del. destruct (name_eqb v0 v); [reflexivity | apply I].
      * rewrite get_set_same.
        assert (Hvn' : forall v l1, get (set (vnames h) v0 (y :: l')) v = Some l1 ->
                  l1 <> [] /\ forall x, In x l1 <-> (live s' x /\ under m v x = true)).
        { intros v l1. rewrite get_set. destruct (name_eqb v0 v) eqn:Ev.
          - apply name_eqb_eq in Ev. subst v. intro H. inversion H; subst l1. split; [discriminate | exact Hin'].
          - apply name_eqb_neq in Ev. apply Hvn_other. congruence. }
        assert (Hnone' : forall v x, get (set (vnames h) v0 (y :: l')) v = None -> live s' x -> under m v x = false).
        { intros v x. rewrite get_set. destruct (name_eqb v0 v); [discriminate | apply Hnone_other]. }
        destruct (Nat.eqb (length n) (maxlen l)) eqn:Emd.
        -- constructor; cbn [real virt vnames];
             [exact NDr | apply NoDup_keys_set, I | apply NoDup_keys_set, I | exact Hreal | exact Hvn' | exact Hnone' |].
           intro v. rewrite !get_set. destruct (name_eqb v0 v); [reflexivity | apply I].
        -- constructor; cbn [real virt vnames];
             [exact NDr | apply I | apply NoDup_keys_set, I | exact Hreal | exact Hvn' | exact Hnone' |].
           intro v. rewrite get_set. destruct (name_eqb v0 v) eqn:Ev; [|apply I].
           apply name_eqb_eq in Ev. subst v. rewrite (hi_virt _ _ _ I v0), Evn. cbn [option_map]. f_equal.
           rewrite <- El. symmetry. apply maxlen_nrem. apply Nat.eqb_neq in Emd.
           assert (length n <= maxlen l) by (apply maxlen_In; apply nmem_In; exact Hnl). lia.
  - (* still live: nothing is pruned *)
    assert (HL : forall x, live s' x <-> live s x).
    { intro x. destruct (name_eq_dec x n) as [->|Hx]; [|apply HLo; exact Hx].
      unfold live at 1. rewrite Hsn, Hemp. split; [intros _; exact Hln | reflexivity]. }
    constructor; cbn [real virt vnames]; [apply NoDup_keys_set, I | apply I | apply I | | | | apply I].
    + intro p. rewrite get_set, Hs'. destruct (name_eqb n p); [rewrite Hemp; reflexivity | apply (hi_real _ _ _ I)].
    + intros v l H. destruct (hi_vn _ _ _ I v l H) as [H1 H2]. split; [exact H1|]. intro x. rewrite HL. apply H2.
    + intros v x H Hl. apply (hi_vn_none _ _ _ I v x H). apply HL. exact Hl.
Qed.

(* ---------- one step ---------- *)
Lemma op_ent_sw_growing_live : forall e o, growing o = true -> ent_empty (op_ent_sw e o) = false.
Proof. intros e o H. destruct o; try discriminate; apply (growing_live e _ H). Qed.

Lemma op_ent_sw_empty : forall o, growing o = false -> op_ent_sw empty_ent o = empty_ent.
Proof. intros o H. destruct o; try discriminate; reflexivity. Qed.

Lemma real_get_ent : forall m h s n, HInv m h s ->
  match get (real h) n with Some e => e | None => empty_ent end = sget s n.
Proof.
  intros m h s n I. rewrite (hi_real _ _ _ I). destruct (ent_empty (sget s n)) eqn:E; [|reflexivity].
  symmetry. apply ent_empty_eq. exact E.
Qed.

Lemma insert_entry_get : forall m h n,
  match get (real (ht_insert_entry m h n)) n with Some e => e | None => empty_ent end =
  match get (real h) n with Some e => e | None => empty_ent end.
Proof.
  intros m h n. unfold ht_insert_entry.
  assert (H : match get (match get (real h) n with Some _ => real h | None => set (real h) n empty_ent end) n with Some e => e | None => empty_ent end
              = match get (real h) n with Some e => e | None => empty_ent end).
  { destruct (get (real h) n) eqn:E; [rewrite E; reflexivity | rewrite get_set_same; reflexivity]. }
  destruct (Nat.ltb (length n) m); cbn [real]; exact H.
Qed.

Theorem ht_step_inv : forall m h s o, HInv m h s -> HInv m (ht_step m h o) (spec_step_sw s o).
Proof.
  intros m h s o I.
  assert (Hgrow : growing o = true ->
            HInv m (ht_set_ent (ht_insert_entry m h (op_name o)) (op_name o) (op_ent_sw (sget s (op_name o)) o)) (spec_step_sw s o)).
  { intro Hg. eapply ht_grow; [exact I | apply op_ent_sw_growing_live; exact Hg | intro p; apply sget_step_sw]. }
  assert (Hshrink : forall e, get (real h) (op_name o) = Some e ->
            HInv m (ht_prune m (ht_set_ent h (op_name o) (op_ent_sw (sget s (op_name o)) o)) (op_name o)) (spec_step_sw s o)).
  { intros e E. eapply ht_shrink; [exact I | exact E | intro p; apply sget_step_sw]. }
  assert (Habsent : growing o = false -> get (real h) (op_name o) = None -> HInv m h (spec_step_sw s o)).
  { intros Hg E. eapply HInv_ext; [|exact I]. intro p. rewrite sget_step_sw.
    destruct (name_eqb (op_name o) p) eqn:Ep; [|reflexivity]. apply name_eqb_eq in Ep. subst p.
    rewrite <- (real_get_ent _ _ _ (op_name o) I), E. apply op_ent_sw_empty. exact Hg. }
  destruct o as [n f c|n|n f|n s'|n]; cbn [ht_step op_name] in *.
  - rewrite insert_entry_get, (real_get_ent _ _ _ n I). apply Hgrow. reflexivity.
  - destruct (get (real h) n) as [e|] eqn:E; [|apply Habsent; reflexivity].
    destruct (live_real _ _ _ _ _ I E) as [-> _]. apply (Hshrink _ eq_refl).
  - destruct (get (real h) n) as [e|] eqn:E; [|apply Habsent; reflexivity].
    destruct (live_real _ _ _ _ _ I E) as [-> _]. destruct (has_face (nhs (sget s n)) f) eqn:Hf; [apply (Hshrink _ eq_refl)|].
    eapply HInv_ext; [|exact I]. intro p. rewrite sget_step_sw. cbn [op_name op_ent_sw].
    destruct (name_eqb n p) eqn:Ep; [|reflexivity]. apply name_eqb_eq in Ep. subst p.
    rewrite rem_nh_swap_noface by exact Hf. destruct (sget s n); reflexivity.
  - rewrite insert_entry_get, (real_get_ent _ _ _ n I). apply Hgrow. reflexivity.
  - destruct (get (real h) n) as [e|] eqn:E; [|apply Habsent; reflexivity].
    destruct (live_real _ _ _ _ _ I E) as [-> _]. apply (Hshrink _ eq_refl).
Qed.

Lemma ht_run_inv_from : forall m ops h s, HInv m h s -> HInv m (fold_left (ht_step m) ops h) (fold_left spec_step_sw ops s).
Proof. intros m. induction ops as [|o ops IH]; intros h s I; simpl; [exact I|]. apply IH. apply ht_step_inv. exact I. Qed.

Theorem ht_run_inv : forall m ops, 1 <= m -> HInv m (run_ht m ops) (run_spec_sw ops).
Proof. intros m ops Hm. apply ht_run_inv_from. apply ht_init_inv. exact Hm. Qed.

(* ---------- lookups ---------- *)
Lemma scan_real_skip : forall (r : amap fent) n k1 k2, k1 <= k2 ->
  (forall j, k1 < j <= k2 -> get r (firstn j n) = None) -> scan_real r n k2 = scan_real r n k1.
Proof.
  intros r n k1 k2 Hle. induction Hle as [|k2 Hle IH]; intro H; [reflexivity|].
  cbn [scan_real]. rewrite (H (S k2)) by lia. apply IH. intros j Hj. apply H. lia.
Qed.

Lemma scan_above_split : forall (r : amap fent) n lo k, lo <= k ->
  scan_real r n k = match scan_above r n lo k with Some j => Some j | None => scan_real r n lo end.
Proof.
  intros r n lo. induction k as [|k IH]; intro H.
  - assert (lo = 0) by lia. subst. reflexivity.
  - cbn [scan_above]. destruct (Nat.leb (S k) lo) eqn:E.
    + apply Nat.leb_le in E. assert (lo = S k) by lia. subst. reflexivity.
    + apply Nat.leb_gt in E. cbn [scan_real]. destruct (get r (firstn (S k) n)); [reflexivity|]. apply IH. lia.
Qed.

Lemma scan_real_Some : forall (r : amap fent) n k j, scan_real r n k = Some j ->
  j <= k /\ get r (firstn j n) <> None /\ forall i, j < i <= k -> get r (firstn i n) = None.
Proof.
  intros r n. induction k as [|k IH]; intros j H; cbn [scan_real] in H.
  - destruct (get r (firstn 0 n)) eqn:E; [|discriminate]. inversion H; subst. split; [lia|]. split; [congruence | intros; lia].
  - destruct (get r (firstn (S k) n)) eqn:E.
    + inversion H; subst. split; [lia|]. split; [congruence | intros; lia].
    + apply IH in H. destruct H as [H1 [H2 H3]]. split; [lia|]. split; [exact H2|]. intros i Hi.
      destruct (Nat.eq_dec i (S k)) as [->|]; [exact E | apply H3; lia].
Qed.

Lemma scan_real_None : forall (r : amap fent) n k, scan_real r n k = None -> forall j, j <= k -> get r (firstn j n) = None.
Proof.
  intros r n. induction k as [|k IH]; intros H j Hj; cbn [scan_real] in H.
  - destruct (get r (firstn 0 n)) eqn:E; [discriminate|]. assert (j = 0) by lia. subst. exact E.
  - destruct (get r (firstn (S k) n)) eqn:E; [discriminate|]. destruct (Nat.eq_dec j (S k)) as [->|]; [exact E | apply IH; [exact H | lia]].
Qed.

(* the virtual-node shortcut finds the same entry as a scan over every prefix length *)
Lemma ht_lpm_full : forall m h s n, 1 <= m -> HInv m h s -> ht_lpm m h n = scan_real (real h) n (length n).
Proof.
  intros m h s n Hm I. unfold ht_lpm. destruct (Nat.leb (length n) m) eqn:Hlen; [reflexivity|].
  apply Nat.leb_gt in Hlen. set (v0 := firstn m n).
  assert (Hund : forall j, m <= j -> j <= length n -> under m v0 (firstn j n) = true).
  { intros j H1 H2. apply under_spec. rewrite length_firstn_le by exact H2. split; [exact H1|]. apply firstn_firstn_le. exact H1. }
  assert (Hlive : forall j, get (real h) (firstn j n) <> None -> live s (firstn j n)).
  { intros j H. rewrite (hi_real _ _ _ I) in H. unfold live. destruct (ent_empty (sget s (firstn j n))); congruence. }
  rewrite (hi_virt _ _ _ I v0). destruct (get (vnames h) v0) as [l|] eqn:Evn; cbn [option_map].
  - destruct (hi_vn _ _ _ I v0 l Evn) as [Hlne Hl].
    assert (Hmd : m <= maxlen l).
    { destruct l as [|x l']; [congruence|]. assert (Hx : In x (x :: l')) by (left; reflexivity).
      pose proof (maxlen_In _ _ Hx). apply Hl in Hx. destruct Hx as [_ Hx]. apply under_spec in Hx. lia. }
    set (k0 := Nat.min (maxlen l) (length n)).
    assert (Hk0 : k0 <= length n) by (unfold k0; lia).
    assert (Habove : forall j, k0 < j <= length n -> get (real h) (firstn j n) = None).
    { intros j Hj. destruct (get (real h) (firstn j n)) eqn:E; [|reflexivity]. exfalso.
      assert (Hin : In (firstn j n) l) by (apply Hl; split; [apply Hlive; congruence | apply Hund; unfold k0 in Hj; lia]).
      apply maxlen_In in Hin. rewrite length_firstn_le in Hin by lia. unfold k0 in Hj. lia. }
    rewrite (scan_real_skip (real h) n k0 (length n) Hk0 Habove).
    symmetry. apply scan_above_split. unfold k0. lia.
  - symmetry. apply scan_real_skip; [lia|]. intros j Hj. destruct (get (real h) (firstn j n)) eqn:E; [|reflexivity]. exfalso.
    assert (Hu : under m v0 (firstn j n) = false) by (apply (hi_vn_none _ _ _ I v0 _ Evn); apply Hlive; congruence).
    rewrite Hund in Hu by lia. discriminate.
Qed.

Lemma hsel_nh_spec : forall m h s p, HInv m h s -> tsel_nh (real h) p = sel_nh s p.
Proof.
  intros m h s p I. unfold tsel_nh, sel_nh. rewrite <- (real_get_ent _ _ _ p I). destruct (get (real h) p); reflexivity.
Qed.

Lemma hsel_strat_spec : forall m h s p, HInv m h s -> tsel_strat (real h) p = sel_strat s p.
Proof.
  intros m h s p I. unfold tsel_strat, sel_strat. rewrite <- (real_get_ent _ _ _ p I). destruct (get (real h) p); reflexivity.
Qed.

Lemma ht_lookup_lpm : forall (A : Type) (tsel ssel : name -> option A) (r : amap fent) n,
  (forall p, tsel p = ssel p) -> (forall p, get r p = None -> ssel p = None) ->
  match scan_real r n (length n) with Some k => lpm tsel n k | None => None end = lpm ssel n (length n).
Proof.
  intros A tsel ssel r n Heq Hnone. destruct (scan_real r n (length n)) as [k|] eqn:E.
  - apply scan_real_Some in E. destruct E as [H1 [_ H3]]. rewrite (lpm_skip ssel n k (length n) H1).
    + apply lpm_ext. intros j _. apply Heq.
    + intros j Hj. apply Hnone. apply H3. exact Hj.
  - symmetry. apply lpm_None. intros j Hj. apply Hnone. eapply scan_real_None; eassumption.
Qed.

Theorem ht_refines_inv : forall m h s n, 1 <= m -> HInv m h s ->
  ht_find_nh m h n = spec_find_nh s n /\ ht_find_strat m h n = spec_find_strat s n.
Proof.
  intros m h s n Hm I. unfold ht_find_nh, ht_find_strat, spec_find_nh, spec_find_strat.
  rewrite (ht_lpm_full _ _ _ _ Hm I). split.
  - rewrite <- (ht_lookup_lpm _ (tsel_nh (real h)) (sel_nh s) (real h) n).
    + destruct (scan_real (real h) n (length n)); [apply walk_nh_lpm | reflexivity].
    + intro p. apply (hsel_nh_spec _ _ _ _ I).
    + intros p H. rewrite <- (hsel_nh_spec _ _ _ _ I). unfold tsel_nh. rewrite H. reflexivity.
  - rewrite <- (ht_lookup_lpm _ (tsel_strat (real h)) (sel_strat s) (real h) n).
    + destruct (scan_real (real h) n (length n)); [apply walk_strat_lpm | reflexivity].
    + intro p. apply (hsel_strat_spec _ _ _ _ I).
    + intros p H. rewrite <- (hsel_strat_spec _ _ _ _ I). unfold tsel_strat. rewrite H. reflexivity.
Qed.

(* ---------- next-hop lists as finite maps: the hash table's removal order does not matter ---------- *)
Definition faces (l : list nexthop) : list N := map fst l.

Lemma has_face_In : forall l f, has_face l f = true <-> In f (faces l).
Proof.
  intros l f. unfold has_face, faces. rewrite existsb_exists, in_map_iff. split.
  - intros [x [H1 H2]]. apply N.eqb_eq in H2. exists x. split; assumption.
  - intros [x [H1 H2]]. exists x. split; [exact H2 | apply N.eqb_eq; exact H1].
Qed.

Lemma faces_upd : forall l f c, faces (upd_nh l f c) = if has_face l f then faces l else faces l ++ [f].
Proof.
  induction l as [|[g d] r IH]; intros f c; simpl; [reflexivity|].
  destruct (N.eqb g f) eqn:E; simpl; [reflexivity|]. rewrite IH. destruct (has_face r f); reflexivity.
Qed.

Lemma upd_nh_nodup : forall l f c, NoDup (faces l) -> NoDup (faces (upd_nh l f c)).
Proof.
  intros l f c H. rewrite faces_upd. destruct (has_face l f) eqn:E; [exact H|].
  apply NoDup_app_snoc; [exact H|]. intro Hin. apply has_face_In in Hin. congruence.
Qed.

Lemma upd_nh_In : forall l f c g d, NoDup (faces l) ->
  (In (g, d) (upd_nh l f c) <-> ((g, d) = (f, c) \/ (g <> f /\ In (g, d) l))).
Proof.
  induction l as [|[g0 d0] r IH]; intros f c g d ND; simpl.
  - split; [intros [H|[]]; left; symmetry; exact H | intros [H|[_ []]]; left; symmetry; exact H].
  - simpl in ND. inversion ND as [|? ? Hn ND']; subst. destruct (N.eqb g0 f) eqn:E.
    + apply N.eqb_eq in E. subst g0. simpl. split.
      * intros [H|H]; [left; symmetry; exact H|]. right. split; [|right; exact H].
        intro; subst g. apply Hn. apply (in_map fst) in H. exact H.
      * intros [H|[H1 [H2|H2]]]; [left; symmetry; exact H | inversion H2; congruence | right; exact H2].
    + apply N.eqb_neq in E. simpl. rewrite (IH f c g d ND'). split.
      * intros [H|[H|[H1 H2]]]; [|left; exact H | right; split; [exact H1 | right; exact H2]].
        inversion H; subst. right. split; [exact E | left; reflexivity].
      * intros [H|[H1 [H2|H2]]]; [right; left; exact H | left; exact H2 | right; right; split; assumption].
Qed.

Lemma rem_nh_In : forall l f g d, NoDup (faces l) -> (In (g, d) (rem_nh l f) <-> (g <> f /\ In (g, d) l)).
Proof.
  induction l as [|[g0 d0] r IH]; intros f g d ND; simpl; [tauto|].
  simpl in ND. inversion ND as [|? ? Hn ND']; subst. destruct (N.eqb g0 f) eqn:E.
  - apply N.eqb_eq in E. subst g0. split.
    + intro H. split; [|right; exact H]. intro; subst g. apply Hn. apply (in_map fst) in H. exact H.
    + intros [H1 [H2|H2]]; [inversion H2; congruence | exact H2].
  - apply N.eqb_neq in E. simpl. rewrite (IH f g d ND'). split.
    + intros [H|[H1 H2]]; [inversion H; subst; split; [exact E | left; reflexivity] | split; [exact H1 | right; exact H2]].
    + intros [H1 [H2|H2]]; [left; exact H2 | right; split; assumption].
Qed.

Lemma rem_nh_faces_incl : forall l f x, In x (faces (rem_nh l f)) -> In x (faces l).
Proof.
  induction l as [|[g0 d0] r IH]; intros f x H; simpl in *; [exact H|].
  destruct (N.eqb g0 f); [right; exact H|]. simpl in H. destruct H as [H|H]; [left; exact H | right; eapply IH; exact H].
Qed.

Lemma rem_nh_nodup : forall l f, NoDup (faces l) -> NoDup (faces (rem_nh l f)).
Proof.
  induction l as [|[g0 d0] r IH]; intros f ND; simpl; [constructor|].
  simpl in ND. inversion ND as [|? ? Hn ND']; subst. destruct (N.eqb g0 f); [exact ND'|].
  simpl. constructor; [|apply IH; exact ND']. intro H. apply Hn. eapply rem_nh_faces_incl. exact H.
Qed.

Lemma last_removelast_perm : forall (X : Type) (r : list X) d, r <> [] -> Permutation (last r d :: removelast r) r.
Proof.
  intros X r d H. rewrite (app_removelast_last d H) at 3. apply Permutation_cons_append.
Qed.

Lemma rem_nh_swap_perm : forall l f, NoDup (faces l) -> Permutation (rem_nh_swap l f) (rem_nh l f).
Proof.
  induction l as [|[g0 d0] r IH]; intros f ND; simpl; [constructor|].
  simpl in ND. inversion ND as [|? ? Hn ND']; subst. destruct (N.eqb g0 f).
  - destruct r as [|y r']; [constructor|]. apply last_removelast_perm. discriminate.
  - constructor. apply IH. exact ND'.
Qed.

(* two entries agree as finite maps *)
Definition eqv (e1 e2 : fent) : Prop :=
  strat e1 = strat e2 /\ NoDup (faces (nhs e1)) /\ NoDup (faces (nhs e2)) /\ Permutation (nhs e1) (nhs e2).

Lemma eqv_refl_nodup : forall e, NoDup (faces (nhs e)) -> eqv e e.
Proof. intros e H. repeat split; try assumption. apply Permutation_refl. Qed.

Lemma perm_faces : forall l1 l2, Permutation l1 l2 -> Permutation (faces l1) (faces l2).
Proof. intros. apply Permutation_map. assumption. Qed.

Lemma perm_has_face : forall l1 l2 f, Permutation l1 l2 -> has_face l1 f = has_face l2 f.
Proof.
  intros l1 l2 f H. destruct (has_face l1 f) eqn:E1; destruct (has_face l2 f) eqn:E2; try reflexivity; exfalso.
  - apply has_face_In in E1. apply (Permutation_in _ (perm_faces _ _ H)) in E1. apply has_face_In in E1. congruence.
  - apply has_face_In in E2. apply (Permutation_in _ (Permutation_sym (perm_faces _ _ H))) in E2. apply has_face_In in E2. congruence.
Qed.

Lemma NoDup_faces_NoDup : forall l, NoDup (faces l) -> NoDup l.
Proof. intros l H. eapply NoDup_map_inv. exact H. Qed.

Lemma perm_upd : forall l1 l2 f c, NoDup (faces l1) -> NoDup (faces l2) -> Permutation l1 l2 ->
  Permutation (upd_nh l1 f c) (upd_nh l2 f c).
Proof.
  intros l1 l2 f c N1 N2 P. apply NoDup_Permutation.
  - apply NoDup_faces_NoDup, upd_nh_nodup, N1.
  - apply NoDup_faces_NoDup, upd_nh_nodup, N2.
  - intros [g d]. rewrite (upd_nh_In l1 f c g d N1), (upd_nh_In l2 f c g d N2).
    split; (intros [H|[H1 H2]]; [left; exact H | right; split; [exact H1|]]).
    + eapply Permutation_in; eassumption.
    + eapply Permutation_in; [apply Permutation_sym; eassumption | exact H2].
Qed.

Lemma perm_rem : forall l1 l2 f, NoDup (faces l1) -> NoDup (faces l2) -> Permutation l1 l2 ->
  Permutation (rem_nh l1 f) (rem_nh l2 f).
Proof.
  intros l1 l2 f N1 N2 P. apply NoDup_Permutation.
  - apply NoDup_faces_NoDup, rem_nh_nodup, N1.
  - apply NoDup_faces_NoDup, rem_nh_nodup, N2.
  - intros [g d]. rewrite (rem_nh_In l1 f g d N1), (rem_nh_In l2 f g d N2).
    split; (intros [H1 H2]; split; [exact H1|]).
    + eapply Permutation_in; eassumption.
    + eapply Permutation_in; [apply Permutation_sym; eassumption | exact H2].
Qed.

Lemma eqv_step : forall e1 e2 o, eqv e1 e2 -> eqv (op_ent_sw e1 o) (op_ent e2 o).
Proof.
  intros e1 e2 o [Hs [N1 [N2 P]]]. destruct o; unfold eqv; cbn [op_ent_sw op_ent nhs strat].
  - split; [exact Hs|]. split; [apply upd_nh_nodup, N1|]. split; [apply upd_nh_nodup, N2 | apply perm_upd; assumption].
  - split; [exact Hs|]. split; [constructor|]. split; [constructor | constructor].
  - split; [exact Hs|]. assert (Pa : Permutation (rem_nh_swap (nhs e1) f) (rem_nh (nhs e1) f)) by (apply rem_nh_swap_perm, N1).
    split; [|split; [apply rem_nh_nodup, N2|]].
    + eapply Permutation_NoDup; [apply Permutation_sym, perm_faces, Pa | apply rem_nh_nodup, N1].
    + eapply Permutation_trans; [exact Pa | apply perm_rem; assumption].
  - split; [reflexivity|]. split; [exact N1|]. split; [exact N2 | exact P].
  - split; [reflexivity|]. split; [exact N1|]. split; [exact N2 | exact P].
Qed.

Lemma eqv_run_from : forall ops s1 s2, (forall p, eqv (sget s1 p) (sget s2 p)) ->
  forall p, eqv (sget (fold_left spec_step_sw ops s1) p) (sget (fold_left spec_step ops s2) p).
Proof.
  induction ops as [|o ops IH]; intros s1 s2 H; simpl; [exact H|]. apply IH. intro p.
  rewrite sget_step_sw, sget_step. destruct (name_eqb (op_name o) p); [apply eqv_step; apply H | apply H].
Qed.

Lemma eqv_run : forall ops p, eqv (sget (run_spec_sw ops) p) (sget (run_spec ops) p).
Proof.
  intros ops p. apply eqv_run_from. intro q. apply eqv_refl_nodup. unfold sget. simpl. destruct q; simpl; constructor.
Qed.

Lemma perm_nil_iff : forall (X : Type) (l1 l2 : list X), Permutation l1 l2 -> (l1 = [] <-> l2 = []).
Proof.
  intros X l1 l2 P. split; intro; subst; [apply Permutation_nil; exact P | apply Permutation_nil; apply Permutation_sym; exact P].
Qed.

Lemma lpm_rel : forall (A : Type) (R : A -> A -> Prop) (sel1 sel2 : name -> option A) n k,
  (forall p, match sel1 p, sel2 p with Some a, Some b => R a b | None, None => True | _, _ => False end) ->
  match lpm sel1 n k, lpm sel2 n k with Some a, Some b => R a b | None, None => True | _, _ => False end.
Proof.
  intros A R sel1 sel2 n. induction k as [|k IH]; intro H; cbn [lpm].
  - specialize (H (firstn 0 n)). destruct (sel1 (firstn 0 n)), (sel2 (firstn 0 n)); exact H.
  - pose proof (H (firstn (S k) n)) as H1. destruct (sel1 (firstn (S k) n)), (sel2 (firstn (S k) n)); try exact H1; try contradiction. apply IH. exact H.
Qed.

Lemma spec_equiv_find : forall s1 s2 n, (forall p, eqv (sget s1 p) (sget s2 p)) ->
  Permutation (spec_find_nh s1 n) (spec_find_nh s2 n) /\ spec_find_strat s1 n = spec_find_strat s2 n.
Proof.
  intros s1 s2 n H. split.
  - unfold spec_find_nh.
    pose proof (lpm_rel _ (@Permutation nexthop) (sel_nh s1) (sel_nh s2) n (length n)) as L.
    destruct (lpm (sel_nh s1) n (length n)), (lpm (sel_nh s2) n (length n)); try (exfalso; apply L); try apply L; try constructor;
      intro p; unfold sel_nh; destruct (H p) as [_ [_ [_ P]]]; pose proof (perm_nil_iff _ _ _ P) as Hn;
      destruct (nhs (sget s1 p)), (nhs (sget s2 p)); try exact I; try exact P; try (destruct Hn as [Hn1 Hn2]; first [discriminate (Hn1 eq_refl) | discriminate (Hn2 eq_refl)]).
  - unfold spec_find_strat. apply lpm_ext. intros j _. unfold sel_strat. destruct (H (firstn j n)) as [Hs _]. exact Hs.
Qed.

(* ---------- main theorems for the hash table ---------- *)
Theorem ht_refines : forall m ops n, 1 <= m ->
  Permutation (ht_find_nh m (run_ht m ops) n) (spec_find_nh (run_spec ops) n) /\
  ht_find_strat m (run_ht m ops) n = spec_find_strat (run_spec ops) n.
Proof.
  intros m ops n Hm. destruct (ht_refines_inv m _ _ n Hm (ht_run_inv m ops Hm)) as [H1 H2].
  destruct (spec_equiv_find (run_spec_sw ops) (run_spec ops) n (eqv_run ops)) as [H3 H4].
  rewrite H1, H2. split; assumption.
Qed.

Lemma live_real_get : forall m h s p, HInv m h s -> live s p -> get (real h) p = Some (sget s p).
Proof. intros m h s p I Hl. rewrite (hi_real _ _ _ I). unfold live in Hl. rewrite Hl. reflexivity. Qed.

Theorem ht_listing_inv : forall m h s, HInv m h s ->
  (forall p l, In (p, l) (list_fib (real h)) <-> (l = nhs (sget s p) /\ l <> [])) /\
  NoDup (map fst (list_fib (real h))) /\
  (forall p x, In (p, x) (list_strat (real h)) <-> strat (sget s p) = Some x).
Proof.
  intros m h s I. pose proof (hi_nd_real _ _ _ I) as ND. split; [|split].
  - intros p l. unfold list_fib. rewrite in_map_iff. split.
    + intros [[k e] [H1 H2]]. simpl in H1. inversion H1; subst. apply filter_In in H2. destruct H2 as [H2 H3]. simpl in H3.
      apply In_amap_get in H2; [|exact ND]. apply (live_real _ _ _ _ _ I) in H2. destruct H2 as [-> _]. split; [reflexivity|].
      unfold has_nh in H3. destruct (nhs (sget s p)); discriminate.
    + intros [H1 H2]. exists (p, sget s p). split; [simpl; rewrite H1; reflexivity|]. apply filter_In. split.
      * apply get_In. apply (live_real_get _ _ _ _ I). unfold live, ent_empty. subst l. destruct (nhs (sget s p)); [congruence | reflexivity].
      * simpl. unfold has_nh. subst l. destruct (nhs (sget s p)); [congruence | reflexivity].
  - unfold list_fib. rewrite map_map. simpl. apply NoDup_map_fst_filter. exact ND.
  - intros p x. unfold list_strat. rewrite in_flat_map. split.
    + intros [[k e] [H1 H2]]. simpl in H2. apply In_amap_get in H1; [|exact ND]. apply (live_real _ _ _ _ _ I) in H1. destruct H1 as [-> _].
      destruct (strat (sget s k)) eqn:E; [|contradiction]. destruct H2 as [H2|[]]. inversion H2; subst. exact E.
    + intro H. exists (p, sget s p). split.
      * apply get_In. apply (live_real_get _ _ _ _ I). unfold live, ent_empty. rewrite H. destruct (nhs (sget s p)); reflexivity.
      * simpl. rewrite H. left. reflexivity.
Qed.

Lemma maxlen_ext : forall l1 l2, (forall x, In x l1 <-> In x l2) -> maxlen l1 = maxlen l2.
Proof.
  intros l1 l2 H. apply Nat.le_antisymm; apply maxlen_le; intros x Hx; apply maxlen_In; apply H; exact Hx.
Qed.

Theorem ht_minimal_inv : forall m h s, HInv m h s -> ht_minimal_b m h = true.
Proof.
  intros m h s I. pose proof (hi_nd_real _ _ _ I) as ND. unfold ht_minimal_b. rewrite !andb_true_iff. split; [split|].
  - apply forallb_forall. intros [p e] Hin. simpl. apply In_amap_get in Hin; [|exact ND].
    destruct (live_real _ _ _ _ _ I Hin) as [-> Hl]. unfold live in Hl. rewrite Hl. reflexivity.
  - apply forallb_forall. intros [v md] Hin. cbn [fst snd]. apply In_amap_get in Hin; [|apply I].
    rewrite (hi_virt _ _ _ I v) in Hin. destruct (get (vnames h) v) as [l|] eqn:Evn; [|discriminate]. simpl in Hin. inversion Hin; subst md.
    destruct (hi_vn _ _ _ I v l Evn) as [Hlne Hl]. rewrite !andb_true_iff. split; [split|].
    + destruct l as [|x l']; [congruence|]. assert (Hx : In x (x :: l')) by (left; reflexivity). apply Hl in Hx. destruct Hx as [Hx1 Hx2].
      apply existsb_exists. exists (x, sget s x). split; [apply get_In, (live_real_get _ _ _ _ I), Hx1 | exact Hx2].
    + apply Nat.eqb_eq. apply maxlen_ext. intro x. rewrite Hl. rewrite in_map_iff. split.
      * intros [Hx1 Hx2]. exists (x, sget s x). split; [reflexivity|]. apply filter_In. split; [apply get_In, (live_real_get _ _ _ _ I), Hx1 | exact Hx2].
      * intros [[k e] [H1 H2]]. simpl in H1. subst k. apply filter_In in H2. destruct H2 as [H2 H3]. simpl in H3.
        apply In_amap_get in H2; [|exact ND]. destruct (live_real _ _ _ _ _ I H2) as [_ H4]. split; assumption.
    + unfold mem. rewrite Evn. reflexivity.
  - apply forallb_forall. intros [v l] Hin. cbn [fst snd]. apply In_amap_get in Hin; [|apply I].
    destruct (hi_vn _ _ _ I v l Hin) as [Hlne Hl]. rewrite !andb_true_iff. split; [split|].
    + unfold mem. rewrite (hi_virt _ _ _ I v), Hin. reflexivity.
    + destruct l; [congruence | reflexivity].
    + apply forallb_forall. intros x Hx. apply Hl in Hx. destruct Hx as [Hx1 Hx2]. rewrite Hx2. unfold mem.
      rewrite (live_real_get _ _ _ _ I Hx1). reflexivity.
Qed.

Theorem ht_listing : forall m ops, 1 <= m ->
  let h := run_ht m ops in let s := run_spec ops in
  (forall p l, In (p, l) (list_fib (real h)) -> Permutation l (nhs (sget s p)) /\ l <> []) /\
  (forall p, nhs (sget s p) <> [] -> exists l, In (p, l) (list_fib (real h))) /\
  NoDup (map fst (list_fib (real h))) /\
  (forall p x, In (p, x) (list_strat (real h)) <-> strat (sget s p) = Some x).
Proof.
  intros m ops Hm h s. destruct (ht_listing_inv m h (run_spec_sw ops) (ht_run_inv m ops Hm)) as [H1 [H2 H3]].
  split; [|split; [|split]].
  - intros p l Hin. apply H1 in Hin. destruct Hin as [-> Hne]. split; [|exact Hne]. destruct (eqv_run ops p) as [_ [_ [_ P]]]. exact P.
  - intros p Hne. exists (nhs (sget (run_spec_sw ops) p)). apply H1. split; [reflexivity|].
    destruct (eqv_run ops p) as [_ [_ [_ P]]]. intro E. apply Hne. apply (perm_nil_iff _ _ _ P). exact E.
  - exact H2.
  - intros p x. rewrite H3. destruct (eqv_run ops p) as [Hs _]. unfold s. rewrite Hs. reflexivity.
Qed.
