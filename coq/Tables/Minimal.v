(* Tables/Minimal.v — table part of C08: the FIB name tree, the hash-table FIB's three tables and the RIB tree hold
   nothing beyond what their live entries require, after every history. *)
From Tables Require Import ModelAssoc ModelTree ModelFib ModelRib Assoc Tree Lpm FibTree FibHash Rib.
From Coq Require Import Lia Permutation.
Local Open Scope nat_scope.

(* an entry is live if it has next hops or a strategy *)
Definition has_payload (s : spec) (w : name) : Prop := nhs (sget s w) <> [] \/ strat (sget s w) <> None.

Lemma live_payload : forall s w, live s w <-> has_payload s w.
Proof.
  intros s w. unfold live, has_payload, ent_empty. destruct (nhs (sget s w)); [destruct (strat (sget s w))|]; split; intro H;
    try reflexivity; try discriminate; try (left; discriminate); try (right; discriminate).
  destruct H as [H|H]; congruence.
Qed.

Theorem fib_tree_minimal_thm : forall ops,
  let t := run_tree ops in let s := run_spec ops in
  (forall p, mem (nodes t) p = true <-> (p = [] \/ exists w, is_prefix p w = true /\ has_payload s w)) /\
  (forall p, In p (pfx t) <-> nhs (sget s p) <> []) /\ NoDup (pfx t) /\ NoDup (keys (nodes t)) /\
  tree_minimal_b t = true.
Proof.
  intros ops t s. pose proof (tree_run_inv ops) as I. fold t s in I. split; [|split; [|split; [|split]]].
  - intro p. rewrite (ti_nodes _ _ I). unfold inC. split; (intros [H|[w [H1 H2]]]; [left; exact H | right; exists w; split; [exact H1 | apply live_payload; exact H2]]).
  - intro p. rewrite (ti_pfx _ _ I). unfold has_nh. destruct (nhs (sget s p)); split; intro H; congruence.
  - apply I.
  - apply I.
  - eapply tree_minimal_inv. exact I.
Qed.

Lemma eqv_empty : forall e1 e2, eqv e1 e2 -> ent_empty e1 = ent_empty e2.
Proof.
  intros e1 e2 [Hs [_ [_ P]]]. unfold ent_empty. rewrite Hs. pose proof (perm_nil_iff _ _ _ P) as [H1 H2].
  destruct (nhs e1), (nhs e2); try reflexivity; [discriminate (H1 eq_refl) | discriminate (H2 eq_refl)].
Qed.

Theorem fib_ht_minimal_thm : forall m ops, 1 <= m ->
  let h := run_ht m ops in let s := run_spec ops in
  (* the real table holds exactly the live names *)
  (forall p, mem (real h) p = true <-> has_payload s p) /\
  (* a virtual entry exists exactly for the m-prefixes of live names of length >= m, md is their exact maximum length *)
  (forall v, mem (virt h) v = true <-> exists x, has_payload s x /\ under m v x = true) /\
  (forall v md, get (virt h) v = Some md ->
     (forall x, has_payload s x -> under m v x = true -> length x <= md) /\
     (exists x, has_payload s x /\ under m v x = true /\ length x = md)) /\
  (* the virtual-name sets hold exactly those live names *)
  (forall v l, get (vnames h) v = Some l -> forall x, In x l <-> (has_payload s x /\ under m v x = true)) /\
  (forall v, mem (vnames h) v = mem (virt h) v) /\
  ht_minimal_b m h = true.
Proof.
  intros m ops Hm h s. pose proof (ht_run_inv m ops Hm) as I. fold h in I.
  assert (HL : forall x, live (run_spec_sw ops) x <-> has_payload s x).
  { intro x. rewrite <- live_payload. unfold live. rewrite (eqv_empty _ _ (eqv_run ops x)). reflexivity. }
  assert (Hvirt : forall v, get (virt h) v = option_map maxlen (get (vnames h) v)) by apply I.
  split; [|split; [|split; [|split; [|split]]]].
  - intro p. rewrite <- HL. unfold mem. rewrite (hi_real _ _ _ I). unfold live. destruct (ent_empty (sget (run_spec_sw ops) p)); split; congruence.
  - intro v. unfold mem. rewrite Hvirt. destruct (get (vnames h) v) as [l|] eqn:E; cbn [option_map].
    + destruct (hi_vn _ _ _ I v l E) as [Hne Hl]. split; [intros _|reflexivity]. destruct l as [|x l']; [congruence|].
      exists x. rewrite <- HL. apply Hl. left. reflexivity.
    + split; [discriminate|]. intros [x [H1 H2]]. apply HL in H1. rewrite (hi_vn_none _ _ _ I v x E H1) in H2. discriminate.
  - intros v md H. rewrite Hvirt in H. destruct (get (vnames h) v) as [l|] eqn:E; [|discriminate]. cbn [option_map] in H. inversion H; subst md.
    destruct (hi_vn _ _ _ I v l E) as [Hne Hl]. split.
    + intros x H1 H2. apply maxlen_In. apply Hl. split; [apply HL; exact H1 | exact H2].
    + destruct (maxlen_witness l Hne) as [x [Hx1 Hx2]]. apply Hl in Hx1. destruct Hx1 as [H1 H2]. exists x. split; [apply HL; exact H1 | split; assumption].
  - intros v l E x. destruct (hi_vn _ _ _ I v l E) as [_ Hl]. rewrite Hl, HL. reflexivity.
  - intro v. unfold mem. rewrite Hvirt. destruct (get (vnames h) v); reflexivity.
  - eapply ht_minimal_inv. exact I.
Qed.
