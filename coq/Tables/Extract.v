(* Tables/Extract.v — extraction of the executable table models for the correspondence runner.
   ExtrOcamlBasic only: bool, option, unit, list, prod, sumbool, sumor -> OCaml natives; N/positive/nat stay Coq datatypes. *)
From Coq Require Import Extraction ExtrOcamlBasic.
From Tables Require Import ModelAssoc ModelTree ModelFib ModelRib ModelFace.
Extraction Language OCaml.
Extraction "tables_model.ml"
  tree_init tree_step tree_find_nh tree_find_strat list_fib list_strat tree_minimal_b
  ht_init ht_step ht_find_nh ht_find_strat ht_minimal_b
  expand_bop
  spec_init spec_step spec_find_nh spec_find_strat spec_list_fib spec_list_strat
  rib_init rib_step list_rib rib_minimal_b rspec_step rget fib_want want_lookup want_listing
  ft_step ft_get face_round_ok
  name_eqb
  N.add N.mul N.of_nat N.to_nat N.eqb N.ltb N.leb N.div N.modulo N.compare.
