(* Tables/ModelRib.v — executable model of fw/table/rib.go (RibTable/RibEntry: AddEncRoute, RemoveRouteEnc, CleanUpFace,
   updateNexthopsEnc/collectNexthopsEnc, removeFaceRoutes, pruneIfEmpty, pruneEmptyBelow) and the specification of C06 (flattening of the registered routes).
   The RIB drives the FIB through FibStrategyTable.ReplaceNextHopsEnc, which clears and re-inserts the next hops of each
   listed prefix inside one critical section: the model emits the corresponding [fibop]s (Clr, then Ins per next hop).
   No proofs here. *)
From Tables Require Export ModelAssoc ModelTree ModelFib.
Open Scope N_scope.

Record route := mkroute { r_face : N; r_origin : N; r_cost : N; r_flags : N }.
Definition has_ci (r : route) : bool := N.testbit (r_flags r) 0.    (* Flags & RouteFlagChildInherit(0x01) != 0 *)
Definition has_cap (r : route) : bool := N.testbit (r_flags r) 1.   (* Flags & RouteFlagCapture(0x02) != 0 *)
Definition captures (l : list route) : bool := existsb has_cap l.   (* RibEntry.HasCaptureRoute *)

(* RibEntry: Name != nil, routes *)
Record rnode := mkrnode { rn_named : bool; rn_routes : list route }.
Definition rnode_dflt : rnode := mkrnode false [].
Definition rnode_emp (nd : rnode) : bool := match rn_routes nd with [] => true | _ => false end.

Definition rib := amap rnode.
Definition rib_init : rib := [([], rnode_dflt)].

Inductive ribop :=
| Reg (n : name) (r : route)          (* AddEncRoute *)
| Unreg (n : name) (face origin : N)  (* RemoveRouteEnc *)
| Cleanup (face : N).                 (* CleanUpFace *)

(* AddEncRoute: update the first route with the same (face, origin) in place, else append *)
Fixpoint upd_route (l : list route) (r : route) : list route :=
  match l with
  | [] => [r]
  | x :: l' => if (r_face x =? r_face r) && (r_origin x =? r_origin r) then r :: l' else x :: upd_route l' r
  end.
(* RemoveRouteEnc: delete the first route with that (face, origin) *)
Fixpoint rem_route (l : list route) (f o : N) : list route :=
  match l with
  | [] => []
  | x :: l' => if (r_face x =? f) && (r_origin x =? o) then l' else x :: rem_route l' f o
  end.
(* CleanUpFace: delete every route of that face *)
Definition rem_face (l : list route) (f : N) : list route := filter (fun x => negb (r_face x =? f)) l.

(* ---- flattening, over any table of routes per name ---- *)
Section Flatten.
  Variable routes_at : name -> list route.

  (* the walk towards the root of updateNexthopsEnc, started at the prefix of length k of n: that entry's
     child-inherit routes; the walk stops after an entry holding a capture route *)
  Fixpoint inherit (n : name) (k : nat) : list route :=
    let rs := routes_at (firstn k n) in
    filter has_ci rs ++ (if captures rs then [] else match k with O => [] | S k' => inherit n k' end).

  (* own routes, plus (unless the entry itself holds a capture route) the inherited ones *)
  Definition contributing (n : name) : list route :=
    let own := routes_at n in
    own ++ (if captures own then [] else inherit n (length n)).
End Flatten.

(* minimum cost per face, faces in order of first occurrence *)
Fixpoint mc_insert (acc : list nexthop) (f c : N) : list nexthop :=
  match acc with
  | [] => [(f, c)]
  | (g, d) :: r => if g =? f then (g, if c <? d then c else d) :: r else (g, d) :: mc_insert r f c
  end.
Definition min_cost (rs : list route) : list nexthop :=
  fold_left (fun acc r => mc_insert acc (r_face r) (r_cost r)) rs [].

(* ---- the RIB tree ---- *)
Definition node_routes (t : rib) (p : name) : list route :=
  match get t p with Some nd => rn_routes nd | None => [] end.

(* removeFaceRoutes: every entry loses the routes of the face *)
Definition rem_face_all (t : rib) (f : N) : rib :=
  map (fun kv => (fst kv, mkrnode (rn_named (snd kv)) (rem_face (rn_routes (snd kv)) f))) t.
(* pruneEmptyBelow (bottom-up removal of entries without routes and without children), in closed form: an entry other
   than the root stays iff it or an entry below it has routes *)
Definition prune_all (t : rib) : rib :=
  filter (fun kv => match fst kv with
                    | [] => true
                    | _ => existsb (fun kw => is_prefix (fst kv) (fst kw) && negb (rnode_emp (snd kw))) t
                    end) t.

Section Rib.
  (* the order in which Go iterates over the minCostRoutes map: an arbitrary permutation of its entries *)
  Variable shuffle : list nexthop -> list nexthop.

  (* updateNexthopsEnc for one entry, without the recursion into children *)
  Definition local_update (t : rib) (q : name) : list fibop :=
    match get t q with
    | Some nd =>
        if rn_named nd then
          Clr q :: match rn_routes nd with
                   | [] => []
                   | _ => map (fun fc => Ins q (fst fc) (snd fc)) (shuffle (min_cost (contributing (node_routes t) q)))
                   end
        else []
    | None => []
    end.
  (* updateNexthopsEnc: the entry and, recursively, every entry below it *)
  Definition update_subtree (t : rib) (p : name) : list fibop :=
    flat_map (local_update t) (filter (is_prefix p) (keys t)).

  Definition rib_step (t : rib) (o : ribop) : rib * list fibop :=
    match o with
    | Reg n r =>
        let t1 := fill rnode_dflt t n in
        let nd := match get t1 n with Some nd => nd | None => rnode_dflt end in
        let t2 := set t1 n (mkrnode true (upd_route (rn_routes nd) r)) in
        (t2, update_subtree t2 n)
    | Unreg n f o =>
        match find_exact t n with
        | Some nd =>
            let t1 := set t n (mkrnode (rn_named nd) (rem_route (rn_routes nd) f o)) in
            (prune rnode_emp t1 n, update_subtree t1 n)
        | None => (t, [])
        end
    | Cleanup f =>
        (* removeFaceRoutes on every entry, then one updateNexthopsEnc from the root, then pruneEmptyBelow *)
        let t1 := rem_face_all t f in
        (prune_all t1, update_subtree t1 [])
    end.

  (* a RIB history: final RIB tree and all FIB operations it issued, in order *)
  Definition rib_run_from (ops : list ribop) (st : rib * list fibop) : rib * list fibop :=
    fold_left (fun st o => let (t', fo) := rib_step (fst st) o in (t', snd st ++ fo)) ops st.
  Definition rib_run (ops : list ribop) : rib * list fibop := rib_run_from ops (rib_init, []).
End Rib.

(* GetAllEntries *)
Definition list_rib (t : rib) : list (name * list route) :=
  map (fun kv => (fst kv, rn_routes (snd kv))) (filter (fun kv => negb (rnode_emp (snd kv))) t).

(* ================= specification ================= *)
(* the registered routes: a flat map name -> routes *)
Definition rspec := amap (list route).
Definition rget (R : rspec) (n : name) : list route := match get R n with Some l => l | None => [] end.
Definition rspec_step (R : rspec) (o : ribop) : rspec :=
  match o with
  | Reg n r => set R n (upd_route (rget R n) r)
  | Unreg n f o => set R n (rem_route (rget R n) f o)
  | Cleanup f => map (fun kv => (fst kv, rem_face (snd kv) f)) R
  end.
Definition routes_after (ops : list ribop) : rspec := fold_left rspec_step ops [].

(* what the FIB must hold for prefix p: nothing if p has no routes, else the flattening *)
Definition flatten (R : rspec) (p : name) : list nexthop := min_cost (contributing (rget R) p).
Definition fib_want (R : rspec) (p : name) : list nexthop :=
  match rget R p with [] => [] | _ => flatten R p end.
(* and what a lookup must return: longest-prefix match over those entries *)
Definition sel_want (R : rspec) (p : name) : option (list nexthop) :=
  match fib_want R p with [] => None | l => Some l end.
Definition want_lookup (R : rspec) (n : name) : list nexthop :=
  match lpm (sel_want R) n (length n) with Some l => l | None => [] end.
Definition want_listing (R : rspec) : list (name * list nexthop) :=
  flat_map (fun kv => match fib_want R (fst kv) with [] => [] | l => [(fst kv, l)] end) R.

(* table part of C08 for the RIB: every non-root node is on the path to an entry with routes *)
Definition rib_minimal_b (t : rib) : bool :=
  forallb (fun kv => match fst kv with
                     | [] => true
                     | _ => existsb (fun kw => is_prefix (fst kv) (fst kw) && negb (rnode_emp (snd kw))) t
                     end) t.
