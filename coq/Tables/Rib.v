(* Tables/Rib.v — the RIB model keeps the FIB equal to the flattening of the registered routes (C06), and the RIB tree
   holds exactly the nodes its routes require (table part of C08). *)
From Tables Require Import ModelAssoc ModelTree ModelFib ModelRib Assoc Tree Lpm FibTree FibHash.
From Coq Require Import Lia Permutation.
Local Open Scope nat_scope.

(* ---------- min_cost ---------- *)
Lemma faces_mc_insert : forall acc f c, faces (mc_insert acc f c) = if has_face acc f then faces acc else faces acc ++ [f].
Proof.
  induction acc as [|[g d] r IH]; intros f c; simpl; [reflexivity|].
  destruct (N.eqb g f) eqn:E; simpl; [reflexivity|]. rewrite IH. destruct (has_face r f); reflexivity.
Qed.

Lemma mc_insert_nodup : forall acc f c, NoDup (faces acc) -> NoDup (faces (mc_insert acc f c)).
Proof.
  intros acc f c H. rewrite faces_mc_insert. destruct (has_face acc f) eqn:E; [exact H|].
  apply NoDup_app_snoc; [exact H|]. intro Hin. apply has_face_In in Hin. congruence.
Qed.

Lemma min_cost_nodup_from : forall rs acc, NoDup (faces acc) ->
  NoDup (faces (fold_left (fun acc r => mc_insert acc (r_face r) (r_cost r)) rs acc)).
Proof. induction rs as [|r rs IH]; intros acc H; simpl; [exact H|]. apply IH. apply mc_insert_nodup. exact H. Qed.

Lemma min_cost_nodup : forall rs, NoDup (faces (min_cost rs)).
Proof. intro rs. apply min_cost_nodup_from. constructor. Qed.

(* ---------- flattening depends only on the routes at the prefixes of the name ---------- *)
Lemma inherit_ext : forall ra1 ra2 n k,
  (forall j, j <= k -> ra1 (firstn j n) = ra2 (firstn j n)) -> inherit ra1 n k = inherit ra2 n k.
Proof.
  intros ra1 ra2 n. induction k as [|k IH]; intro H; cbn [inherit].
  - rewrite (H 0) by lia. reflexivity.
  - rewrite (H (S k)) by lia. rewrite IH; [reflexivity|]. intros j Hj. apply H. lia.
Qed.

Lemma contributing_ext : forall ra1 ra2 n,
  (forall j, j <= length n -> ra1 (firstn j n) = ra2 (firstn j n)) -> contributing ra1 n = contributing ra2 n.
Proof.
  intros ra1 ra2 n H. unfold contributing. rewrite (inherit_ext ra1 ra2 n (length n) H).
  pose proof (H (length n) (le_n _)) as Hn. rewrite firstn_all in Hn. rewrite Hn. reflexivity.
Qed.

Lemma fib_want_ext : forall R1 R2 q,
  (forall j, j <= length q -> rget R1 (firstn j q) = rget R2 (firstn j q)) -> fib_want R1 q = fib_want R2 q.
Proof.
  intros R1 R2 q H. unfold fib_want, flatten. rewrite (contributing_ext (rget R1) (rget R2) q H).
  pose proof (H (length q) (le_n _)) as Hn. rewrite firstn_all in Hn. rewrite Hn. reflexivity.
Qed.

Lemma rget_set : forall (R : rspec) n l p, rget (set R n l) p = if name_eqb n p then l else rget R p.
Proof. intros. unfold rget. rewrite get_set. destruct (name_eqb n p); reflexivity. Qed.

(* ---------- effect of FIB operations on the flat FIB ---------- *)
Lemma fold_untouched : forall ops (fib : spec) p, (forall o, In o ops -> op_name o <> p) ->
  sget (fold_left spec_step ops fib) p = sget fib p.
Proof.
  induction ops as [|o ops IH]; intros fib p H; simpl; [reflexivity|].
  rewrite IH; [|intros o' Ho'; apply H; right; exact Ho']. apply sget_step_other. apply H. left. reflexivity.
Qed.

Lemma upd_nh_fresh : forall l f c, ~ In f (faces l) -> upd_nh l f c = l ++ [(f, c)].
Proof.
  induction l as [|[g d] r IH]; intros f c H; simpl; [reflexivity|].
  destruct (N.eqb g f) eqn:E; [apply N.eqb_eq in E; subst; exfalso; apply H; left; reflexivity|].
  f_equal. apply IH. intro Hin. apply H. right. exact Hin.
Qed.

Lemma ins_all : forall l (fib : spec) q l0,
  nhs (sget fib q) = l0 -> NoDup (faces (l0 ++ l)) ->
  let fib' := fold_left spec_step (map (fun fc => Ins q (fst fc) (snd fc)) l) fib in
  nhs (sget fib' q) = l0 ++ l /\ strat (sget fib' q) = strat (sget fib q).
Proof.
  induction l as [|[f c] l IH]; intros fib q l0 H0 ND; cbn [map fold_left fst snd].
  - rewrite app_nil_r. split; [exact H0 | reflexivity].
  - destruct (IH (spec_step fib (Ins q f c)) q (l0 ++ [(f, c)])) as [H1 H2].
    + rewrite (sget_step fib (Ins q f c) q). cbn [op_name op_ent]. rewrite name_eqb_refl. cbn [nhs]. rewrite H0.
      apply upd_nh_fresh. unfold faces in ND. rewrite map_app in ND. apply NoDup_remove_2 in ND.
      intro Hin. apply ND. apply in_or_app. left. exact Hin.
    + rewrite <- app_assoc. exact ND.
    + split; [rewrite H1, <- app_assoc; reflexivity|]. rewrite H2.
      rewrite (sget_step fib (Ins q f c) q). cbn [op_name op_ent]. rewrite name_eqb_refl. reflexivity.
Qed.

Section RibProofs.
  Variable shuffle : list nexthop -> list nexthop.
  Hypothesis shuffle_perm : forall l, Permutation (shuffle l) l.

  Lemma shuffle_nodup : forall l, NoDup (faces l) -> NoDup (faces (shuffle l)).
  Proof. intros l H. eapply Permutation_NoDup; [apply Permutation_sym, perm_faces, shuffle_perm | exact H]. Qed.

  (* the FIB entry of q after local_update *)
  Definition local_result (t : rib) (q : name) (e : fent) : fent :=
    match get t q with
    | Some nd => if rn_named nd
                 then mkfent (match rn_routes nd with [] => [] | _ => shuffle (min_cost (contributing (node_routes t) q)) end) (strat e)
                 else e
    | None => e
    end.

  Lemma local_update_names : forall t q o, In o (local_update shuffle t q) -> op_name o = q.
  Proof.
    intros t q o H. unfold local_update in H. destruct (get t q) as [nd|]; [|contradiction].
    destruct (rn_named nd); [|contradiction]. destruct H as [<-|H]; [reflexivity|].
    destruct (rn_routes nd); [contradiction|]. apply in_map_iff in H. destruct H as [fc [<- _]]. reflexivity.
  Qed.

  Lemma local_update_effect : forall t q (fib : spec),
    sget (fold_left spec_step (local_update shuffle t q) fib) q = local_result t q (sget fib q).
  Proof.
    intros t q fib. unfold local_update, local_result. destruct (get t q) as [nd|]; [|reflexivity].
    destruct (rn_named nd); [|reflexivity]. cbn [fold_left].
    assert (Hc : sget (spec_step fib (Clr q)) q = mkfent [] (strat (sget fib q))).
    { rewrite (sget_step fib (Clr q) q). cbn [op_name op_ent]. rewrite name_eqb_refl. reflexivity. }
    destruct (rn_routes nd) as [|r0 rs]; [cbn [fold_left]; exact Hc|].
    set (l := shuffle (min_cost (contributing (node_routes t) q))).
    destruct (ins_all l (spec_step fib (Clr q)) q []) as [H1 H2].
    - rewrite Hc. reflexivity.
    - simpl. apply shuffle_nodup, min_cost_nodup.
    - cbn [app] in H1. rewrite Hc in H2. cbn [strat] in H2.
      set (X := sget (fold_left spec_step (map (fun fc => Ins q (fst fc) (snd fc)) l) (spec_step fib (Clr q))) q) in *.
      assert (HX : X = mkfent (nhs X) (strat X)) by (destruct X; reflexivity).
      rewrite HX, H1, H2. reflexivity.
  Qed.

  Lemma subtree_effect : forall t L (fib : spec) p, NoDup L ->
    sget (fold_left spec_step (flat_map (local_update shuffle t) L) fib) p =
    if nmem p L then local_result t p (sget fib p) else sget fib p.
  Proof.
    intros t. induction L as [|a L IH]; intros fib p ND; [reflexivity|].
    inversion ND as [|? ? Ha ND']; subst. cbn [flat_map]. rewrite fold_left_app. rewrite IH by exact ND'.
    unfold nmem. cbn [existsb]. fold (nmem p L). destruct (name_eqb p a) eqn:E.
    - apply name_eqb_eq in E. subst a. cbn [orb].
      assert (Hn : nmem p L = false) by (destruct (nmem p L) eqn:E2; [apply nmem_In in E2; contradiction | reflexivity]).
      rewrite Hn. apply local_update_effect.
    - cbn [orb]. assert (Hu : sget (fold_left spec_step (local_update shuffle t a) fib) p = sget fib p).
      { apply fold_untouched. intros o Ho. apply local_update_names in Ho. rewrite Ho. apply name_eqb_neq. rewrite name_eqb_sym. exact E. }
      rewrite Hu. reflexivity.
  Qed.

  (* ---------- invariants ---------- *)
  Definition rlive (R : rspec) (w : name) : Prop := rget R w <> [].
  (* the root plus the prefix closure of the names that have routes *)
  Definition inCR (R : rspec) (p : name) : Prop := p = [] \/ exists w, is_prefix p w = true /\ rlive R w.

  Record RInv (t : rib) (R : rspec) : Prop := {
    ri_nodup : NoDup (keys t);
    ri_nodes : forall p, mem t p = true <-> inCR R p;
    ri_routes : forall p nd, get t p = Some nd -> rn_routes nd = rget R p;
    ri_named : forall p nd, get t p = Some nd -> rn_routes nd <> [] -> rn_named nd = true
  }.

  (* what the FIB reasoning needs of a (possibly not yet pruned) RIB tree *)
  Record RSem (t : rib) (R : rspec) : Prop := {
    rs_nodup : NoDup (keys t);
    rs_routes : forall p, node_routes t p = rget R p;
    rs_named : forall p nd, get t p = Some nd -> rn_routes nd <> [] -> rn_named nd = true
  }.

  (* the FIB holds, for every prefix, the flattening of the registered routes (nothing for prefixes without routes) *)
  Definition FOK (fib : spec) (R : rspec) : Prop := forall p, Permutation (nhs (sget fib p)) (fib_want R p).

  Lemma inCR_prefix : forall R p k, inCR R p -> inCR R (firstn k p).
  Proof.
    intros R p k [->|[w [H1 H2]]].
    - left. apply firstn_nil.
    - right. exists w. split; [|exact H2]. eapply is_prefix_trans; [apply is_prefix_firstn_self | exact H1].
  Qed.

  Lemma inCR_live : forall R p, rlive R p -> inCR R p.
  Proof. intros R p H. right. exists p. split; [apply is_prefix_refl | exact H]. Qed.

  Lemma RInv_absent : forall t R p, RInv t R -> get t p = None -> rget R p = [].
  Proof.
    intros t R p I H. destruct (rget R p) eqn:E; [reflexivity|]. exfalso.
    assert (Hl : rlive R p) by (unfold rlive; congruence). apply inCR_live in Hl. apply (ri_nodes _ _ I) in Hl.
    apply mem_get in Hl. contradiction.
  Qed.

  Lemma RInv_sem : forall t R, RInv t R -> RSem t R.
  Proof.
    intros t R I. constructor; [apply I | | apply I]. intro p. unfold node_routes. destruct (get t p) eqn:E.
    - apply (ri_routes _ _ I). exact E.
    - symmetry. eapply RInv_absent; eassumption.
  Qed.

  Lemma RInv_closed : forall t R, RInv t R -> closed t.
  Proof. intros t R I p k H. apply (ri_nodes _ _ I). apply inCR_prefix. apply (ri_nodes _ _ I). exact H. Qed.

  Lemma RInv_root : forall t R, RInv t R -> mem t [] = true.
  Proof. intros t R I. apply (ri_nodes _ _ I). left. reflexivity. Qed.

  Lemma RInv_ext : forall t R R', (forall p, rget R' p = rget R p) -> RInv t R -> RInv t R'.
  Proof.
    intros t R R' Heq I. assert (HC : forall p, inCR R' p <-> inCR R p).
    { intro p. unfold inCR, rlive. split; intros [H|[w [H1 H2]]]; try (left; exact H); right; exists w; split; try exact H1;
      [rewrite <- Heq | rewrite Heq]; exact H2. }
    constructor.
    - apply I.
    - intro p. rewrite HC. apply (ri_nodes _ _ I).
    - intros p nd H. rewrite Heq. apply (ri_routes _ _ I). exact H.
    - apply I.
  Qed.

  Lemma FOK_ext : forall fib R R', (forall p, rget R' p = rget R p) -> FOK fib R -> FOK fib R'.
  Proof. intros fib R R' Heq H p. rewrite (fib_want_ext R' R p); [apply H | intros; apply Heq]. Qed.

  (* ---------- the FIB after updateNexthopsEnc on the subtree of p, when only p's routes changed ---------- *)
  Lemma fib_update : forall t' R R' (fib : spec) p,
    RSem t' R' -> FOK fib R ->
    (forall x, x <> p -> rget R' x = rget R x) ->
    mem t' p = true ->
    (forall nd, get t' p = Some nd -> rn_named nd = false -> rget R p = []) ->
    FOK (fold_left spec_step (update_subtree shuffle t' p) fib) R'.
  Proof.
    intros t' R R' fib p S F Hoth Hmem Hun q. unfold update_subtree.
    assert (NDL : NoDup (filter (is_prefix p) (keys t'))) by (apply NoDup_filter, S).
    rewrite (subtree_effect t' _ fib q NDL).
    assert (Hwant_other : rget R' q = rget R q -> rget R' q = [] -> fib_want R q = [] /\ fib_want R' q = []).
    { intros H1 H2. unfold fib_want. rewrite <- H1, H2. split; reflexivity. }
    destruct (nmem q (filter (is_prefix p) (keys t'))) eqn:Ein.
    - apply nmem_In in Ein. apply filter_In in Ein. destruct Ein as [Hk Hpq].
      apply In_keys_get in Hk. destruct Hk as [nd Hnd]. unfold local_result. rewrite Hnd.
      pose proof (rs_routes _ _ S q) as Hr. unfold node_routes in Hr. rewrite Hnd in Hr.
      destruct (rn_named nd) eqn:Enm.
      + cbn [nhs]. unfold fib_want, flatten. rewrite <- Hr. destruct (rn_routes nd) as [|r0 rs]; [constructor|].
        rewrite (contributing_ext (node_routes t') (rget R') q) by (intros; apply (rs_routes _ _ S)). apply shuffle_perm.
      + assert (Hnil : rn_routes nd = []).
        { destruct (rn_routes nd) eqn:E; [reflexivity|]. assert (rn_named nd = true) by (apply (rs_named _ _ S q nd Hnd); congruence). congruence. }
        rewrite Hnil in Hr. destruct (name_eq_dec q p) as [->|Hne].
        * assert (HRp : rget R p = []) by (apply (Hun nd Hnd Enm)).
          eapply Permutation_trans; [apply F|]. unfold fib_want. rewrite HRp, <- Hr. constructor.
        * destruct (Hwant_other (Hoth q Hne) (eq_sym Hr)) as [W1 W2].
          eapply Permutation_trans; [apply F|]. rewrite W1, W2. constructor.
    - destruct (is_prefix p q) eqn:Hpq.
      + (* below p but no node: no routes before or after *)
        assert (Hnone : get t' q = None).
        { destruct (get t' q) eqn:E; [|reflexivity]. exfalso.
          assert (Hin : In q (filter (is_prefix p) (keys t'))).
          { apply filter_In. split; [|exact Hpq]. destruct (get_None_notin t' q) as [_ Hc].
            destruct (in_dec name_eq_dec q (keys t')) as [Hi|Hi]; [exact Hi | apply Hc in Hi; congruence]. }
          apply nmem_In in Hin. congruence. }
        assert (Hne : q <> p) by (intro; subst q; apply mem_get in Hmem; contradiction).
        pose proof (rs_routes _ _ S q) as Hr. unfold node_routes in Hr. rewrite Hnone in Hr.
        destruct (Hwant_other (Hoth q Hne) (eq_sym Hr)) as [W1 W2].
        eapply Permutation_trans; [apply F|]. rewrite W1, W2. constructor.
      + (* not below p: the flattening does not look at p *)
        eapply Permutation_trans; [apply F|]. rewrite (fib_want_ext R R' q); [apply Permutation_refl|].
        intros j Hj. symmetry. apply Hoth. intro Heq. rewrite <- Heq in Hpq. rewrite is_prefix_firstn_self in Hpq. discriminate.
  Qed.

  (* ---------- the RIB tree ---------- *)
  Lemma upd_route_nonempty : forall l r, upd_route l r <> [].
  Proof. intros [|x l] r; simpl; [discriminate|]. destruct (_ && _); discriminate. Qed.

  Lemma rem_route_nonempty : forall l f o, rem_route l f o <> [] -> l <> [].
  Proof. intros [|x l] f o H; [exact H | discriminate]. Qed.

  Lemma rem_face_nonempty : forall l f, rem_face l f <> [] -> l <> [].
  Proof. intros [|x l] f H; [exact H | discriminate]. Qed.

  Lemma rnode_emp_routes : forall nd, rnode_emp nd = false <-> rn_routes nd <> [].
  Proof. intros [nm rs]. unfold rnode_emp. simpl. destruct rs; split; intro H; congruence. Qed.

  Lemma rib_grow : forall t R n r, RInv t R ->
    let t1 := fill rnode_dflt t n in
    let nd := match get t1 n with Some nd => nd | None => rnode_dflt end in
    let t2 := set t1 n (mkrnode true (upd_route (rn_routes nd) r)) in
    RInv t2 (set R n (upd_route (rget R n) r)).
  Proof.
    intros t R n r I t1 nd t2. set (R' := set R n (upd_route (rget R n) r)).
    pose proof (RInv_closed _ _ I) as Hc. pose proof (RInv_root _ _ I) as Hr.
    assert (Hnd : rn_routes nd = rget R n).
    { unfold nd. destruct (get t1 n) as [nd0|] eqn:E.
      - apply (fill_get rnode_dflt _ _ Hc) in E. destruct E as [E|[E1 [E2 _]]]; [apply (ri_routes _ _ I); exact E|].
        rewrite E1. symmetry. eapply RInv_absent; eassumption.
      - exfalso. assert (Hm : mem t1 n = true) by (apply (fill_mem rnode_dflt _ _ Hc Hr); right; apply is_prefix_refl).
        apply mem_get in Hm. contradiction. }
    assert (Hlive : rlive R' n) by (unfold rlive, R'; rewrite rget_set, name_eqb_refl; apply upd_route_nonempty).
    assert (Hoth : forall w, w <> n -> (rlive R' w <-> rlive R w)).
    { intros w Hw. unfold rlive, R'. rewrite rget_set. apply not_eq_sym in Hw. apply name_eqb_neq in Hw. rewrite Hw. reflexivity. }
    constructor.
    - apply NoDup_keys_set. apply (fill_nodup rnode_dflt). apply I.
    - intro p. unfold t2. rewrite mem_set. destruct (name_eqb n p) eqn:Ep.
      + apply name_eqb_eq in Ep. subst p. split; [intros _; apply inCR_live; exact Hlive | reflexivity].
      + unfold t1. rewrite (fill_mem rnode_dflt _ _ Hc Hr). rewrite (ri_nodes _ _ I). split.
        * intros [[H|[w [H1 H2]]]|H]; [left; exact H | | right; exists n; split; [exact H | exact Hlive]].
          right. exists w. split; [exact H1|]. destruct (name_eq_dec w n) as [->|Hw]; [exact Hlive | apply Hoth; assumption].
        * intros [H|[w [H1 H2]]]; [left; left; exact H|]. destruct (name_eq_dec w n) as [->|Hw]; [right; exact H1|].
          left. right. exists w. split; [exact H1 | apply Hoth; assumption].
    - intros p nd' H. unfold t2 in H. rewrite get_set in H. unfold R'. rewrite rget_set. destruct (name_eqb n p) eqn:Ep.
      + inversion H. simpl. rewrite Hnd. reflexivity.
      + apply (fill_get rnode_dflt _ _ Hc) in H. destruct H as [H|[E1 [E2 _]]]; [apply (ri_routes _ _ I); exact H|].
        rewrite E1. symmetry. eapply RInv_absent; eassumption.
    - intros p nd' H Hne. unfold t2 in H. rewrite get_set in H. destruct (name_eqb n p) eqn:Ep.
      + inversion H. reflexivity.
      + apply (fill_get rnode_dflt _ _ Hc) in H. destruct H as [H|[E1 _]]; [eapply (ri_named _ _ I); eassumption|].
        subst nd'. simpl in Hne. congruence.
  Qed.

  Lemma rib_set_sem : forall t R q nd', RInv t R -> mem t q = true ->
    (rn_routes nd' <> [] -> rn_named nd' = true) ->
    RSem (set t q nd') (set R q (rn_routes nd')).
  Proof.
    intros t R q nd' I Hm Hnm. pose proof (RInv_sem _ _ I) as S. constructor.
    - apply NoDup_keys_set, I.
    - intro p. unfold node_routes. rewrite get_set, rget_set. destruct (name_eqb q p); [reflexivity | apply (rs_routes _ _ S)].
    - intros p nd. rewrite get_set. destruct (name_eqb q p); [intro H; inversion H; subst; exact Hnm | apply (ri_named _ _ I)].
  Qed.

  Lemma rib_shrink : forall t R q nd rs', RInv t R -> get t q = Some nd ->
    (rs' <> [] -> rn_routes nd <> []) ->
    RInv (prune rnode_emp (set t q (mkrnode (rn_named nd) rs')) q) (set R q rs').
  Proof.
    intros t R q nd rs' I E Hsh. set (R' := set R q rs'). set (t1 := set t q (mkrnode (rn_named nd) rs')).
    assert (Hrq : rn_routes nd = rget R q) by (apply (ri_routes _ _ I); exact E).
    assert (Hoth : forall w, w <> q -> (rlive R' w <-> rlive R w)).
    { intros w Hw. unfold rlive, R'. rewrite rget_set. apply not_eq_sym in Hw. apply name_eqb_neq in Hw. rewrite Hw. reflexivity. }
    assert (Hlq : rlive R' q -> rlive R q).
    { unfold rlive, R'. rewrite rget_set, name_eqb_refl. intro H. rewrite <- Hrq. apply Hsh. exact H. }
    assert (Hroutes1 : forall p nd1, get t1 p = Some nd1 -> rn_routes nd1 = rget R' p).
    { intros p nd1. unfold t1, R'. rewrite get_set, rget_set. destruct (name_eqb q p); [intro H; inversion H; reflexivity | apply (ri_routes _ _ I)]. }
    assert (Hmem1 : forall p, mem t1 p = true <-> (inCR R' p \/ exists j, 0 < j <= length q /\ p = firstn j q)).
    { intro p. unfold t1. rewrite mem_set. destruct (name_eqb q p) eqn:Ep.
      - apply name_eqb_eq in Ep. subst p. split; [|reflexivity]. intros _.
        destruct q as [|x q'] eqn:Eq; [left; left; reflexivity|]. right. exists (length (x :: q')).
        split; [simpl; lia | symmetry; apply firstn_all].
      - apply name_eqb_neq in Ep. rewrite (ri_nodes _ _ I). split.
        + intros [H|[w [H1 H2]]]; [left; left; exact H|]. destruct (name_eq_dec w q) as [->|Hw].
          * apply prefix_is_firstn in H1. destruct H1 as [H1 H1'].
            destruct p as [|x p'] eqn:Ep'; [left; left; reflexivity|]. right. exists (length (x :: p')).
            split; [simpl in *; lia | exact H1].
          * left. right. exists w. split; [exact H1 | apply Hoth; assumption].
        + intros [[H|[w [H1 H2]]]|[j [Hj Hp]]]; [left; exact H | |].
          * right. exists w. split; [exact H1|]. destruct (name_eq_dec w q) as [->|Hw]; [apply Hlq; exact H2 | apply Hoth; assumption].
          * subst p. apply inCR_prefix. apply (ri_nodes _ _ I). apply mem_get. congruence. }
    destruct (prune_at_gen rnode_emp (inCR R') (length q) t1 q (le_n _)) as [P1 [P2 P3]].
    - apply NoDup_keys_set, I.
    - intros p j H. apply inCR_prefix. exact H.
    - exact Hmem1.
    - intros p nd1 H Hne. apply inCR_live. unfold rlive. rewrite <- (Hroutes1 p nd1 H). apply rnode_emp_routes. exact Hne.
    - intros p [H0|[w [Hw1 Hw2]]] Hp; [contradiction|].
      assert (Hm : mem t1 w = true) by (apply Hmem1; left; apply inCR_live; exact Hw2).
      apply mem_get in Hm. destruct (get t1 w) as [ndw|] eqn:Ew; [|congruence]. exists w, ndw. split; [exact Hw1|]. split; [exact Ew|].
      apply rnode_emp_routes. rewrite (Hroutes1 w ndw Ew). exact Hw2.
    - assert (Hget : forall p nd1, get (prune rnode_emp t1 q) p = Some nd1 -> get t1 p = Some nd1).
      { intros p nd1 H. unfold prune in H. rewrite P3 in H. destruct (mem (prune_at rnode_emp t1 q (length q)) p); [exact H | discriminate]. }
      constructor; [exact P1 | exact P2 | |].
      + intros p nd1 H. apply Hroutes1. apply Hget. exact H.
      + intros p nd1 H. apply Hget in H. unfold t1 in H. rewrite get_set in H. destruct (name_eqb q p) eqn:Ep.
        * inversion H. simpl. intro Hne. apply (ri_named _ _ I q nd E). apply Hsh. exact Hne.
        * apply (ri_named _ _ I p nd1 H).
  Qed.

  (* ---------- one RIB operation ---------- *)
  Lemma node_shrink_sys : forall t R (fib : spec) q nd rs', RInv t R -> FOK fib R -> get t q = Some nd ->
    (rs' <> [] -> rn_routes nd <> []) ->
    let t1 := set t q (mkrnode (rn_named nd) rs') in
    RInv (prune rnode_emp t1 q) (set R q rs') /\
    FOK (fold_left spec_step (update_subtree shuffle t1 q) fib) (set R q rs').
  Proof.
    intros t R fib q nd rs' I F E Hsh t1. split; [apply rib_shrink; assumption|].
    assert (Hm : mem t q = true) by (apply mem_get; congruence).
    apply (fib_update t1 R (set R q rs') fib q).
    - apply (rib_set_sem t R q (mkrnode (rn_named nd) rs') I Hm). simpl. intro H. eapply (ri_named _ _ I); [exact E | apply Hsh; exact H].
    - exact F.
    - intros x Hx. rewrite rget_set. apply not_eq_sym in Hx. apply name_eqb_neq in Hx. rewrite Hx. reflexivity.
    - unfold t1. rewrite mem_set, name_eqb_refl. reflexivity.
    - intros nd1 H Hun. unfold t1 in H. rewrite get_set_same in H. inversion H; subst nd1. simpl in Hun.
      rewrite <- (ri_routes _ _ I q nd E). destruct (rn_routes nd) eqn:Er; [reflexivity|].
      assert (rn_named nd = true) by (apply (ri_named _ _ I q nd E); congruence). congruence.
  Qed.

  Lemma rget_map_rem_face : forall (R : rspec) f x, rget (map (fun kv => (fst kv, rem_face (snd kv) f)) R) x = rem_face (rget R x) f.
  Proof.
    induction R as [|[k l] R IH]; intros f x; [reflexivity|]. unfold rget in *. simpl. destruct (name_eqb k x); [reflexivity | apply IH].
  Qed.

  (* ---------- CleanUpFace: all entries lose the face's routes, everything is recomputed, empty entries go ---------- *)
  Lemma get_rem_face_all : forall (t : rib) f p,
    get (rem_face_all t f) p = option_map (fun nd => mkrnode (rn_named nd) (rem_face (rn_routes nd) f)) (get t p).
  Proof.
    induction t as [|[k nd] t IH]; intros f p; [reflexivity|]. simpl. destruct (name_eqb k p); [reflexivity | apply IH].
  Qed.

  Lemma keys_rem_face_all : forall (t : rib) f, keys (rem_face_all t f) = keys t.
  Proof. intros t f. unfold keys, rem_face_all. rewrite map_map. reflexivity. Qed.

  Lemma get_filter : forall (A : Type) (g : name * A -> bool) (t : amap A) p, NoDup (keys t) ->
    get (filter g t) p = match get t p with Some v => if g (p, v) then Some v else None | None => None end.
  Proof.
    intros A g. induction t as [|[k v] t IH]; intros p ND; [reflexivity|]. inversion ND as [|? ? Hk ND']; subst. simpl.
    destruct (name_eqb k p) eqn:E.
    - apply name_eqb_eq in E. subst k. destruct (g (p, v)); simpl; [rewrite name_eqb_refl; reflexivity|].
      rewrite IH by exact ND'. assert (Hn : get t p = None) by (apply get_None_notin; exact Hk). rewrite Hn. reflexivity.
    - destruct (g (k, v)); simpl; [rewrite E|]; apply IH; exact ND'.
  Qed.

  Lemma fib_update_all : forall t' R R' (fib : spec),
    RSem t' R' -> FOK fib R ->
    (forall q, match get t' q with Some nd => rn_named nd = false | None => True end -> rget R q = []) ->
    FOK (fold_left spec_step (update_subtree shuffle t' []) fib) R'.
  Proof.
    intros t' R R' fib S F Hun q. unfold update_subtree.
    assert (Hall : filter (is_prefix []) (keys t') = keys t').
    { generalize (keys t'). induction l as [|k l IH]; [reflexivity|]. cbn [filter]. rewrite is_prefix_nil. f_equal. exact IH. }
    rewrite Hall. rewrite (subtree_effect t' _ fib q (rs_nodup _ _ S)).
    pose proof (rs_routes _ _ S q) as Hr. unfold node_routes in Hr.
    destruct (nmem q (keys t')) eqn:Ein.
    - apply nmem_In in Ein. apply In_keys_get in Ein. destruct Ein as [nd Hnd]. unfold local_result. rewrite Hnd in *.
      destruct (rn_named nd) eqn:Enm.
      + cbn [nhs]. unfold fib_want, flatten. rewrite <- Hr. destruct (rn_routes nd) as [|r0 rs]; [constructor|].
        rewrite (contributing_ext (node_routes t') (rget R') q) by (intros; apply (rs_routes _ _ S)). apply shuffle_perm.
      + assert (Hnil : rn_routes nd = []).
        { destruct (rn_routes nd) eqn:E; [reflexivity|]. assert (rn_named nd = true) by (apply (rs_named _ _ S q nd Hnd); congruence). congruence. }
        rewrite Hnil in Hr. assert (HRq : rget R q = []) by (apply Hun; rewrite Hnd; exact Enm).
        eapply Permutation_trans; [apply F|]. unfold fib_want. rewrite HRq, <- Hr. constructor.
    - assert (Hnone : get t' q = None).
      { apply get_None_notin. intro Hin. apply nmem_In in Hin. congruence. }
      rewrite Hnone in Hr. assert (HRq : rget R q = []) by (apply Hun; rewrite Hnone; exact I).
      eapply Permutation_trans; [apply F|]. unfold fib_want. rewrite HRq, <- Hr. constructor.
  Qed.

  Lemma rem_face_incl_nonempty : forall l f, rem_face l f <> [] -> l <> [].
  Proof. exact rem_face_nonempty. Qed.

  Lemma cleanup_sys : forall t R (fib : spec) f, RInv t R -> FOK fib R ->
    let R' := map (fun kv => (fst kv, rem_face (snd kv) f)) R in
    let t1 := rem_face_all t f in
    RInv (prune_all t1) R' /\ FOK (fold_left spec_step (update_subtree shuffle t1 []) fib) R'.
  Proof.
    intros t R fib f I F R' t1.
    assert (HR' : forall p, rget R' p = rem_face (rget R p) f) by (intro p; apply rget_map_rem_face).
    pose proof (RInv_sem _ _ I) as S.
    assert (Hget1 : forall p, get t1 p = option_map (fun nd => mkrnode (rn_named nd) (rem_face (rn_routes nd) f)) (get t p)) by (intro p; apply get_rem_face_all).
    assert (ND1 : NoDup (keys t1)) by (unfold t1; rewrite keys_rem_face_all; apply I).
    assert (Hroutes1 : forall p nd1, get t1 p = Some nd1 -> rn_routes nd1 = rget R' p).
    { intros p nd1 H. rewrite Hget1 in H. destruct (get t p) as [nd|] eqn:E; [|discriminate]. inversion H; subst nd1. simpl.
      rewrite HR', <- (ri_routes _ _ I p nd E). reflexivity. }
    assert (Hnamed1 : forall p nd1, get t1 p = Some nd1 -> rn_routes nd1 <> [] -> rn_named nd1 = true).
    { intros p nd1 H. rewrite Hget1 in H. destruct (get t p) as [nd|] eqn:E; [|discriminate]. inversion H; subst nd1. simpl.
      intro Hne. apply (ri_named _ _ I p nd E). eapply rem_face_nonempty. exact Hne. }
    assert (S1 : RSem t1 R').
    { constructor; [exact ND1 | | exact Hnamed1]. intro p. unfold node_routes. destruct (get t1 p) as [nd1|] eqn:E.
      - apply Hroutes1. exact E.
      - rewrite Hget1 in E. destruct (get t p) eqn:E2; [discriminate|]. rewrite HR', (RInv_absent _ _ _ I E2). reflexivity. }
    split.
    - (* the tree after pruneEmptyBelow *)
      assert (Hlive_sub : forall w, rlive R' w -> rlive R w).
      { intros w H. unfold rlive in *. rewrite HR' in H. eapply rem_face_nonempty. exact H. }
      assert (Hkeep : forall p nd1, get t1 p = Some nd1 ->
                (match p with [] => true | _ => existsb (fun kw => is_prefix p (fst kw) && negb (rnode_emp (snd kw))) t1 end = true <-> inCR R' p)).
      { intros p nd1 Hp. destruct p as [|x p']; [split; [intros _; left; reflexivity | reflexivity]|]. rewrite existsb_exists. split.
        - intros [[w ndw] [Hin Hc]]. cbn [fst snd] in Hc. apply andb_true_iff in Hc. destruct Hc as [Hc1 Hc2].
          apply negb_true_iff in Hc2. apply rnode_emp_routes in Hc2. apply In_amap_get in Hin; [|exact ND1].
          right. exists w. split; [exact Hc1|]. unfold rlive. rewrite <- (Hroutes1 w ndw Hin). exact Hc2.
        - intros [H0|[w [Hw1 Hw2]]]; [discriminate|].
          assert (Hm : mem t w = true) by (apply (ri_nodes _ _ I); apply inCR_live; apply Hlive_sub; exact Hw2).
          apply mem_get in Hm. destruct (get t w) as [ndw|] eqn:Ew; [|congruence].
          exists (w, mkrnode (rn_named ndw) (rem_face (rn_routes ndw) f)). split.
          + apply get_In. rewrite Hget1, Ew. reflexivity.
          + cbn [fst snd]. rewrite Hw1. cbn [andb]. apply negb_true_iff. apply rnode_emp_routes. simpl.
            rewrite (ri_routes _ _ I w ndw Ew), <- HR'. exact Hw2. }
      assert (Hgetp : forall p, get (prune_all t1) p = match get t1 p with
                                  | Some nd1 => if match p with [] => true | _ => existsb (fun kw => is_prefix p (fst kw) && negb (rnode_emp (snd kw))) t1 end then Some nd1 else None
                                  | None => None end).
      { intro p. unfold prune_all. rewrite get_filter by exact ND1. reflexivity. }
      constructor.
      + unfold prune_all. rewrite <- (app_nil_r (filter _ t1)). rewrite app_nil_r. unfold keys. apply NoDup_map_fst_filter. exact ND1.
      + intro p. unfold mem. rewrite Hgetp. destruct (get t1 p) as [nd1|] eqn:E.
        * pose proof (Hkeep p nd1 E) as Hk. destruct (match p with [] => true | _ => _ end); split; intro H; try reflexivity; try discriminate; [apply Hk; reflexivity | apply Hk in H; discriminate].
        * split; [discriminate|]. intro H. exfalso.
          assert (HC : inCR R p) by (destruct H as [H|[w [H1 H2]]]; [left; exact H | right; exists w; split; [exact H1 | apply Hlive_sub; exact H2]]).
          apply (ri_nodes _ _ I) in HC. apply mem_get in HC. rewrite Hget1 in E. destruct (get t p); [discriminate | congruence].
      + intros p nd1 H. rewrite Hgetp in H. destruct (get t1 p) as [nd2|] eqn:E; [|discriminate].
        destruct (match p with [] => true | _ => _ end); [|discriminate]. inversion H; subst. apply Hroutes1. exact E.
      + intros p nd1 H. rewrite Hgetp in H. destruct (get t1 p) as [nd2|] eqn:E; [|discriminate].
        destruct (match p with [] => true | _ => _ end); [|discriminate]. inversion H; subst. apply (Hnamed1 p nd1 E).
    - apply (fib_update_all t1 R R' fib S1 F). intros q Hq. rewrite Hget1 in Hq. destruct (get t q) as [nd|] eqn:E.
      + simpl in Hq. rewrite <- (ri_routes _ _ I q nd E). destruct (rn_routes nd) eqn:Er; [reflexivity|].
        assert (rn_named nd = true) by (apply (ri_named _ _ I q nd E); congruence). congruence.
      + eapply RInv_absent; eassumption.
  Qed.

  Theorem rib_step_sys : forall t R (fib : spec) o, RInv t R -> FOK fib R ->
    RInv (fst (rib_step shuffle t o)) (rspec_step R o) /\
    FOK (fold_left spec_step (snd (rib_step shuffle t o)) fib) (rspec_step R o).
  Proof.
    intros t R fib o I F. destruct o as [n r|n f o|f]; cbn [rib_step rspec_step].
    - (* Reg *)
      cbn [fst snd]. pose proof (rib_grow t R n r I) as I'. cbv zeta in I'. split; [exact I'|].
      set (t2 := set (fill rnode_dflt t n) n _) in *.
      apply (fib_update t2 R _ fib n).
      + apply RInv_sem. exact I'.
      + exact F.
      + intros x Hx. rewrite rget_set. apply not_eq_sym in Hx. apply name_eqb_neq in Hx. rewrite Hx. reflexivity.
      + unfold t2. rewrite mem_set, name_eqb_refl. reflexivity.
      + intros nd1 H Hun. unfold t2 in H. rewrite get_set_same in H. inversion H; subst nd1. discriminate.
    - (* Unreg *)
      rewrite (find_exact_get t n (RInv_closed _ _ I) (RInv_root _ _ I)). destruct (get t n) as [nd|] eqn:E.
      + cbn [fst snd]. rewrite <- (ri_routes _ _ I n nd E). apply node_shrink_sys; [exact I | exact F | exact E | apply rem_route_nonempty].
      + cbn [fst snd fold_left]. assert (Hext : forall p, rget (set R n (rem_route (rget R n) f o)) p = rget R p).
        { intro p. rewrite rget_set. destruct (name_eqb n p) eqn:Ep; [|reflexivity]. apply name_eqb_eq in Ep. subst p.
          rewrite (RInv_absent _ _ _ I E). reflexivity. }
        split; [eapply RInv_ext; eassumption | eapply FOK_ext; eassumption].
    - (* Cleanup *)
      cbn [fst snd]. apply cleanup_sys; assumption.
  Qed.

  (* ---------- whole histories ---------- *)
  Lemma rib_init_sys : RInv rib_init [] /\ FOK spec_init [].
  Proof.
    split.
    - constructor.
      + simpl. constructor; [intros [] | constructor].
      + intro p. unfold mem, rib_init. simpl. destruct p as [|x p]; simpl.
        * split; [intros _; left; reflexivity | reflexivity].
        * split; [discriminate|]. intros [H|[w [_ H]]]; [discriminate | exfalso; apply H; reflexivity].
      + intros p nd. unfold rib_init. simpl. destruct p; [|discriminate]. intro H. inversion H. reflexivity.
      + intros p nd. unfold rib_init. simpl. destruct p; [|discriminate]. intro H. inversion H. simpl. congruence.
    - intro p. unfold fib_want. simpl. unfold sget. simpl. destruct p; simpl; constructor.
  Qed.

  Lemma rib_run_from_sys : forall ops st R, RInv (fst st) R -> FOK (run_spec (snd st)) R ->
    RInv (fst (rib_run_from shuffle ops st)) (fold_left rspec_step ops R) /\
    FOK (run_spec (snd (rib_run_from shuffle ops st))) (fold_left rspec_step ops R).
  Proof.
    induction ops as [|o ops IH]; intros st R I F; [split; assumption|]. unfold rib_run_from. cbn [fold_left].
    fold (rib_run_from shuffle ops). destruct (rib_step_sys (fst st) R (run_spec (snd st)) o I F) as [I' F'].
    destruct (rib_step shuffle (fst st) o) as [t' fo] eqn:Est. cbn [fst snd] in I', F'.
    apply IH; cbn [fst snd]; [exact I'|]. unfold run_spec. rewrite fold_left_app. exact F'.
  Qed.

  Theorem rib_run_sys : forall ops,
    RInv (fst (rib_run shuffle ops)) (routes_after ops) /\
    FOK (run_spec (snd (rib_run shuffle ops))) (routes_after ops).
  Proof. intro ops. apply rib_run_from_sys; apply rib_init_sys. Qed.
End RibProofs.

(* ================= meaning of the specification ================= *)
Local Open Scope N_scope.

(* c is the minimum cost among the routes of rs with face f *)
Definition best (rs : list route) (f c : N) : Prop :=
  (exists r, In r rs /\ r_face r = f /\ r_cost r = c) /\ forall r, In r rs -> r_face r = f -> c <= r_cost r.

Fixpoint cost_of (l : list nexthop) (f : N) : option N :=
  match l with [] => None | (g, d) :: r => if g =? f then Some d else cost_of r f end.

Lemma cost_of_mc_insert : forall acc f c g,
  cost_of (mc_insert acc f c) g =
  if g =? f then Some (match cost_of acc f with Some d => if c <? d then c else d | None => c end) else cost_of acc g.
Proof.
  induction acc as [|[g0 d0] r IH]; intros f c g; simpl.
  - rewrite (N.eqb_sym f g). destruct (g =? f); reflexivity.
  - destruct (g0 =? f) eqn:E0; simpl.
    + apply N.eqb_eq in E0. subst g0. rewrite (N.eqb_sym f g). destruct (g =? f); reflexivity.
    + rewrite IH. destruct (g0 =? g) eqn:E1; [|reflexivity].
      apply N.eqb_eq in E1. subst g0. rewrite E0. reflexivity.
Qed.

Lemma min_cost_snoc : forall rs r, min_cost (rs ++ [r]) = mc_insert (min_cost rs) (r_face r) (r_cost r).
Proof. intros. unfold min_cost. rewrite fold_left_app. reflexivity. Qed.

Lemma cost_of_min_cost : forall rs f,
  match cost_of (min_cost rs) f with
  | Some c => best rs f c
  | None => forall r, In r rs -> r_face r <> f
  end.
Proof.
  induction rs as [|r rs IH] using rev_ind; intro f; [simpl; intros r []|].
  rewrite min_cost_snoc, cost_of_mc_insert. destruct (f =? r_face r) eqn:E.
  - apply N.eqb_eq in E. subst f. specialize (IH (r_face r)). destruct (cost_of (min_cost rs) (r_face r)) as [d|].
    + destruct IH as [[r0 [H1 [H2 H3]]] H4]. destruct (r_cost r <? d) eqn:Ec.
      * apply N.ltb_lt in Ec. split.
        -- exists r. split; [apply in_or_app; right; left; reflexivity | split; reflexivity].
        -- intros r' Hin Hf. apply in_app_or in Hin. destruct Hin as [Hin|[<-|[]]]; [specialize (H4 r' Hin Hf); lia | lia].
      * apply N.ltb_ge in Ec. split.
        -- exists r0. split; [apply in_or_app; left; exact H1 | split; assumption].
        -- intros r' Hin Hf. apply in_app_or in Hin. destruct Hin as [Hin|[<-|[]]]; [apply H4; assumption | exact Ec].
    + split.
      * exists r. split; [apply in_or_app; right; left; reflexivity | split; reflexivity].
      * intros r' Hin Hf. apply in_app_or in Hin. destruct Hin as [Hin|[<-|[]]]; [exfalso; eapply IH; eassumption | lia].
  - apply N.eqb_neq in E. specialize (IH f). destruct (cost_of (min_cost rs) f) as [c|].
    + destruct IH as [[r0 [H1 [H2 H3]]] H4]. split.
      * exists r0. split; [apply in_or_app; left; exact H1 | split; assumption].
      * intros r' Hin Hf. apply in_app_or in Hin. destruct Hin as [Hin|[<-|[]]]; [apply H4; assumption | congruence].
    + intros r' Hin. apply in_app_or in Hin. destruct Hin as [Hin|[<-|[]]]; [apply IH; exact Hin | congruence].
Qed.

Lemma In_cost_of : forall l f c, NoDup (faces l) -> (In (f, c) l <-> cost_of l f = Some c).
Proof.
  induction l as [|[g d] r IH]; intros f c ND; simpl; [split; [intros [] | discriminate]|].
  simpl in ND. inversion ND as [|? ? Hn ND']; subst. destruct (g =? f) eqn:E.
  - apply N.eqb_eq in E. subst g. split.
    + intros [H|H]; [inversion H; reflexivity | exfalso; apply Hn; apply (in_map fst) in H; exact H].
    + intro H. inversion H. left. reflexivity.
  - apply N.eqb_neq in E. rewrite <- (IH f c ND'). split; [intros [H|H]; [inversion H; congruence | exact H] | intro H; right; exact H].
Qed.

Lemma best_unique : forall rs f c1 c2, best rs f c1 -> best rs f c2 -> c1 = c2.
Proof.
  intros rs f c1 c2 [[r1 [A1 [A2 A3]]] A4] [[r2 [B1 [B2 B3]]] B4].
  specialize (A4 r2 B1 B2). specialize (B4 r1 A1 A2). lia.
Qed.

(* each face at the minimum cost among the contributing routes, every contributing face present, no face twice *)
Theorem min_cost_meaning : forall rs,
  NoDup (map fst (min_cost rs)) /\ forall f c, In (f, c) (min_cost rs) <-> best rs f c.
Proof.
  intro rs. split; [apply min_cost_nodup|]. intros f c. rewrite (In_cost_of _ f c (min_cost_nodup rs)).
  pose proof (cost_of_min_cost rs f) as H. destruct (cost_of (min_cost rs) f) as [d|].
  - split; [intro E; inversion E; subst; exact H | intro Hb; f_equal; eapply best_unique; eassumption].
  - split; [discriminate|]. intros [[r [H1 [H2 _]]] _]. exfalso. eapply H; eassumption.
Qed.

Local Open Scope nat_scope.

(* which routes contribute to prefix n: its own, and -- unless n itself holds a capture route -- the child-inherit
   routes of the prefixes of n (of length k <= |n|) such that no prefix strictly between k and |n| ... holds a capture
   route: inheritance stops at, and includes, the nearest prefix holding a capture route *)
Lemma inherit_meaning : forall ra n k r,
  In r (inherit ra n k) <->
  exists j, j <= k /\ In r (ra (firstn j n)) /\ has_ci r = true /\ forall i, j < i <= k -> captures (ra (firstn i n)) = false.
Proof.
  intros ra n. induction k as [|k IH]; intro r; cbn [inherit]; rewrite in_app_iff, filter_In.
  - split.
    + intros [[H1 H2]|H]; [|destruct (captures (ra (firstn 0 n))); destruct H]. exists 0. split; [lia|]. split; [exact H1|]. split; [exact H2 | intros; lia].
    + intros [j [Hj [H1 [H2 _]]]]. assert (j = 0) by lia. subst. left. split; assumption.
  - split.
    + intros [[H1 H2]|H]; [exists (S k); split; [lia|]; split; [exact H1|]; split; [exact H2 | intros; lia]|].
      destruct (captures (ra (firstn (S k) n))) eqn:Ec; [destruct H|]. apply IH in H. destruct H as [j [Hj [H1 [H2 H3]]]].
      exists j. split; [lia|]. split; [exact H1|]. split; [exact H2|]. intros i Hi.
      destruct (Nat.eq_dec i (S k)) as [->|]; [exact Ec | apply H3; lia].
    + intros [j [Hj [H1 [H2 H3]]]]. destruct (Nat.eq_dec j (S k)) as [->|Hne]; [left; split; assumption|].
      right. rewrite (H3 (S k)) by lia. apply IH. exists j. split; [lia|]. split; [exact H1|]. split; [exact H2|]. intros i Hi. apply H3. lia.
Qed.

Theorem contributing_meaning : forall ra n r,
  In r (contributing ra n) <->
  In r (ra n) \/
  (captures (ra n) = false /\
   exists j, j <= length n /\ In r (ra (firstn j n)) /\ has_ci r = true /\
             forall i, j < i <= length n -> captures (ra (firstn i n)) = false).
Proof.
  intros ra n r. unfold contributing. rewrite in_app_iff. destruct (captures (ra n)) eqn:Ec.
  - split; [intros [H|[]]; left; exact H | intros [H|[H _]]; [left; exact H | discriminate]].
  - rewrite inherit_meaning. split; [intros [H|H]; [left; exact H | right; split; [reflexivity | exact H]] | intros [H|[_ H]]; [left | right]; exact H].
Qed.

Lemma contributing_from_prefix : forall ra n r, In r (contributing ra n) -> exists j, j <= length n /\ In r (ra (firstn j n)).
Proof.
  intros ra n r H. apply contributing_meaning in H. destruct H as [H|[_ [j [Hj [H _]]]]].
  - exists (length n). split; [lia|]. rewrite firstn_all. exact H.
  - exists j. split; assumption.
Qed.

(* ================= consequences for whole histories ================= *)
Section RibTheorems.
  Variable shuffle : list nexthop -> list nexthop.
  Hypothesis shuffle_perm : forall l, Permutation (shuffle l) l.

  (* FIB operations issued by the RIB over a history, and the flat FIB they produce *)
  Definition rib_emitted (ops : list ribop) : list fibop := snd (rib_run shuffle ops).
  Definition fib_after (ops : list ribop) : spec := run_spec (rib_emitted ops).

  Theorem rib_fib_exact_thm : forall ops p,
    Permutation (nhs (sget (fib_after ops) p)) (fib_want (routes_after ops) p).
  Proof. intros ops p. apply (proj2 (rib_run_sys shuffle shuffle_perm ops)). Qed.

  Lemma sel_rel : forall ops p,
    match sel_nh (fib_after ops) p, sel_want (routes_after ops) p with
    | Some a, Some b => Permutation a b | None, None => True | _, _ => False end.
  Proof.
    intros ops p. unfold sel_nh, sel_want. pose proof (rib_fib_exact_thm ops p) as P.
    pose proof (perm_nil_iff _ _ _ P) as Hn.
    destruct (nhs (sget (fib_after ops) p)) eqn:E1, (fib_want (routes_after ops) p) eqn:E2; try exact I; try exact P;
      destruct Hn as [Hn1 Hn2]; first [discriminate (Hn1 eq_refl) | discriminate (Hn2 eq_refl)].
  Qed.

  Theorem rib_flatten_thm : forall ops n,
    Permutation (spec_find_nh (fib_after ops) n) (want_lookup (routes_after ops) n).
  Proof.
    intros ops n. unfold spec_find_nh, want_lookup.
    pose proof (lpm_rel _ (@Permutation nexthop) (sel_nh (fib_after ops)) (sel_want (routes_after ops)) n (length n) (sel_rel ops)) as L.
    destruct (lpm (sel_nh (fib_after ops)) n (length n)), (lpm (sel_want (routes_after ops)) n (length n)); try contradiction; [exact L | constructor].
  Qed.

  (* composed with C05: what the two real FIB structures answer after the RIB history *)
  Theorem rib_flatten_tree_thm : forall ops n,
    Permutation (tree_find_nh (run_tree (rib_emitted ops)) n) (want_lookup (routes_after ops) n).
  Proof.
    intros ops n. rewrite (proj1 (tree_refines_inv _ _ n (tree_run_inv (rib_emitted ops)))). apply rib_flatten_thm.
  Qed.

  Theorem rib_flatten_ht_thm : forall m ops n, 1 <= m ->
    Permutation (ht_find_nh m (run_ht m (rib_emitted ops)) n) (want_lookup (routes_after ops) n).
  Proof.
    intros m ops n Hm. eapply Permutation_trans; [apply (proj1 (ht_refines m (rib_emitted ops) n Hm)) | apply rib_flatten_thm].
  Qed.

  (* the FIB listing is exactly { p |-> flattening of p | p has routes } *)
  Theorem rib_listing_tree_thm : forall ops,
    let l := list_fib (nodes (run_tree (rib_emitted ops))) in let R := routes_after ops in
    (forall p nh, In (p, nh) l -> Permutation nh (fib_want R p) /\ nh <> []) /\
    (forall p, fib_want R p <> [] -> exists nh, In (p, nh) l) /\ NoDup (map fst l).
  Proof.
    intros ops l R. destruct (tree_listing_inv _ _ (tree_run_inv (rib_emitted ops))) as [H1 [H2 _]]. split; [|split; [|exact H2]].
    - intros p nh Hin. apply H1 in Hin. destruct Hin as [-> Hne]. split; [apply rib_fib_exact_thm | exact Hne].
    - intros p Hne. exists (nhs (sget (run_spec (rib_emitted ops)) p)). apply H1. split; [reflexivity|].
      intro E. apply Hne. apply (perm_nil_iff _ _ _ (rib_fib_exact_thm ops p)). exact E.
  Qed.

  Theorem rib_listing_ht_thm : forall m ops, 1 <= m ->
    let l := list_fib (real (run_ht m (rib_emitted ops))) in let R := routes_after ops in
    (forall p nh, In (p, nh) l -> Permutation nh (fib_want R p) /\ nh <> []) /\
    (forall p, fib_want R p <> [] -> exists nh, In (p, nh) l) /\ NoDup (map fst l).
  Proof.
    intros m ops Hm l R. destruct (ht_listing m (rib_emitted ops) Hm) as [H1 [H2 [H3 _]]]. split; [|split; [|exact H3]].
    - intros p nh Hin. apply H1 in Hin. destruct Hin as [P Hne]. split; [|exact Hne].
      eapply Permutation_trans; [exact P | apply rib_fib_exact_thm].
    - intros p Hne. apply H2. intro E. apply Hne. apply (perm_nil_iff _ _ _ (rib_fib_exact_thm ops p)). exact E.
  Qed.

  (* every next hop anywhere in the FIB is justified by a CURRENTLY registered route on that prefix or a shorter one,
     with that face and that cost: nothing derived from a removed route or face remains *)
  Theorem rib_no_residue_thm : forall ops p f c, In (f, c) (nhs (sget (fib_after ops) p)) ->
    rget (routes_after ops) p <> [] /\
    exists q r, is_prefix q p = true /\ In r (rget (routes_after ops) q) /\ r_face r = f /\ r_cost r = c.
  Proof.
    intros ops p f c Hin. apply (Permutation_in _ (rib_fib_exact_thm ops p)) in Hin. unfold fib_want in Hin.
    destruct (rget (routes_after ops) p) eqn:E; [destruct Hin|]. split; [discriminate|]. unfold flatten in Hin.
    apply (proj2 (min_cost_meaning _)) in Hin. destruct Hin as [[r0 [H1 [H2 H3]]] _].
    apply contributing_from_prefix in H1. destruct H1 as [j [Hj H1]].
    exists (firstn j p), r0. split; [apply is_prefix_firstn_self|]. split; [exact H1 | split; assumption].
  Qed.

  (* nothing ever appears in the root entry that was not registered at the root *)
  Theorem rib_root_clean_thm : forall ops f c, In (f, c) (nhs (sget (fib_after ops) [])) ->
    exists r, In r (rget (routes_after ops) []) /\ r_face r = f /\ r_cost r = c.
  Proof.
    intros ops f c Hin. apply rib_no_residue_thm in Hin. destruct Hin as [_ [q [r [H1 [H2 [H3 H4]]]]]].
    destruct q; [|discriminate]. exists r. split; [exact H2 | split; assumption].
  Qed.

  Lemma rget_cleanup_noface : forall R f q r, In r (rget (rspec_step R (Cleanup f)) q) -> r_face r <> f.
  Proof.
    intros R f q r H. cbn [rspec_step] in H. rewrite rget_map_rem_face in H. unfold rem_face in H. apply filter_In in H.
    destruct H as [_ H]. apply negb_true_iff in H. apply N.eqb_neq in H. exact H.
  Qed.

  Theorem rib_cleanup_no_residue_thm : forall ops f p c, ~ In (f, c) (nhs (sget (fib_after (ops ++ [Cleanup f])) p)).
  Proof.
    intros ops f p c Hin. apply rib_no_residue_thm in Hin. destruct Hin as [_ [q [r [_ [H2 [H3 _]]]]]].
    unfold routes_after in H2. rewrite fold_left_app in H2. cbn [fold_left] in H2. apply rget_cleanup_noface in H2. contradiction.
  Qed.

  (* the RIB tree: exactly the root plus the prefix closure of the names with routes; its listing is exact *)
  Theorem rib_minimal_thm : forall ops,
    let t := fst (rib_run shuffle ops) in let R := routes_after ops in
    (forall p, mem t p = true <-> (p = [] \/ exists w, is_prefix p w = true /\ rget R w <> [])) /\
    rib_minimal_b t = true /\
    (forall p rs, In (p, rs) (list_rib t) <-> (rs = rget R p /\ rs <> [])).
  Proof.
    intros ops t R. pose proof (proj1 (rib_run_sys shuffle shuffle_perm ops)) as I. fold t R in I.
    assert (Hget : forall w, rget R w <> [] -> exists nd, get t w = Some nd /\ rn_routes nd = rget R w).
    { intros w Hw. assert (Hm : mem t w = true) by (apply (ri_nodes _ _ I); apply inCR_live; exact Hw).
      apply mem_get in Hm. destruct (get t w) as [nd|] eqn:E; [|congruence]. exists nd. split; [reflexivity | apply (ri_routes _ _ I); exact E]. }
    split; [exact (ri_nodes _ _ I)|]. split.
    - unfold rib_minimal_b. apply forallb_forall. intros [p nd] Hin. cbn [fst snd]. destruct p as [|x p']; [reflexivity|].
      assert (Hm : mem t (x :: p') = true) by (apply mem_get; apply In_amap_get in Hin; [congruence | apply I]).
      apply (ri_nodes _ _ I) in Hm. destruct Hm as [Hm|[w [H1 H2]]]; [discriminate|].
      destruct (Hget w H2) as [ndw [E1 E2]]. apply existsb_exists. exists (w, ndw). split; [apply get_In; exact E1|].
      cbn [fst snd]. rewrite H1. cbn [andb]. apply negb_true_iff. apply rnode_emp_routes. rewrite E2. exact H2.
    - intros p rs. unfold list_rib. rewrite in_map_iff. split.
      + intros [[k nd] [H1 H2]]. cbn [fst snd] in H1. inversion H1; subst. apply filter_In in H2. destruct H2 as [H2 H3]. cbn [snd] in H3.
        apply In_amap_get in H2; [|apply I]. split; [apply (ri_routes _ _ I); exact H2|].
        apply negb_true_iff in H3. apply rnode_emp_routes. exact H3.
      + intros [-> Hne]. destruct (Hget p Hne) as [nd [E1 E2]]. exists (p, nd). split; [cbn [fst snd]; rewrite E2; reflexivity|].
        apply filter_In. split; [apply get_In; exact E1|]. cbn [snd]. apply negb_true_iff. apply rnode_emp_routes. rewrite E2. exact Hne.
  Qed.
End RibTheorems.

(* ================= the batch operation (C05 over the extended alphabet) ================= *)
Lemma fold_flat_map : forall (A B S : Type) (f : S -> B -> S) (g : A -> list B) (l : list A) (s : S),
  fold_left f (flat_map g l) s = fold_left (fun s a => fold_left f (g a) s) l s.
Proof.
  intros A B S f g. induction l as [|a l IH]; intro s; [reflexivity|]. simpl. rewrite fold_left_app. apply IH.
Qed.

Lemma run_tree_b_expand : forall bs, run_tree_b bs = run_tree (expand bs).
Proof. intro bs. unfold run_tree_b, run_tree, expand, tree_step_b. symmetry. apply fold_flat_map. Qed.
Lemma run_ht_b_expand : forall m bs, run_ht_b m bs = run_ht m (expand bs).
Proof. intros m bs. unfold run_ht_b, run_ht, expand, ht_step_b. symmetry. apply fold_flat_map. Qed.
Lemma run_spec_b_expand : forall bs, run_spec_b bs = run_spec (expand bs).
Proof. intro bs. unfold run_spec_b, run_spec, expand, spec_step_b. symmetry. apply fold_flat_map. Qed.

(* what a batch means on the flat map: a prefix listed (last) in the batch with distinct faces holds exactly the listed
   next hops afterwards (an empty list empties it) and keeps its strategy; prefixes not listed are untouched *)
Lemma expand_update_names : forall u o, In o (expand_update u) -> op_name o = fst u.
Proof.
  intros [n l] o [<-|H]; [reflexivity|]. apply in_map_iff in H. destruct H as [fc [<- _]]. reflexivity.
Qed.

Lemma replace_update_effect : forall (s : spec) u, NoDup (faces (snd u)) ->
  let s' := fold_left spec_step (expand_update u) s in
  nhs (sget s' (fst u)) = snd u /\ strat (sget s' (fst u)) = strat (sget s (fst u)) /\
  forall p, p <> fst u -> sget s' p = sget s p.
Proof.
  intros s [n l] ND s'. cbn [fst snd] in *. unfold s', expand_update. cbn [fst snd fold_left].
  assert (Hc : sget (spec_step s (Clr n)) n = mkfent [] (strat (sget s n))).
  { rewrite (sget_step s (Clr n) n). cbn [op_name op_ent]. rewrite name_eqb_refl. reflexivity. }
  destruct (ins_all l (spec_step s (Clr n)) n []) as [H1 H2]; [rewrite Hc; reflexivity | exact ND|].
  split; [exact H1|]. split; [rewrite H2, Hc; reflexivity|].
  intros p Hp. rewrite fold_untouched.
  - apply sget_step_other. cbn [op_name]. congruence.
  - intros o Ho. apply in_map_iff in Ho. destruct Ho as [fc [<- _]]. cbn [op_name]. congruence.
Qed.

(* ================= strategy choice shares the FIB with the routes: it never changes a route lookup ================= *)
Definition strat_only (o : fibop) : bool := match o with SetS _ _ | UnS _ => true | _ => false end.
Inductive mop := MRib (o : ribop) | MStrat (o : fibop).    (* a RIB operation, or a strategy set/unset made directly on the FIB *)
Definition mop_ok (m : mop) : Prop := match m with MStrat o => strat_only o = true | MRib _ => True end.
Definition rib_ops (ms : list mop) : list ribop := flat_map (fun m => match m with MRib o => [o] | MStrat _ => [] end) ms.

Section RibMixed.
  Variable shuffle : list nexthop -> list nexthop.
  Hypothesis shuffle_perm : forall l, Permutation (shuffle l) l.

  Definition mixed_step (st : rib * list fibop) (m : mop) : rib * list fibop :=
    match m with
    | MRib o => let (t', fo) := rib_step shuffle (fst st) o in (t', snd st ++ fo)
    | MStrat o => (fst st, snd st ++ [o])
    end.
  Definition mixed_run (ms : list mop) : rib * list fibop := fold_left mixed_step ms (rib_init, []).

  Lemma strat_step_nhs : forall (s : spec) o p, strat_only o = true -> nhs (sget (spec_step s o) p) = nhs (sget s p).
  Proof.
    intros s o p H. rewrite sget_step. destruct (name_eqb (op_name o) p) eqn:E; [|reflexivity].
    apply name_eqb_eq in E. subst p. destruct o; try discriminate; reflexivity.
  Qed.

  Lemma mixed_run_from_sys : forall ms st R, Forall mop_ok ms ->
    RInv (fst st) R -> FOK (run_spec (snd st)) R ->
    RInv (fst (fold_left mixed_step ms st)) (fold_left rspec_step (rib_ops ms) R) /\
    FOK (run_spec (snd (fold_left mixed_step ms st))) (fold_left rspec_step (rib_ops ms) R).
  Proof.
    induction ms as [|m ms IH]; intros st R Hok I F; [split; assumption|]. inversion Hok as [|? ? Hm Hok']; subst.
    cbn [fold_left]. destruct m as [o|o]; cbn [rib_ops flat_map mixed_step].
    - destruct (rib_step_sys shuffle shuffle_perm (fst st) R (run_spec (snd st)) o I F) as [I' F'].
      destruct (rib_step shuffle (fst st) o) as [t' fo] eqn:Est. cbn [fst snd] in I', F'. cbn [app fold_left].
      apply IH; cbn [fst snd]; [exact Hok' | exact I'|]. unfold run_spec. rewrite fold_left_app. exact F'.
    - cbn [app]. apply IH; cbn [fst snd]; [exact Hok' | exact I|]. unfold run_spec. rewrite fold_left_app. cbn [fold_left].
      intro p. rewrite (strat_step_nhs _ o p Hm). apply F.
  Qed.

  Theorem rib_fib_exact_with_strategy_thm : forall ms p, Forall mop_ok ms ->
    Permutation (nhs (sget (run_spec (snd (mixed_run ms))) p)) (fib_want (routes_after (rib_ops ms)) p).
  Proof.
    intros ms p Hok. destruct (mixed_run_from_sys ms (rib_init, []) [] Hok (proj1 rib_init_sys) (proj2 rib_init_sys)) as [_ F]. apply F.
  Qed.
End RibMixed.
