(* Tables/Lock.v — C16, the part that is logic: under the lock discipline checked by [all_guarded]
   (every table access inside the table's mutex, writes inside the write lock, mutexes taken in rank order and released)
   no two conflicting accesses are ever concurrent, no reachable state is a deadlock, and every concurrent execution of
   guarded methods is equivalent to the sequential execution in lock-acquisition order, every lookup having sampled
   exactly one state of that sequential run (never a torn one). *)
From Tables Require Import ModelLock.
From Coq Require Import Lia.

(* ================= level 1 ================= *)
Lemma holdsW_holds : forall m h, holdsW m h = true -> holds m h = true.
Proof.
  intros m h H. unfold holdsW, holds in *. apply existsb_exists in H. destruct H as [x [H1 H2]].
  apply existsb_exists. exists x. split; [exact H1|]. apply andb_true_iff in H2. tauto.
Qed.

Lemma holds_drop : forall m m' h, holds m' (drop m h) = true -> holds m' h = true.
Proof.
  intros m m' h H. unfold holds, drop in *. apply existsb_exists in H. destruct H as [x [H1 H2]].
  apply filter_In in H1. apply existsb_exists. exists x. tauto.
Qed.

Lemma holdsW_drop : forall m m' h, holdsW m' (drop m h) = true -> holdsW m' h = true.
Proof.
  intros m m' h H. unfold holdsW, drop in *. apply existsb_exists in H. destruct H as [x [H1 H2]].
  apply filter_In in H1. apply existsb_exists. exists x. tauto.
Qed.

Lemma holds_cons : forall m m' w h, holds m' ((m, w) :: h) = Nat.eqb m m' || holds m' h.
Proof. reflexivity. Qed.

Lemma holdsW_cons : forall m m' w h, holdsW m' ((m, w) :: h) = (Nat.eqb m m' && w) || holdsW m' h.
Proof. reflexivity. Qed.

Lemma upd_same : forall P i t, upd P i t i = t.
Proof. intros. unfold upd. rewrite Nat.eqb_refl. reflexivity. Qed.

Lemma upd_other : forall P i t j, j <> i -> upd P i t j = P j.
Proof. intros P i t j H. unfold upd. apply Nat.eqb_neq in H. rewrite H. reflexivity. Qed.

Section AccessProofs.
  Variable mu : nat -> nat.
  Variable rank : nat -> nat.

  Definition all_safe (P : pool) : Prop := forall i, safe mu rank (th_held (P i)) (th_prog (P i)) = true.
  Definition exclusive (P : pool) : Prop :=
    forall i j m, i <> j -> holdsW m (th_held (P i)) = true -> holds m (th_held (P j)) = false.

  Lemma step_all_safe : forall P P', step P P' -> all_safe P -> all_safe P'.
  Proof.
    intros P P' St Hs. destruct St as [P i a p Hp Hen]. intro j. destruct (Nat.eq_dec j i) as [->|Hne].
    - rewrite upd_same. specialize (Hs i). rewrite Hp in Hs. destruct a as [m w|m|t|t]; cbn [safe exec th_held th_prog] in *.
      + apply andb_true_iff in Hs. tauto.
      + apply andb_true_iff in Hs. tauto.
      + apply andb_true_iff in Hs. tauto.
      + apply andb_true_iff in Hs. tauto.
    - rewrite upd_other by exact Hne. apply Hs.
  Qed.

  Lemma step_exclusive : forall P P', step P P' -> exclusive P -> exclusive P'.
  Proof.
    intros P P' St Hx. destruct St as [P i a p Hp Hen]. intros x y m Hxy Hw.
    assert (Hheld : forall j, j <> i -> th_held (upd P i (exec (P i) a p) j) = th_held (P j)) by (intros j Hj; rewrite upd_other by exact Hj; reflexivity).
    destruct a as [m0 w|m0|t|t].
    - (* Acq *)
      destruct (Nat.eq_dec x i) as [->|Hxi]; [|destruct (Nat.eq_dec y i) as [->|Hyi]].
      + rewrite upd_same in Hw. cbn [exec th_held] in Hw. rewrite holdsW_cons in Hw. rewrite (Hheld y) by congruence.
        apply orb_true_iff in Hw. destruct Hw as [Hw|Hw]; [|apply (Hx i y m Hxy Hw)].
        apply andb_true_iff in Hw. destruct Hw as [Hm ->]. apply Nat.eqb_eq in Hm. subst m0.
        destruct Hen as [_ Hen]. apply Hen. congruence.
      + rewrite (Hheld x) in Hw by exact Hxi. rewrite upd_same. cbn [exec th_held]. rewrite holds_cons.
        apply orb_false_iff. split; [|apply (Hx x i m Hxy Hw)].
        apply Nat.eqb_neq. intro; subst m0. destruct w; destruct Hen as [_ Hen].
        * specialize (Hen x Hxi). apply holdsW_holds in Hw. congruence.
        * specialize (Hen x Hxi). congruence.
      + rewrite (Hheld x) in Hw by exact Hxi. rewrite (Hheld y) by exact Hyi. apply (Hx x y m Hxy Hw).
    - (* Rel *)
      destruct (Nat.eq_dec x i) as [->|Hxi]; [|destruct (Nat.eq_dec y i) as [->|Hyi]].
      + rewrite upd_same in Hw. cbn [exec th_held] in Hw. rewrite (Hheld y) by congruence. apply holdsW_drop in Hw. apply (Hx i y m Hxy Hw).
      + rewrite (Hheld x) in Hw by exact Hxi. rewrite upd_same. cbn [exec th_held].
        destruct (holds m (drop m0 (th_held (P i)))) eqn:E; [|reflexivity]. apply holds_drop in E. rewrite (Hx x i m Hxy Hw) in E. discriminate.
      + rewrite (Hheld x) in Hw by exact Hxi. rewrite (Hheld y) by exact Hyi. apply (Hx x y m Hxy Hw).
    - destruct (Nat.eq_dec x i) as [->|Hxi]; [rewrite upd_same in Hw|rewrite (Hheld x) in Hw by exact Hxi];
        (destruct (Nat.eq_dec y i) as [->|Hyi]; [rewrite upd_same|rewrite (Hheld y) by exact Hyi]); cbn [exec th_held] in *;
        try (apply (Hx _ _ m Hxy Hw)); congruence.
    - destruct (Nat.eq_dec x i) as [->|Hxi]; [rewrite upd_same in Hw|rewrite (Hheld x) in Hw by exact Hxi];
        (destruct (Nat.eq_dec y i) as [->|Hyi]; [rewrite upd_same|rewrite (Hheld y) by exact Hyi]); cbn [exec th_held] in *;
        try (apply (Hx _ _ m Hxy Hw)); congruence.
  Qed.

  Definition initial (P0 : pool) : Prop := forall i, th_held (P0 i) = [] /\ safe mu rank [] (th_prog (P0 i)) = true.

  Lemma reach_inv : forall P0 P, initial P0 -> reach P0 P -> all_safe P /\ exclusive P.
  Proof.
    intros P0 P Hi R. induction R as [|P P' R IH St].
    - split.
      + intro i. destruct (Hi i) as [H1 H2]. rewrite H1. exact H2.
      + intros i j m _ Hw. destruct (Hi i) as [H1 _]. rewrite H1 in Hw. discriminate.
    - destruct IH as [I1 I2]. split; [eapply step_all_safe | eapply step_exclusive]; eassumption.
  Qed.

  Lemma access_needs_lock : forall h a p t w, safe mu rank h (a :: p) = true -> access a = Some (t, w) ->
    holds (mu t) h = true /\ (w = true -> holdsW (mu t) h = true).
  Proof.
    intros h a p t w Hs Ha. destruct a as [m w0|m|t0|t0]; try discriminate; inversion Ha; subst; cbn [safe] in Hs;
      apply andb_true_iff in Hs; destruct Hs as [Hs _].
    - split; [exact Hs | discriminate].
    - split; [apply holdsW_holds; exact Hs | intros _; exact Hs].
  Qed.

  (* no two conflicting accesses are ever concurrent *)
  Theorem guarded_race_free_thm : forall P0 P, initial P0 -> reach P0 P -> ~ race P.
  Proof.
    intros P0 P Hi R [i [j [a [b [pa [pb [t [wa [wb [Hij [Hpi [Hpj [Ha [Hb Hw]]]]]]]]]]]]]].
    destruct (reach_inv P0 P Hi R) as [I1 I2].
    pose proof (I1 i) as Si. rewrite Hpi in Si. pose proof (I1 j) as Sj. rewrite Hpj in Sj.
    destruct (access_needs_lock _ _ _ _ _ Si Ha) as [Hi1 Hi2]. destruct (access_needs_lock _ _ _ _ _ Sj Hb) as [Hj1 Hj2].
    destruct Hw as [Hw|Hw].
    - rewrite (I2 i j (mu t) Hij (Hi2 Hw)) in Hj1. discriminate.
    - rewrite (I2 j i (mu t) (not_eq_sym Hij) (Hj2 Hw)) in Hi1. discriminate.
  Qed.

  (* ---------- deadlock freedom ---------- *)
  Lemma decide_below : forall (N : nat) (p : nat -> bool), (forall j, j < N -> p j = true) \/ (exists j, j < N /\ p j = false).
  Proof.
    induction N as [|N IH]; intro p; [left; intros; lia|]. destruct (IH p) as [H|[j [H1 H2]]].
    - destruct (p N) eqn:E; [left; intros j Hj; destruct (Nat.eq_dec j N) as [->|]; [exact E | apply H; lia] | right; exists N; split; [lia | exact E]].
    - right. exists j. split; [lia | exact H2].
  Qed.

  Definition idle_above (N : nat) (P : pool) : Prop := forall i, N <= i -> P i = mkth [] [].

  Lemma step_idle_above : forall N P P', step P P' -> idle_above N P -> idle_above N P'.
  Proof.
    intros N P P' St Hid. destruct St as [P i a p Hp Hen]. intros j Hj. destruct (Nat.eq_dec j i) as [->|Hne].
    - rewrite (Hid i Hj) in Hp. discriminate.
    - rewrite upd_other by exact Hne. apply Hid. exact Hj.
  Qed.

  Lemma reach_idle_above : forall N P0 P, idle_above N P0 -> reach P0 P -> idle_above N P.
  Proof. intros N P0 P Hid R. induction R as [|P P' R IH St]; [exact Hid | eapply step_idle_above; eassumption]. Qed.

  Lemma safe_nonempty : forall h, h <> [] -> forall p, safe mu rank h p = true -> p <> [].
  Proof. intros h Hh p Hs Hp. subst p. destruct h; [congruence | discriminate]. Qed.

  Lemma holds_In : forall m h, holds m h = true -> exists w, In (m, w) h.
  Proof.
    intros m h H. apply existsb_exists in H. destruct H as [[m' w] [H1 H2]]. simpl in H2. apply Nat.eqb_eq in H2. subst. exists w. exact H1.
  Qed.

  Variable B : nat.
  Hypothesis rank_bound : forall m, rank m <= B.

  Lemma blocked_chain : forall N P, all_safe P -> idle_above N P ->
    forall n i m w p, B - rank m <= n -> th_prog (P i) = Acq m w :: p -> exists P', step P P'.
  Proof.
    intros N P Hs Hid. induction n as [|n IH]; intros i m w p Hn Hp.
    - (* rank m = B: whoever holds m is not waiting for anything *)
      pose proof (Hs i) as Si. rewrite Hp in Si. cbn [safe] in Si. apply andb_true_iff in Si. destruct Si as [Si _]. apply andb_true_iff in Si. destruct Si as [Sown _].
      apply negb_true_iff in Sown.
      destruct (decide_below N (fun j => Nat.eqb j i || negb (if w then holds m (th_held (P j)) else holdsW m (th_held (P j))))) as [Hall|[j [Hj Hc]]].
      + exists (upd P i (exec (P i) (Acq m w) p)). constructor; [exact Hp|]. destruct w; cbn [enabled]; (split; [exact Sown|]); intros j Hji;
          (destruct (le_lt_dec N j) as [Hge|Hlt]; [rewrite (Hid j Hge); reflexivity|]); specialize (Hall j Hlt); cbn beta in Hall;
          apply Nat.eqb_neq in Hji; rewrite Hji in Hall; cbn [orb] in Hall; apply negb_true_iff in Hall; exact Hall.
      + cbn beta in Hc. apply orb_false_iff in Hc. destruct Hc as [Hji Hc]. apply negb_false_iff in Hc.
        assert (Hhold : holds m (th_held (P j)) = true) by (destruct w; [exact Hc | apply holdsW_holds; exact Hc]).
        pose proof (Hs j) as Sj. assert (Hne : th_held (P j) <> []) by (intro E; rewrite E in Hhold; discriminate).
        pose proof (safe_nonempty _ Hne _ Sj) as Hpj. destruct (th_prog (P j)) as [|b q] eqn:Epj; [congruence|].
        destruct b as [m' w'|m'|t|t]; try (eexists; eapply step_thread; [exact Epj | exact I]).
        exfalso. cbn [safe] in Sj. apply andb_true_iff in Sj. destruct Sj as [Sj _]. apply andb_true_iff in Sj. destruct Sj as [_ Sr].
        rewrite forallb_forall in Sr. apply holds_In in Hhold. destruct Hhold as [w0 Hin]. specialize (Sr _ Hin). cbn [fst] in Sr.
        apply Nat.ltb_lt in Sr. pose proof (rank_bound m'). lia.
    - pose proof (Hs i) as Si. rewrite Hp in Si. cbn [safe] in Si. apply andb_true_iff in Si. destruct Si as [Si _]. apply andb_true_iff in Si. destruct Si as [Sown _].
      apply negb_true_iff in Sown.
      destruct (decide_below N (fun j => Nat.eqb j i || negb (if w then holds m (th_held (P j)) else holdsW m (th_held (P j))))) as [Hall|[j [Hj Hc]]].
      + exists (upd P i (exec (P i) (Acq m w) p)). constructor; [exact Hp|]. destruct w; cbn [enabled]; (split; [exact Sown|]); intros j Hji;
          (destruct (le_lt_dec N j) as [Hge|Hlt]; [rewrite (Hid j Hge); reflexivity|]); specialize (Hall j Hlt); cbn beta in Hall;
          apply Nat.eqb_neq in Hji; rewrite Hji in Hall; cbn [orb] in Hall; apply negb_true_iff in Hall; exact Hall.
      + cbn beta in Hc. apply orb_false_iff in Hc. destruct Hc as [Hji Hc]. apply negb_false_iff in Hc.
        assert (Hhold : holds m (th_held (P j)) = true) by (destruct w; [exact Hc | apply holdsW_holds; exact Hc]).
        pose proof (Hs j) as Sj. assert (Hne : th_held (P j) <> []) by (intro E; rewrite E in Hhold; discriminate).
        pose proof (safe_nonempty _ Hne _ Sj) as Hpj. destruct (th_prog (P j)) as [|b q] eqn:Epj; [congruence|].
        destruct b as [m' w'|m'|t|t]; try (eexists; eapply step_thread; [exact Epj | exact I]).
        apply (IH j m' w' q); [|exact Epj].
        cbn [safe] in Sj. apply andb_true_iff in Sj. destruct Sj as [Sj _]. apply andb_true_iff in Sj. destruct Sj as [_ Sr].
        rewrite forallb_forall in Sr. apply holds_In in Hhold. destruct Hhold as [w0 Hin]. specialize (Sr _ Hin). cbn [fst] in Sr.
        apply Nat.ltb_lt in Sr. pose proof (rank_bound m'). lia.
  Qed.

  (* as long as some thread has work left, some thread can move *)
  Theorem no_deadlock_thm : forall N P0 P, initial P0 -> idle_above N P0 -> reach P0 P ->
    (exists i, th_prog (P i) <> []) -> exists P', step P P'.
  Proof.
    intros N P0 P Hi Hid R [i Hp].
    assert (Hid' : idle_above N P) by (eapply reach_idle_above; eassumption).
    destruct (reach_inv P0 P Hi R) as [I1 _].
    destruct (th_prog (P i)) as [|a p] eqn:E; [congruence|].
    destruct a as [m w|m|t|t]; try (eexists; eapply step_thread; [exact E | exact I]).
    eapply (blocked_chain N P I1 Hid' B i m w p); [lia | exact E].
  Qed.
End AccessProofs.

(* programs made of guarded method bodies are safe *)
Lemma safe_app : forall mu rank p q, safe mu rank [] p = true -> safe mu rank [] q = true -> safe mu rank [] (p ++ q) = true.
Proof.
  intros mu rank p q Hp Hq.
  assert (G : forall p h, safe mu rank h p = true -> safe mu rank h (p ++ q) = true).
  { induction p0 as [|a p0 IH]; intros h H; simpl in *.
    - destruct h; [exact Hq | discriminate].
    - destruct a; apply andb_true_iff in H; destruct H as [H1 H2]; apply andb_true_iff; (split; [exact H1 | apply IH; exact H2]). }
  apply G. exact Hp.
Qed.

Theorem all_guarded_bodies_safe : forall mu rank fs, all_guarded mu rank fs = true ->
  forall calls, (forall f, In f calls -> In f fs) -> safe mu rank [] (flat_map (body_of fs) calls) = true.
Proof.
  intros mu rank fs H. unfold all_guarded in H. rewrite forallb_forall in H.
  induction calls as [|f calls IH]; intro Hin; [reflexivity|]. cbn [flat_map]. apply safe_app.
  - apply (H f (Hin f (or_introl eq_refl))).
  - apply IH. intros g Hg. apply Hin. right. exact Hg.
Qed.

(* ================= level 2 ================= *)
Section DataProofs.
  Variable S : Type.
  Variable s0 : S.
  Notation meth := (meth S).
  Notation config := (config S).

  Lemma dupd_same : forall (P : dpool S) i t, dupd S P i t i = t.
  Proof. intros. unfold dupd. rewrite Nat.eqb_refl. reflexivity. Qed.
  Lemma dupd_other : forall (P : dpool S) i t j, j <> i -> dupd S P i t j = P j.
  Proof. intros P i t j H. unfold dupd. apply Nat.eqb_neq in H. rewrite H. reflexivity. Qed.

  Lemma seq_state_app : forall l1 l2, seq_state S (l1 ++ l2) s0 = seq_state S l2 (seq_state S l1 s0).
  Proof. intros. unfold seq_state. apply fold_left_app. Qed.

  Lemma apply_steps_app : forall a b s, apply_steps S (a ++ b) s = apply_steps S b (apply_steps S a s).
  Proof. intros. unfold apply_steps. apply fold_left_app. Qed.

  Definition no_unguarded (m : meth) : Prop := match m with MU _ => False | _ => True end.
  Definition guarded_cfg (c : config) : Prop :=
    forall i, Forall no_unguarded (todo S (threads S c i)) /\ (forall k seen, cur S (threads S c i) <> InU S k seen).

  Record DInv (c : config) : Prop := {
    d_excl : forall i j, i <> j -> is_writing S (cur S (threads S c i)) = true ->
             is_writing S (cur S (threads S c j)) = false /\ is_reading S (cur S (threads S c j)) = false;
    d_state : (exists i rest l' steps done, cur S (threads S c i) = InW S rest /\ log S c = l' ++ [(i, MW steps)] /\
                 steps = done ++ rest /\ shared S c = apply_steps S done (seq_state S l' s0))
              \/ ((forall i, is_writing S (cur S (threads S c i)) = false) /\ shared S c = seq_state S (log S c) s0);
    d_seen : forall i k seen, cur S (threads S c i) = InR S k seen -> forall x, In x seen -> x = shared S c;
    d_results : forall i seen, In seen (results S (threads S c i)) ->
                exists pre post, log S c = pre ++ post /\ forall x, In x seen -> x = seq_state S pre s0;
    d_guarded : guarded_cfg c
  }.

  Lemma no_writer_state : forall c, DInv c -> (forall i, is_writing S (cur S (threads S c i)) = false) ->
    shared S c = seq_state S (log S c) s0.
  Proof.
    intros c I H. destruct (d_state c I) as [[i [rest [l' [steps [done [H1 _]]]]]]|[_ H2]]; [|exact H2].
    specialize (H i). rewrite H1 in H. discriminate.
  Qed.

  Lemma dstep_inv : forall c c', dstep S c c' -> DInv c -> DInv c'.
  Proof.
    intros c c' St I. destruct St as [s P l i steps rest r Hc Ht Hr Hoth | s P l i k rest r Hc Ht Hr Hoth | s P l i k rest r Hc Ht Hr
                                     | s P l i g rest Hc | s P l i k seen Hc | s P l i k seen Hc | s P l i Hc | s P l i seen Hc | s P l i seen Hc].
    - (* acquire for writing *)
      assert (Hnow : forall j, is_writing S (cur S (P j)) = false).
      { intro j. destruct (Nat.eq_dec j i) as [->|Hj]; [rewrite Hc; reflexivity | apply (Hoth j Hj)]. }
      pose proof (no_writer_state _ I Hnow) as Hs. cbn [shared log threads] in Hs.
      constructor; cbn [shared log threads].
      + intros x y Hxy Hw. destruct (Nat.eq_dec x i) as [->|Hx].
        * rewrite dupd_other by congruence. apply Hoth. congruence.
        * rewrite dupd_other in Hw by exact Hx. rewrite Hnow in Hw. discriminate.
      + left. exists i, steps, l, steps, []. rewrite dupd_same. cbn [cur]. repeat split. exact Hs.
      + intros j k seen Hj. destruct (Nat.eq_dec j i) as [->|Hne]; [rewrite dupd_same in Hj; discriminate|].
        rewrite dupd_other in Hj by exact Hne. destruct (Hoth j Hne) as [_ Hr']. rewrite Hj in Hr'. discriminate.
      + intros j seen Hin. assert (Hin' : In seen (results S (P j))).
        { destruct (Nat.eq_dec j i) as [->|Hne]; [rewrite dupd_same in Hin; cbn [results] in Hin; rewrite Hr; exact Hin | rewrite dupd_other in Hin by exact Hne; exact Hin]. }
        destruct (d_results _ I j seen Hin') as [pre [post [E1 E2]]]. cbn [log] in E1. exists pre, (post ++ [(i, MW steps)]). split; [rewrite E1, app_assoc; reflexivity | exact E2].
      + intro j. destruct (d_guarded _ I j) as [G1 G2]. cbn [threads] in *. destruct (Nat.eq_dec j i) as [->|Hne].
        * rewrite dupd_same. cbn [todo cur]. split; [rewrite Ht in G1; inversion G1; assumption | discriminate].
        * rewrite dupd_other by exact Hne. split; assumption.
    - (* acquire for reading *)
      assert (Hnow : forall j, is_writing S (cur S (P j)) = false).
      { intro j. destruct (Nat.eq_dec j i) as [->|Hj]; [rewrite Hc; reflexivity | apply (Hoth j Hj)]. }
      pose proof (no_writer_state _ I Hnow) as Hs. cbn [shared log threads] in Hs.
      assert (Hnow' : forall j, is_writing S (cur S (dupd S P i (mkd S (InR S k []) rest r) j)) = false).
      { intro j. destruct (Nat.eq_dec j i) as [->|Hj]; [rewrite dupd_same; reflexivity | rewrite dupd_other by exact Hj; apply Hnow]. }
      constructor; cbn [shared log threads].
      + intros x y Hxy Hw. rewrite Hnow' in Hw. discriminate.
      + right. split; [exact Hnow'|]. rewrite seq_state_app. cbn. exact Hs.
      + intros j k' seen Hj. destruct (Nat.eq_dec j i) as [->|Hne].
        * rewrite dupd_same in Hj. cbn [cur] in Hj. inversion Hj; subst. intros x [].
        * rewrite dupd_other in Hj by exact Hne. apply (d_seen _ I j k' seen Hj).
      + intros j seen Hin. assert (Hin' : In seen (results S (P j))).
        { destruct (Nat.eq_dec j i) as [->|Hne]; [rewrite dupd_same in Hin; cbn [results] in Hin; rewrite Hr; exact Hin | rewrite dupd_other in Hin by exact Hne; exact Hin]. }
        destruct (d_results _ I j seen Hin') as [pre [post [E1 E2]]]. cbn [log] in E1. exists pre, (post ++ [(i, MR k)]). split; [rewrite E1, app_assoc; reflexivity | exact E2].
      + intro j. destruct (d_guarded _ I j) as [G1 G2]. cbn [threads] in *. destruct (Nat.eq_dec j i) as [->|Hne].
        * rewrite dupd_same. cbn [todo cur]. split; [rewrite Ht in G1; inversion G1; assumption | discriminate].
        * rewrite dupd_other by exact Hne. split; assumption.
    - (* an unguarded reader cannot start: excluded by guardedness *)
      exfalso. destruct (d_guarded _ I i) as [G1 _]. cbn [threads] in G1. rewrite Ht in G1. inversion G1 as [|? ? G _]. exact G.
    - (* one micro-step of the writer *)
      assert (Hwi : is_writing S (cur S (P i)) = true) by (rewrite Hc; reflexivity).
      constructor; cbn [shared log threads].
      + intros x y Hxy Hw. destruct (Nat.eq_dec x i) as [->|Hx].
        * rewrite dupd_other by congruence. apply (d_excl _ I i y Hxy Hwi).
        * rewrite dupd_other in Hw by exact Hx. destruct (Nat.eq_dec y i) as [->|Hy].
          -- destruct (d_excl _ I x i Hxy Hw) as [Hf _]. cbn [threads] in Hf. congruence.
          -- rewrite dupd_other by exact Hy. apply (d_excl _ I x y Hxy Hw).
      + left. destruct (d_state _ I) as [[j [rest' [l' [steps [done [H1 [H2 [H3 H4]]]]]]]]|[Hno _]]; cbn [shared log threads] in *.
        * assert (j = i). { destruct (Nat.eq_dec j i) as [E|Hne]; [exact E|]. assert (Hwj : is_writing S (cur S (P j)) = true) by (rewrite H1; reflexivity).
            destruct (d_excl _ I j i Hne Hwj) as [Hf _]. cbn [threads] in Hf. congruence. }
          subst j. rewrite Hc in H1. inversion H1; subst rest'.
          exists i, rest, l', steps, (done ++ [g]). rewrite dupd_same. cbn [cur]. split; [reflexivity|]. split; [exact H2|].
          split; [rewrite <- app_assoc; exact H3|]. rewrite apply_steps_app. cbn. rewrite H4. reflexivity.
        * specialize (Hno i). congruence.
      + intros j k seen Hj. exfalso. destruct (Nat.eq_dec j i) as [->|Hne]; [rewrite dupd_same in Hj; discriminate|].
        rewrite dupd_other in Hj by exact Hne. destruct (d_excl _ I i j (not_eq_sym Hne) Hwi) as [_ Hr']. cbn [threads] in Hr'. rewrite Hj in Hr'. discriminate.
      + intros j seen Hin. apply (d_results _ I j seen). cbn [threads]. destruct (Nat.eq_dec j i) as [->|Hne]; [rewrite dupd_same in Hin; exact Hin | rewrite dupd_other in Hin by exact Hne; exact Hin].
      + intro j. destruct (d_guarded _ I j) as [G1 G2]. cbn [threads] in *. destruct (Nat.eq_dec j i) as [->|Hne].
        * rewrite dupd_same. cbn [todo cur]. split; [exact G1 | discriminate].
        * rewrite dupd_other by exact Hne. split; assumption.
    - (* one sample of a guarded reader *)
      assert (Hcur : forall j, is_writing S (cur S (dupd S P i (mkd S (InR S k (s :: seen)) (todo S (P i)) (results S (P i))) j)) = is_writing S (cur S (P j))).
      { intro j. destruct (Nat.eq_dec j i) as [->|Hne]; [rewrite dupd_same, Hc; reflexivity | rewrite dupd_other by exact Hne; reflexivity]. }
      constructor; cbn [shared log threads].
      + intros x y Hxy Hw. rewrite Hcur in Hw. rewrite Hcur. destruct (d_excl _ I x y Hxy Hw) as [E1 E2]. cbn [threads] in *. split; [exact E1|].
        destruct (Nat.eq_dec y i) as [->|Hy]; [rewrite Hc in E2; discriminate | rewrite dupd_other by exact Hy; exact E2].
      + destruct (d_state _ I) as [[j [rest' [l' [steps [done [H1 H2]]]]]]|[Hno Hs]]; cbn [shared log threads] in *.
        * left. exists j, rest', l', steps, done. split; [|exact H2]. destruct (Nat.eq_dec j i) as [->|Hne]; [congruence | rewrite dupd_other by exact Hne; exact H1].
        * right. split; [intro j; rewrite Hcur; apply Hno | exact Hs].
      + intros j k' seen' Hj. destruct (Nat.eq_dec j i) as [->|Hne].
        * rewrite dupd_same in Hj. cbn [cur] in Hj. inversion Hj; subst. intros x [Hx|Hx]; [symmetry; exact Hx | apply (d_seen _ I i _ _ Hc x Hx)].
        * rewrite dupd_other in Hj by exact Hne. apply (d_seen _ I j k' seen' Hj).
      + intros j seen' Hin. apply (d_results _ I j seen'). cbn [threads]. destruct (Nat.eq_dec j i) as [->|Hne]; [rewrite dupd_same in Hin; exact Hin | rewrite dupd_other in Hin by exact Hne; exact Hin].
      + intro j. destruct (d_guarded _ I j) as [G1 G2]. cbn [threads] in *. destruct (Nat.eq_dec j i) as [->|Hne].
        * rewrite dupd_same. cbn [todo cur]. split; [exact G1 | discriminate].
        * rewrite dupd_other by exact Hne. split; assumption.
    - exfalso. destruct (d_guarded _ I i) as [_ G2]. cbn [threads] in G2. apply (G2 _ _ Hc).
    - (* the writer releases *)
      assert (Hwi : is_writing S (cur S (P i)) = true) by (rewrite Hc; reflexivity).
      assert (Hnow : forall j, is_writing S (cur S (dupd S P i (mkd S (Idle S) (todo S (P i)) (results S (P i))) j)) = false).
      { intro j. destruct (Nat.eq_dec j i) as [->|Hne]; [rewrite dupd_same; reflexivity|]. rewrite dupd_other by exact Hne.
        apply (d_excl _ I i j (not_eq_sym Hne) Hwi). }
      constructor; cbn [shared log threads].
      + intros x y Hxy Hw. rewrite Hnow in Hw. discriminate.
      + right. split; [exact Hnow|]. destruct (d_state _ I) as [[j [rest' [l' [steps [done [H1 [H2 [H3 H4]]]]]]]]|[Hno _]]; cbn [shared log threads] in *.
        * assert (j = i). { destruct (Nat.eq_dec j i) as [E|Hne]; [exact E|]. assert (Hwj : is_writing S (cur S (P j)) = true) by (rewrite H1; reflexivity).
            destruct (d_excl _ I j i Hne Hwj) as [Hf _]. cbn [threads] in Hf. congruence. }
          subst j. rewrite Hc in H1. inversion H1; subst rest'. rewrite app_nil_r in H3. subst done.
          rewrite H2, seq_state_app. cbn. exact H4.
        * specialize (Hno i). congruence.
      + intros j k seen Hj. exfalso. destruct (Nat.eq_dec j i) as [->|Hne]; [rewrite dupd_same in Hj; discriminate|].
        rewrite dupd_other in Hj by exact Hne. destruct (d_excl _ I i j (not_eq_sym Hne) Hwi) as [_ Hr']. cbn [threads] in Hr'. rewrite Hj in Hr'. discriminate.
      + intros j seen Hin. apply (d_results _ I j seen). cbn [threads]. destruct (Nat.eq_dec j i) as [->|Hne]; [rewrite dupd_same in Hin; exact Hin | rewrite dupd_other in Hin by exact Hne; exact Hin].
      + intro j. destruct (d_guarded _ I j) as [G1 G2]. cbn [threads] in *. destruct (Nat.eq_dec j i) as [->|Hne].
        * rewrite dupd_same. cbn [todo cur]. split; [exact G1 | discriminate].
        * rewrite dupd_other by exact Hne. split; assumption.
    - (* a guarded reader releases: what it saw is one state of the sequential run *)
      assert (Hcur : forall j, is_writing S (cur S (dupd S P i (mkd S (Idle S) (todo S (P i)) (results S (P i) ++ [seen])) j)) = is_writing S (cur S (P j))).
      { intro j. destruct (Nat.eq_dec j i) as [->|Hne]; [rewrite dupd_same, Hc; reflexivity | rewrite dupd_other by exact Hne; reflexivity]. }
      assert (Hnow : forall j, is_writing S (cur S (P j)) = false).
      { intro j. destruct (is_writing S (cur S (P j))) eqn:E; [|reflexivity]. exfalso. destruct (Nat.eq_dec j i) as [->|Hne]; [rewrite Hc in E; discriminate|].
        destruct (d_excl _ I j i Hne E) as [_ Hr']. cbn [threads] in Hr'. rewrite Hc in Hr'. discriminate. }
      pose proof (no_writer_state _ I Hnow) as Hs. cbn [shared log threads] in Hs.
      constructor; cbn [shared log threads].
      + intros x y Hxy Hw. rewrite Hcur, Hnow in Hw. discriminate.
      + right. split; [intro j; rewrite Hcur; apply Hnow | exact Hs].
      + intros j k seen' Hj. destruct (Nat.eq_dec j i) as [->|Hne]; [rewrite dupd_same in Hj; discriminate|].
        rewrite dupd_other in Hj by exact Hne. apply (d_seen _ I j k seen' Hj).
      + intros j seen' Hin. destruct (Nat.eq_dec j i) as [->|Hne].
        * rewrite dupd_same in Hin. cbn [results] in Hin. apply in_app_or in Hin. destruct Hin as [Hin|[<-|[]]]; [apply (d_results _ I i seen' Hin)|].
          exists l, []. split; [rewrite app_nil_r; reflexivity|]. intros x Hx. rewrite <- Hs. apply (d_seen _ I i 0 seen Hc x Hx).
        * rewrite dupd_other in Hin by exact Hne. apply (d_results _ I j seen' Hin).
      + intro j. destruct (d_guarded _ I j) as [G1 G2]. cbn [threads] in *. destruct (Nat.eq_dec j i) as [->|Hne].
        * rewrite dupd_same. cbn [todo cur]. split; [exact G1 | discriminate].
        * rewrite dupd_other by exact Hne. split; assumption.
    - exfalso. destruct (d_guarded _ I i) as [_ G2]. cbn [threads] in G2. apply (G2 _ _ Hc).
  Qed.

  Definition dinitial (P0 : dpool S) : Prop :=
    forall i, cur S (P0 i) = Idle S /\ results S (P0 i) = [] /\ Forall no_unguarded (todo S (P0 i)).

  Lemma dinit_inv : forall P0, dinitial P0 -> DInv (mkc S s0 P0 []).
  Proof.
    intros P0 H. constructor; cbn [shared log threads].
    - intros i j _ Hw. destruct (H i) as [E _]. rewrite E in Hw. discriminate.
    - right. split; [intro i; destruct (H i) as [E _]; rewrite E; reflexivity | reflexivity].
    - intros i k seen E. destruct (H i) as [E' _]. congruence.
    - intros i seen Hin. destruct (H i) as [_ [E _]]. rewrite E in Hin. destruct Hin.
    - intro i. destruct (H i) as [E1 [_ E3]]. cbn [threads]. split; [exact E3 | intros k seen; rewrite E1; discriminate].
  Qed.

  (* every concurrent execution of guarded methods is equivalent to the sequential execution in lock-acquisition order *)
  Theorem guarded_linearizable_thm : forall P0 c, dinitial P0 -> dreach S (mkc S s0 P0 []) c ->
    (* whenever no writer is inside, the table is the result of the sequential run; in particular at the end *)
    ((forall i, is_writing S (cur S (threads S c i)) = false) -> shared S c = seq_state S (log S c) s0) /\
    (* every sample a reader holds is the current state of that sequential run *)
    (forall i k seen, cur S (threads S c i) = InR S k seen -> forall x, In x seen -> x = seq_state S (log S c) s0) /\
    (* every completed lookup saw, in all its samples, one and the same state: that after a prefix of the sequential order *)
    (forall i seen, In seen (results S (threads S c i)) ->
       exists pre post, log S c = pre ++ post /\ forall x, In x seen -> x = seq_state S pre s0).
  Proof.
    intros P0 c Hi R. assert (I : DInv c) by (induction R; [apply dinit_inv; exact Hi | eapply dstep_inv; eassumption]).
    split; [apply no_writer_state; exact I|]. split; [|apply (d_results _ I)].
    intros i k seen Hc x Hx. rewrite (d_seen _ I i k seen Hc x Hx). apply no_writer_state; [exact I|].
    intro j. destruct (is_writing S (cur S (threads S c j))) eqn:E; [|reflexivity]. exfalso.
    destruct (Nat.eq_dec j i) as [->|Hne]; [rewrite Hc in E; discriminate|].
    destruct (d_excl _ I j i Hne E) as [_ Hr]. rewrite Hc in Hr. discriminate.
  Qed.
End DataProofs.

(* without the lock a lookup can see a torn state: the hypothesis of guardedness is needed *)
Theorem unguarded_torn : exists c,
  dreach nat (mkc nat 0 (fun i => match i with
                                   | 0 => mkd nat (Idle nat) [MW [Nat.succ; Nat.succ]] []
                                   | 1 => mkd nat (Idle nat) [MU 2] []
                                   | _ => mkd nat (Idle nat) [] [] end) []) c /\
  In [1; 0] (results nat (threads nat c 1)).
Proof.
  eexists. split.
  - eapply dreach_step. eapply dreach_step. eapply dreach_step. eapply dreach_step. eapply dreach_step. eapply dreach_step. apply dreach_refl.
    + eapply (d_start_u nat _ _ _ 1); reflexivity.
    + eapply (d_read_u nat _ _ _ 1); reflexivity.
    + eapply (d_acq_w nat _ _ _ 0); try reflexivity. intros j Hj. destruct j as [|[|j]]; [congruence | split; reflexivity | split; reflexivity].
    + eapply (d_write nat _ _ _ 0); reflexivity.
    + eapply (d_read_u nat _ _ _ 1); reflexivity.
    + eapply (d_end_u nat _ _ _ 1); reflexivity.
  - cbn. left. reflexivity.
Qed.
