(* Tables/ModelLock.v — abstract lock semantics for the shared tables (C16), and the lock facts the translator extracts
   from the Go source (translators/tables/lockfacts -> GenLockFacts.v).  No proofs here.

   Level 1 (accesses): a method body is a sequence of atomic actions Acq m mode | Rel m | Rd t | Wr t over mutexes m and
   tables t; threads run such sequences; an RW mutex can be acquired for writing iff nobody holds it, for reading iff
   no writer holds it; it is not re-entrant.
   Level 2 (data): one table guarded by one RW mutex; a writer applies its micro-steps one at a time inside its
   critical section, a reader samples the state several times inside its critical section. *)
From Coq Require Export List Arith Bool String.
Export ListNotations.

(* ================= level 1: accesses ================= *)
Inductive action :=
| Acq (m : nat) (w : bool)      (* Lock (w = true) / RLock (w = false) of mutex m *)
| Rel (m : nat)                 (* Unlock / RUnlock *)
| Rd (t : nat)                  (* read of table t's memory *)
| Wr (t : nat).                 (* write of table t's memory *)

Definition held := list (nat * bool).
Definition holds (m : nat) (h : held) : bool := existsb (fun x => Nat.eqb (fst x) m) h.
Definition holdsW (m : nat) (h : held) : bool := existsb (fun x => Nat.eqb (fst x) m && snd x) h.
Definition drop (m : nat) (h : held) : held := filter (fun x => negb (Nat.eqb (fst x) m)) h.

Record thread := mkth { th_held : held; th_prog : list action }.
Definition pool := nat -> thread.
Definition upd (P : pool) (i : nat) (t : thread) : pool := fun j => if Nat.eqb j i then t else P j.

Section Access.
  Variable mu : nat -> nat.      (* the mutex guarding a table *)
  Variable rank : nat -> nat.    (* lock order: a thread acquires mutexes in increasing rank *)

  (* static discipline of a program, starting with the locks in h held: every access is made under the table's mutex
     (writes under the write lock), mutexes are acquired in increasing rank and never twice, released before the end *)
  Fixpoint safe (h : held) (p : list action) : bool :=
    match p with
    | [] => match h with [] => true | _ => false end
    | Acq m w :: p' => negb (holds m h) && forallb (fun x => Nat.ltb (rank (fst x)) (rank m)) h && safe ((m, w) :: h) p'
    | Rel m :: p' => holds m h && safe (drop m h) p'
    | Rd t :: p' => holds (mu t) h && safe h p'
    | Wr t :: p' => holdsW (mu t) h && safe h p'
    end.

  (* thread i may perform action a now *)
  Definition enabled (P : pool) (i : nat) (a : action) : Prop :=
    match a with
    | Acq m true => holds m (th_held (P i)) = false /\ forall j, j <> i -> holds m (th_held (P j)) = false
    | Acq m false => holds m (th_held (P i)) = false /\ forall j, j <> i -> holdsW m (th_held (P j)) = false
    | _ => True
    end.
  Definition exec (t : thread) (a : action) (p : list action) : thread :=
    match a with
    | Acq m w => mkth ((m, w) :: th_held t) p
    | Rel m => mkth (drop m (th_held t)) p
    | _ => mkth (th_held t) p
    end.
  Inductive step : pool -> pool -> Prop :=
  | step_thread : forall P i a p, th_prog (P i) = a :: p -> enabled P i a -> step P (upd P i (exec (P i) a p)).
  Inductive reach (P0 : pool) : pool -> Prop :=
  | reach_refl : reach P0 P0
  | reach_step : forall P P', reach P0 P -> step P P' -> reach P0 P'.

  (* two threads are about to access the same table at the same time, one of them writing *)
  Definition access (a : action) : option (nat * bool) :=
    match a with Rd t => Some (t, false) | Wr t => Some (t, true) | _ => None end.
  Definition race (P : pool) : Prop :=
    exists i j a b pa pb t wa wb, i <> j /\ th_prog (P i) = a :: pa /\ th_prog (P j) = b :: pb /\
      access a = Some (t, wa) /\ access b = Some (t, wb) /\ (wa = true \/ wb = true).
End Access.

(* ================= lock facts (translated from the Go source) ================= *)
Record fact := mkfact {
  f_table : nat;                 (* the table whose method this is *)
  f_name : string;
  f_bracket : option (nat * bool);  (* the body starts with mutex.Lock()/RLock() and a deferred Unlock(): (mutex, write mode) *)
  f_reads : bool;                (* the body (and its helpers) reads table memory *)
  f_writes : bool;               (* the body (and its helpers) may write table memory *)
  f_calls : list string;         (* API methods of OTHER tables called from the body *)
  f_alias : bool                 (* the result may alias table memory that is later modified in place *)
}.

Definition find_fact (fs : list fact) (nm : string) : option fact :=
  find (fun f => String.eqb (f_name f) nm) fs.

Definition own_accesses (f : fact) : list action :=
  (if f_reads f then [Rd (f_table f)] else []) ++ (if f_writes f then [Wr (f_table f)] else []).
Definition bracketed (f : fact) (inner : list action) : list action :=
  match f_bracket f with Some (m, w) => [Acq m w] ++ inner ++ [Rel m] | None => inner end.
(* the accesses a call of the method performs, as seen by other threads.  Calls into other tables are expanded
   (up to [fuel] levels: more than the number of lock levels means a call cycle, reported as an unguarded access);
   a result aliasing in-place-modified table memory is a read of the table after the lock has been released *)
Definition unguarded_marker : list action := [Wr 0; Rd 0].   (* accepted by no discipline: nothing is held *)
Fixpoint body_fuel (fuel : nat) (fs : list fact) (f : fact) : list action :=
  bracketed f (own_accesses f ++
               flat_map (fun nm => match find_fact fs nm, fuel with
                                   | Some g, Datatypes.S k => body_fuel k fs g
                                   | _, _ => unguarded_marker
                                   end) (f_calls f))
  ++ (if f_alias f then [Rd (f_table f)] else []).
Definition body_of (fs : list fact) (f : fact) : list action := body_fuel 4 fs f.

(* the whole discipline, decidable: every API method's body is safe *)
Definition all_guarded (mu rank : nat -> nat) (fs : list fact) : bool :=
  forallb (fun f => safe mu rank [] (body_of fs f)) fs.

(* ================= level 2: data, one table under one RW mutex ================= *)
Section Data.
  Variable S : Type.

  Inductive meth :=
  | MW (steps : list (S -> S))    (* a writer: its micro-steps *)
  | MR (samples : nat)            (* a guarded reader sampling the state that many times *)
  | MU (samples : nat).           (* an UNGUARDED reader (no lock), for the counterexample *)
  Inductive activity :=
  | Idle
  | InW (rest : list (S -> S))
  | InR (left : nat) (seen : list S)
  | InU (left : nat) (seen : list S).
  Record dthread := mkd { cur : activity; todo : list meth; results : list (list S) }.
  Definition dpool := nat -> dthread.
  Definition dupd (P : dpool) (i : nat) (t : dthread) : dpool := fun j => if Nat.eqb j i then t else P j.
  Record config := mkc { shared : S; threads : dpool; log : list (nat * meth) }.  (* log: methods in acquisition order *)

  Definition is_writing (a : activity) : bool := match a with InW _ => true | _ => false end.
  Definition is_reading (a : activity) : bool := match a with InR _ _ => true | _ => false end.

  Inductive dstep : config -> config -> Prop :=
  | d_acq_w : forall s P l i steps rest r,
      cur (P i) = Idle -> todo (P i) = MW steps :: rest -> results (P i) = r ->
      (forall j, j <> i -> is_writing (cur (P j)) = false /\ is_reading (cur (P j)) = false) ->
      dstep (mkc s P l) (mkc s (dupd P i (mkd (InW steps) rest r)) (l ++ [(i, MW steps)]))
  | d_acq_r : forall s P l i k rest r,
      cur (P i) = Idle -> todo (P i) = MR k :: rest -> results (P i) = r ->
      (forall j, j <> i -> is_writing (cur (P j)) = false) ->
      dstep (mkc s P l) (mkc s (dupd P i (mkd (InR k []) rest r)) (l ++ [(i, MR k)]))
  | d_start_u : forall s P l i k rest r,
      cur (P i) = Idle -> todo (P i) = MU k :: rest -> results (P i) = r ->
      dstep (mkc s P l) (mkc s (dupd P i (mkd (InU k []) rest r)) l)
  | d_write : forall s P l i g rest,
      cur (P i) = InW (g :: rest) ->
      dstep (mkc s P l) (mkc (g s) (dupd P i (mkd (InW rest) (todo (P i)) (results (P i)))) l)
  | d_read : forall s P l i k seen,
      cur (P i) = InR (Datatypes.S k) seen ->
      dstep (mkc s P l) (mkc s (dupd P i (mkd (InR k (s :: seen)) (todo (P i)) (results (P i)))) l)
  | d_read_u : forall s P l i k seen,
      cur (P i) = InU (Datatypes.S k) seen ->
      dstep (mkc s P l) (mkc s (dupd P i (mkd (InU k (s :: seen)) (todo (P i)) (results (P i)))) l)
  | d_rel_w : forall s P l i,
      cur (P i) = InW [] ->
      dstep (mkc s P l) (mkc s (dupd P i (mkd Idle (todo (P i)) (results (P i)))) l)
  | d_rel_r : forall s P l i seen,
      cur (P i) = InR 0 seen ->
      dstep (mkc s P l) (mkc s (dupd P i (mkd Idle (todo (P i)) (results (P i) ++ [seen]))) l)
  | d_end_u : forall s P l i seen,
      cur (P i) = InU 0 seen ->
      dstep (mkc s P l) (mkc s (dupd P i (mkd Idle (todo (P i)) (results (P i) ++ [seen]))) l).
  Inductive dreach (c0 : config) : config -> Prop :=
  | dreach_refl : dreach c0 c0
  | dreach_step : forall c c', dreach c0 c -> dstep c c' -> dreach c0 c'.

  (* sequential meaning: methods applied atomically, one after the other *)
  Definition apply_steps (steps : list (S -> S)) (s : S) : S := fold_left (fun s g => g s) steps s.
  Definition seq_state (l : list (nat * meth)) (s0 : S) : S :=
    fold_left (fun s e => match snd e with MW steps => apply_steps steps s | _ => s end) l s0.
End Data.
Arguments MW {S} steps.
Arguments MR {S} samples.
Arguments MU {S} samples.
