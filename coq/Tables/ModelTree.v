(* Tables/ModelTree.v — the name-tree primitives shared by the FIB name tree (fib-strategy-tree.go) and the RIB tree
   (rib.go): a tree is a prefix-closed finite set of paths with payloads (an association list keyed by the path).
   Generic in the payload type A; [dflt] is the payload of a freshly created node, [emp] says that a node carries
   nothing of its own.  No proofs here. *)
From Tables Require Export ModelAssoc.

Section Tree.
  Context {A : Type}.
  Variable dflt : A.
  Variable emp : A -> bool.

(* findLongestPrefixEntryEnc: child by child, stops at the first missing child; returns the node's path *)
Fixpoint descend (t : amap A) (pre rest : name) : name :=
  match rest with
  | [] => pre
  | c :: r => match get t (pre ++ [c]) with Some _ => descend t (pre ++ [c]) r | None => pre end
  end.
Definition lpm_node (t : amap A) (n : name) : name := descend t [] n.
(* findExactMatchEntryEnc *)
Definition find_exact (t : amap A) (n : name) : option A :=
  if name_eqb (lpm_node t n) n then get t n else None.
(* fillTreeToPrefixEnc: new empty nodes below the longest existing one *)
Fixpoint add_chain (t : amap A) (pre rest : name) : amap A :=
  match rest with
  | [] => t
  | c :: r => add_chain (set t (pre ++ [c]) dflt) (pre ++ [c]) r
  end.
Definition fill (t : amap A) (n : name) : amap A :=
  let d := lpm_node t n in add_chain t d (skipn (length d) n).

(* len(curNode.children) != 0 *)
Definition is_child_of (p k : name) : bool := (Nat.eqb (length k) (S (length p))) && is_prefix p k.
Definition has_child (t : amap A) (p : name) : bool := existsb (fun kv => is_child_of p (fst kv)) t.

(* pruneIfEmpty, starting at the node firstn k n: while it is not the root and has no children, next hops or strategy,
   unlink it and continue with its parent *)
Fixpoint prune_at (t : amap A) (n : name) (k : nat) : amap A :=
  match k with
  | O => t
  | S k' => let p := firstn k n in
            match get t p with
            | Some e => if negb (has_child t p) && emp e then prune_at (del t p) n k' else t
            | None => t
            end
  end.
Definition prune (t : amap A) (n : name) : amap A := prune_at t n (length n).

End Tree.
Arguments descend {A} t pre rest.
Arguments lpm_node {A} t n.
Arguments find_exact {A} t n.
Arguments add_chain {A} dflt t pre rest.
Arguments fill {A} dflt t n.
Arguments has_child {A} t p.
Arguments prune_at {A} emp t n k.
Arguments prune {A} emp t n.
