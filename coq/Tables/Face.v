(* Tables/Face.v — what every sequential execution of face-table operations produces: the FaceIDs handed out are
   consecutive (hence distinct, each face its own), and the table holds exactly the faces added and not removed. *)
From Tables Require Import ModelFace.
From Coq Require Import Lia Arith.
Local Open Scope N_scope.

Fixpoint nseq (start : N) (len : nat) : list N :=
  match len with O => [] | S k => start :: nseq (start + 1) k end.

Lemma nseq_snoc : forall len start, nseq start (S len) = nseq start len ++ [start + N.of_nat len].
Proof.
  induction len as [|len IH]; intro start.
  - simpl. rewrite N.add_0_r. reflexivity.
  - change (nseq start (S (S len))) with (start :: nseq (start + 1) (S len)). rewrite IH. rewrite (Nat2N.inj_succ len).
    change (nseq start (S len)) with (start :: nseq (start + 1) len). rewrite <- app_comm_cons. do 3 f_equal. lia.
Qed.

Lemma In_nseq : forall len start x, In x (nseq start len) <-> (start <= x /\ x < start + N.of_nat len).
Proof.
  induction len as [|len IH]; intros start x; simpl.
  - split; [intros [] | lia].
  - rewrite IH. split; [intros [H|H]; lia | intro H; destruct (N.eq_dec start x); [left; assumption | right; lia]].
Qed.

Lemma NoDup_nseq : forall len start, NoDup (nseq start len).
Proof.
  induction len as [|len IH]; intro start; simpl; constructor; [|apply IH]. rewrite In_nseq. lia.
Qed.

Lemma In_unbind : forall id l x, In x (unbind id l) <-> (In x l /\ fst x <> id).
Proof.
  intros id l x. unfold unbind. rewrite filter_In. split; intros [H1 H2]; split; try assumption.
  - apply negb_true_iff in H2. apply N.eqb_neq in H2. exact H2.
  - apply negb_true_iff. apply N.eqb_neq. exact H2.
Qed.

(* invariant of a sequential execution started from table t0 *)
Record FInv (t0 : ftable) (x : fexec) : Prop := {
  fi_next : ft_next (fx_table x) = ft_next t0 + N.of_nat (length (fx_adds x));
  fi_ids : map snd (fx_adds x) = nseq (ft_next t0) (length (fx_adds x));
  fi_rems : forall id, In id (fx_rems x) -> id < ft_next (fx_table x);
  fi_below : forall b, In b (ft_faces (fx_table x)) -> fst b < ft_next (fx_table x);
  fi_exact : forall id tok, ft_next t0 <= id ->
             (In (id, tok) (ft_faces (fx_table x)) <-> (In (tok, id) (fx_adds x) /\ ~ In id (fx_rems x)))
}.

Definition wf_op (x : fexec) (o : fop) : Prop :=
  match o with FRem id => id < ft_next (fx_table x) | FAdd _ => True end.   (* only faces that were created are removed *)

Lemma fx_step_inv : forall t0 x o, FInv t0 x -> wf_op x o -> FInv t0 (fx_step x o).
Proof.
  intros t0 x o I Hwf. destruct o as [tok|id]; cbn [fx_step ft_step fst fx_table fx_adds fx_rems ft_next ft_faces].
  - set (n := ft_next (fx_table x)) in *.
    assert (Hn : n = ft_next t0 + N.of_nat (length (fx_adds x))) by apply I.
    constructor; cbn [fx_table fx_adds fx_rems ft_next ft_faces].
    + rewrite app_length. cbn [length]. rewrite Nat2N.inj_add. rewrite Hn. simpl N.of_nat. lia.
    + rewrite map_app, app_length. cbn [length map snd]. rewrite PeanoNat.Nat.add_1_r, nseq_snoc, (fi_ids _ _ I), <- Hn. reflexivity.
    + intros id Hid. pose proof (fi_rems _ _ I id Hid). fold n in H. lia.
    + intros b [<-|Hb]; [simpl; lia|]. apply In_unbind in Hb. destruct Hb as [Hb _]. pose proof (fi_below _ _ I b Hb). fold n in H. lia.
    + intros id tok' Hge. rewrite in_app_iff. simpl. split.
      * intros [H|H].
        -- inversion H; subst. split; [right; left; reflexivity|]. intro Hr. pose proof (fi_rems _ _ I _ Hr). fold n in H0. lia.
        -- apply In_unbind in H. destruct H as [H1 H2]. apply (fi_exact _ _ I id tok' Hge) in H1. destruct H1 as [H1 H3]. split; [left; exact H1 | exact H3].
      * intros [[H|[H|[]]] Hr].
        -- right. apply In_unbind. split; [apply (fi_exact _ _ I id tok' Hge); split; assumption|]. simpl.
           assert (Hin : In id (map snd (fx_adds x))) by (apply in_map_iff; exists (tok', id); split; [reflexivity | exact H]).
           rewrite (fi_ids _ _ I) in Hin. apply In_nseq in Hin. fold n. lia.
        -- inversion H; subst. left. reflexivity.
  - simpl in Hwf. constructor; cbn [fx_table fx_adds fx_rems ft_next ft_faces].
    + apply I.
    + apply I.
    + intros id' Hid. apply in_app_or in Hid. destruct Hid as [Hid|[<-|[]]]; [apply (fi_rems _ _ I id' Hid) | exact Hwf].
    + intros b Hb. apply In_unbind in Hb. destruct Hb as [Hb _]. apply (fi_below _ _ I b Hb).
    + intros id' tok Hge. rewrite In_unbind, in_app_iff. simpl. rewrite (fi_exact _ _ I id' tok Hge). split.
      * intros [[H1 H2] H3]. split; [exact H1|]. intros [H|[H|[]]]; [contradiction | congruence].
      * intros [H1 H2]. split; [split; [exact H1 | intro H; apply H2; left; exact H]|]. intro H; apply H2; right; left; congruence.
Qed.

Fixpoint wf_ops (x : fexec) (ops : list fop) : Prop :=
  match ops with [] => True | o :: r => wf_op x o /\ wf_ops (fx_step x o) r end.

Lemma fx_run_inv_from : forall t0 ops x, FInv t0 x -> wf_ops x ops -> FInv t0 (fold_left fx_step ops x).
Proof.
  intros t0. induction ops as [|o ops IH]; intros x I Hwf; [exact I|]. destruct Hwf as [H1 H2]. simpl. apply IH; [apply fx_step_inv; assumption | exact H2].
Qed.

Lemma finv_init : forall t0, (forall b, In b (ft_faces t0) -> fst b < ft_next t0) -> FInv t0 (mkfx t0 [] []).
Proof.
  intros t0 H. constructor; cbn [fx_table fx_adds fx_rems]; simpl.
  - lia.
  - reflexivity.
  - intros id [].
  - exact H.
  - intros id tok Hge. split; [intro Hin; specialize (H _ Hin); simpl in H; lia | intros [[] _]].
Qed.

(* every sequential execution: the ids handed out are consecutive from the counter, so all distinct; and the table
   binds exactly the faces that were added and not removed, each under the id its Add returned *)
Theorem face_table_sequential_thm : forall t0 ops,
  (forall b, In b (ft_faces t0) -> fst b < ft_next t0) -> wf_ops (mkfx t0 [] []) ops ->
  let x := fx_run t0 ops in
  map snd (fx_adds x) = nseq (ft_next t0) (length (fx_adds x)) /\
  NoDup (map snd (fx_adds x)) /\
  (forall id tok, ft_next t0 <= id ->
     (In (id, tok) (ft_faces (fx_table x)) <-> (In (tok, id) (fx_adds x) /\ ~ In id (fx_rems x)))).
Proof.
  intros t0 ops H0 Hwf x. assert (I : FInv t0 x) by (apply fx_run_inv_from; [apply finv_init; exact H0 | exact Hwf]).
  split; [apply I|]. split; [rewrite (fi_ids _ _ I); apply NoDup_nseq | apply I].
Qed.
