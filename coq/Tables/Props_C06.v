(* placeholder until the proofs land *)
From Tables Require Import ModelRib.
