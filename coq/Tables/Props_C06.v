(* Property C06 — the FIB always equals the flattening of the currently registered RIB routes.
   Only theorem statements closed by `exact`, each followed by Print Assumptions.
   Model: ModelRib.v (fw/table/rib.go after the four fix: commits).  [shuffle] is the order in which Go iterates over
   the min-cost map: any permutation.  rib_emitted ops = the FIB operations the RIB issued over the history ops,
   fib_after ops = the flat FIB they produce (C05 ties both real FIB structures to it), routes_after ops = the
   registered routes as a flat map name -> routes. *)
From Tables Require Import ModelAssoc ModelTree ModelFib ModelRib Assoc Tree Lpm FibTree FibHash Rib.
From Coq Require Import Permutation.
Local Open Scope nat_scope.

(* ---- meaning of the specification ---- *)
(* flatten = per face the minimum cost among the contributing routes, each contributing face exactly once *)
Theorem flatten_is_min_cost_per_face : forall rs,
  NoDup (map fst (min_cost rs)) /\ forall f c, In (f, c) (min_cost rs) <-> best rs f c.
Proof. exact min_cost_meaning. Qed.
Print Assumptions flatten_is_min_cost_per_face.

(* contributing routes of prefix n = its own routes, plus -- unless n itself holds a capture route -- the child-inherit
   routes of shorter prefixes, stopping at and including the nearest one holding a capture route *)
Theorem contributing_routes : forall (ra : name -> list route) n r,
  In r (contributing ra n) <->
  In r (ra n) \/
  (captures (ra n) = false /\
   exists j, j <= length n /\ In r (ra (firstn j n)) /\ has_ci r = true /\
             forall i, j < i <= length n -> captures (ra (firstn i n)) = false).
Proof. exact contributing_meaning. Qed.
Print Assumptions contributing_routes.

(* ---- the property ---- *)
(* after ANY history of register / unregister / face clean-up, EVERY prefix's FIB entry holds exactly the flattening
   of the registered routes if the prefix has routes, and nothing otherwise *)
Theorem rib_fib_exact : forall shuffle, (forall l, Permutation (shuffle l) l) -> forall ops p,
  Permutation (nhs (sget (fib_after shuffle ops) p)) (fib_want (routes_after ops) p).
Proof. exact rib_fib_exact_thm. Qed.
Print Assumptions rib_fib_exact.


(* Strategy choice shares the FIB with the routes: strategy set/unset operations made directly on the FIB, interleaved
   anywhere in the RIB history, change no next hop: the FIB entries are still exactly the flattening of the routes *)
Theorem rib_fib_exact_with_strategy : forall shuffle, (forall l, Permutation (shuffle l) l) -> forall ms p, Forall mop_ok ms ->
  Permutation (nhs (sget (run_spec (snd (mixed_run shuffle ms))) p)) (fib_want (routes_after (rib_ops ms)) p).
Proof. exact rib_fib_exact_with_strategy_thm. Qed.
Print Assumptions rib_fib_exact_with_strategy.

(* hence every lookup returns longest-prefix match over { p |-> flatten p | p has routes } *)
Theorem rib_flatten : forall shuffle, (forall l, Permutation (shuffle l) l) -> forall ops n,
  Permutation (spec_find_nh (fib_after shuffle ops) n) (want_lookup (routes_after ops) n).
Proof. exact rib_flatten_thm. Qed.
Print Assumptions rib_flatten.

(* composed with C05: the same for what the name-tree FIB and the hash-table FIB (any m >= 1) answer *)
Theorem rib_flatten_tree : forall shuffle, (forall l, Permutation (shuffle l) l) -> forall ops n,
  Permutation (tree_find_nh (run_tree (rib_emitted shuffle ops)) n) (want_lookup (routes_after ops) n).
Proof. exact rib_flatten_tree_thm. Qed.
Print Assumptions rib_flatten_tree.

Theorem rib_flatten_ht : forall shuffle, (forall l, Permutation (shuffle l) l) -> forall m ops n, 1 <= m ->
  Permutation (ht_find_nh m (run_ht m (rib_emitted shuffle ops)) n) (want_lookup (routes_after ops) n).
Proof. exact rib_flatten_ht_thm. Qed.
Print Assumptions rib_flatten_ht.

(* GetAllFIBEntries lists exactly the prefixes that have routes, with their flattening *)
Theorem rib_listing_tree : forall shuffle, (forall l, Permutation (shuffle l) l) -> forall ops,
  let l := list_fib (nodes (run_tree (rib_emitted shuffle ops))) in let R := routes_after ops in
  (forall p nh, In (p, nh) l -> Permutation nh (fib_want R p) /\ nh <> []) /\
  (forall p, fib_want R p <> [] -> exists nh, In (p, nh) l) /\ NoDup (map fst l).
Proof. exact rib_listing_tree_thm. Qed.
Print Assumptions rib_listing_tree.

Theorem rib_listing_ht : forall shuffle, (forall l, Permutation (shuffle l) l) -> forall m ops, 1 <= m ->
  let l := list_fib (real (run_ht m (rib_emitted shuffle ops))) in let R := routes_after ops in
  (forall p nh, In (p, nh) l -> Permutation nh (fib_want R p) /\ nh <> []) /\
  (forall p, fib_want R p <> [] -> exists nh, In (p, nh) l) /\ NoDup (map fst l).
Proof. exact rib_listing_ht_thm. Qed.
Print Assumptions rib_listing_ht.

(* nothing ever appears in the root entry that was not registered at the root *)
Theorem rib_root_clean : forall shuffle, (forall l, Permutation (shuffle l) l) -> forall ops f c,
  In (f, c) (nhs (sget (fib_after shuffle ops) [])) ->
  exists r, In r (rget (routes_after ops) []) /\ r_face r = f /\ r_cost r = c.
Proof. exact rib_root_clean_thm. Qed.
Print Assumptions rib_root_clean.

(* no residue: every next hop anywhere in the FIB is justified by a currently registered route (same face, same cost)
   on that prefix or a shorter one, and the prefix itself has routes *)
Theorem rib_no_residue : forall shuffle, (forall l, Permutation (shuffle l) l) -> forall ops p f c,
  In (f, c) (nhs (sget (fib_after shuffle ops) p)) ->
  rget (routes_after ops) p <> [] /\
  exists q r, is_prefix q p = true /\ In r (rget (routes_after ops) q) /\ r_face r = f /\ r_cost r = c.
Proof. exact rib_no_residue_thm. Qed.
Print Assumptions rib_no_residue.

(* in particular a removed face is gone from every FIB entry *)
Theorem rib_cleanup_no_residue : forall shuffle, (forall l, Permutation (shuffle l) l) -> forall ops f p c,
  ~ In (f, c) (nhs (sget (fib_after shuffle (ops ++ [Cleanup f])) p)).
Proof. exact rib_cleanup_no_residue_thm. Qed.
Print Assumptions rib_cleanup_no_residue.

(* Rib.GetAllEntries is exact *)
Theorem rib_entries_exact : forall shuffle, (forall l, Permutation (shuffle l) l) -> forall ops p rs,
  In (p, rs) (list_rib (fst (rib_run shuffle ops))) <-> (rs = rget (routes_after ops) p /\ rs <> []).
Proof. exact (fun sh H ops => proj2 (proj2 (rib_minimal_thm sh H ops))). Qed.
Print Assumptions rib_entries_exact.

(* non-vacuity: the identity is a permutation; a history with a gap (/1 and /1/2/3 without /1/2), a capture holder in
   the middle, two origins on one face, unregistration and face clean-up, with non-trivial FIB contents *)
Example c06_example :
  let id := fun l : list nexthop => l in
  let ops := [Reg [1;2;3] (mkroute 7 0 10 1); Reg [1] (mkroute 8 0 5 1); Reg [] (mkroute 9 0 1 1);
              Reg [1;2] (mkroute 6 0 2 3); Reg [1] (mkroute 8 65 3 0); Unreg [1;2] 6 0; Reg [1;4] (mkroute 5 0 4 2);
              Cleanup 9]%N in
  (forall l, Permutation (id l) l) /\
  nhs (sget (fib_after id ops) [1;2;3]%N) = [(7, 10); (8, 5)]%N /\
  nhs (sget (fib_after id ops) [1;2]%N) = [] /\
  nhs (sget (fib_after id ops) [1;4]%N) = [(5, 4)]%N /\
  nhs (sget (fib_after id ops) []) = [] /\
  want_lookup (routes_after ops) [1;2;9]%N = [(8, 3)]%N.
Proof. split; [intro l; apply Permutation_refl | vm_compute; repeat split; reflexivity]. Qed.
