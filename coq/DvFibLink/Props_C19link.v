(* Optional obligations linking C19 with C18 (see LinkDv.v). *)
From Coq Require Import List NArith.
From Dv Require Model.
From DvFib Require Import DvFib DvDaemon.
From DvFibLink Require Import LinkDv.
Import ListNotations.
Open Scope N_scope.

(* For the RIB algorithm of the code as modelled by C18 (ribUpdate: reset, cost+1, poison reverse, prune; dead
   neighbour: RemoveNextHop + Prune; refresh), started like Router.Start, and every history of handler runs in which
   fibUpdate runs exactly when the code runs it: after every handler the route table equals `desired` of the tables. *)
Theorem daemon_keeps_mirror_dv : forall (me : N) (rpfx : N -> N) evs p f,
  let d := drun Dv.Model.rib (view rpfx) (N * list Dv.Model.adv_entry) (stepf me) Dv.Model.rib_dead me (r0 me) evs in
  rt_lookup (d_rt _ d) (p, f) = desired (tables_of _ (view rpfx) d) p f.
Proof. exact daemon_keeps_mirror_dv_l. Qed.
Print Assumptions daemon_keeps_mirror_dv.
