(* DvFibLink/LinkDv.v — OPTIONAL link between C19 and C18: a family of its own, built by checks/C19.py only when coq/Dv
   builds, so that the C19 development proper (coq/DvFib) never depends on another builder's files.
   Instantiates daemon_keeps_mirror with C18's model of the real RIB algorithm (coq/Dv/Model.v: rib_update = ribUpdate,
   rib_dead = RemoveNextHop + Prune) and discharges its hypotheses from C18's theorems (rib_update_flag, rib_dead_flag,
   rib_update_spec, rib_dead_spec, refresh_fold_spec).  Result: a hypothesis-free statement. *)
From Coq Require Import List NArith Bool Lia ZifyBool ZifyN.
From Dv Require Model Refresh RibFacts Flag Net.
From DvFib Require Import U64 GenConsts PfxLog DvFib DvFibProofs DvDaemon DvDaemonProofs.
Import ListNotations.
Open Scope N_scope.

Section Link.
  Variable me : N.              (* this router *)
  Variable rpfx : N -> N.       (* routing prefix <router>/32=DV of a router, as interned name *)

  Definition ent (de : N * Dv.Model.entry) : ribent :=
    {| re_name := fst de; re_pfx := rpfx (fst de);
       re_nh1 := Dv.Model.nh1 (snd de); re_l1 := Dv.Model.low1 (snd de);
       re_nh2 := Dv.Model.nh2 (snd de); re_l2 := Dv.Model.low2 (snd de) |}.
  Definition view (r : Dv.Model.rib) : list ribent := map ent r.
  Definition stepf (r : Dv.Model.rib) (e : N * list Dv.Model.adv_entry) : Dv.Model.rib * bool :=
    Dv.Model.rib_update me r (fst e) (snd e).

  Lemma view_csame r r' : NoDup (map fst r) -> NoDup (map fst r') -> Dv.Flag.csame r r' ->
    forall x, In x (view r') <-> In x (view r).
  Proof.
    assert (H : forall a b, NoDup (map fst a) -> Dv.Flag.csame a b -> forall x, In x (view a) -> In x (view b)).
    { intros a b Hnd Hc x Hx. unfold view in *. apply in_map_iff in Hx. destruct Hx as [[d e] [<- Hin]].
      apply Dv.RibFacts.in_aget in Hin; [|exact Hnd]. specialize (Hc d). rewrite Hin in Hc. simpl in Hc.
      destruct (Dv.Model.aget d b) as [e'|] eqn:He'; [|discriminate]. simpl in Hc.
      unfold Dv.RibFacts.cached in Hc. inversion Hc.
      apply in_map_iff. exists (d, e'). split; [|apply Dv.RibFacts.aget_in, He'].
      unfold ent. simpl. congruence. }
    intros Hnd Hnd' Hc x. split; [apply H; [exact Hnd'|]|apply H; assumption].
    intros d. symmetry. apply Hc.
  Qed.

  Lemma step_keeps r e : Dv.RibFacts.rib_ok r -> Dv.RibFacts.rib_ok (fst (stepf r e)).
  Proof. intros H. apply (Dv.RibFacts.rib_update_spec me r (fst e) (snd e) H). Qed.

  Lemma dead_keeps r n : Dv.RibFacts.rib_ok r -> Dv.RibFacts.rib_ok (fst (Dv.Model.rib_dead r n)).
  Proof. intros H. apply (Dv.RibFacts.rib_dead_spec r n H). Qed.

  Lemma flag_sound r e : Dv.RibFacts.rib_ok r -> snd (stepf r e) = false ->
    forall x, In x (view (fst (stepf r e))) <-> In x (view r).
  Proof.
    intros Hok Hf. apply view_csame; [apply Hok|apply (step_keeps r e Hok)|].
    apply Dv.Flag.rib_update_flag. exact Hf.
  Qed.

  Lemma dead_flag_sound r n : Dv.RibFacts.rib_ok r -> snd (Dv.Model.rib_dead r n) = false ->
    forall x, In x (view (fst (Dv.Model.rib_dead r n))) <-> In x (view r).
  Proof.
    intros Hok Hf. apply view_csame; [apply Hok|apply (dead_keeps r n Hok)|].
    apply Dv.Flag.rib_dead_flag. exact Hf.
  Qed.

  (* after RemoveNextHop(n) + Prune nobody routes through n: its cost is infinity everywhere (rib_dead_spec) while a best or
     second-best next hop always has a finite cost (refresh_fold_spec) *)
  Lemma dead_removes r n x : Dv.RibFacts.rib_ok r -> n <> 0 ->
    In x (view (fst (Dv.Model.rib_dead r n))) -> re_nh1 x <> n /\ re_nh2 x <> n.
  Proof.
    intros Hok Hn Hx.
    destruct (Dv.RibFacts.rib_dead_spec r n Hok) as [Hok' Hrv].
    set (r' := fst (Dv.Model.rib_dead r n)) in *.
    unfold view in Hx. apply in_map_iff in Hx. destruct Hx as [[d e] [<- Hin]]. simpl.
    destruct Hok' as [Hnd Hall].
    apply Dv.RibFacts.in_aget in Hin; [|exact Hnd].
    destruct (Hall d e Hin) as [[[Hcn [Hcap Hcached]] Hdirty] _].
    specialize (Hcached Hdirty).
    pose proof (Dv.Refresh.refresh_fold_spec (Dv.Model.costs e) Hcn) as T. rewrite <- Hcached in T.
    unfold Dv.RibFacts.cached, Dv.Refresh.two_least in T. destruct T as [F S].
    specialize (Hrv d n). rewrite N.eqb_refl in Hrv.
    unfold Dv.RibFacts.rv in Hrv. rewrite Hin in Hrv. unfold Dv.RibFacts.cvE in Hrv.
    split; intros E.
    - destruct F as [[_ [F0 _]]|[Fl [Fi _]]]; [congruence|].
      rewrite E in Fi. apply Dv.RibFacts.in_aget in Fi; [|exact Hcn]. rewrite Fi in Hrv. lia.
    - destruct S as [[_ [S0 _]]|[Sl [Si _]]]; [congruence|].
      rewrite E in Si. apply Dv.RibFacts.in_aget in Si; [|exact Hcn]. rewrite Si in Hrv. lia.
  Qed.

  Definition r0 : Dv.Model.rib := fst (Dv.Model.rib_set [] me me 0).     (* Router.Start: rib.Set(self, self, 0) *)

  Lemma r0_ok : Dv.RibFacts.rib_ok r0.
  Proof. exact (proj1 (Dv.Net.init_router_ok me)). Qed.

  Lemma r0_own : forall x, In x (view r0) -> re_name x = me.
  Proof.
    intros x Hx. unfold view in Hx. apply in_map_iff in Hx. destruct Hx as [[d e] [<- Hin]]. simpl.
    unfold r0, Dv.Model.rib_set in Hin. simpl in Hin.
    destruct (Dv.Model.entry_set Dv.Model.new_entry me 0) as [e' ch]. simpl in Hin.
    destruct Hin as [H|[]]. inversion H. reflexivity.
  Qed.

  (* the daemon with the real RIB algorithm keeps the mirror, no hypotheses *)
  Theorem daemon_keeps_mirror_dv_l : forall evs p f,
    let d := drun Dv.Model.rib view (N * list Dv.Model.adv_entry) stepf Dv.Model.rib_dead me r0 evs in
    rt_lookup (d_rt _ d) (p, f) = desired (tables_of _ view d) p f.
  Proof.
    intros evs p f.
    exact (daemon_keeps_mirror_l Dv.Model.rib view (N * list Dv.Model.adv_entry) stepf Dv.Model.rib_dead
             Dv.RibFacts.rib_ok step_keeps dead_keeps flag_sound dead_flag_sound dead_removes me r0 evs r0_ok r0_own p f).
  Qed.
End Link.
