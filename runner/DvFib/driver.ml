(* runner/DvFib/driver.ml — replays the C19 harness trace on the model extracted from Coq (coq/DvFib) and evaluates
   the spec oracles on the implementation's observations.

   Trace (see harness/dvfib):   case <kind> <k> ... / op ... / obs ... / end
   Output:
     DIVERGE <lineno> <case> <what> model=[..] impl=[..]     model and implementation disagree on an observable
     ORACLE  <lineno> <case> <signature> <detail>            the implementation's own observations violate the spec
     BADLINE <lineno> <text>
     STATS <cases> <ops> <obs>
     DONE <lines> *)
open Dvfib_model

let rec pos_of_int (i : int) : positive =
  if i = 1 then XH else if i land 1 = 0 then XO (pos_of_int (i lsr 1)) else XI (pos_of_int (i lsr 1))
let n_of_int (i : int) : n = if i = 0 then N0 else Npos (pos_of_int i)
let rec int_of_pos = function XH -> 1 | XO p -> 2 * int_of_pos p | XI p -> 2 * int_of_pos p + 1
let int_of_n = function N0 -> 0 | Npos p -> int_of_pos p
let n10 = n_of_int 10
let n_of_dec (s : string) : n =
  let acc = ref N0 in
  String.iter (fun c -> acc := N.add (N.mul !acc n10) (n_of_int (Char.code c - 48))) s; !acc
let rec dec_of_n (x : n) : string =
  if N.ltb x n10 then string_of_int (int_of_n x)
  else dec_of_n (N.div x n10) ^ string_of_int (int_of_n (N.modulo x n10))

let csv_of_set (s : n list) : string =
  if s = [] then "-" else
  String.concat "," (List.map string_of_int (List.sort compare (List.map int_of_n s)))
let set_of_csv (s : string) : n list =
  if s = "-" then [] else List.map n_of_dec (String.split_on_char ',' s)
let b01 b = if b then "1" else "0"

(* ------------------------------------------------------------------ prefix log *)
let show_pub (p : pub) : string =
  Printf.sprintf "%s %s %s %s" (dec_of_n p.pb_seq) (dec_of_n p.pb_snapat) (csv_of_set p.pb_set)
    (match p.pb_ptr with Some (s, _) -> dec_of_n s | None -> "-")
let show_peer (j : peer) : string =
  Printf.sprintf "%s %s %s %s %s %s" (dec_of_n j.j_known) (dec_of_n j.j_latest) (b01 j.j_fetching)
    (match j.j_pending with None -> "-" | Some (ReqOp k) -> "op:" ^ dec_of_n k | Some ReqSnap -> "snap")
    (match j.j_inflight with None -> "-" | Some (s, _) -> dec_of_n s)
    (csv_of_set j.j_set)

let lineno = ref 0
let case_id = ref "?"
let n_cases = ref 0 and n_ops = ref 0 and n_obs = ref 0
let diverge what m i = Printf.printf "DIVERGE %d %s %s model=[%s] impl=[%s]\n" !lineno !case_id what m i
let oracle sg detail = Printf.printf "ORACLE %d %s %s %s\n" !lineno !case_id sg detail

(* model state of the current pfx case *)
let m_pub = ref (pub_new N0)
let m_peers : (int, peer) Hashtbl.t = Hashtbl.create 7
(* implementation-side history for the oracle: publication number -> announced set (canonical csv) *)
let i_hist : (string, string) Hashtbl.t = Hashtbl.create 997
let i_pub_seq = ref "" and i_pub_set = ref ""
let i_init = ref ""

let peer j = try Hashtbl.find m_peers j with Not_found -> peer_new

let pfx_op (f : string list) =
  match f with
  | ["pa"; n] -> m_pub := announce (n_of_dec n) !m_pub
  | ["pw"; n] -> m_pub := withdraw (n_of_dec n) !m_pub
  | ["jnew"; j] -> Hashtbl.replace m_peers (int_of_string j) peer_new
  | ["jreach"; j; b] -> let j = int_of_string j in Hashtbl.replace m_peers j (set_reach (b = "1") (peer j))
  | ["jsync"; j; v] -> let j = int_of_string j in Hashtbl.replace m_peers j (on_sync (n_of_dec v) (peer j))
  | ["jkick"; j] -> let j = int_of_string j in Hashtbl.replace m_peers j (try_fetch (peer j))
  | ["ans"; j; c] ->
      let j = int_of_string j in
      let c = if c = "-" then None else Some (n_of_dec c) in
      Hashtbl.replace m_peers j (net_answer c !m_pub (peer j))
  | ["del"; j] -> let j = int_of_string j in Hashtbl.replace m_peers j (fst (deliver (peer j)))
  | "tmo" :: j :: _ -> let j = int_of_string j in Hashtbl.replace m_peers j (timeout (peer j))
  | _ -> Printf.printf "BADLINE %d op %s\n" !lineno (String.concat " " f)

let pfx_obs (f : string list) =
  match f with
  | ["pub"; seq; snapat; set; ptr] ->
      let i = String.concat " " [seq; snapat; set; ptr] in
      let m = show_pub !m_pub in
      if m <> i then diverge "pub" m i;
      (* oracle, publisher side: a publication number never changes its set, numbers only grow *)
      (match Hashtbl.find_opt i_hist seq with
       | Some old when old <> set -> oracle "pfx-pub-rewrites-history" (Printf.sprintf "seq=%s had set %s, now %s" seq old set)
       | _ -> ());
      Hashtbl.replace i_hist seq set;
      i_pub_seq := seq; i_pub_set := set
  | ["peer"; j; known; latest; fetching; pending; inflight; set] ->
      let i = String.concat " " [known; latest; fetching; pending; inflight; set] in
      let m = show_peer (peer (int_of_string j)) in
      if m <> i then diverge ("peer" ^ j) m i;
      (* oracle on the implementation's observations: the peer's set is the publisher's set as of publication
         number Known (nothing before the first fetch) ... *)
      (if known = "0" && not (Hashtbl.mem i_hist "0") then begin
         if set <> "-" then oracle "pfx-peer-set-before-any-fetch" (Printf.sprintf "peer %s known=0 set=%s" j set)
       end else
         match Hashtbl.find_opt i_hist known with
         | None -> oracle "pfx-peer-known-never-published" (Printf.sprintf "peer %s known=%s" j known)
         | Some s -> if s <> set then
             oracle "pfx-peer-set-differs-from-publisher-at-known"
               (Printf.sprintf "peer %s known=%s set=%s publisher-set-then=%s" j known set s));
      (* ... in particular (extracted predicate peer_ok) equal to the current set once caught up *)
      if not (peer_ok (set_of_csv !i_pub_set) (n_of_dec !i_pub_seq) (n_of_dec known) (set_of_csv set)) then
        oracle "pfx-caught-up-peer-differs" (Printf.sprintf "peer %s known=%s set=%s publisher set=%s" j known set !i_pub_set)
  | _ -> Printf.printf "BADLINE %d obs %s\n" !lineno (String.concat " " f)

let kind = ref ""

let () =
  (try
    while true do
      let line = input_line stdin in
      incr lineno;
      match String.split_on_char ' ' line with
      | "case" :: "pfx" :: k :: s0 :: _ ->
          kind := "pfx"; case_id := "pfx" ^ k; incr n_cases;
          m_pub := pub_new (n_of_dec s0);
          Hashtbl.reset m_peers; Hashtbl.reset i_hist; i_init := s0
      | "op" :: f -> incr n_ops; (match !kind with "pfx" -> pfx_op f | _ -> ())
      | "obs" :: f -> incr n_obs; (match !kind with "pfx" -> pfx_obs f | _ -> ())
      | ["end"] -> kind := ""
      | [""] | [] -> ()
      | "#" :: _ -> ()
      | _ -> Printf.printf "BADLINE %d %s\n" !lineno line
    done
  with End_of_file -> ());
  Printf.printf "STATS %d %d %d\n" !n_cases !n_ops !n_obs;
  Printf.printf "DONE %d\n" !lineno
