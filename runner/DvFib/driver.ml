(* runner/DvFib/driver.ml — replays the C19 harness trace on the model extracted from Coq (coq/DvFib) and evaluates
   the spec oracles on the implementation's observations.

   Trace (see harness/dvfib):   case <kind> <k> ... / op ... / obs ... / end
   Output:
     DIVERGE <lineno> <case> <what> model=[..] impl=[..]     model and implementation disagree on an observable
     ORACLE  <lineno> <case> <signature> <detail>            the implementation's own observations violate the spec
     BADLINE <lineno> <text>
     STATS <cases> <ops> <obs>
     DONE <lines> *)
open Dvfib_model

let rec pos_of_int (i : int) : positive =
  if i = 1 then XH else if i land 1 = 0 then XO (pos_of_int (i lsr 1)) else XI (pos_of_int (i lsr 1))
let n_of_int (i : int) : n = if i = 0 then N0 else Npos (pos_of_int i)
let rec int_of_pos = function XH -> 1 | XO p -> 2 * int_of_pos p | XI p -> 2 * int_of_pos p + 1
let int_of_n = function N0 -> 0 | Npos p -> int_of_pos p
let n10 = n_of_int 10
let n_of_dec (s : string) : n =
  let acc = ref N0 in
  String.iter (fun c -> acc := N.add (N.mul !acc n10) (n_of_int (Char.code c - 48))) s; !acc
let rec dec_of_n (x : n) : string =
  if N.ltb x n10 then string_of_int (int_of_n x)
  else dec_of_n (N.div x n10) ^ string_of_int (int_of_n (N.modulo x n10))

let csv_of_set (s : n list) : string =
  if s = [] then "-" else
  String.concat "," (List.map string_of_int (List.sort compare (List.map int_of_n s)))
let set_of_csv (s : string) : n list =
  if s = "-" then [] else List.map n_of_dec (String.split_on_char ',' s)
let b01 b = if b then "1" else "0"

(* ------------------------------------------------------------------ prefix log *)
let show_pub (p : pub) : string =
  Printf.sprintf "%s %s %s %s" (dec_of_n p.pb_seq) (dec_of_n p.pb_snapat) (csv_of_set p.pb_set)
    (match p.pb_ptr with Some (s, _) -> dec_of_n s | None -> "-")
let show_peer (j : peer) : string =
  Printf.sprintf "%s %s %s %s %s %s" (dec_of_n j.j_known) (dec_of_n j.j_latest) (b01 j.j_fetching)
    (match j.j_pending with None -> "-" | Some (ReqOp k) -> "op:" ^ dec_of_n k | Some ReqSnap -> "snap")
    (match j.j_inflight with None -> "-" | Some (s, _) -> dec_of_n s)
    (csv_of_set j.j_set)

let dec_lt a b = String.length a < String.length b || (String.length a = String.length b && a < b)
let lineno = ref 0
let case_id = ref "?"
let n_cases = ref 0 and n_ops = ref 0 and n_obs = ref 0
let diverge what m i = Printf.printf "DIVERGE %d %s %s model=[%s] impl=[%s]\n" !lineno !case_id what m i
let oracle sg detail = Printf.printf "ORACLE %d %s %s %s\n" !lineno !case_id sg detail

(* model state of the current pfx case *)
let m_pub = ref (pub_new N0)
let m_peers : (int, peer) Hashtbl.t = Hashtbl.create 7
(* implementation-side history for the oracle: publication number -> announced set (canonical csv) *)
let i_hist : (string, string) Hashtbl.t = Hashtbl.create 997
let i_pub_seq = ref "" and i_pub_set = ref ""
let i_init = ref ""

let peer j = try Hashtbl.find m_peers j with Not_found -> peer_new
(* progress oracle: per peer, the last observation (known, pending) and where the last answer came from *)
let i_last : (string, string * string) Hashtbl.t = Hashtbl.create 7
let i_ans_src : (string, string) Hashtbl.t = Hashtbl.create 7
let last_op : string list ref = ref []
(* catch-up oracle (peer_catches_up): after a truthful sync notification with the publisher quiet, answers from the
   publisher and deliveries only, the peer must reach the publisher's number within fetch_threshold + 2 deliveries *)
let cu : (string, string * int) Hashtbl.t = Hashtbl.create 7       (* peer -> (target number, deliveries so far) *)
let i_infl : (string, string) Hashtbl.t = Hashtbl.create 7         (* peer -> in-flight number of its last observation *)

let pfx_op (f : string list) =
  last_op := f;
  (* where the answer came from, and the publisher's number at the moment it answered (the Data may be delivered much later) *)
  (match f with "ans" :: j :: src :: _ -> Hashtbl.replace i_ans_src j (src ^ " " ^ !i_pub_seq) | _ -> ());
  (match f with
   | ("pa" | "pw" | "ra" | "rw") :: _ -> Hashtbl.reset cu
   | ["jsync"; j; _; v] ->
       (* tracked only when the route to the publisher is there at that moment (then the handler itself starts the fetch) *)
       if v = !i_pub_seq && (peer (int_of_string j)).j_reach then Hashtbl.replace cu j (v, 0) else Hashtbl.remove cu j
   | "ans" :: j :: src :: _ -> if src <> "-" then Hashtbl.remove cu j
   | "tmo" :: _ -> ()    (* one failed fetch (timeout / Nack) is tolerated: fetching must resume by itself *)
   | ["jreach"; j; _] -> Hashtbl.remove cu j
   | "del" :: j :: _ ->
       (match Hashtbl.find_opt cu j, Hashtbl.find_opt i_infl j with
        | Some (t, n), Some infl when infl <> "-" -> Hashtbl.replace cu j (t, n + 1)
        | _ -> ())
   | _ -> ());
  match f with
  | ["pa"; n] | ["ra"; n] -> m_pub := announce (n_of_dec n) !m_pub
  | ["pw"; n] | ["rw"; n] -> m_pub := withdraw (n_of_dec n) !m_pub
  | ["jnew"; j] -> Hashtbl.replace m_peers (int_of_string j) peer_new
  | ["jreach"; j; b] -> let j = int_of_string j in Hashtbl.replace m_peers j (set_reach (b = "1") (peer j))
  | ["jsync"; j; _; v] -> let j = int_of_string j in Hashtbl.replace m_peers j (on_sync (n_of_dec v) (peer j))
  | ["jkick"; j] -> let j = int_of_string j in Hashtbl.replace m_peers j (try_fetch (peer j))
  | ["ans"; j; _; c] ->
      let j = int_of_string j in
      let c = if c = "-" then None else Some (n_of_dec c) in
      Hashtbl.replace m_peers j (net_answer c !m_pub (peer j))
  | ["del"; j] -> let j = int_of_string j in Hashtbl.replace m_peers j (fst (deliver (peer j)))
  | "tmo" :: j :: _ -> let j = int_of_string j in Hashtbl.replace m_peers j (timeout (peer j))
  | _ -> Printf.printf "BADLINE %d op %s\n" !lineno (String.concat " " f)

let pfx_obs (f : string list) =
  match f with
  | "hashcollision" :: a :: b :: _ -> oracle "assumption-name-hash-collision" (Printf.sprintf "%s and %s have the same Name.Hash(): tables keyed by the hash conflate them" a b)
  | ["pub"; seq; snapat; set; ptr] ->
      let i = String.concat " " [seq; snapat; set; ptr] in
      let m = show_pub !m_pub in
      if m <> i then diverge "pub" m i;
      (* oracle, publisher side: a publication number never changes its set, numbers only grow *)
      (match Hashtbl.find_opt i_hist seq with
       | Some old when old <> set -> oracle "pfx-pub-rewrites-history" (Printf.sprintf "seq=%s had set %s, now %s" seq old set)
       | _ -> ());
      Hashtbl.replace i_hist seq set;
      i_pub_seq := seq; i_pub_set := set
  | ["peer"; j; known; latest; fetching; pending; inflight; set] ->
      let i = String.concat " " [known; latest; fetching; pending; inflight; set] in
      let m = show_peer (peer (int_of_string j)) in
      if m <> i then diverge ("peer" ^ j) m i;
      (* oracle on the implementation's observations: the peer's set is the publisher's set as of publication
         number Known (nothing before the first fetch) ... *)
      (if known = "0" && not (Hashtbl.mem i_hist "0") then begin
         if set <> "-" then oracle "pfx-peer-set-before-any-fetch" (Printf.sprintf "peer %s known=0 set=%s" j set)
       end else
         match Hashtbl.find_opt i_hist known with
         | None -> oracle "pfx-peer-known-never-published" (Printf.sprintf "peer %s known=%s" j known)
         | Some s -> if s <> set then
             oracle "pfx-peer-set-differs-from-publisher-at-known"
               (Printf.sprintf "peer %s known=%s set=%s publisher-set-then=%s" j known set s));
      (* progress: a snapshot answered by the publisher itself must move the peer forward (otherwise the two
         thresholds do not fit and a peer that is far behind never catches up) *)
      (match !last_op, Hashtbl.find_opt i_last j, Hashtbl.find_opt i_ans_src j, Hashtbl.find_opt i_infl j with
       | "del" :: j' :: _, Some (k0, "snap"), Some src, Some infl0
         when j' = j && infl0 <> "-" && String.length src > 2 && String.sub src 0 2 = "- " ->
           (* a Data was delivered. If, when the publisher ANSWERED, the peer really was beyond the fetch rule's snapshot
              bound behind the publisher's number of that moment, the snapshot must move it forward *)
           let seq_then = String.sub src 2 (String.length src - 2) in
           if not (dec_lt k0 known) && dec_lt k0 seq_then && fetch_snap_test (n_of_dec seq_then) (n_of_dec k0) then
             oracle "pfx-snapshot-does-not-advance-peer" (Printf.sprintf "peer %s known %s -> %s after a snapshot answered by the publisher at %s" j k0 known seq_then)
       | _ -> ());
      (match Hashtbl.find_opt cu j with
       | Some (t, n) ->
           if known = t then Hashtbl.remove cu j
           else if pending = "-" && inflight = "-" && (peer (int_of_string j)).j_reach && dec_lt known t then begin
             (* behind, route present, publisher's number heard — and no Interest outstanding: the fetch loop has stopped *)
             Hashtbl.remove cu j;
             oracle "pfx-peer-stalled-behind-publisher"
               (Printf.sprintf "peer %s known %s latest %s, publisher quiet at %s, nothing pending (fetching=%s) after: %s" j known latest t fetching (String.concat " " !last_op))
           end
           else if n > int_of_n fetch_threshold + 2 then begin
             Hashtbl.remove cu j;
             oracle "pfx-peer-not-caught-up-within-bound"
               (Printf.sprintf "peer %s known %s, publisher quiet at %s, %d answered fetches (bound fetch_threshold+2 = %d)" j known t n (int_of_n fetch_threshold + 2))
           end
       | None -> ());
      Hashtbl.replace i_infl j inflight;
      Hashtbl.replace i_last j (known, pending);
      (* ... in particular (extracted predicate peer_ok) equal to the current set once caught up *)
      if not (peer_ok (set_of_csv !i_pub_set) (n_of_dec !i_pub_seq) (n_of_dec known) (set_of_csv set)) then
        oracle "pfx-caught-up-peer-differs" (Printf.sprintf "peer %s known=%s set=%s publisher set=%s" j known set !i_pub_set)
  | _ -> Printf.printf "BADLINE %d obs %s\n" !lineno (String.concat " " f)

(* ------------------------------------------------------------------ FIB installer *)
let t_me = ref N0
let t_rib : ribent list ref = ref []
let t_nbr : (n * n) list ref = ref []
let t_pfx : (n * n list) list ref = ref []
let t_costs : (string * (string * string * (string * string * string) list)) list ref = ref []  (* dest -> nh1hash nh2hash [(id,hash,cost)] *)
let t_levels : (string * (string * string)) list ref = ref []                                    (* dest -> l1 l2 *)
let m_fib = ref fib_empty
let m_rt : rtable ref = ref []
let m_cmds : cmd list ref = ref []
let i_rt : rtable ref = ref []
let cur_tables () = { t_me = !t_me; t_rib = List.rev !t_rib; t_nbr = List.rev !t_nbr; t_pfx = List.rev !t_pfx }

let show_cmd = function
  | Reg (nm, f, c) -> Printf.sprintf "R:%s:%s:%s" (dec_of_n nm) (dec_of_n f) (dec_of_n c)
  | Unreg (nm, f) -> Printf.sprintf "U:%s:%s" (dec_of_n nm) (dec_of_n f)
let parse_cmd (s : string) : cmd option =
  match String.split_on_char ':' s with
  | ["R"; nm; f; c] when c <> "nil" -> Some (Reg (n_of_dec nm, n_of_dec f, n_of_dec c))
  | ["U"; nm; f] -> Some (Unreg (n_of_dec nm, n_of_dec f))
  | _ -> None
let show_rt (rt : rtable) : string =
  if rt = [] then "-" else
  String.concat "," (List.sort compare (List.map (fun ((p, f), c) -> Printf.sprintf "%s:%s:%s" (dec_of_n p) (dec_of_n f) (dec_of_n c)) rt))
let show_fibst (st : fibst) : string =
  let l = List.concat_map (fun (p, es) ->
    if es = [] then [Printf.sprintf "%s:empty" (dec_of_n p)] else
    List.map (fun e -> Printf.sprintf "%s:%s:%s" (dec_of_n p) (dec_of_n e.fe_face) (dec_of_n e.fe_cost)) es) st.f_prefixes in
  Printf.sprintf "%d %d %s" (List.length st.f_prefixes) (List.length st.f_names)
    (if l = [] then "-" else String.concat "," (List.sort compare l))

(* decimal strings of uint64 compared numerically *)
let dec_lt a b = String.length a < String.length b || (String.length a = String.length b && a < b)

(* spec-level check of a RIB entry, insensitive to how ties are broken (which of several equal-cost hops is called best is not
   constrained by C19; determinism of the choice is C18's concern): (nextHop1, lowest1) is a next hop of least cost below
   infinity, (nextHop2, lowest2) a next hop of least cost below infinity among the others; (0, infinity) where there is none *)
let check_rib_entry dest =
  match List.assoc_opt dest !t_costs, List.assoc_opt dest !t_levels with
  | Some (h1, h2, costs), Some (l1, l2) ->
      let inf = dec_of_n cost_infinity in
      let fin = List.filter (fun (_, _, c) -> dec_lt c inf) costs in
      let min_cost l = List.fold_left (fun m (_, _, c) -> match m with None -> Some c | Some x -> if dec_lt c x then Some c else m) None l in
      let bad why = oracle "rib-two-least" (Printf.sprintf "dest=%s has (%s,%s),(%s,%s): %s" dest h1 l1 h2 l2 why) in
      (match min_cost fin with
       | None -> if (h1, l1) <> ("0", inf) || (h2, l2) <> ("0", inf) then bad "no next hop below infinity, expected (0,inf),(0,inf)"
       | Some m1 ->
           if l1 <> m1 then bad ("best cost should be " ^ m1)
           else if not (List.exists (fun (_, h, c) -> h = h1 && c = l1) fin) then bad "best next hop does not have that cost"
           else begin
             let rest = List.filter (fun (_, h, _) -> h <> h1) fin in
             match min_cost rest with
             | None -> if (h2, l2) <> ("0", inf) then bad "no other next hop below infinity, expected (0,inf) as second"
             | Some m2 ->
                 if l2 <> m2 then bad ("second-best cost should be " ^ m2)
                 else if not (List.exists (fun (_, h, c) -> h = h2 && c = l2) rest) then bad "second next hop does not have that cost"
           end)
  | _ -> ()

let fib_tab (f : string list) =
  match f with
  | ["me"; x] -> t_me := n_of_dec x; t_rib := []; t_nbr := []; t_pfx := []; t_costs := []; t_levels := []
  | ["rib"; nm; pf; nh1; l1; nh2; l2] ->
      t_rib := { re_name = n_of_dec nm; re_pfx = n_of_dec pf; re_nh1 = n_of_dec nh1; re_l1 = n_of_dec l1;
                 re_nh2 = n_of_dec nh2; re_l2 = n_of_dec l2 } :: !t_rib;
      t_levels := (nm, (l1, l2)) :: !t_levels;
      if nh1 = "999999" || nh2 = "999999" then oracle "rib-unnamed-next-hop" ("dest=" ^ nm)
  | ["costs"; nm; h1; h2; l] ->
      let cs = if l = "-" then [] else List.map (fun s -> match String.split_on_char ':' s with
        | [i; h; c] -> (i, h, c) | _ -> ("?", "?", "?")) (String.split_on_char ',' l) in
      t_costs := (nm, (h1, h2, cs)) :: !t_costs
  | ["nbr"; nm; face] -> t_nbr := (n_of_dec nm, n_of_dec face) :: !t_nbr
  | ["pfx"; r; l] -> t_pfx := (n_of_dec r, set_of_csv l) :: !t_pfx
  | _ -> Printf.printf "BADLINE %d tab %s\n" !lineno (String.concat " " f)

let mismatch_detail (t : tables) (rt : rtable) : string * string =
  let keys = List.sort_uniq compare (List.map (fun ((p, f), _) -> (p, f)) rt @ desired_keys t) in
  let bad = List.filter_map (fun (p, f) ->
    let a = rt_lookup rt (p, f) and d = desired t p f in
    if a = d then None else
    let s = function None -> "none" | Some c -> dec_of_n c in
    Some ((match a, d with Some _, None -> "stale" | None, Some _ -> "missing" | _ -> "cost"),
          Printf.sprintf "(prefix %s face %s: installed %s, tables prescribe %s)" (dec_of_n p) (dec_of_n f) (s a) (s d))) keys in
  let kinds = List.sort_uniq compare (List.map fst bad) in
  (String.concat "+" kinds, String.concat " " (List.map snd bad))

let fib_check_mirror tag =
  let t = cur_tables () in
  if not (mirrorsb t !i_rt) then begin
    let k, d = mismatch_detail t !i_rt in
    oracle (Printf.sprintf "fib-%s-route%s" k tag) d
  end

let fib_go () =
  List.iter (fun (d, _) -> check_rib_entry d) !t_levels;
  let t = cur_tables () in
  let st, cs = fib_update t !m_fib in
  m_fib := st; m_cmds := cs; m_rt := rt_run !m_rt cs

let net_go () =
  List.iter (fun (d, _) -> check_rib_entry d) !t_levels;
  let t = cur_tables () in
  let st, cs = fib_update t !m_fib in
  m_fib := st; m_cmds := cs; m_rt := rt_run !m_rt cs

let net_obs (f : string list) =
  match f with
  | ["pfxsync"; router; known; latest; mine; theirs] ->
      (* log replication at the daemon level: once Known equals the remote publisher's number we hold exactly its set *)
      if known = latest && mine <> theirs then
        oracle "net-caught-up-prefix-set-differs" (Printf.sprintf "router %s known=%s: we hold %s, it announces %s" router known mine theirs)
  | "hashcollision" :: a :: b :: _ -> oracle "assumption-name-hash-collision" (Printf.sprintf "%s and %s have the same Name.Hash(): tables keyed by the hash conflate them" a b)
  | ["cmds"; l] ->
      let items = if l = "-" then [] else String.split_on_char ',' l in
      let parsed = List.map (fun s -> (s, parse_cmd s)) items in
      List.iter (fun (s, c) -> if c = None then oracle "fib-malformed-command" s) parsed;
      i_rt := rt_run !i_rt (List.filter_map snd parsed);
      (* the router decided by itself whether to run fibUpdate: at quiescence installed must equal desired *)
      fib_check_mirror "-after-event";
      if show_rt !m_rt <> show_rt !i_rt then diverge "rt" (show_rt !m_rt) (show_rt !i_rt);
      (* failures in their own right, whatever the (possibly corrupted) tables prescribe: a route on face 0 or on a
         face no current neighbour uses; a reachable RIB entry whose next hop is not a current neighbour *)
      let faces = List.map snd !t_nbr in
      List.iter (fun ((p, f), c) ->
        if f = N0 || not (List.mem f faces) then
          oracle "route-on-unknown-face" (Printf.sprintf "prefix %s registered on face %s (cost %s); faces of current neighbours: %s"
            (dec_of_n p) (dec_of_n f) (dec_of_n c) (String.concat "," (List.map dec_of_n faces)))) !i_rt;
      let nbrs = List.map fst !t_nbr in
      List.iter (fun e ->
        if e.re_name <> !t_me && N.ltb e.re_l1 cost_infinity && not (List.mem e.re_nh1 nbrs) then
          oracle "rib-next-hop-not-a-neighbour" (Printf.sprintf "destination %s best next hop %s is not in the neighbour table" (dec_of_n e.re_name) (dec_of_n e.re_nh1));
        if e.re_name <> !t_me && N.ltb e.re_l2 cost_infinity && not (List.mem e.re_nh2 nbrs) then
          oracle "rib-next-hop-not-a-neighbour" (Printf.sprintf "destination %s second next hop %s is not in the neighbour table" (dec_of_n e.re_name) (dec_of_n e.re_nh2))) !t_rib
  | ["fib"; np; nn; l] ->
      let i = String.concat " " [np; nn; l] in
      let m = show_fibst !m_fib in
      if m <> i then diverge "fib" m i;
      if show_rt !i_rt <> l then oracle "fib-prefixes-map-differs-from-command-fold" (Printf.sprintf "fold=%s map=%s" (show_rt !i_rt) l)
  | _ -> Printf.printf "BADLINE %d obs %s\n" !lineno (String.concat " " f)

(* ------------------------------------------------------------------ command executor (NfdMgmtThread.Start) *)
let x_mode = ref false        (* executor history: fib case with header  case fib k x seed perm *)
let x_perm = ref false
let x_state : (n * cmd) xstate ref = ref xinit       (* commands carry the instance number *)
let x_seen : (string, unit) Hashtbl.t = Hashtbl.create 97
let x_dropped = ref false
let fib_retries = Zpos (XI XH)                         (* Retries: 3 in dv/table/fib.go *)

let rt_of_string (l : string) : rtable =
  if l = "-" then [] else
  List.map (fun s -> match String.split_on_char ':' s with
    | [p; f; c] -> ((n_of_dec p, n_of_dec f), n_of_dec c) | _ -> ((N0, N0), N0)) (String.split_on_char ',' l)

(* replay the observed ExecMgmtCmd calls (installer commands only) on the executor model: commands are enqueued in the
   order of their first attempt; the fault outcomes are inputs; at every call the model must be working on that command *)
let exec_attempts (l : string) =
  let items = if l = "-" then [] else String.split_on_char ',' l in
  let parsed = List.filter_map (fun s -> match String.split_on_char '|' s with
    | [id; cs; res] when cs <> "o" -> (match parse_cmd cs with Some c -> Some (id, c, res = "F") | None -> None)
    | _ -> None) items in
  List.iter (fun (id, c, _) ->
    if not (Hashtbl.mem x_seen id) then begin
      Hashtbl.replace x_seen id ();
      x_state := xstep !x_state (XEnq { x_cmd = (n_of_dec id, c); x_retries = fib_retries })
    end) parsed;
  let bad = ref false in
  List.iter (fun (id, c, fail) ->
    if not !bad then begin
      (* let the model reach its next ExecMgmtCmd call *)
      let rec advance k =
        if k > 0 then match !x_state.x_cur with
          | None -> if !x_state.x_q <> [] then (x_state := xstep !x_state (XTick false); advance (k - 1))
          | Some (xc, i) -> if not (loop_cond xc i) then (x_dropped := true; x_state := xstep !x_state (XTick false); advance (k - 1)) in
      advance 100000;
      (match !x_state.x_cur with
       | Some (xc, _) when fst xc.x_cmd = n_of_dec id -> x_state := xstep !x_state (XTick fail)
       | Some (xc, _) ->
           bad := true;
           diverge "executor-order" (Printf.sprintf "working on instance %s (%s)" (dec_of_n (fst xc.x_cmd)) (show_cmd (snd xc.x_cmd)))
             (Printf.sprintf "ExecMgmtCmd for instance %s (%s)" id (show_cmd c))
       | None -> bad := true; diverge "executor-order" "queue empty" (Printf.sprintf "ExecMgmtCmd for instance %s" id))
    end) parsed;
  (* a command whose budget is exhausted is dropped *)
  (match !x_state.x_cur with Some (xc, i) when not (loop_cond xc i) -> x_dropped := true; x_state := xstep !x_state (XTick false) | _ -> ())

let exec_fwd (l : string) =
  let fwd = rt_of_string l in
  (* correspondence: the forwarder's table is the fold of the model's log of successful commands *)
  let m = rt_run [] (List.map snd !x_state.x_log) in
  if show_rt m <> show_rt fwd then diverge "executor-forwarder-table" (show_rt m) (show_rt fwd);
  (* spec: with faults within the retry budget the forwarder holds exactly what the tables prescribe *)
  if not !x_dropped then begin
    let t = cur_tables () in
    if not (mirrorsb t fwd) then begin
      let k, d = mismatch_detail t fwd in
      oracle (Printf.sprintf "fwd-%s-route-after-executor" k) d
    end
  end

(* PrefixTable.Apply on arbitrary op lists (reset + adds + removes, duplicates) against apply_ops / apply_dirty *)
let m_pfxsets : (string, n list) Hashtbl.t = Hashtbl.create 17
let apply_obs router reset adds rems dirty set =
  let o = { ol_reset = (reset = "1"); ol_adds = (if adds = "-" then [] else List.map n_of_dec (String.split_on_char ',' adds));
            ol_rems = (if rems = "-" then [] else List.map n_of_dec (String.split_on_char ',' rems)) } in
  let cur = try Hashtbl.find m_pfxsets router with Not_found -> [] in
  let nw = apply_ops o cur in
  Hashtbl.replace m_pfxsets router nw;
  let m = csv_of_set nw ^ " " ^ b01 (apply_dirty o) and i = set ^ " " ^ dirty in
  if m <> i then diverge "apply" m i

let fib_obs (f : string list) =
  match f with
  | "hashcollision" :: a :: b :: _ -> oracle "assumption-name-hash-collision" (Printf.sprintf "%s and %s have the same Name.Hash(): tables keyed by the hash conflate them" a b)
  | ["apply"; router; reset; adds; rems; dirty; set] -> apply_obs router reset adds rems dirty set
  | ["attempts"; l] -> exec_attempts l
  | ["fwd"; l] -> exec_fwd l
  | ["cmds"; l] ->
      let items = if l = "-" then [] else String.split_on_char ',' l in
      let parsed = List.map (fun s -> (s, parse_cmd s)) items in
      List.iter (fun (s, c) -> if c = None then oracle "fib-malformed-command" s) parsed;
      let ic = List.filter_map snd parsed in
      let m = List.sort compare (List.map show_cmd !m_cmds) and i = List.sort compare (List.map show_cmd ic) in
      if m <> i then diverge "cmds" (String.concat "," m) (String.concat "," i);
      i_rt := rt_run !i_rt ic;
      fib_check_mirror ""
  | ["fib"; np; nn; l] ->
      let i = String.concat " " [np; nn; l] in
      let m = show_fibst !m_fib in
      if m <> i then diverge "fib" m i;
      (* invariant of the statement on the implementation: installed (fold of its commands) = its prefixes map *)
      if not !x_mode && show_rt !i_rt <> l then oracle "fib-prefixes-map-differs-from-command-fold" (Printf.sprintf "fold=%s map=%s" (show_rt !i_rt) l)
  | _ -> Printf.printf "BADLINE %d obs %s\n" !lineno (String.concat " " f)

let kind = ref ""

let () =
  (try
    while true do
      let line = input_line stdin in
      incr lineno;
      match String.split_on_char ' ' line with
      | "case" :: "pfx" :: k :: s0 :: _ ->
          kind := "pfx"; case_id := "pfx" ^ k; incr n_cases;
          m_pub := pub_new (n_of_dec s0);
          Hashtbl.reset m_peers; Hashtbl.reset i_hist; Hashtbl.reset i_last; Hashtbl.reset i_ans_src; Hashtbl.reset cu; Hashtbl.reset i_infl; i_init := s0
      | "case" :: "fib" :: k :: rest ->
          kind := "fib"; case_id := "fib" ^ k; incr n_cases;
          (match rest with
           | ["x"; _; p] -> x_mode := true; x_perm := (p = "1"); case_id := "fibx" ^ k
           | _ -> x_mode := false);
          x_state := xinit; Hashtbl.reset x_seen; x_dropped := false;
          m_fib := fib_empty; m_rt := []; i_rt := []; m_cmds := []; Hashtbl.reset m_pfxsets
      | "op" :: f -> incr n_ops; (match !kind with "pfx" -> pfx_op f | _ -> ())
      | "tab" :: f -> fib_tab f
      | "case" :: "net" :: k :: _ ->
          kind := "net"; case_id := "net" ^ k; incr n_cases;
          m_fib := fib_empty; m_rt := []; i_rt := []; m_cmds := []
      | ["go"; "fu"] -> fib_go ()
      | ["go"; "net"] -> net_go ()
      | "obs" :: f -> incr n_obs; (match !kind with "pfx" -> pfx_obs f | "fib" -> fib_obs f | "net" -> net_obs f | _ -> ())
      | ["end"] -> kind := ""
      | [""] | [] -> ()
      | "#" :: _ -> ()
      | _ -> Printf.printf "BADLINE %d %s\n" !lineno line
    done
  with End_of_file -> ());
  Printf.printf "STATS %d %d %d\n" !n_cases !n_ops !n_obs;
  Printf.printf "DONE %d\n" !lineno
