(* runner/Mgmt/driver.ml — replays the management harness trace (harness/mgmt) on the model extracted from Coq
   (coq/Mgmt/Model.v) and evaluates the extracted specification predicates (coq/Mgmt/Spec.v) on the
   IMPLEMENTATION's observations.

   Trace lines (fields separated by single spaces, no spaces inside a field):
     # ...                                     comment (the case's ops text; ignored here)
     CASE <id> <localhop 0|1> <internal face id>
     INIT <rib> <fib> <strat> <cs> <faces>     the implementation's tables after Thread.Run started
     CMD <inface> <name> <pdec> <app> <qdec>   one management Interest (see Model.v cmd)
     OBS none | ctl <code> <cargs> <nexthop|-> | data <name> <version> <kind> <payload> | panic <text> | hang | ...
     TAB <rib> <fib> <strat> <cs> <faces>      the implementation's tables after the command
     CSPROBE size=<n> want=<n> before=<n> capacity=<n>   after an accepted cs/config: 12 more Data were inserted into the real Content
                                             Store created at start-up; it must hold min(before + 12, capacity) entries
     CODECDIFF spec=<args>!impl=<args>       (only if) the repository's parser reads a well-formed ControlParameters (protocol TLV
                                             numbers) differently from the independent decoder
     LPMBAD <name>><table hops>!=<lookup hops>+..   (only if) a lookup of a FIB entry's own name does not return that entry's next hops
     LIVE <id>=<ok|dead|panic:..>,.. | -       send probe on every harness face after the command
     END
   name  : "-" (empty) or comma separated typ:hexvalue
   cargs : {} or {k=v;..} keys name face uri origin cost cap flags mask strat exp pers bcong dcong mtu; pdec may be "none"
   rib   : "-" or entries joined by "+", entry = <name>><route>|<route>.., route = face.origin.cost.flags.exp
   fib   : entry = <name>><face.cost>|..     strat : entry = <name>><name>
   faces : id.rscheme.lscheme.scope.link.pers.mtu.ndnlp.optbits.bcong.dcong.key.lkey joined by "+"

   Output:
     DIVERGE <lineno> <kind> model=<..> impl=<..>     model and implementation disagree (kind: resp | tab-rib | tab-fib | ...)
     ORACLE <lineno> <which> <detail>                 a specification predicate is false on the implementation's observations
                                                      (dataset-unanswered: detail = sizes of the tables before the request)
     BADLINE <lineno> <text>
     DONE <lines> <commands> *)
open Mgmt_model

(* ---------- numbers ---------- *)
let rec pos_of_int (i : int) : positive =
  if i = 1 then XH else if i land 1 = 0 then XO (pos_of_int (i lsr 1)) else XI (pos_of_int (i lsr 1))
let n_of_int (i : int) : n = if i = 0 then N0 else Npos (pos_of_int i)
let rec int_of_pos = function XH -> 1 | XO p -> 2 * int_of_pos p | XI p -> 2 * int_of_pos p + 1
let int_of_n = function N0 -> 0 | Npos p -> int_of_pos p
let n10 = n_of_int 10
let n_of_dec (s : string) : n =
  if s = "" then failwith "empty number";
  let acc = ref N0 in
  String.iter (fun c -> if c < '0' || c > '9' then failwith ("bad number " ^ s);
                acc := N.add (N.mul !acc n10) (n_of_int (Char.code c - 48))) s; !acc
let rec dec_of_n (x : n) : string =
  if N.ltb x n10 then string_of_int (int_of_n x)
  else dec_of_n (N.div x n10) ^ string_of_int (int_of_n (N.modulo x n10))
let z_of_dec (s : string) : z =
  if String.length s > 0 && s.[0] = '-' then Z.opp (Z.of_N (n_of_dec (String.sub s 1 (String.length s - 1))))
  else Z.of_N (n_of_dec s)
let dec_of_z (x : z) : string =
  match x with Z0 -> "0" | Zpos p -> dec_of_n (Npos p) | Zneg p -> "-" ^ dec_of_n (Npos p)
let rec nat_of_int i = if i <= 0 then O else S (nat_of_int (i - 1))

(* ---------- names ---------- *)
let bytes_of_hex (h : string) : n list =
  let l = String.length h / 2 in
  List.init l (fun i -> n_of_int (int_of_string ("0x" ^ String.sub h (2*i) 2)))
let hex_of_bytes (b : n list) : string = String.concat "" (List.map (fun x -> Printf.sprintf "%02x" (int_of_n x)) b)
let split c s = if s = "" then [] else String.split_on_char c s
let comp_of_string (s : string) : comp =
  match String.index_opt s ':' with
  | Some i -> { ctyp = n_of_dec (String.sub s 0 i); cval = bytes_of_hex (String.sub s (i+1) (String.length s - i - 1)) }
  | None -> failwith ("bad comp " ^ s)
let name_of_string (s : string) : name = if s = "-" then [] else List.map comp_of_string (split ',' s)
let string_of_comp (c : comp) = dec_of_n c.ctyp ^ ":" ^ hex_of_bytes c.cval
let string_of_name (n : name) = if n = [] then "-" else String.concat "," (List.map string_of_comp n)

let opt_dec s = if s = "-" then None else Some (n_of_dec s)
let dec_opt = function None -> "-" | Some x -> dec_of_n x
let join_sorted sep l = if l = [] then "-" else String.concat sep (List.sort compare l)

(* ---------- cargs ---------- *)
let parse_kv (s : string) : (string * string) list =
  let n = String.length s in
  if n < 2 || s.[0] <> '{' || s.[n-1] <> '}' then failwith ("bad args " ^ s);
  List.map (fun kv -> match String.index_opt kv '=' with
      | Some i -> (String.sub kv 0 i, String.sub kv (i+1) (String.length kv - i - 1))
      | None -> failwith ("bad kv " ^ kv)) (split ';' (String.sub s 1 (n-2)))
let uri_of_string (s : string) : uriattr =
  match split '.' s with
  | [c; sc; ip; u; x] -> { u_canon = (c = "1"); u_scheme = n_of_dec sc; u_ip = (ip = "1"); u_unicast = (u = "1"); u_conflict = opt_dec x }
  | _ -> failwith ("bad uri attr " ^ s)
let cargs_of_string (s : string) : cargs =
  let kv = parse_kv s in
  let num k = match List.assoc_opt k kv with Some v -> Some (n_of_dec v) | None -> None in
  let nm k = match List.assoc_opt k kv with Some v -> Some (name_of_string v) | None -> None in
  { a_name = nm "name"; a_face = num "face";
    a_uri = (match List.assoc_opt "uri" kv with Some v -> Some (uri_of_string v) | None -> None);
    a_origin = num "origin"; a_cost = num "cost"; a_capacity = num "cap"; a_flags = num "flags"; a_mask = num "mask";
    a_strategy = nm "strat"; a_exp = num "exp"; a_pers = num "pers"; a_basecong = num "bcong"; a_defcong = num "dcong";
    a_mtu = num "mtu" }
let string_of_cargs (a : cargs) : string =
  let items = ref [] in
  let add k = function Some v -> items := (k ^ "=" ^ v) :: !items | None -> () in
  let num = function Some x -> Some (dec_of_n x) | None -> None in
  let nm = function Some x -> Some (string_of_name x) | None -> None in
  add "name" (nm a.a_name); add "face" (num a.a_face); add "origin" (num a.a_origin); add "cost" (num a.a_cost);
  add "cap" (num a.a_capacity); add "flags" (num a.a_flags); add "mask" (num a.a_mask); add "strat" (nm a.a_strategy);
  add "exp" (num a.a_exp); add "pers" (num a.a_pers); add "bcong" (num a.a_basecong); add "dcong" (num a.a_defcong);
  add "mtu" (num a.a_mtu);
  "{" ^ String.concat ";" (List.rev !items) ^ "}"
let qfilter_of_string (s : string) : qfilter =
  let kv = parse_kv s in
  let num k = match List.assoc_opt k kv with Some v -> Some (n_of_dec v) | None -> None in
  { q_face = num "face"; q_scheme = num "scheme"; q_uri = num "uri"; q_luri = num "luri"; q_scope = num "scope";
    q_pers = num "pers"; q_link = num "link" }

(* ---------- tables ---------- *)
let split_entry (e : string) : string * string =
  match String.index_opt e '>' with
  | Some i -> (String.sub e 0 i, String.sub e (i+1) (String.length e - i - 1))
  | None -> failwith ("bad entry " ^ e)
let entries s = if s = "-" then [] else split '+' s
let items s = if s = "-" then [] else split '|' s
let route_of_string (s : string) : route =
  match split '.' s with
  | [f; o; c; fl; e] -> { r_face = n_of_dec f; r_origin = n_of_dec o; r_cost = n_of_dec c; r_flags = n_of_dec fl; r_exp = opt_dec e }
  | _ -> failwith ("bad route " ^ s)
let string_of_route (r : route) =
  String.concat "." [dec_of_n r.r_face; dec_of_n r.r_origin; dec_of_n r.r_cost; dec_of_n r.r_flags; dec_opt r.r_exp]
let rib_of_string s : ribT =
  List.map (fun e -> let (n, v) = split_entry e in (name_of_string n, List.map route_of_string (items v))) (entries s)
let string_of_rib (t : ribT) =
  join_sorted "+" (List.map (fun (n, rs) -> string_of_name n ^ ">" ^ join_sorted "|" (List.map string_of_route rs)) t)
let nh_of_string s = match split '.' s with [f; c] -> (n_of_dec f, n_of_dec c) | _ -> failwith ("bad nexthop " ^ s)
let fib_of_string s : fibT =
  List.map (fun e -> let (n, v) = split_entry e in (name_of_string n, List.map nh_of_string (items v))) (entries s)
let string_of_fib (t : fibT) =
  join_sorted "+" (List.map (fun (n, hs) -> string_of_name n ^ ">" ^
                       join_sorted "|" (List.map (fun (f, c) -> dec_of_n f ^ "." ^ dec_of_n c) hs)) t)
let strat_of_string s : stratT =
  List.map (fun e -> let (n, v) = split_entry e in (name_of_string n, name_of_string v)) (entries s)
let string_of_strat (t : stratT) =
  join_sorted "+" (List.map (fun (n, s) -> string_of_name n ^ ">" ^ string_of_name s) t)
let face_of_string s : faceT =
  match split '.' s with
  | [id; rs; ls; sc; lk; ps; mtu; nd; bits; bc; dc; key; lkey] ->
    let b = int_of_string bits in
    { f_id = n_of_dec id; f_rscheme = n_of_dec rs; f_lscheme = n_of_dec ls; f_scope = n_of_dec sc; f_link = n_of_dec lk;
      f_pers = n_of_dec ps; f_mtu = n_of_dec mtu; f_ndnlp = (nd = "1");
      f_opts = { o_ccf = b land 1 <> 0; o_ifi = b land 2 <> 0; o_lcp = b land 4 <> 0; o_cm = b land 8 <> 0;
                 o_frag = b land 16 <> 0; o_basecong = n_of_dec bc; o_defcong = n_of_dec dc };
      f_key = n_of_dec key; f_lkey = n_of_dec lkey }
  | _ -> failwith ("bad face " ^ s)
let string_of_face (f : faceT) =
  let o = f.f_opts in
  let b x v = if x then v else 0 in
  let bits = b o.o_ccf 1 + b o.o_ifi 2 + b o.o_lcp 4 + b o.o_cm 8 + b o.o_frag 16 in
  String.concat "." [dec_of_n f.f_id; dec_of_n f.f_rscheme; dec_of_n f.f_lscheme; dec_of_n f.f_scope; dec_of_n f.f_link;
                     dec_of_n f.f_pers; dec_of_n f.f_mtu; (if f.f_ndnlp then "1" else "0"); string_of_int bits;
                     dec_of_n o.o_basecong; dec_of_n o.o_defcong; dec_of_n f.f_key; dec_of_n f.f_lkey]
let faces_of_string s = List.map face_of_string (entries s)
let string_of_faces l = if l = [] then "-" else String.concat "+" (List.map string_of_face l)

let state_of_fields rib fib strat cs faces : state =
  { s_rib = rib_of_string rib; s_fib = fib_of_string fib; s_strat = strat_of_string strat; s_cs = z_of_dec cs;
    s_faces = faces_of_string faces }

(* ---------- datasets ---------- *)
let facestat_of_string s : facestat =
  match split '.' s with
  | [id; sc; ps; lk; mtu; fl; bc; dc] ->
    { fs_id = n_of_dec id; fs_scope = n_of_dec sc; fs_pers = n_of_dec ps; fs_link = n_of_dec lk;
      fs_mtu = (match opt_dec mtu with Some m -> m | None -> N0); fs_flags = n_of_dec fl; fs_basecong = opt_dec bc; fs_defcong = opt_dec dc }
  | _ -> failwith ("bad face status " ^ s)
let string_of_facestat (f : facestat) =
  String.concat "." [dec_of_n f.fs_id; dec_of_n f.fs_scope; dec_of_n f.fs_pers; dec_of_n f.fs_link; dec_of_n f.fs_mtu;
                     dec_of_n f.fs_flags; dec_opt f.fs_basecong; dec_opt f.fs_defcong]
let cmp_n a b = match N.compare a b with Eq -> 0 | Lt -> -1 | Gt -> 1
let dataset_of kind payload : dataset =
  match kind with
  | "rib" -> DRib (rib_of_string payload)
  | "fib" -> DFib (fib_of_string payload)
  | "strat" -> DStrat (strat_of_string payload)
  | "cs" -> (match split '.' payload with [c; f; e] -> DCs (n_of_dec c, n_of_dec f, n_of_dec e) | _ -> failwith "bad cs dataset")
  | "faces" -> DFaces (List.sort (fun a b -> cmp_n a.fs_id b.fs_id) (List.map facestat_of_string (entries payload)))
  | "general" -> DGeneral (n_of_dec payload)
  | _ -> failwith ("bad dataset kind " ^ kind)
let string_of_dataset = function
  | DRib t -> "rib " ^ string_of_rib t
  | DFib t -> "fib " ^ string_of_fib t
  | DStrat t -> "strat " ^ string_of_strat t
  | DCs (c, f, e) -> "cs " ^ String.concat "." [dec_of_n c; dec_of_n f; dec_of_n e]
  | DFaces l -> "faces " ^ join_sorted "+" (List.map string_of_facestat l)
  | DGeneral n -> "general " ^ dec_of_n n

let gc s = { ctyp = k_typ_generic; cval = List.init (String.length s) (fun i -> n_of_int (Char.code s.[i])) }
(* which dataset name is this? *)
let dsname_of (nm : name) : dsname option =
  let candidates = [NFibList; NStratList; NCsInfo; NFacesList; NGeneral] in
  match List.find_opt (fun d -> name_eqb (ds_name d) nm) candidates with
  | Some d -> Some d
  | None ->
    (match nm with
     | a :: b :: rest when name_eqb rest [gc "rib"; gc "list"] -> Some (NRibList [a; b])
     | _ :: _ :: m :: v :: _ when name_eqb [m; v] [gc "faces"; gc "query"] -> Some (NQuery nm)
     | _ -> None)

let string_of_resp = function
  | RNone -> "none"
  | RCtl (code, echo, nh) -> Printf.sprintf "ctl %s %s %s" (dec_of_n code) (string_of_cargs echo) (dec_of_n nh)
  | RData (dn, _, d) ->
    (* the version (and segment) components of a dataset name, freshness and the order of entries are not constrained by the
       property: only the name under which the dataset is published and its decoded content (as a set) are compared *)
    Printf.sprintf "data %s * %s" (string_of_name (ds_name dn)) (string_of_dataset d)
  | RSocket -> "socket"

(* parse the implementation's OBS into a resp when it has that shape *)
let resp_of_obs (fields : string list) : resp option =
  match fields with
  | ["none"] -> Some RNone
  | ["ctl"; code; args; nh] ->
    Some (RCtl (n_of_dec code, cargs_of_string args, (match opt_dec nh with Some x -> x | None -> N0)))
  | ["data"; nm; _; kind; payload] ->
    (match dsname_of (name_of_string nm) with
     | Some dn -> Some (RData (dn, N0, dataset_of kind payload))
     | None -> None)
  | _ -> None

let vers0 = { v_rib = N0; v_fib = N0; v_strat = N0; v_cs = N0; v_face = N0; v_status = N0 }

let () =
  let lineno = ref 0 and ncmd = ref 0 in
  let allow = ref false in
  let model_st : state option ref = ref None in        (* the model's own state *)
  let model_vs = ref vers0 in
  let impl_st : state option ref = ref None in          (* the implementation's last observed tables *)
  let pending_cmd : (cmd * int) option ref = ref None in
  let pending_obs : (string list * int) option ref = ref None in
  let dead : (string, unit) Hashtbl.t = Hashtbl.create 7 in
  let diverge ln kind m i = Printf.printf "DIVERGE %d %s model=%s impl=%s\n" ln kind m i in
  let oracle ln which detail = Printf.printf "ORACLE %d %s %s\n" ln which detail in
  if not consts_match_model then print_string "CONSTS module/verb lists of the source differ from the ones the model dispatches on\n";
  (try
    while true do
      let line = input_line stdin in
      incr lineno;
      (try
        match String.split_on_char ' ' line with
        | "#" :: _ | [""] | [] -> ()
        | ["CASE"; _; lh; _] ->
          allow := (lh = "1"); model_st := None; impl_st := None; model_vs := vers0; pending_cmd := None;
          pending_obs := None; Hashtbl.reset dead
        | ["INIT"; rib; fib; strat; cs; faces] ->
          let st = state_of_fields rib fib strat cs faces in
          (* the model's own idea of the tables right after Run started: management prefixes -> internal face, default strategy *)
          let internal = (match List.find_opt (fun f -> N.eqb f.f_rscheme sch_internal) st.s_faces with
              | Some f -> f.f_id | None -> N0) in
          let m0 = { st with s_fib = initial_fib !allow internal; s_strat = initial_strat } in
          if string_of_fib m0.s_fib <> fib then diverge !lineno "init-fib" (string_of_fib m0.s_fib) fib;
          if string_of_strat m0.s_strat <> strat then diverge !lineno "init-strat" (string_of_strat m0.s_strat) strat;
          if rib <> "-" then diverge !lineno "init-rib" "-" rib;
          model_st := Some st; impl_st := Some st
        | ["CMD"; inface; nm; pdec; app; qdec] ->
          incr ncmd;
          let c = { c_inface = n_of_dec inface; c_name = name_of_string nm;
                    c_pdec = (if pdec = "none" then None else Some (cargs_of_string pdec));
                    c_app = n_of_dec app;
                    c_qdec = (if qdec = "none" then QErr else if qdec = "nil" then QNil else QOk (qfilter_of_string qdec)) } in
          pending_cmd := Some (c, !lineno)
        | "OBS" :: fields -> pending_obs := Some (fields, !lineno)
        | ["TAB"; rib; fib; strat; cs; faces] ->
          let post = state_of_fields rib fib strat cs faces in
          (match !pending_cmd, !pending_obs, !model_st, !impl_st with
           | Some (c, cln), Some (obs, _), Some mst, Some pre ->
             let obs = (match obs with "data" :: nm :: _ver :: rest -> "data" :: nm :: "*" :: rest | o -> o) in
             let obs_s = String.concat " " obs in
             (* 1. the model; its external functions are instantiated as follows *)
             (*    and "does the encoded dataset fit one segment" answered by what the implementation did *)
             let fits = (match obs with "data" :: _ -> true | _ -> false) in
             (*    RIB -> FIB: the reference flattening of the MODEL's new RIB for every prefix with routes in scope; prefixes
                   without routes are taken as the implementation left them (an emptied entry may or may not be cleared) *)
             let sync rib' nm _ = rib_sync rib' (Some nm) post.s_fib in
             let cleanup id rib _ = let rib'' = rib_cleanup rib id in (rib'', rib_sync rib'' None post.s_fib) in
             let out = run sync cleanup !allow (fun _ -> fits) mst !model_vs c in
             (match out with
              | Panic ->
                if not (List.length obs >= 1 && List.hd obs = "panic") then diverge cln "resp" "panic" obs_s;
                model_st := Some post
              | Ok (mst', vs', r) ->
                let rs = string_of_resp r in
                if rs <> obs_s then diverge cln "resp" rs obs_s;
                model_vs := vs';
                let chk kind m i = if m <> i then diverge cln kind m i in
                chk "tab-rib" (string_of_rib mst'.s_rib) rib;
                chk "tab-fib" (string_of_fib mst'.s_fib) fib;
                chk "tab-strat" (string_of_strat mst'.s_strat) strat;
                chk "tab-cs" (dec_of_z mst'.s_cs) cs;
                chk "tab-faces" (string_of_faces mst'.s_faces) faces;
                (* keep the model's own state while it agrees; resynchronise after a divergence *)
                if string_of_rib mst'.s_rib = rib && string_of_fib mst'.s_fib = fib && string_of_strat mst'.s_strat = strat
                   && dec_of_z mst'.s_cs = cs && string_of_faces mst'.s_faces = faces
                then model_st := Some mst' else model_st := Some post);
             (* 2. the specification, on the implementation's observations alone *)
             (match obs with
              | "ctlbad" :: _ -> oracle cln "wire-numbers" ("response-not-readable-with-the-protocol-numbers:" ^ obs_s)
              | "panic" :: rest -> oracle cln "panic" (String.concat "_" rest)
              | ["hang"] -> oracle cln "hang" "-"
              | _ ->
                (match resp_of_obs obs with
                 | None -> diverge cln "obs-shape" "-" obs_s
                 | Some r ->
                   if not (spec_authorised !allow pre c post) then oracle cln "unauthorised" obs_s;
                   if not (spec_reject_pure pre r post) then oracle cln "impure-reject" obs_s;
                   if not (spec_status_class r) then oracle cln "status-class" obs_s;
                   if not (spec_dataset c r post) then oracle cln "dataset" obs_s;
                   if not (spec_rib_fib pre c r post) then
                     oracle cln "fib-after-rib" (Printf.sprintf "rib=%s fib=%s" (string_of_rib post.s_rib) (string_of_fib post.s_fib));
                   if not (spec_answered !allow c r) then
                     oracle cln "dataset-unanswered"
                       (Printf.sprintf "rib=%d,fib=%d,strat=%d,faces=%d" (List.length pre.s_rib) (List.length pre.s_fib)
                          (List.length pre.s_strat) (List.length pre.s_faces));
                   if strat_known pre.s_strat && root_has_strategy pre.s_strat && not (spec_strategies post) then
                     oracle cln "strategy-table" strat;
                   if faces_usable pre && not (faces_usable post) then oracle cln "mtu-floor" faces;
                   if cs_sane pre && not (cs_sane post) then oracle cln "cs-capacity" cs));
             impl_st := Some post
           | _ -> Printf.printf "BADLINE %d TAB without CMD/OBS/INIT\n" !lineno);
        | ["LIVE"; l] ->
          (match !pending_cmd with
           | Some (_, cln) ->
             if l <> "-" then
               List.iter (fun kv -> match String.index_opt kv '=' with
                   | Some i ->
                     let id = String.sub kv 0 i and st = String.sub kv (i+1) (String.length kv - i - 1) in
                     if st <> "ok" && not (Hashtbl.mem dead id) then begin
                       Hashtbl.add dead id (); oracle cln "face-unusable" (id ^ "=" ^ st) end
                     else if st = "ok" then Hashtbl.remove dead id
                   | None -> ()) (split ',' l)
           | None -> ());
          pending_cmd := None; pending_obs := None
        | ["CSPROBE"; sz; want; stored; cap] ->
          (match !pending_cmd with
           | Some (_, cln) ->
             let v s = match String.index_opt s '=' with Some i -> String.sub s (i+1) (String.length s - i - 1) | None -> s in
             if v sz <> v want then oracle cln "cs-effect" (String.concat "," [sz; want; stored; cap])
           | None -> ())
        | ["CODECDIFF"; l] ->
          (match !pending_cmd with Some (_, cln) -> oracle cln "wire-numbers" l | None -> ())
        | ["LPMBAD"; l] ->
          (match !pending_cmd with Some (_, cln) -> oracle cln "fib-lookup" l | None -> ())
        | ["END"] -> ()
        | _ -> Printf.printf "BADLINE %d %s\n" !lineno (String.sub line 0 (min 120 (String.length line)))
      with Failure m | Invalid_argument m -> Printf.printf "BADLINE %d %s\n" !lineno m)
    done
  with End_of_file -> ());
  Printf.printf "DONE %d %d\n" !lineno !ncmd
