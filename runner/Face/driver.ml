(* runner/Face/driver.ml — replays harness traces of the face layer on the models extracted from coq/Face.
   Usage:  runner stream <guard 0|1> <trace>      stream framer (C11, stream part of C04)
           runner app <trace>                     application-side stream reader (C11)
   Output lines:
     CASEOK <id> <kind> frames=<n> nontrivial=<0|1> hash=<md5 of the canonical case>
     DIVERGE <id> <what> model=<..> impl=<..>              model and implementation disagree
     ORACLE <id> <signature> <text>                          the implementation's observation violates the spec predicate
     BADLINE <n> <text>
     DONE <cases> *)
open Face_model

let rec pos_of_int (i : int) : positive =
  if i = 1 then XH else if i land 1 = 0 then XO (pos_of_int (i lsr 1)) else XI (pos_of_int (i lsr 1))
let n_of_int (i : int) : n = if i = 0 then N0 else Npos (pos_of_int i)
let rec int_of_pos = function XH -> 1 | XO p -> 2 * int_of_pos p | XI p -> 2 * int_of_pos p + 1
let int_of_n = function N0 -> 0 | Npos p -> int_of_pos p
let n10 = n_of_int 10
let n_of_dec (s : string) : n =
  let acc = ref N0 in
  String.iter (fun c -> acc := N.add (N.mul !acc n10) (n_of_int (Char.code c - 48))) s; !acc
let rec dec_of_n (x : n) : string =
  if N.ltb x n10 then string_of_int (int_of_n x)
  else dec_of_n (N.div x n10) ^ string_of_int (int_of_n (N.modulo x n10))

let byte_tab = Array.init 256 n_of_int
let hexval c = match c with
  | '0'..'9' -> Char.code c - 48 | 'a'..'f' -> Char.code c - 87 | 'A'..'F' -> Char.code c - 55
  | _ -> failwith "bad hex"
(* appends the bytes of hex string h in front of tl (tail-recursive, builds from the end) *)
let bytes_of_hex_onto (h : string) (tl : n list) : n list =
  let l = String.length h / 2 in
  let acc = ref tl in
  for i = l - 1 downto 0 do
    acc := byte_tab.(hexval h.[2*i] * 16 + hexval h.[2*i+1]) :: !acc
  done; !acc
let bytes_of_hex h = bytes_of_hex_onto h []
let string_of_bytes (b : n list) : string =
  let buf = Buffer.create 256 in
  List.iter (fun x -> Buffer.add_char buf (Char.chr (int_of_n x))) b; Buffer.contents buf
let hex_of_bytes (b : n list) : string =
  String.concat "" (List.map (fun x -> Printf.sprintf "%02x" (int_of_n x)) b)
let frame_sig (b : n list) : string =
  let s = string_of_bytes b in
  string_of_int (String.length s) ^ ":" ^ String.sub (Digest.to_hex (Digest.string s)) 0 8

let split_ws s = List.filter (fun x -> x <> "") (String.split_on_char ' ' s)

(* ------------------------------------------------------------------------------------------------ stream *)
type scase = { mutable id : string; mutable kind : string; mutable shex : string list (* reversed *);
               mutable sched : string; mutable blocks : string; mutable ires : string; mutable icons : string;
               mutable iframes : string list (* reversed lines *) }

let sres_str = function SOk -> "ok" | SErrTooMuch -> "err:toomuch" | SPanic -> "panic" | SSpin -> "spin"

let parse_sched (s : string) : rditem list =
  let items = split_ws s in
  let one f =
    if f = "-" then [] else if f.[String.length f - 1] = '!' then
      [ (RIgn (if f = "!" then N0 else n_of_dec (String.sub f 0 (String.length f - 1))), 1) ] else
    match String.index_opt f '*' with
    | Some i -> [ (RReq (n_of_dec (String.sub f 0 i)), int_of_string (String.sub f (i+1) (String.length f - i - 1))) ]
    | None -> [ (RReq (n_of_dec f), 1) ] in
  let pairs = List.concat_map one items in
  (* build from the end to stay tail-recursive for schedules of ~10^6 items *)
  List.fold_left (fun tl (it, k) -> let r = ref tl in for _ = 1 to k do r := it :: !r done; !r) [] (List.rev pairs)

(* take the first k bytes of a list as a new list, returning the rest (tail-recursive) *)
let split_at (k : int) (l : n list) : n list * n list =
  let rec go k acc l = if k = 0 then (List.rev acc, l) else match l with [] -> (List.rev acc, []) | x :: r -> go (k-1) (x :: acc) r in
  go k [] l

let run_stream_case guard (c : scase) =
  let stream = List.fold_left (fun tl h -> if h = "-" then tl else bytes_of_hex_onto h tl) [] c.shex in
  (* "X" = a Read failing with a non-ignorable error: the run ends there and readTlvStream returns that error *)
  let broken = List.mem "X" (split_ws c.sched) in
  let rec upto = function [] -> [] | "X" :: _ -> [] | x :: r -> x :: upto r in
  let sched = parse_sched (String.concat " " (upto (split_ws c.sched))) in
  let (((res, frames), consumed), _st) = run guard stream sched in
  let msigs = List.map frame_sig frames in
  let isigs = List.concat_map split_ws (List.rev c.iframes) in
  let mres = if broken && res = SOk then "err:other" else sres_str res and mcons = dec_of_n consumed in
  let diverged = ref false in
  if mres <> c.ires then (diverged := true; Printf.printf "DIVERGE %s result model=%s impl=%s\n" c.id mres c.ires);
  if mcons <> c.icons then (diverged := true; Printf.printf "DIVERGE %s consumed model=%s impl=%s\n" c.id mcons c.icons);
  if msigs <> isigs then begin
    diverged := true;
    let rec first i a b = match a, b with
      | x :: a', y :: b' -> if x = y then first (i+1) a' b' else (i, x, y)
      | x :: _, [] -> (i, x, "none") | [], y :: _ -> (i, "none", y) | [], [] -> (i, "-", "-") in
    let (i, x, y) = first 0 msigs isigs in
    Printf.printf "DIVERGE %s frames first-difference-at=%d model=%s impl=%s (model %d frames, impl %d)\n" c.id i x y
      (List.length msigs) (List.length isigs)
  end;
  (* oracle on the implementation's observation *)
  let nblocks = ref 0 in
  if c.blocks <> "-" then begin
    (* well-formed stream: the frames must be exactly the blocks complete within the consumed prefix, and no error *)
    let lens = List.map int_of_string (split_ws c.blocks) in
    nblocks := List.length lens;
    let (blocks, _) = List.fold_left (fun (acc, rest) l -> let (b, r) = split_at l rest in (b :: acc, r)) ([], stream) lens in
    let blocks = List.rev blocks in
    let (expect, _) = split_blocksN blocks (n_of_dec c.icons) in
    let esigs = List.map frame_sig expect in
    if c.ires <> "ok" && not (broken && c.ires = "err:other") then
      Printf.printf "ORACLE %s wf-stream-%s a well-formed stream made the framer stop with %s after %s bytes\n" c.id c.ires c.ires c.icons
    else if esigs <> isigs then begin
      let ne = List.length esigs and ni = List.length isigs in
      let what = if ni < ne then "lost" else if ni > ne then "extra" else "altered" in
      Printf.printf "ORACLE %s wf-frames-%s frames handed up differ from the blocks sent (%d blocks complete in the consumed prefix, %d frames)\n" c.id what ne ni
    end
  end else begin
    if c.ires = "panic" then Printf.printf "ORACLE %s stream-panic the framer panicked on this byte stream\n" c.id
    else if c.ires = "spin" then Printf.printf "ORACLE %s stream-spin the framer stopped making progress (zero-length Read or empty frames for ever)\n" c.id
  end;
  let canon = String.concat "|" [c.kind; String.concat "" (List.rev c.shex); c.sched] in
  let nontrivial = (List.length isigs >= 3 && List.length sched >= 3) || (c.blocks = "-" && List.length stream >= 3) in
  if not !diverged then
    Printf.printf "CASEOK %s %s frames=%d blocks=%d reads=%d bytes=%s nontrivial=%d hash=%s\n" c.id c.kind (List.length isigs) !nblocks
      (List.length sched) c.icons (if nontrivial then 1 else 0) (Digest.to_hex (Digest.string canon))

(* ------------------------------------------------------------------------------------------------ application-side reader *)
let run_app_case (c : scase) =
  let stream = List.fold_left (fun tl h -> if h = "-" then tl else bytes_of_hex_onto h tl) [] c.shex in
  let (res, frames) = app_frames stream in
  let mres = match res with AEnd true -> "eof" | AEnd false -> "ueof" | APanic -> "panic" in
  let msigs = List.map frame_sig frames in
  let isigs = List.concat_map split_ws (List.rev c.iframes) in
  let diverged = ref false in
  if mres <> c.ires then (diverged := true; Printf.printf "DIVERGE %s app-result model=%s impl=%s\n" c.id mres c.ires);
  if msigs <> isigs then (diverged := true;
    Printf.printf "DIVERGE %s app-frames model=%d frames impl=%d frames\n" c.id (List.length msigs) (List.length isigs));
  if c.blocks <> "-" then begin
    let lens = List.map int_of_string (split_ws c.blocks) in
    let (blocks, _) = List.fold_left (fun (acc, rest) l -> let (b, r) = split_at l rest in (b :: acc, r)) ([], stream) lens in
    let esigs = List.map frame_sig (List.rev blocks) in
    if esigs <> isigs then
      Printf.printf "ORACLE %s app-frames packets handed to the application differ from the blocks sent (%d blocks, %d packets)\n"
        c.id (List.length esigs) (List.length isigs)
  end;
  let canon = String.concat "|" [c.kind; String.concat "" (List.rev c.shex)] in
  if not !diverged then
    Printf.printf "CASEOK %s %s frames=%d bytes=%s nontrivial=%d hash=%s\n" c.id c.kind (List.length isigs) c.icons
      (if List.length isigs >= 3 then 1 else 0) (Digest.to_hex (Digest.string canon))

let stream_main ?(app=false) guard path =
  let ic = open_in path in
  let lineno = ref 0 and ncases = ref 0 in
  let cur = ref None in
  (try
    while true do
      let line = input_line ic in
      incr lineno;
      let (key, arg) = match String.index_opt line ' ' with
        | Some i -> (String.sub line 0 i, String.sub line (i+1) (String.length line - i - 1))
        | None -> (line, "") in
      match key, !cur with
      | "CASE", _ ->
          let p = split_ws arg in
          cur := Some { id = List.nth p 0; kind = (if List.length p > 1 then List.nth p 1 else "?"); shex = []; sched = "-";
                        blocks = "-"; ires = "?"; icons = "0"; iframes = [] }
      | "S", Some c -> c.shex <- String.trim arg :: c.shex
      | "R", Some c -> c.sched <- arg
      | "B", Some c -> c.blocks <- String.trim arg
      | "I", Some c -> (match split_ws arg with [r; n] -> c.ires <- r; c.icons <- n | _ -> Printf.printf "BADLINE %d %s\n" !lineno line)
      | "F", Some c -> c.iframes <- arg :: c.iframes
      | "END", Some c -> incr ncases; (if app then run_app_case c else run_stream_case guard c); cur := None
      | "", _ -> ()
      | _ when String.length key > 0 && key.[0] = '#' -> ()
      | _ -> Printf.printf "BADLINE %d %s\n" !lineno (String.sub line 0 (min 80 (String.length line)))
    done
  with End_of_file -> ());
  (match !cur with Some c -> Printf.printf "DIVERGE %s incomplete the implementation did not finish this case (hard crash?)\n" c.id | None -> ());
  Printf.printf "DONE %d\n" !ncases

(* ------------------------------------------------------------------------------------------------ link service (C10, C04) *)
(* Usage: runner lp <guard 0|1> <trace> <classification table | ->  [needfile]
   The table has lines "<nthreads> <hex payload> <decode>"; payloads missing from it are written to needfile
   (phase 1) and treated as undecodable. *)
let opt_n s = if s = "-" then None else Some (n_of_dec s)
let str_opt_n = function None -> "-" | Some x -> dec_of_n x
let unhex s = if s = "-" || s = "e" then [] else bytes_of_hex s   (* "e" = empty but non-nil Go slice: the same value *)
let hexd b = if b = [] then "-" else hex_of_bytes b
let z_of_int i = if i >= 0 then Z.of_N (n_of_int i) else failwith "negative"

let kv_of fields =
  List.filter_map (fun f -> match String.index_opt f '=' with
    | Some i -> Some (String.sub f 0 i, String.sub f (i+1) (String.length f - i - 1)) | None -> None) fields
let kv k l = try List.assoc k l with Not_found -> "-"

let parse_l3 s data : l3i option =
  if s = "-" then None else
  if data then
    match String.split_on_char ':' s with
    | [h; bits] -> Some { h_thread = n_of_dec h; p_threads = List.init (String.length bits) (fun i -> bits.[i] = '1') }
    | _ -> failwith ("bad l3 " ^ s)
  else Some { h_thread = n_of_dec s; p_threads = [] }

let parse_lp s : lpf option =
  if s = "-" then None else
  match String.split_on_char ',' s with
  | [sq; ix; ct; tk; inf; nh; cp; mk; fr] ->
      Some { f_seq = opt_n sq; f_idx = opt_n ix; f_cnt = opt_n ct; f_tok = unhex tk; f_inface = opt_n inf; f_nexthop = opt_n nh;
             f_cachepol = opt_n cp; f_mark = opt_n mk;
             f_frag = (if fr = "-" then None else Some (bytes_of_hex (String.sub fr 1 (String.length fr - 1)))) }
  | _ -> failwith ("bad lp " ^ s)

(* decode string: "E" | "P <i> <d> <lp>" *)
let parse_dec (fields : string list) : dpkt =
  match fields with
  | ["E"] | ["PANIC"] -> DErr
  | ["P"; i; d; lp] -> DPkt (parse_l3 i false, parse_l3 d true, parse_lp lp)
  | _ -> failwith ("bad decode " ^ String.concat " " fields)

let str_lp (f : lpf) =
  String.concat "," [str_opt_n f.f_seq; str_opt_n f.f_idx; str_opt_n f.f_cnt; hexd f.f_tok; str_opt_n f.f_inface; str_opt_n f.f_nexthop;
                     str_opt_n f.f_cachepol; str_opt_n f.f_mark; (match f.f_frag with None -> "-" | Some b -> "=" ^ hex_of_bytes b)]
let str_l3 (o : l3i option) data = match o with
  | None -> "-"
  | Some i -> dec_of_n i.h_thread ^ (if data then ":" ^ String.concat "" (List.map (fun b -> if b then "1" else "0") i.p_threads) else "")
let str_dec = function DErr -> "E" | DPkt (i, d, lp) -> "P " ^ str_l3 i false ^ " " ^ str_l3 d true ^ " " ^ (match lp with None -> "-" | Some f -> str_lp f)

let str_delivery (d : delivery) =
  String.concat " " ["DL"; dec_of_n d.d_thread; (if d.d_interest then "I" else "D"); hexd d.d_raw; hexd d.d_tok; str_opt_n d.d_mark;
                     str_opt_n d.d_nexthop; str_opt_n d.d_cachepol]
let str_state (st : rstate) =
  let ents = List.sort (fun (a, _) (b, _) -> match N.compare a b with Eq -> 0 | Lt -> -1 | Gt -> 1) st.r_store in
  let one (k, slots) = dec_of_n k ^ ":" ^ String.concat "," (List.map (fun s -> string_of_int (List.length s)) slots) in
  String.concat " " ["ST"; dec_of_n st.r_nI; dec_of_n st.r_nD; (if ents = [] then "-" else String.concat ";" (List.map one ents))]

let pattern_wire n = List.init n (fun i -> byte_tab.((i * 7 + n) mod 251))

type lpcase = { lid : string; lkind : string; cfg : rcfg; nthr : string }

let lp_main guard path tablepath needpath =
  let table : (string, dpkt) Hashtbl.t = Hashtbl.create 1000 in
  if tablepath <> "-" then begin
    let ic = open_in tablepath in
    (try while true do
      let line = input_line ic in
      match split_ws line with
      | n :: h :: rest -> Hashtbl.replace table (n ^ " " ^ h) (parse_dec rest)
      | _ -> ()
    done with End_of_file -> ());
    close_in ic
  end;
  let need : (string, unit) Hashtbl.t = Hashtbl.create 100 in
  let ic = open_in path in
  let lineno = ref 0 and ncases = ref 0 in
  let cur : lpcase option ref = ref None in
  let st = ref rs_init in
  let dead = ref false in                       (* model receiver panicked *)
  let diverged = ref false in
  let pending : (string * string list * (unit -> unit)) option ref = ref None in  (* op awaiting its observation lines *)
  let obs : string list ref = ref [] in
  let nops = ref 0 and kinds : (string, unit) Hashtbl.t = Hashtbl.create 8 in
  let ndeliv = ref 0 in
  let sent : (string * string * string * bool) list ref = ref [] in      (* wire, tok, mark, expected *)
  let got : (string * string * string) list ref = ref [] in               (* impl deliveries raw, tok, mark *)
  let prev_st = ref "ST 0 0 -" in
  let canon = Buffer.create 4096 in
  let diverge id what m i = diverged := true; Printf.printf "DIVERGE %s %s model=[%s] impl=[%s]\n" id what m i in
  let oracle id sg txt = Printf.printf "ORACLE %s %s %s\n" id sg txt in
  let trunc s = if String.length s > 300 && Sys.getenv_opt "VERIF_FULL" = None then String.sub s 0 300 ^ "..." else s in
  let flush_pending () = (match !pending with Some (_, _, f) -> f () | None -> ()); pending := None; obs := [] in
  let finish_case () =
    flush_pending ();
    (match !cur with
     | None -> ()
     | Some c ->
       incr ncases;
       if c.lkind = "c10-perm" then begin
         (* spec: every message that had to be sent is delivered exactly once, with its token and mark; nothing else *)
         let expect = List.sort compare (List.filter_map (fun (w, t, m, e) -> if e then Some (w, t, m) else None) !sent) in
         let have = List.sort compare !got in
         if expect <> have then begin
           let missing = List.filter (fun x -> not (List.mem x have)) expect and extra = List.filter (fun x -> not (List.mem x expect)) have in
           let what = if missing <> [] && extra = [] then "lost" else if missing = [] && extra <> [] then "extra" else if List.length have <> List.length expect then "count" else "altered" in
           oracle c.lid ("reassembly-" ^ what) (Printf.sprintf "the peer delivered %d packet(s) for %d sent; missing %d, unexpected %d (bytes, PIT token or congestion mark differ)"
             (List.length have) (List.length expect) (List.length missing) (List.length extra))
         end
       end;
       if not !diverged then
         Printf.printf "CASEOK %s %s ops=%d opkinds=%d deliveries=%d nontrivial=%d hash=%s\n" c.lid c.lkind !nops (Hashtbl.length kinds) !ndeliv
           (if !nops >= 3 && (!ndeliv > 0 || Hashtbl.length kinds >= 2 || !nops >= 8) then 1 else 0) (Digest.to_hex (Digest.string (Buffer.contents canon))));
    cur := None in
  let inner_for (c : lpcase) (payload : n list) : dpkt =
    let key = c.nthr ^ " " ^ hexd payload in
    match Hashtbl.find_opt table key with
    | Some d -> d
    | None -> Hashtbl.replace need key (); DErr in
  (try
    while true do
      let line = input_line ic in
      incr lineno;
      let fields = split_ws line in
      match fields with
      | "LPCASE" :: id :: kind :: rest ->
          finish_case ();
          let k = kv_of rest in
          let b x = kv x k = "1" in
          cur := Some { lid = id; lkind = kind; nthr = kv "nthreads" k;
                        cfg = { r_reasm = b "reasm"; r_ccf = b "ccf"; r_lcp = b "lcp"; r_local = b "local"; r_nthreads = n_of_dec (kv "nthreads" k) } };
          st := rs_init; dead := false; diverged := false; nops := 0; Hashtbl.reset kinds; ndeliv := 0; sent := []; got := [];
          prev_st := "ST 0 0 -"; Buffer.clear canon; Buffer.add_string canon line
      | ("SEND" | "SENDZ" as op) :: rest ->
          flush_pending ();
          (match !cur with None -> () | Some c ->
            incr nops; Hashtbl.replace kinds op (); Buffer.add_string canon line;
            let k = kv_of rest in
            let mtu = int_of_string (kv "mtu" k) in
            let o = { o_frag = (kv "frag" k = "1"); o_ifi = (kv "ifi" k = "1") } in
            let seq = n_of_dec (kv "seq" k) and tok = unhex (kv "tok" k) and inface = opt_n (kv "inface" k) in
            (* the marking decision is an input of the model: own=1 = the link service decided to mark this packet itself *)
            let mark = effective_mark (kv "own" k = "1") (opt_n (kv "mark" k)) in
            let wire = if op = "SEND" then unhex (kv "wire" k) else pattern_wire (int_of_string (kv "n" k)) in
            let zmtu = z_of_int mtu in
            (* hist = option settings of the link service: constructed with the first, SetOptions for each further one
               ("fi" digits: fragmentation, incoming-face indication); absent = constructed with the op's options *)
            let opts_of s = { o_frag = (s.[0] = '1'); o_ifi = (s.[1] = '1') } in
            let hist = let h = kv "hist" k in if h = "-" then [] else String.split_on_char ',' h in
            let ls0 = match hist with
              | [] -> make_ls o
              | h0 :: rest -> List.fold_left (fun l h -> set_options l (opts_of h)) (make_ls (opts_of h0)) rest in
            let o = ls0.ls_opts in
            let (frames, ls1) = ls_send zmtu (set_next_seq ls0 seq) tok inface mark wire in
            let ns = ls1.ls_seq in
            let (mfit, mover) = List.partition (fun f -> List.length f <= mtu) frames in
            let check () =
              let o_lines = List.rev !obs in
              let get p = List.filter_map (fun l -> match split_ws l with x :: r when x = p -> Some r | _ -> None) o_lines in
              let panicked = List.exists (fun l -> l = "SP") o_lines in
              (* SENDZ reports signatures (FZ/OZ); for a sample of them the harness adds the frames themselves (FR) *)
              let hexfr = List.concat (get "FR") in
              let (ifit, iover, isig) =
                if op = "SEND" then (hexfr, List.concat (get "FO"), false)
                else (List.filter (fun x -> x <> "-") (List.concat (get "FZ")), List.filter (fun x -> x <> "-") (List.concat (get "OZ")), true) in
              let desc0 = Printf.sprintf "packet of %d bytes, MTU %d, token %d bytes, mark %s, inface %s, fragmentation %b" (List.length wire) mtu
                           (List.length tok) (str_opt_n mark) (str_opt_n inface) o.o_frag in
              if panicked then begin
                diverge c.lid "send-panic" "no panic" "panic";
                oracle c.lid "send-panic" "sendPacket panicked"
              end else begin
                (* Projected observables only: C10 fixes neither fragment sizes nor sequence numbers, so the frames are not compared with
                   the model's frames.  The extracted predicate c10_frames_sem follows the split the implementation chose: the model's peer
                   must reassemble exactly the packet (once, with token and mark) from the emitted frames in three arrival orders. *)
                if ifit = [] && iover = [] && mfit <> [] && mover = [] then
                  oracle c.lid "packet-not-sent" ("nothing was handed to the transport although the packet can be sent within the MTU: " ^ desc0)
                else if iover = [] && (op = "SEND" || hexfr <> []) && ifit <> [] then begin
                  let next = match get "NS" with [[x]] -> n_of_dec x | _ -> ns in
                  let code = int_of_string (dec_of_n (c10_frames_sem o seq next tok inface mark wire (List.map unhex hexfr))) in
                  let nfr = List.length hexfr in
                  (match code with
                   | 0 -> ()
                   | 1 -> oracle c.lid "frame-undecodable" (Printf.sprintf "a frame handed to the transport is not a decodable LpPacket (%d frames): %s" nfr desc0)
                   | 2 | 3 | 4 ->
                       let ord = if code = 2 then "in the order sent" else if code = 3 then "in reverse order" else "rotated by half" in
                       oracle c.lid ("peer-reassembly-" ^ (if code = 2 then "inorder" else if code = 3 then "reversed" else "rotated"))
                         (Printf.sprintf "a peer receiving the %d emitted frames %s does not deliver exactly the packet bytes, once, with its PIT token and congestion mark: %s" nfr ord desc0)
                   | 5 -> oracle c.lid "inface-indication" (Printf.sprintf "the incoming-face indication on the %d emitted frames is not the one of the packet (enabled=%b): %s" nfr o.o_ifi desc0)
                   | _ -> oracle c.lid "sequence-window" (Printf.sprintf "a frame carries a sequence number outside [%s, %s) (sequence before the packet, next sequence afterwards): the next packet can collide with this one: %s" (dec_of_n seq) (dec_of_n next) desc0))
                end
              end;
              (* oracle on the implementation's frames (sizes only are needed) *)
              let sizes l = if isig then List.map (fun s -> int_of_string (List.hd (String.split_on_char ':' s))) l
                            else List.map (fun h -> String.length h / 2) l in
              let fake n = List.init n (fun _ -> N0) in
              let ((fits_ok, one_ok), nofrag_ok) = c10_send_ok zmtu o tok inface mark wire (List.map fake (sizes ifit)) (List.map fake (sizes iover)) in
              let desc = Printf.sprintf "packet of %d bytes, MTU %d, token %d bytes, mark %s, inface %s, fragmentation %b" (List.length wire) mtu
                           (List.length tok) (str_opt_n mark) (str_opt_n inface) o.o_frag in
              if not fits_ok then oracle c.lid "frame-exceeds-mtu" ("a frame larger than the MTU was handed to the transport: " ^ desc);
              if not one_ok then oracle c.lid "fits-but-split" ("a packet that fits in one frame was not sent as exactly one frame: " ^ desc);
              if not nofrag_ok then oracle c.lid "nofrag-not-dropped" ("fragmentation disabled and the packet does not fit, yet frames were emitted: " ^ desc);
              let fits = single_frame_fits zmtu o tok inface mark wire in
              if op = "SEND" then sent := (hexd wire, hexd tok, str_opt_n mark, (fits || o.o_frag)) :: !sent in
            pending := Some (op, rest, check))
      | ["RECV"; fh] ->
          flush_pending ();
          (match !cur with None -> () | Some c ->
            incr nops; Hashtbl.replace kinds "RECV" (); Buffer.add_string canon line;
            let frame = unhex fh in
            let check () =
              let o_lines = List.rev !obs in
              let dec_l = List.find_opt (fun l -> String.length l > 4 && String.sub l 0 4 = "DEC ") o_lines in
              let dec = match dec_l with Some l -> parse_dec (List.tl (split_ws l)) | None -> DErr in
              let idl = List.filter (fun l -> String.length l > 3 && String.sub l 0 3 = "DL ") o_lines in
              let ist = List.find_opt (fun l -> String.length l > 3 && String.sub l 0 3 = "ST ") o_lines in
              let ipanic = List.mem "RP" o_lines in
              (* exactly once, counted over ALL recording threads: the deliveries this frame caused must satisfy the
                 extracted dl_once_ok (no thread twice; own-format token => exactly the named thread; Interest => one thread) *)
              let idels = List.filter_map (fun l -> match split_ws l with
                | ["DL"; th; kind; raw; tok; mark; nh; cp] ->
                    Some { d_thread = n_of_dec th; d_interest = (kind = "I"); d_raw = unhex raw; d_tok = unhex tok; d_mark = opt_n mark;
                           d_nexthop = opt_n nh; d_cachepol = opt_n cp }
                | _ -> None) idl in
              if not (dl_once_ok c.cfg.r_nthreads idels) then begin
                let ths = String.concat "," (List.map (fun d -> dec_of_n d.d_thread) idels) in
                let tokd = match idels with d :: _ -> hexd d.d_tok | [] -> "-" in
                oracle c.lid "duplicate-delivery" (Printf.sprintf "one received packet was queued %d time(s), to thread(s) [%s] of %s (PIT token %s): not exactly once per thread / not only the thread the token names"
                  (List.length idels) ths c.nthr tokd)
              end;
              (* one packet may be queued to several forwarding threads (prefix dispatch of local Data): one delivery *)
              let trip = List.sort_uniq compare (List.filter_map (fun l -> match split_ws l with
                | ["DL"; _; _; raw; tok; mark; _; _] -> incr ndeliv; Some (raw, tok, mark) | _ -> None) idl) in
              got := trip @ !got;
              (* decoder model vs real decoder, where the model claims to know *)
              (match pkt_decode (fun _ -> dec) frame with
               | DecOk d -> if str_dec d <> str_dec dec then diverge c.lid "decode" (trunc (str_dec d)) (trunc (str_dec dec))
               | DUnsupported -> ());
              if ipanic then oracle c.lid "recv-panic" "handleIncomingFrame panicked on this frame sequence";
              (* heap allocated by the call, in proportion to the frame: generous constant for decoding and logging *)
              List.iter (fun l -> match split_ws l with
                | ["AL"; b] ->
                    (* in proportion to the input: this frame, or - when it completes a message - the reassembled packet that is parsed and delivered *)
                    let dlen = List.fold_left (fun a l -> match split_ws l with "DL" :: _ :: _ :: raw :: _ -> max a (String.length raw / 2) | _ -> a) 0 o_lines in
                    let bytes = int_of_string b and flen = max (List.length frame) dlen in
                    if bytes > 65536 + 64 * flen then
                      oracle c.lid "alloc-out-of-proportion" (Printf.sprintf "handleIncomingFrame allocated %d bytes for a frame of %d bytes" bytes flen)
                | _ -> ()) o_lines;
              if (dec_l = Some "DEC PANIC") then oracle c.lid "decode-panic" "spec.ReadPacket panicked on this frame";
              (* a frame that fails to decode changes nothing *)
              (match dec, ist with
               | DErr, Some s when not ipanic -> if s <> !prev_st || idl <> [] then
                   oracle c.lid "bad-frame-changed-state" (Printf.sprintf "an undecodable frame changed state: before [%s] after [%s], %d deliveries" !prev_st s (List.length idl))
               | _ -> ());
              (match ist with Some s -> prev_st := s | None -> ());
              if not !dead then begin
                match handle_frame guard c.cfg (inner_for c) !st dec frame with
                | HPanic -> dead := true; if not ipanic then diverge c.lid "recv-panic" "panic" "no panic"
                | HOk (st', out) ->
                    st := st';
                    if ipanic then diverge c.lid "recv-panic" "no panic" "panic"
                    else begin
                      let mdl = List.map str_delivery out in
                      if mdl <> idl then diverge c.lid "deliveries" (trunc (String.concat " | " mdl)) (trunc (String.concat " | " idl));
                      let ms = str_state st' in
                      (match ist with Some s -> if s <> ms then diverge c.lid "state" (trunc ms) (trunc s) | None -> diverge c.lid "state" ms "none")
                    end
              end in
            pending := Some ("RECV", [], check))
      | "ORDER" :: _ | "PRE" :: _ -> ()
      | ["HC"; _; a; b; _; vd] when a = "0" && b = "0" && vd <> "0" ->
          flush_pending ();
          (match !cur with Some c ->
             oracle c.lid "view-detached-from-raw" (Printf.sprintf "%s delivered Interest(s): decrementing the HopLimit through the parsed packet (as the forwarding thread does) did not change pkt.Raw (what the outgoing face sends): the parsed view and the delivered bytes are different buffers" vd)
           | None -> ())
      | "HC" :: _ :: a :: b :: _ ->
          flush_pending ();
          (match !cur with Some c when a <> "0" || b <> "0" ->
             oracle c.lid "held-packet-changed" (Printf.sprintf "packets queued to the forwarding threads changed after delivery (%s changed their bytes, %s their name): they alias the receive buffer, which the transport reuses for the next frame" a b)
           | _ -> ())
      | ["END"] -> finish_case ()
      | x :: _ when (x = "FR" || x = "FO" || x = "FZ" || x = "OZ" || x = "NS" || x = "SP" || x = "DEC" || x = "DL" || x = "ST" || x = "RP" || x = "AL") ->
          obs := line :: !obs
      | [] -> ()
      | x :: _ when String.length x > 0 && x.[0] = '#' -> ()
      | _ -> Printf.printf "BADLINE %d %s\n" !lineno (String.sub line 0 (min 80 (String.length line)))
    done
  with End_of_file -> ());
  (match !cur with Some c -> flush_pending (); Printf.printf "DIVERGE %s incomplete the implementation did not finish this case (hard crash?)\n" c.lid | None -> ());
  (match needpath with
   | Some p -> let oc = open_out p in Hashtbl.iter (fun k () -> output_string oc (k ^ "\n")) need; close_out oc
   | None -> if Hashtbl.length need > 0 then Printf.printf "NEEDMISSING %d payload(s) had no classification\n" (Hashtbl.length need));
  Printf.printf "DONE %d\n" !ncases

(* ------------------------------------------------------------------------------------------------ sender side of the stream face *)
(* runner appsend <trace>: every packet the receiving face handed up must be one of the packets handed to Send,
   byte-identical, each exactly once (multiset equality), and the stream must end cleanly *)
let appsend_main path =
  let ic = open_in path in
  let ncases = ref 0 in
  let id = ref "" and sent = ref [] and got = ref [] and nseg = ref 0 in
  (try while true do
    let line = input_line ic in
    match split_ws line with
    | ["SCASE"; i; _] -> id := i; sent := []; got := []; nseg := 0
    | ["P"; k; h] -> sent := h :: !sent; if int_of_string k > 1 then incr nseg
    | ["G"; h] -> got := h :: !got
    | ["I"; res; _; _] ->
        incr ncases;
        let s = List.sort compare !sent and g = List.sort compare !got in
        (* the received blocks also go through the verified framer model: the concatenation of what was handed up must frame back to itself *)
        let ok_model = List.for_all (fun h -> h <> "readerr") !got &&
          (let frames = List.rev_map bytes_of_hex !got in
           let (_, fr) = app_frames (List.concat frames) in frames_eqb fr frames) in
        if s <> g || res <> "eof" || not ok_model then begin
          let missing = List.length (List.filter (fun x -> not (List.mem x g)) s) and extra = List.length (List.filter (fun x -> not (List.mem x s)) g) in
          Printf.printf "ORACLE %s send-blocks-%s concurrent Send calls: %d packets sent, %d received (%d sent packets missing, %d received blocks that were never sent); stream ended with %s - a block was split or merged on the wire\n"
            !id (if extra > 0 || missing > 0 then "split" else "end") (List.length s) (List.length g) missing extra res
        end else
          Printf.printf "CASEOK %s app-send-concurrent packets=%d multiseg=%d nontrivial=%d hash=%s\n" !id (List.length s) !nseg
            (if List.length s >= 3 && !nseg >= 1 then 1 else 0) (Digest.to_hex (Digest.string (String.concat "|" s)))
    | _ -> ()
  done with End_of_file -> ());
  Printf.printf "DONE %d\n" !ncases

let () =
  match Array.to_list Sys.argv with
  | [_; "stream"; g; path] -> stream_main (g = "1") path
  | [_; "app"; path] -> stream_main ~app:true true path
  | [_; "appsend"; path] -> appsend_main path
  | [_; "lp"; g; path; table] -> lp_main (g = "1") path table None
  | [_; "lp"; g; path; table; need] -> lp_main (g = "1") path table (Some need)
  | _ -> prerr_endline "usage: runner stream <guard 0|1> <trace>"; exit 2
