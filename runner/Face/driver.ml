(* runner/Face/driver.ml — replays harness traces of the face layer on the models extracted from coq/Face.
   Usage:  runner stream <guard 0|1> <trace>      stream framer (C11, stream part of C04)
           runner app <trace>                     application-side stream reader (C11)
   Output lines:
     CASEOK <id> <kind> frames=<n> nontrivial=<0|1> hash=<md5 of the canonical case>
     DIVERGE <id> <what> model=<..> impl=<..>              model and implementation disagree
     ORACLE <id> <signature> <text>                          the implementation's observation violates the spec predicate
     BADLINE <n> <text>
     DONE <cases> *)
open Face_model

let rec pos_of_int (i : int) : positive =
  if i = 1 then XH else if i land 1 = 0 then XO (pos_of_int (i lsr 1)) else XI (pos_of_int (i lsr 1))
let n_of_int (i : int) : n = if i = 0 then N0 else Npos (pos_of_int i)
let rec int_of_pos = function XH -> 1 | XO p -> 2 * int_of_pos p | XI p -> 2 * int_of_pos p + 1
let int_of_n = function N0 -> 0 | Npos p -> int_of_pos p
let n10 = n_of_int 10
let n_of_dec (s : string) : n =
  let acc = ref N0 in
  String.iter (fun c -> acc := N.add (N.mul !acc n10) (n_of_int (Char.code c - 48))) s; !acc
let rec dec_of_n (x : n) : string =
  if N.ltb x n10 then string_of_int (int_of_n x)
  else dec_of_n (N.div x n10) ^ string_of_int (int_of_n (N.modulo x n10))

let byte_tab = Array.init 256 n_of_int
let hexval c = match c with
  | '0'..'9' -> Char.code c - 48 | 'a'..'f' -> Char.code c - 87 | 'A'..'F' -> Char.code c - 55
  | _ -> failwith "bad hex"
(* appends the bytes of hex string h in front of tl (tail-recursive, builds from the end) *)
let bytes_of_hex_onto (h : string) (tl : n list) : n list =
  let l = String.length h / 2 in
  let acc = ref tl in
  for i = l - 1 downto 0 do
    acc := byte_tab.(hexval h.[2*i] * 16 + hexval h.[2*i+1]) :: !acc
  done; !acc
let bytes_of_hex h = bytes_of_hex_onto h []
let string_of_bytes (b : n list) : string =
  let buf = Buffer.create 256 in
  List.iter (fun x -> Buffer.add_char buf (Char.chr (int_of_n x))) b; Buffer.contents buf
let hex_of_bytes (b : n list) : string =
  String.concat "" (List.map (fun x -> Printf.sprintf "%02x" (int_of_n x)) b)
let frame_sig (b : n list) : string =
  let s = string_of_bytes b in
  string_of_int (String.length s) ^ ":" ^ String.sub (Digest.to_hex (Digest.string s)) 0 8

let split_ws s = List.filter (fun x -> x <> "") (String.split_on_char ' ' s)

(* ------------------------------------------------------------------------------------------------ stream *)
type scase = { mutable id : string; mutable kind : string; mutable shex : string list (* reversed *);
               mutable sched : string; mutable blocks : string; mutable ires : string; mutable icons : string;
               mutable iframes : string list (* reversed lines *) }

let sres_str = function SOk -> "ok" | SErrTooMuch -> "err:toomuch" | SPanic -> "panic" | SSpin -> "spin"

let parse_sched (s : string) : rditem list =
  let items = split_ws s in
  let one f =
    if f = "-" then [] else if f = "!" then [ (RIgn, 1) ] else
    match String.index_opt f '*' with
    | Some i -> [ (RReq (n_of_dec (String.sub f 0 i)), int_of_string (String.sub f (i+1) (String.length f - i - 1))) ]
    | None -> [ (RReq (n_of_dec f), 1) ] in
  let pairs = List.concat_map one items in
  (* build from the end to stay tail-recursive for schedules of ~10^6 items *)
  List.fold_left (fun tl (it, k) -> let r = ref tl in for _ = 1 to k do r := it :: !r done; !r) [] (List.rev pairs)

(* take the first k bytes of a list as a new list, returning the rest (tail-recursive) *)
let split_at (k : int) (l : n list) : n list * n list =
  let rec go k acc l = if k = 0 then (List.rev acc, l) else match l with [] -> (List.rev acc, []) | x :: r -> go (k-1) (x :: acc) r in
  go k [] l

let run_stream_case guard (c : scase) =
  let stream = List.fold_left (fun tl h -> if h = "-" then tl else bytes_of_hex_onto h tl) [] c.shex in
  let sched = parse_sched c.sched in
  let (((res, frames), consumed), _st) = run guard stream sched in
  let msigs = List.map frame_sig frames in
  let isigs = List.concat_map split_ws (List.rev c.iframes) in
  let mres = sres_str res and mcons = dec_of_n consumed in
  let diverged = ref false in
  if mres <> c.ires then (diverged := true; Printf.printf "DIVERGE %s result model=%s impl=%s\n" c.id mres c.ires);
  if mcons <> c.icons then (diverged := true; Printf.printf "DIVERGE %s consumed model=%s impl=%s\n" c.id mcons c.icons);
  if msigs <> isigs then begin
    diverged := true;
    let rec first i a b = match a, b with
      | x :: a', y :: b' -> if x = y then first (i+1) a' b' else (i, x, y)
      | x :: _, [] -> (i, x, "none") | [], y :: _ -> (i, "none", y) | [], [] -> (i, "-", "-") in
    let (i, x, y) = first 0 msigs isigs in
    Printf.printf "DIVERGE %s frames first-difference-at=%d model=%s impl=%s (model %d frames, impl %d)\n" c.id i x y
      (List.length msigs) (List.length isigs)
  end;
  (* oracle on the implementation's observation *)
  let nblocks = ref 0 in
  if c.blocks <> "-" then begin
    (* well-formed stream: the frames must be exactly the blocks complete within the consumed prefix, and no error *)
    let lens = List.map int_of_string (split_ws c.blocks) in
    nblocks := List.length lens;
    let (blocks, _) = List.fold_left (fun (acc, rest) l -> let (b, r) = split_at l rest in (b :: acc, r)) ([], stream) lens in
    let blocks = List.rev blocks in
    let (expect, _) = split_blocksN blocks (n_of_dec c.icons) in
    let esigs = List.map frame_sig expect in
    if c.ires <> "ok" then
      Printf.printf "ORACLE %s wf-stream-%s a well-formed stream made the framer stop with %s after %s bytes\n" c.id c.ires c.ires c.icons
    else if esigs <> isigs then begin
      let ne = List.length esigs and ni = List.length isigs in
      let what = if ni < ne then "lost" else if ni > ne then "extra" else "altered" in
      Printf.printf "ORACLE %s wf-frames-%s frames handed up differ from the blocks sent (%d blocks complete in the consumed prefix, %d frames)\n" c.id what ne ni
    end
  end else begin
    if c.ires = "panic" then Printf.printf "ORACLE %s stream-panic the framer panicked on this byte stream\n" c.id
    else if c.ires = "spin" then Printf.printf "ORACLE %s stream-spin the framer stopped making progress (zero-length Read or empty frames for ever)\n" c.id
  end;
  let canon = String.concat "|" [c.kind; String.concat "" (List.rev c.shex); c.sched] in
  let nontrivial = (List.length isigs >= 3 && List.length sched >= 3) || (c.blocks = "-" && List.length stream >= 3) in
  if not !diverged then
    Printf.printf "CASEOK %s %s frames=%d blocks=%d reads=%d bytes=%s nontrivial=%d hash=%s\n" c.id c.kind (List.length isigs) !nblocks
      (List.length sched) c.icons (if nontrivial then 1 else 0) (Digest.to_hex (Digest.string canon))

(* ------------------------------------------------------------------------------------------------ application-side reader *)
let run_app_case (c : scase) =
  let stream = List.fold_left (fun tl h -> if h = "-" then tl else bytes_of_hex_onto h tl) [] c.shex in
  let (res, frames) = app_frames stream in
  let mres = match res with AEnd true -> "eof" | AEnd false -> "ueof" | APanic -> "panic" in
  let msigs = List.map frame_sig frames in
  let isigs = List.concat_map split_ws (List.rev c.iframes) in
  let diverged = ref false in
  if mres <> c.ires then (diverged := true; Printf.printf "DIVERGE %s app-result model=%s impl=%s\n" c.id mres c.ires);
  if msigs <> isigs then (diverged := true;
    Printf.printf "DIVERGE %s app-frames model=%d frames impl=%d frames\n" c.id (List.length msigs) (List.length isigs));
  if c.blocks <> "-" then begin
    let lens = List.map int_of_string (split_ws c.blocks) in
    let (blocks, _) = List.fold_left (fun (acc, rest) l -> let (b, r) = split_at l rest in (b :: acc, r)) ([], stream) lens in
    let esigs = List.map frame_sig (List.rev blocks) in
    if esigs <> isigs then
      Printf.printf "ORACLE %s app-frames packets handed to the application differ from the blocks sent (%d blocks, %d packets)\n"
        c.id (List.length esigs) (List.length isigs)
  end;
  let canon = String.concat "|" [c.kind; String.concat "" (List.rev c.shex)] in
  if not !diverged then
    Printf.printf "CASEOK %s %s frames=%d bytes=%s nontrivial=%d hash=%s\n" c.id c.kind (List.length isigs) c.icons
      (if List.length isigs >= 3 then 1 else 0) (Digest.to_hex (Digest.string canon))

let stream_main ?(app=false) guard path =
  let ic = open_in path in
  let lineno = ref 0 and ncases = ref 0 in
  let cur = ref None in
  (try
    while true do
      let line = input_line ic in
      incr lineno;
      let (key, arg) = match String.index_opt line ' ' with
        | Some i -> (String.sub line 0 i, String.sub line (i+1) (String.length line - i - 1))
        | None -> (line, "") in
      match key, !cur with
      | "CASE", _ ->
          let p = split_ws arg in
          cur := Some { id = List.nth p 0; kind = (if List.length p > 1 then List.nth p 1 else "?"); shex = []; sched = "-";
                        blocks = "-"; ires = "?"; icons = "0"; iframes = [] }
      | "S", Some c -> c.shex <- String.trim arg :: c.shex
      | "R", Some c -> c.sched <- arg
      | "B", Some c -> c.blocks <- String.trim arg
      | "I", Some c -> (match split_ws arg with [r; n] -> c.ires <- r; c.icons <- n | _ -> Printf.printf "BADLINE %d %s\n" !lineno line)
      | "F", Some c -> c.iframes <- arg :: c.iframes
      | "END", Some c -> incr ncases; (if app then run_app_case c else run_stream_case guard c); cur := None
      | "", _ -> ()
      | _ when String.length key > 0 && key.[0] = '#' -> ()
      | _ -> Printf.printf "BADLINE %d %s\n" !lineno (String.sub line 0 (min 80 (String.length line)))
    done
  with End_of_file -> ());
  (match !cur with Some c -> Printf.printf "DIVERGE %s incomplete the implementation did not finish this case (hard crash?)\n" c.id | None -> ());
  Printf.printf "DONE %d\n" !ncases

let () =
  match Array.to_list Sys.argv with
  | [_; "stream"; g; path] -> stream_main (g = "1") path
  | [_; "app"; path] -> stream_main ~app:true true path
  | _ -> prerr_endline "usage: runner stream <guard 0|1> <trace>"; exit 2
