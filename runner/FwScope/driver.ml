(* runner/FwScope/driver.ml — face-scope classification (C09): compares the scope the real transport constructors assigned
   (rows of harness/fwcore TestScope) with the specification Scope.spec_local extracted from Coq.
     scope <constructor id> <remote is loopback 0|1> <assigned: 1 local, 0 non-local, -1 unknown> <constructor> <remote>
   Output: ORACLE C09 scope 0 scope-class:<constructor>:<loopback|remote> | ...   and   SCOPES <rows> *)
open Scope_model

let rec pos_of_int (i : int) : positive =
  if i = 1 then XH else if i land 1 = 0 then XO (pos_of_int (i lsr 1)) else XI (pos_of_int (i lsr 1))
let n_of_int (i : int) : n = if i = 0 then N0 else Npos (pos_of_int i)

let () =
  let n = ref 0 in
  (try while true do
    let l = input_line stdin in
    match List.filter (fun s -> s <> "") (String.split_on_char ' ' l) with
    | "scope" :: c :: lb :: impl :: rest ->
        incr n;
        let sp = spec_local (n_of_int (int_of_string c)) (lb = "1") in
        let want = if sp then "1" else "0" in
        if impl <> want then
          Printf.printf "ORACLE C09 scope 0 scope-class:%s:%s | transport constructor %s gave scope %s to a face whose remote address is %s (specified: %s)\n"
            (match rest with x :: _ -> x | [] -> c) (if lb = "1" then "loopback" else "remote") (String.concat " " rest)
            (if impl = "1" then "Local" else if impl = "0" then "NonLocal" else "Unknown")
            (if lb = "1" then "a loopback address" else "not a loopback address") (if sp then "Local" else "NonLocal")
    | _ -> ()
  done with End_of_file -> ());
  Printf.printf "SCOPES %d\n" !n
