(* runner/Names/driver.ml — replays the harness trace for C14 on the extracted Coq model.
   Input lines (from the Go harness), fields separated by single spaces:
     PAIR <name> <name> <cmp> <eq> <pfx_ab> <pfx_ba>     implementation's Compare/Equal/IsPrefix
     BYTES <name> <hex>                                     Name.Bytes()
     FROMBYTES <hex> ok <name> | FROMBYTES <hex> err        NameFromBytes
     STR <name> <hex>                                       Name.String() as hex bytes
     PARSE <hex> ok <name> | err | panic                    NameFromStr
     HASH <name> <0|1>                                      relational hash checks done in Go (1 = held)
     RT <name> <wf 0|1> ok <name> | err | panic             NameFromStr(Name.String())
   A name is "-" (empty) or comma separated typ:hexvalue items.
   Output: one "DIVERGE <lineno> <kind> model=<..> impl=<..>" per disagreement and a final "DONE <lines>". *)
open Names_model

let rec pos_of_int (i : int) : positive =
  if i = 1 then XH else if i land 1 = 0 then XO (pos_of_int (i lsr 1)) else XI (pos_of_int (i lsr 1))
let n_of_int (i : int) : n = if i = 0 then N0 else Npos (pos_of_int i)
let rec int_of_pos = function XH -> 1 | XO p -> 2 * int_of_pos p | XI p -> 2 * int_of_pos p + 1
let int_of_n = function N0 -> 0 | Npos p -> int_of_pos p
let n10 = n_of_int 10
let n_of_dec (s : string) : n =
  let acc = ref N0 in
  String.iter (fun c -> acc := N.add (N.mul !acc n10) (n_of_int (Char.code c - 48))) s; !acc
let rec dec_of_n (x : n) : string =
  if N.ltb x n10 then string_of_int (int_of_n x)
  else dec_of_n (N.div x n10) ^ string_of_int (int_of_n (N.modulo x n10))

let bytes_of_hex (h : string) : n list =
  let l = String.length h / 2 in
  List.init l (fun i -> n_of_int (int_of_string ("0x" ^ String.sub h (2*i) 2)))
let hex_of_bytes (b : n list) : string =
  if b = [] then "" else String.concat "" (List.map (fun x -> Printf.sprintf "%02x" (int_of_n x)) b)
let hexf h = if h = "" then "-" else h
let unhexf h = if h = "-" then "" else h

let comp_of_string (s : string) : comp =
  match String.index_opt s ':' with
  | Some i -> { ctyp = n_of_dec (String.sub s 0 i); cval = bytes_of_hex (String.sub s (i+1) (String.length s - i - 1)) }
  | None -> failwith ("bad comp " ^ s)
let name_of_string (s : string) : name =
  if s = "-" then [] else List.map comp_of_string (String.split_on_char ',' s)
let string_of_comp (c : comp) = dec_of_n c.ctyp ^ ":" ^ hex_of_bytes c.cval
let string_of_name (n : name) = if n = [] then "-" else String.concat "," (List.map string_of_comp n)

let cmp_int = function Eq -> "0" | Lt -> "-1" | Gt -> "1"
let b01 b = if b then "1" else "0"

let () =
  let lineno = ref 0 in
  let diverge kind m i = Printf.printf "DIVERGE %d %s model=%s impl=%s\n" !lineno kind m i in
  (try
    while true do
      let line = input_line stdin in
      incr lineno;
      match String.split_on_char ' ' line with
      | ["PAIR"; a; b; c; e; p1; p2] ->
          let na = name_of_string a and nb = name_of_string b in
          let m = String.concat " " [cmp_int (name_cmp na nb); b01 (name_eqb na nb); b01 (is_prefix na nb); b01 (is_prefix nb na)] in
          let i = String.concat " " [c; e; p1; p2] in
          if m <> i then diverge "PAIR" ("[" ^ m ^ "]") ("[" ^ i ^ "]")
      | ["BYTES"; a; h] ->
          let m = hexf (hex_of_bytes (name_bytes (name_of_string a))) in
          if m <> h then diverge "BYTES" m h
      | "FROMBYTES" :: h :: rest ->
          let m = match name_from_bytes (bytes_of_hex (unhexf h)) with Some n -> "ok " ^ string_of_name n | None -> "err" in
          let i = String.concat " " rest in
          if m <> i then diverge "FROMBYTES" ("[" ^ m ^ "]") ("[" ^ i ^ "]")
      | ["STR"; a; h] ->
          let m = hexf (hex_of_bytes (name_to_str (name_of_string a))) in
          if m <> h then diverge "STR" m h
      | "PARSE" :: h :: rest ->
          let m = match name_from_str (bytes_of_hex (unhexf h)) with POk n -> "ok " ^ string_of_name n | PErr -> "err" | PPanic -> "panic" in
          let i = String.concat " " rest in
          if m <> i then diverge "PARSE" ("[" ^ m ^ "]") ("[" ^ i ^ "]")
      | ["HASH"; a; ok] -> if ok <> "1" then diverge "HASH" "1" ok
      | "RT" :: a :: wf :: rest ->
          let na = name_of_string a in
          let m = match name_from_str (name_to_str na) with POk n -> "ok " ^ string_of_name n | PErr -> "err" | PPanic -> "panic" in
          let i = String.concat " " rest in
          if m <> i then diverge "RT" ("[" ^ m ^ "]") ("[" ^ i ^ "]");
          (* oracle: for URI-wellformed names the round trip must return the name itself *)
          if wf = "1" && i <> "ok " ^ a then diverge "RTSPEC" ("[ok " ^ a ^ "]") ("[" ^ i ^ "]")
      | [""] | [] -> ()
      | _ -> Printf.printf "BADLINE %d %s\n" !lineno line
    done
  with End_of_file -> ());
  Printf.printf "DONE %d\n" !lineno
