(* runner/Names/driver.ml — replays the harness trace for C14 on the model extracted from Coq (coq/Names/Model.v) and
   evaluates the extracted spec oracle (coq/Names/Spec.v) on the implementation's observations.

   Input lines (from harness/names), fields separated by single spaces; a name is "-" (empty) or comma separated
   typ:hexvalue items; a hex string is "-" when empty; a comparison is -1/0/1; a bool is 0/1.
     PAIR <a> <b> <cmp> <eq> <pfx_ab> <pfx_ba> <cmp_ba> <hash_eq> <bytes_a> <bytes_b>
     APAIR <shape> <full> <PAIR observations> <str_a> <str_b> <hashrel 0|1> <a_after> <b_after>
                                                   the PAIR calls on operands that alias in memory: shape = sub:i:j:k (full[i:j] vs
                                                   full[i:k]), ovl:i:j:i2:k, same:i:j, clone:i:j, val:i:j (shared Val buffers),
                                                   cap:i:j (b = append(full[i:j], full[0]) written into spare capacity),
                                                   rep:ra:rb:i:j (the value full[i:j] in two Go representations: nil / empty / parsed /
                                                   decoded / cloned name, nil / empty component values)
     TRIPLE <a> <b> <c> <ab> <bc> <ac> <ba> <cb> <ca>
     COMP <c> <d> <cmp> <eq> <bytes_c> <bytes_d>
     BYTES <a> <hex>                               Name.Bytes
     BRT <a> ok <name> | err | panic               NameFromBytes(Name.Bytes())
     FROMBYTES <hex> ok <name> | err               NameFromBytes
     CFB <hex> ok=<comp> | err | panic             ComponentFromBytes
     HIN <typ> <x:hex | z:len> <stream> <det 0|1>  the bytes Component.HashInto writes into a recording hash.Hash (z = zero-filled value)
     HPAIR <typ> <spec> <typ> <spec> <stream> <stream> <det>    the same for two components (replay form of a set-level failure)
     HNAME <a> <stream,stream,...|none> <0|1>      HashInto streams of the components; 1 = Hash/PrefixHash[i]/Component.Hash equal
                                                   xxhash of exactly the concatenated streams
     The hash-input oracle is layout agnostic: determinism, and over all components of the run no stream is empty, equal to
     or a prefix of the stream of a different component (layout_pair_ok); a layout other than comp_hash_input is a NOTE.
     HASH <a> <0|1>                                relational hash checks done in Go (1 = held)
     STR <a> <hex>                                 Name.String
     RT <a> ok <name> | err | panic                NameFromStr(Name.String())
     CSTR <c> <hexString> <hexCanonical>           Component.String, Component.CanonicalString
     CRT <c> <r1> <r2>                             ComponentFromStr(c.String()), ComponentFromStr(c.CanonicalString()); r = ok=<comp>|err|panic
     PARSE <hex> ok <name> | err | panic           NameFromStr
     CPARSE <hex> ok=<comp> | err | panic          ComponentFromStr
     PPARSE <hex> ok <npat> <hexString> | err | panic     NamePatternFromStr, NamePattern.String
     CPPARSE <hex> ok <cpat> <hexString> | err | panic    ComponentPatternFromStr, String
     PPAIR <hex1> <hex2> ok <cmp> <eq> | err | panic      NamePattern.Compare/Equal of the two parsed patterns
     FULL <a> <digesthex> ok <name> | panic        Name.ToFullName
     CSHIT <x> <y> miss | skip | hit <name>              fw/table PIT-CS: insert Data x, Data y, look up x (the Data returned must be named x)
     CONV/DIST/CSREQ lines are for the check script and are skipped here.
   Output: "DIVERGE <lineno> <kind> model=<..> impl=<..>" when model and implementation disagree,
           "SPECFAIL <lineno> <kind> <what>" when the implementation's observations violate the spec predicate,
           "NOTE <lineno> <text>", "BADLINE <lineno> <line>", and a final "DONE <lines>". *)
open Names_model

let rec pos_of_int (i : int) : positive =
  if i = 1 then XH else if i land 1 = 0 then XO (pos_of_int (i lsr 1)) else XI (pos_of_int (i lsr 1))
let n_of_int (i : int) : n = if i = 0 then N0 else Npos (pos_of_int i)
let rec int_of_pos = function XH -> 1 | XO p -> 2 * int_of_pos p | XI p -> 2 * int_of_pos p + 1
let int_of_n = function N0 -> 0 | Npos p -> int_of_pos p
let n10 = n_of_int 10
let n_of_dec (s : string) : n =
  if s = "" then failwith "empty number";
  let acc = ref N0 in
  String.iter (fun c -> if c < '0' || c > '9' then failwith "bad number";
                        acc := N.add (N.mul !acc n10) (n_of_int (Char.code c - 48))) s; !acc
let rec dec_of_n (x : n) : string =
  if N.ltb x n10 then string_of_int (int_of_n x)
  else dec_of_n (N.div x n10) ^ string_of_int (int_of_n (N.modulo x n10))

let byte_tab = Array.init 256 n_of_int
let hexval c = match c with
  | '0'..'9' -> Char.code c - 48 | 'a'..'f' -> Char.code c - 87 | 'A'..'F' -> Char.code c - 55
  | _ -> failwith "bad hex"
let bytes_of_hex (h : string) : n list =
  let l = String.length h / 2 in
  if String.length h mod 2 <> 0 then failwith "odd hex";
  let r = ref [] in
  for i = l - 1 downto 0 do
    r := byte_tab.(hexval h.[2*i] * 16 + hexval h.[2*i+1]) :: !r
  done; !r
let hexdig = "0123456789abcdef"
let hex_of_bytes (b : n list) : string =
  let buf = Buffer.create 64 in
  List.iter (fun x -> let v = int_of_n x in
              if v > 255 then Buffer.add_string buf (Printf.sprintf "[%d]" v)
              else (Buffer.add_char buf hexdig.[v lsr 4]; Buffer.add_char buf hexdig.[v land 15])) b;
  Buffer.contents buf
let hexf b = let h = hex_of_bytes b in if h = "" then "-" else h
let unhexf h = bytes_of_hex (if h = "-" then "" else h)

let comp_of_string (s : string) : comp =
  match String.index_opt s ':' with
  | Some i -> { ctyp = n_of_dec (String.sub s 0 i); cval = bytes_of_hex (String.sub s (i+1) (String.length s - i - 1)) }
  | None -> failwith ("bad comp " ^ s)
let name_of_string (s : string) : name =
  if s = "-" then [] else List.map comp_of_string (String.split_on_char ',' s)
let string_of_comp (c : comp) = dec_of_n c.ctyp ^ ":" ^ hex_of_bytes c.cval
let string_of_name (n : name) = if n = [] then "-" else String.concat "," (List.map string_of_comp n)
let string_of_cpat = function
  | CPComp c -> "C~" ^ string_of_comp c
  | CPPat (t, tag) -> "P~" ^ dec_of_n t ^ ":" ^ hex_of_bytes tag
let string_of_npat (p : npat) = if p = [] then "-" else String.concat "," (List.map string_of_cpat p)

let cmp_int = function Eq -> "0" | Lt -> "-1" | Gt -> "1"
let cmp_of_string = function "0" -> Eq | "-1" -> Lt | "1" -> Gt | s -> failwith ("bad comparison " ^ s)
let bool_of_01 = function "1" -> true | "0" -> false | s -> failwith ("bad bool " ^ s)
let b01 b = if b then "1" else "0"

let pres_name_str = function POk n -> "ok " ^ string_of_name n | PErr -> "err" | PPanic -> "panic"
let pres_comp_str = function POk c -> "ok=" ^ string_of_comp c | PErr -> "err" | PPanic -> "panic"
let pres_name_of (l : string list) : name pres =
  match l with
  | ["ok"; n] -> POk (name_of_string n) | ["err"] -> PErr | ["panic"] -> PPanic
  | _ -> failwith "bad result"
let pres_comp_of (s : string) : comp pres =
  if s = "err" then PErr else if s = "panic" then PPanic
  else if String.length s > 3 && String.sub s 0 3 = "ok=" then POk (comp_of_string (String.sub s 3 (String.length s - 3)))
  else failwith "bad result"

(* value specs of the hash-input lines *)
let val_of_spec (spec : string) : n list =
  match String.split_on_char ':' spec with
  | ["x"; h] -> bytes_of_hex h
  | ["z"; l] -> List.init (int_of_string l) (fun _ -> N0)
  | _ -> failwith ("bad value spec " ^ spec)
let spec_of_val (v : n list) : string =
  if List.length v > 32 && List.for_all (fun x -> x = N0) v then "z:" ^ string_of_int (List.length v) else "x:" ^ hex_of_bytes v

(* recorded hash-input streams of the run: component key ("typ spec") -> (component, stream hex, first line) *)
let streams : (string, comp * string * int) Hashtbl.t = Hashtbl.create 4096
let model_layout_differs = ref 0

(* operands of an APAIR line: slices of one name (see harness/names deriveAlias; the value of the operands only) *)
let rec take k l = if k <= 0 then [] else match l with [] -> [] | x :: r -> x :: take (k-1) r
let rec drop k l = if k <= 0 then l else match l with [] -> [] | _ :: r -> drop (k-1) r
let slice l i j = take (j - i) (drop i l)
let derive_alias (shape : string) (full : name) : name * name =
  match String.split_on_char ':' shape with
  | ["sub"; i; j; k] -> let i = int_of_string i in (slice full i (int_of_string j), slice full i (int_of_string k))
  | ["ovl"; i; j; i2; k] -> (slice full (int_of_string i) (int_of_string j), slice full (int_of_string i2) (int_of_string k))
  | ["rep"; _; _; i; j] | ["same"; i; j] | ["clone"; i; j] | ["val"; i; j] ->
      let a = slice full (int_of_string i) (int_of_string j) in (a, a)
  | ["cap"; i; j] ->
      let a = slice full (int_of_string i) (int_of_string j) in (a, a @ [List.hd full])
  | _ -> failwith ("bad alias shape " ^ shape)

let () =
  let lineno = ref 0 in
  let diverge kind m i = Printf.printf "DIVERGE %d %s model=%s impl=%s\n" !lineno kind m i in
  let specfail kind what = Printf.printf "SPECFAIL %d %s %s\n" !lineno kind what in
  let note text = Printf.printf "NOTE %d %s\n" !lineno text in
  let br s = "[" ^ s ^ "]" in
  let cut s = if String.length s > 600 then String.sub s 0 600 ^ "..." else s in
  let cmpstr kind m i = if m <> i then diverge kind (br (cut m)) (br (cut i)) in
  let add_stream key (c : comp) (st : string) =
    (* (a) determinism across the whole run: the stream is a function of (type, value) *)
    (match Hashtbl.find_opt streams key with
     | Some (_, st0, ln0) ->
         if st0 <> st then specfail "HLAYOUT" (Printf.sprintf "HashInto fed different bytes for the same component at lines %d and %d" ln0 !lineno)
     | None ->
         Hashtbl.add streams key (c, st, !lineno);
         (* the modelled instance: a difference is not a violation (any prefix-free layout is fine) *)
         if st <> hexf (comp_hash_input c) then incr model_layout_differs) in
  let check_pair kind na nb c e p1 p2 cba heq ea eb =
    let m = String.concat " " [cmp_int (name_cmp na nb); b01 (name_eqb na nb); b01 (is_prefix na nb); b01 (is_prefix nb na);
                               cmp_int (name_cmp nb na)] in
    cmpstr kind m (String.concat " " [c; e; p1; p2; cba]);
    cmpstr (if kind = "PAIR" then "PAIRBYTES" else kind) (hexf (name_bytes na) ^ " " ^ hexf (name_bytes nb)) (ea ^ " " ^ eb);
    let same_input = bytes_eqb (name_hash_input na) (name_hash_input nb) in
    if same_input && heq <> "1" then diverge "HASHFN" "equal-hash-input=>equal-hash" "hashes-differ";
    (* the hash input is injective (hash_input_injective): equal hashes of different names are either a 2^-64 event
       of the hash function or an implementation whose hash input no longer determines the name *)
    if (not (name_eqb na nb)) && heq = "1" then
      specfail "HASHCOLL" "two different names have the same Hash(): tables keyed by the hash conflate them";
    (* oracle on the implementation's observations *)
    if not (pair_ok (cmp_of_string c) (bool_of_01 e) (bool_of_01 p1) (bool_of_01 p2) (unhexf ea) (unhexf eb) (bool_of_01 heq))
    then specfail kind "Compare/Equal/IsPrefix/Bytes/Hash observations of the pair are mutually inconsistent (pair_ok)";
    if cmp_of_string cba <> (match cmp_of_string c with Eq -> Eq | Lt -> Gt | Gt -> Lt)
    then specfail kind "Compare is not antisymmetric on this pair" in
  (try
    while true do
      let line = input_line stdin in
      incr lineno;
      (try
      match String.split_on_char ' ' line with
      | (("PAIR" | "APAIR" | "TRIPLE" | "COMP" | "HIN" | "HPAIR" | "HNAME" | "BYTES" | "STR" | "CSTR" | "HASH") as k) :: rest
        when (match List.rev rest with "panic" :: _ -> true | _ -> false) ->
          specfail k "the implementation panicked"
      | ["PAIR"; a; b; c; e; p1; p2; cba; heq; ea; eb] ->
          check_pair "PAIR" (name_of_string a) (name_of_string b) c e p1 p2 cba heq ea eb
      | ["APAIR"; shape; full; c; e; p1; p2; cba; heq; ea; eb; sa; sb; hok; aa; ab] ->
          (* the same observations on operands that alias each other in memory (shape); the model is value based, so any
             dependence on the memory layout shows up as a disagreement *)
          let (na, nb) = derive_alias shape (name_of_string full) in
          check_pair "APAIR" na nb c e p1 p2 cba heq ea eb;
          cmpstr "APAIR" (hexf (name_to_str na) ^ " " ^ hexf (name_to_str nb)) (sa ^ " " ^ sb);
          if hok <> "1" then specfail "APAIR" "Hash/PrefixHash relations fail on aliased operands";
          cmpstr "APAIR" ("operands-after " ^ string_of_name na ^ " " ^ string_of_name nb) ("operands-after " ^ aa ^ " " ^ ab)
      | ["TRIPLE"; a; b; c; ab; bc; ac; ba; cb; ca] ->
          let na = name_of_string a and nb = name_of_string b and nc = name_of_string c in
          let m = String.concat " " (List.map cmp_int [name_cmp na nb; name_cmp nb nc; name_cmp na nc; name_cmp nb na; name_cmp nc nb; name_cmp nc na]) in
          cmpstr "TRIPLE" m (String.concat " " [ab; bc; ac; ba; cb; ca]);
          if not (triple_ok (cmp_of_string ab) (cmp_of_string bc) (cmp_of_string ac) (cmp_of_string ba) (cmp_of_string cb) (cmp_of_string ca))
          then specfail "TRIPLE" "order axioms (antisymmetry/transitivity) fail on this triple (triple_ok)"
      | ["COMP"; c; d; cm; e; ec; ed] ->
          let cc = comp_of_string c and cd = comp_of_string d in
          cmpstr "COMP" (cmp_int (comp_cmp cc cd) ^ " " ^ b01 (comp_eqb cc cd)) (cm ^ " " ^ e);
          cmpstr "COMPBYTES" (hexf (comp_enc cc) ^ " " ^ hexf (comp_enc cd)) (ec ^ " " ^ ed);
          if not (comp_ok (cmp_of_string cm) (bool_of_01 e) (unhexf ec) (unhexf ed))
          then specfail "COMP" "Component Compare/Equal disagree with the bytewise order/equality of the encodings (comp_ok)"
      | ["BYTES"; a; h] ->
          cmpstr "BYTES" (hexf (name_bytes (name_of_string a))) h
      | "FROMBYTES" :: h :: rest ->
          let m = match name_from_bytes (unhexf h) with Some n -> "ok " ^ string_of_name n | None -> "err" in
          cmpstr "FROMBYTES" m (String.concat " " rest)
      | "BRT" :: a :: rest ->
          let na = name_of_string a in
          let m = match name_from_bytes (name_bytes na) with Some n -> "ok " ^ string_of_name n | None -> "err" in
          cmpstr "BRT" m (String.concat " " rest);
          let r = match rest with ["ok"; n] -> Some (name_of_string n) | _ -> None in
          if not (brt_ok na r) then specfail "BRT" "NameFromBytes(n.Bytes()) <> n (brt_ok): the encoding does not determine the name"
      | ["CFB"; h; r] ->
          let m = match comp_from_bytes (unhexf h) with Some c -> "ok=" ^ string_of_comp c | None -> "err" in
          cmpstr "CFB" m r;
          if r = "panic" then specfail "CFB" "ComponentFromBytes panicked"
      | ["HIN"; t; spec; st; det] ->
          let c = { ctyp = n_of_dec t; cval = val_of_spec spec } in
          if det <> "1" then specfail "HLAYOUT" "HashInto fed different bytes for the same component value (clone / second call)";
          add_stream (t ^ " " ^ spec) c st
      | ["HPAIR"; t1; sp1; t2; sp2; s1; s2; det] ->
          let c = { ctyp = n_of_dec t1; cval = val_of_spec sp1 } and d = { ctyp = n_of_dec t2; cval = val_of_spec sp2 } in
          if det <> "1" then specfail "HLAYOUT" "HashInto fed different bytes for the same component value (clone / second call)";
          if not (layout_pair_ok c d (unhexf s1) (unhexf s2)) then
            specfail "HLAYOUT" ("hash input: streams of these two components are empty, equal or one is a prefix of the other (layout_pair_ok) replay-as: "
                                ^ String.concat " " ["HPAIR"; t1; sp1; t2; sp2])
      | ["HNAME"; a; streams; ok] ->
          let na = name_of_string a in
          let sl = if streams = "none" then [] else String.split_on_char ',' streams in
          if List.length sl <> List.length na then failwith "HNAME stream count";
          List.iter2 (fun c st -> add_stream (dec_of_n c.ctyp ^ " " ^ spec_of_val c.cval) c st) na sl;
          if ok <> "1" then specfail "HNAME" "Name.Hash / PrefixHash[i] / Component.Hash are not the hash of exactly the concatenated HashInto streams of the respective components (or HashInto is not deterministic)"
      | ["HASH"; a; ok] -> if ok <> "1" then specfail "HASH" "equal names hash differently or PrefixHash[i] <> Hash(prefix i)"
      | ["STR"; a; h] ->
          cmpstr "STR" (hexf (name_to_str (name_of_string a))) h
      | "RT" :: a :: rest ->
          let na = name_of_string a in
          cmpstr "RT" (pres_name_str (name_from_str_f (name_to_str na))) (String.concat " " rest);
          if not (rt_ok na (pres_name_of rest))
          then specfail "RT" (if uri_wfb na then "NameFromStr(n.String()) <> n for a name in the round-trip domain (rt_ok)"
                              else "NameFromStr panicked (rt_ok)")
      | ["CSTR"; c; hs; hc] ->
          let cc = comp_of_string c in
          cmpstr "CSTR" (hexf (comp_to_str cc) ^ " " ^ hexf (comp_to_canon cc)) (hs ^ " " ^ hc)
      | ["CRT"; c; r1; r2] ->
          let cc = comp_of_string c in
          cmpstr "CRT" (pres_comp_str (comp_from_str (comp_to_str cc)) ^ " " ^ pres_comp_str (comp_from_str (comp_to_canon cc))) (r1 ^ " " ^ r2);
          if not (crt_ok cc (pres_comp_of r1) (pres_comp_of r2))
          then specfail "CRT" "ComponentFromStr(String/CanonicalString) round trip fails or panics (crt_ok)"
      | "PARSE" :: h :: rest ->
          cmpstr "PARSE" (pres_name_str (name_from_str_f (unhexf h))) (String.concat " " rest);
          if rest = ["panic"] then specfail "PARSE" "NameFromStr panicked"
      | ["CPARSE"; h; r] ->
          cmpstr "CPARSE" (pres_comp_str (comp_from_str (unhexf h))) r;
          if r = "panic" then specfail "CPARSE" "ComponentFromStr panicked"
      | "PPARSE" :: h :: rest ->
          let m = match name_pattern_from_str_f (unhexf h) with
            | POk p -> "ok " ^ string_of_npat p ^ " " ^ hexf (npat_to_str p) | PErr -> "err" | PPanic -> "panic" in
          cmpstr "PPARSE" m (String.concat " " rest);
          if rest = ["panic"] then specfail "PPARSE" "NamePatternFromStr panicked"
      | "CPPARSE" :: h :: rest ->
          let m = match comp_pattern_from_str_f (unhexf h) with
            | POk p -> "ok " ^ string_of_cpat p ^ " " ^ hexf (cpat_to_str p) | PErr -> "err" | PPanic -> "panic" in
          cmpstr "CPPARSE" m (String.concat " " rest);
          if rest = ["panic"] then specfail "CPPARSE" "ComponentPatternFromStr panicked"
      | "PPAIR" :: h1 :: h2 :: rest ->
          let m = match name_pattern_from_str_f (unhexf h1), name_pattern_from_str_f (unhexf h2) with
            | POk p, POk q -> let c = npat_cmp p q in "ok " ^ cmp_int c ^ " " ^ b01 (c = Eq)
            | PPanic, _ | _, PPanic -> "panic"
            | _, _ -> "err" in
          cmpstr "PPAIR" m (String.concat " " rest);
          if rest = ["panic"] then specfail "PPAIR" "NamePatternFromStr/Compare panicked"
      | "FULL" :: a :: dg :: rest ->
          let m = match to_full_name (unhexf dg) (name_of_string a) with POk n -> "ok " ^ string_of_name n | PErr -> "err" | PPanic -> "panic" in
          cmpstr "FULL" m (String.concat " " rest)
      | "CSHIT" :: x :: y :: rest ->
          (match rest with
           | ["miss"] | ["skip"] -> ()
           | ["hit"; n] -> if n <> x then specfail "CSHIT" ("the Content Store answered an Interest for the first name with Data named " ^ cut n)
           | _ -> specfail "CSHIT" "the Content Store probe panicked")
      | "CONV" :: _ | "DIST" :: _ | "CSREQ" :: _ -> ()
      | [""] | [] -> ()
      | _ -> Printf.printf "BADLINE %d %s\n" !lineno (cut line)
      with Failure msg -> Printf.printf "BADLINE %d (%s) %s\n" !lineno msg (cut line))
    done
  with End_of_file -> ());
  (* (b) prefix-freeness over ALL components of the run.  Hex strings of equal case order like the bytes, so after sorting
     the streams a stream that is a prefix of (or equal to) another one is a prefix of its immediate successor: it suffices to
     evaluate the extracted oracle layout_pair_ok on adjacent entries. *)
  let ents = Hashtbl.fold (fun k (c, st, ln) acc -> (st, k, c, ln) :: acc) streams [] in
  let ents = List.sort (fun (s1, k1, _, _) (s2, k2, _, _) -> let r = compare s1 s2 in if r <> 0 then r else compare k1 k2) ents in
  let best = ref None in
  let rec scan = function
    | (s1, k1, c1, l1) :: (((s2, k2, c2, l2) :: _) as rest) ->
        let s1' = if s1 = "-" then "" else s1 and s2' = if s2 = "-" then "" else s2 in
        let pre = String.length s1' <= String.length s2' && String.sub s2' 0 (String.length s1') = s1' in
        if (pre || s1' = "") && not (layout_pair_ok c1 c2 (bytes_of_hex s1') (bytes_of_hex s2')) then begin
          let size = String.length s1' + String.length s2' in
          (match !best with Some (sz, _, _, _) when sz <= size -> () | _ -> best := Some (size, k1, k2, max l1 l2))
        end;
        scan rest
    | [(s1, k1, c1, l1)] -> if s1 = "-" || s1 = "" then best := Some (0, k1, k1, l1)
    | [] -> () in
  scan ents;
  (match !best with
   | Some (_, k1, k2, ln) ->
       Printf.printf "SPECFAIL %d HLAYOUT hash input: the streams HashInto feeds for two different components are equal or one is a prefix of the other (or a stream is empty), so concatenated streams do not determine the name (layout_pair_ok) replay-as: HPAIR %s %s\n" ln k1 k2
   | None -> ());
  if !model_layout_differs > 0 then
    Printf.printf "NOTE 0 hash-input layout differs from the modelled instance comp_hash_input on %d component(s); the layout-agnostic oracle (determinism, prefix-freeness, hashes of concatenated streams) is what is checked\n" !model_layout_differs;
  Printf.printf "DONE %d\n" !lineno
