(* runner/Packet/driver.ml — replays the harness trace for C03/C12 on the extracted Coq model and evaluates the spec
   side (Spec.v, walker, validators) on the implementation's observations.

   Input lines (single spaces between fields; see harness/packet/packet_test.go for the producer):
     MKDATA <name> <ctype> <fresh> <fbid> <content> <signer> <pick> => <impl>
     MKINT  <name> <cbp> <mbf> <fh> <nonce> <life> <hop> <app> <signer> <pick> => <impl>
     RD <data|int|pkt> <B|W> <segs> <rt> => <impl>          decode; rt=1: untampered packet of the current MK case
     WALK <hex> <implverdict>                                 independent TLV walker
     NAMEB <name> <hex> <0|1>                                 Name.Bytes() and NameFromBytes(Name.Bytes()) == name
     COMPB <comp> <hex> <0|1>                                 Component.Bytes() / ComponentFromBytes
     VALID <kind> <key> <cov> <sigtype> <sv> <verdict>        validator verdict of the implementation on an untampered packet
     DIGEST <pkthex> <namelastvalhex>                         parameters digest of an Interest built by MakeInterest
     SAME <tag> <hex> <hex>                                   two observations of the implementation that must be equal
     TAMPER <id> <bit> <region> <outcome>                     single-bit tampering against the real validators
   Output: "DIVERGE <lineno> <kind> model=<..> impl=<..>" (model and implementation differ),
           "SPECFAIL <lineno> <kind> <detail>" (the implementation's observation violates the specification),
           "SKIP <lineno>" (input outside the modelled fragment), and a final "DONE <lines> <compared> <skipped>". *)
open Packet_model

let rec pos_of_int (i : int) : positive =
  if i = 1 then XH else if i land 1 = 0 then XO (pos_of_int (i lsr 1)) else XI (pos_of_int (i lsr 1))
let n_of_int (i : int) : n = if i = 0 then N0 else Npos (pos_of_int i)
let rec int_of_pos = function XH -> 1 | XO p -> 2 * int_of_pos p | XI p -> 2 * int_of_pos p + 1
let int_of_n = function N0 -> 0 | Npos p -> int_of_pos p
let rec nat_of_int i = if i = 0 then O else S (nat_of_int (i - 1))
let n10 = n_of_int 10
let n_of_dec (s : string) : n =
  let acc = ref N0 in
  String.iter (fun c -> acc := N.add (N.mul !acc n10) (n_of_int (Char.code c - 48))) s; !acc
let rec dec_of_n (x : n) : string =
  if N.ltb x n10 then string_of_int (int_of_n x)
  else dec_of_n (N.div x n10) ^ string_of_int (int_of_n (N.modulo x n10))
let z_of_dec (s : string) : z =
  if String.length s > 0 && s.[0] = '-' then Z.opp (Z.of_N (n_of_dec (String.sub s 1 (String.length s - 1))))
  else Z.of_N (n_of_dec s)
let dec_of_z = function Z0 -> "0" | Zpos p -> dec_of_n (Npos p) | Zneg p -> "-" ^ dec_of_n (Npos p)

let byte_tab = Array.init 256 n_of_int
let bytes_of_string (s : string) : n list = List.init (String.length s) (fun i -> byte_tab.(Char.code s.[i]))
let string_of_bytes (b : n list) : string =
  let buf = Buffer.create 64 in List.iter (fun x -> Buffer.add_char buf (Char.chr (int_of_n x land 255))) b; Buffer.contents buf
let hexval c = match c with '0'..'9' -> Char.code c - 48 | 'a'..'f' -> Char.code c - 87 | 'A'..'F' -> Char.code c - 55 | _ -> failwith "hex"
let raw_of_hex (h : string) : string =
  String.init (String.length h / 2) (fun i -> Char.chr (hexval h.[2*i] * 16 + hexval h.[2*i+1]))
let hex_of_raw (s : string) : string =
  let buf = Buffer.create (2 * String.length s) in
  String.iter (fun c -> Buffer.add_string buf (Printf.sprintf "%02x" (Char.code c))) s; Buffer.contents buf
(* byte strings: "-" is the empty string *)
let bytes_of_hexf h = if h = "-" then [] else bytes_of_string (raw_of_hex h)
let hexf_of_bytes b = if b = [] then "-" else hex_of_raw (string_of_bytes b)
let opt_of f s = if s = "nil" then None else Some (f s)
let str_opt f = function None -> "nil" | Some x -> f x

(* wires: nil | e | buf,buf,... *)
let wire_of_string s : n list list option =
  if s = "nil" then None else if s = "e" then Some [] else Some (List.map bytes_of_hexf (String.split_on_char ',' s))
let string_of_wire = function [] -> "e" | w -> String.concat "," (List.map hexf_of_bytes w)

let comp_of_string (s : string) : comp =
  match String.index_opt s ':' with
  | Some i -> { ctyp = n_of_dec (String.sub s 0 i);
                cval = bytes_of_string (raw_of_hex (String.sub s (i+1) (String.length s - i - 1))) }
  | None -> failwith ("bad comp " ^ s)
let name_of_string (s : string) : name =
  if s = "-" then [] else List.map comp_of_string (String.split_on_char ',' s)
let string_of_comp (c : comp) = dec_of_n c.ctyp ^ ":" ^ hex_of_raw (string_of_bytes c.cval)
let string_of_name (n : name) = if n = [] then "-" else String.concat "," (List.map string_of_comp n)
let names_of_string s : name list option =
  if s = "nil" then None else if s = "e" then Some [] else Some (List.map name_of_string (String.split_on_char '+' s))
let string_of_names = function None -> "nil" | Some [] -> "e" | Some l -> String.concat "+" (List.map string_of_name l)

(* signer: nil | type;key;nonce;time;seq;nb;na;est *)
let signer_of_string s : signer option =
  if s = "nil" then None else
  match String.split_on_char ';' s with
  | [ty; key; nonce; tm; seq; nb; na; est] ->
      Some { sg_type = z_of_dec ty; sg_key = opt_of name_of_string key; sg_nonce = opt_of bytes_of_hexf nonce;
             sg_time = opt_of z_of_dec tm; sg_seq = opt_of n_of_dec seq; sg_nb = opt_of bytes_of_hexf nb;
             sg_na = opt_of bytes_of_hexf na; sg_est = n_of_dec est }
  | _ -> failwith ("bad signer " ^ s)

let string_of_kl (k : keyloc) = "K(" ^ str_opt string_of_name k.kl_name ^ "^" ^ str_opt hexf_of_bytes k.kl_digest ^ ")"
let string_of_vp (v : validity) = "V(" ^ hexf_of_bytes v.vp_nb ^ "^" ^ hexf_of_bytes v.vp_na ^ ")"
let string_of_si (s : siginfo) =
  String.concat ";" [dec_of_n s.si_type; str_opt string_of_kl s.si_kl; str_opt hexf_of_bytes s.si_nonce;
                     str_opt dec_of_z s.si_time; str_opt dec_of_n s.si_seq; str_opt string_of_vp s.si_vp]
let string_of_meta (m : metainfo) =
  String.concat ";" [str_opt dec_of_n m.mi_ctype; str_opt dec_of_z m.mi_fresh; str_opt hexf_of_bytes m.mi_fbid]
let string_of_dobs (o : data_obs) =
  Printf.sprintf "name=%s meta=%s content=%s si=%s sv=%s" (string_of_name o.do_name) (str_opt string_of_meta o.do_meta)
    (str_opt hexf_of_bytes o.do_content) (str_opt string_of_si o.do_si) (str_opt hexf_of_bytes o.do_sv)
let string_of_iobs (o : int_obs) =
  Printf.sprintf "name=%s cbp=%s mbf=%s fh=%s nonce=%s life=%s hop=%s app=%s si=%s sv=%s" (string_of_name o.io_name)
    (if o.io_cbp then "1" else "0") (if o.io_mbf then "1" else "0") (string_of_names o.io_fh) (str_opt dec_of_n o.io_nonce)
    (str_opt dec_of_z o.io_life) (str_opt dec_of_n o.io_hop) (str_opt hexf_of_bytes o.io_app) (str_opt string_of_si o.io_si)
    (str_opt hexf_of_bytes o.io_sv)
let cov_s (c : n list list) = hexf_of_bytes (List.concat c)

(* ---- SHA-256 / HMAC-SHA-256 on OCaml strings (ints masked to 32 bits) ---- *)
let k256 = [|
  0x428a2f98;0x71374491;0xb5c0fbcf;0xe9b5dba5;0x3956c25b;0x59f111f1;0x923f82a4;0xab1c5ed5;0xd807aa98;0x12835b01;0x243185be;0x550c7dc3;
  0x72be5d74;0x80deb1fe;0x9bdc06a7;0xc19bf174;0xe49b69c1;0xefbe4786;0x0fc19dc6;0x240ca1cc;0x2de92c6f;0x4a7484aa;0x5cb0a9dc;0x76f988da;
  0x983e5152;0xa831c66d;0xb00327c8;0xbf597fc7;0xc6e00bf3;0xd5a79147;0x06ca6351;0x14292967;0x27b70a85;0x2e1b2138;0x4d2c6dfc;0x53380d13;
  0x650a7354;0x766a0abb;0x81c2c92e;0x92722c85;0xa2bfe8a1;0xa81a664b;0xc24b8b70;0xc76c51a3;0xd192e819;0xd6990624;0xf40e3585;0x106aa070;
  0x19a4c116;0x1e376c08;0x2748774c;0x34b0bcb5;0x391c0cb3;0x4ed8aa4a;0x5b9cca4f;0x682e6ff3;0x748f82ee;0x78a5636f;0x84c87814;0x8cc70208;
  0x90befffa;0xa4506ceb;0xbef9a3f7;0xc67178f2 |]
let m32 = 0xFFFFFFFF
let rotr x n = ((x lsr n) lor (x lsl (32 - n))) land m32
let sha256_raw (msg : string) : string =
  let h = [| 0x6a09e667; 0xbb67ae85; 0x3c6ef372; 0xa54ff53a; 0x510e527f; 0x9b05688c; 0x1f83d9ab; 0x5be0cd19 |] in
  let ml = String.length msg in
  let padlen = let r = (ml + 9) mod 64 in if r = 0 then 0 else 64 - r in
  let total = ml + 9 + padlen in
  let m = Bytes.make total '\000' in
  Bytes.blit_string msg 0 m 0 ml;
  Bytes.set m ml '\x80';
  let bits = ml * 8 in
  for i = 0 to 7 do Bytes.set m (total - 1 - i) (Char.chr ((bits lsr (8 * i)) land 255)) done;
  let w = Array.make 64 0 in
  for blk = 0 to total / 64 - 1 do
    for i = 0 to 15 do
      let o = blk * 64 + i * 4 in
      w.(i) <- (Char.code (Bytes.get m o) lsl 24) lor (Char.code (Bytes.get m (o+1)) lsl 16)
               lor (Char.code (Bytes.get m (o+2)) lsl 8) lor Char.code (Bytes.get m (o+3))
    done;
    for i = 16 to 63 do
      let s0 = rotr w.(i-15) 7 lxor rotr w.(i-15) 18 lxor (w.(i-15) lsr 3) in
      let s1 = rotr w.(i-2) 17 lxor rotr w.(i-2) 19 lxor (w.(i-2) lsr 10) in
      w.(i) <- (w.(i-16) + s0 + w.(i-7) + s1) land m32
    done;
    let a = ref h.(0) and b = ref h.(1) and c = ref h.(2) and d = ref h.(3)
    and e = ref h.(4) and f = ref h.(5) and g = ref h.(6) and hh = ref h.(7) in
    for i = 0 to 63 do
      let s1 = rotr !e 6 lxor rotr !e 11 lxor rotr !e 25 in
      let ch = (!e land !f) lxor ((lnot !e) land m32 land !g) in
      let t1 = (!hh + s1 + ch + k256.(i) + w.(i)) land m32 in
      let s0 = rotr !a 2 lxor rotr !a 13 lxor rotr !a 22 in
      let mj = (!a land !b) lxor (!a land !c) lxor (!b land !c) in
      let t2 = (s0 + mj) land m32 in
      hh := !g; g := !f; f := !e; e := (!d + t1) land m32; d := !c; c := !b; b := !a; a := (t1 + t2) land m32
    done;
    h.(0) <- (h.(0) + !a) land m32; h.(1) <- (h.(1) + !b) land m32; h.(2) <- (h.(2) + !c) land m32; h.(3) <- (h.(3) + !d) land m32;
    h.(4) <- (h.(4) + !e) land m32; h.(5) <- (h.(5) + !f) land m32; h.(6) <- (h.(6) + !g) land m32; h.(7) <- (h.(7) + !hh) land m32
  done;
  String.init 32 (fun i -> Char.chr ((h.(i / 4) lsr (8 * (3 - i mod 4))) land 255))
let hmac_raw (key : string) (msg : string) : string =
  let key = if String.length key > 64 then sha256_raw key else key in
  let key = key ^ String.make (64 - String.length key) '\000' in
  let xor c = String.map (fun k -> Char.chr (Char.code k lxor c)) key in
  sha256_raw (xor 0x5c ^ sha256_raw (xor 0x36 ^ msg))
let sha256_m (b : n list) : n list = bytes_of_string (sha256_raw (string_of_bytes b))
let hmac_m (k : n list) (b : n list) : n list = bytes_of_string (hmac_raw (string_of_bytes k) (string_of_bytes b))

(* ---- replay ---- *)
type mkcase =
  | NoCase
  | DataCase of name * dconfig * n list list option * signer option * n list option * string    (* inputs + signature value + SigCovered of Make* *)
  | IntCase of name * iconfig * n list list option * signer option * n list option * name * string   (* ... + final name *)

let field_of (key : string) (s : string) : string option =
  try
    let i = Str.search_forward (Str.regexp_string (key ^ "=")) s 0 in
    let st = i + String.length key + 1 in
    let e = (try String.index_from s st ' ' with Not_found -> String.length s) in
    Some (String.sub s st (e - st))
  with Not_found -> None

let reader_of mode (segs : n list list) : reader =
  if mode = "B" then BR (List.concat segs, O) else new_wire_reader segs

let slow_report = (try Sys.getenv "PACKET_SLOW" <> "" with Not_found -> false)

let () =
  let lineno = ref 0 and compared = ref 0 and skipped = ref 0 in
  let cur = ref NoCase in
  let diverge kind m i = Printf.printf "DIVERGE %d %s model=%s impl=%s\n" !lineno kind m i in
  let specfail kind d = Printf.printf "SPECFAIL %d %s %s\n" !lineno kind d in
  let split_impl toks =
    let rec go acc = function "=>" :: rest -> (List.rev acc, String.concat " " rest) | x :: r -> go (x :: acc) r | [] -> (List.rev acc, "") in
    go [] toks in
  (try
    while true do
      let line = input_line stdin in
      incr lineno;
      let t0 = Sys.time () in
      (try
      match String.split_on_char ' ' line with
      | "MKDATA" :: rest ->
          (match split_impl rest with
           | ([nm; ct; fr; fb; content; sg; pick], impl) ->
               let nm = name_of_string nm in
               let cfg = { dc_ctype = opt_of n_of_dec ct; dc_fresh = opt_of z_of_dec fr; dc_fbid = opt_of comp_of_string fb } in
               let content = wire_of_string content in
               let sgfail = (sg = "fail") in
               let sg = if sgfail then None else signer_of_string sg in
               let pickv = opt_of bytes_of_hexf pick in
               let m = if sgfail then "err" else match make_data (fun _ -> pickv) nm cfg content sg with
                 | Ok e -> Printf.sprintf "ok segs=%s cov=%s" (string_of_wire e.e_wire) (cov_s e.e_cov)
                 | Err -> "err" | Panic -> "panic" in
               incr compared;
               if m <> impl then diverge "MKDATA" m impl;
               let sv = (match sg, pickv with
                         | Some s, Some _ when N.ltb N0 s.sg_est && s.sg_type <> Zneg XH -> pickv
                         | _ -> None) in
               cur := if String.length impl >= 2 && String.sub impl 0 2 = "ok" then DataCase (nm, cfg, content, sg, sv, (match field_of "cov" impl with Some c -> c | None -> "-")) else NoCase
           | _ -> Printf.printf "BADLINE %d\n" !lineno)
      | "MKINT" :: rest ->
          (match split_impl rest with
           | ([nm; cbp; mbf; fh; nonce; life; hop; app; sg; pick], impl) ->
               let nm = name_of_string nm in
               let cfg = { ic_cbp = (cbp = "1"); ic_mbf = (mbf = "1"); ic_fh = names_of_string fh; ic_nonce = opt_of n_of_dec nonce;
                           ic_life = opt_of z_of_dec life; ic_hop = opt_of n_of_dec hop } in
               let app = wire_of_string app in
               let sgfail = (sg = "fail") in
               let sg = if sgfail then None else signer_of_string sg in
               let pickv = opt_of bytes_of_hexf pick in
               let res = make_interest sha256_m (fun _ -> pickv) nm cfg app sg in
               let m = if sgfail then "err" else match res with
                 | Ok e -> Printf.sprintf "ok segs=%s cov=%s final=%s" (string_of_wire e.e_wire) (cov_s e.e_cov) (string_of_name e.e_final)
                 | Err -> "err" | Panic -> "panic" in
               incr compared;
               if m <> impl then diverge "MKINT" m impl;
               let sv = (match sg, pickv with
                         | Some s, Some _ when N.ltb N0 s.sg_est && s.sg_type <> Zneg XH -> pickv
                         | _ -> None) in
               (* the final name reported by the implementation is the last field of its observation *)
               let final = (try
                   let i = Str.search_forward (Str.regexp "final=") impl 0 in
                   Some (name_of_string (String.sub impl (i + 6) (String.length impl - i - 6)))
                 with Not_found -> None) in
               cur := (match final with Some f -> IntCase (nm, cfg, app, sg, sv, f, (match field_of "cov" impl with Some c -> c | None -> "-")) | None -> NoCase)
           | _ -> Printf.printf "BADLINE %d\n" !lineno)
      | "RD" :: what :: mode :: segs :: rt :: "=>" :: implt ->
          let impl = String.concat " " implt in
          let segs = (match wire_of_string segs with Some s -> s | None -> []) in
          let r = reader_of mode segs in
          let fmt_d d cov = Printf.sprintf "ok %s cov=%s" (string_of_dobs (obs_data d)) (cov_s cov) in
          let fmt_i i cov = Printf.sprintf "ok %s cov=%s" (string_of_iobs (obs_int i)) (cov_s cov) in
          let m = (match what with
            | "data" -> (match read_data r with ROk (d, cov) -> fmt_d d cov | RErr -> "err" | RPanic -> "panic" | RUnmodelled -> "unmodelled")
            | "int" -> (match read_interest sha256_m r with ROk (i, cov) -> fmt_i i cov | RErr -> "err" | RPanic -> "panic" | RUnmodelled -> "unmodelled")
            | _ -> (match read_packet sha256_m r with
                    | ROk (PData d, cov) -> "D" ^ fmt_d d cov | ROk (PInt i, cov) -> "I" ^ fmt_i i cov
                    | RErr -> "err" | RPanic -> "panic" | RUnmodelled -> "unmodelled")) in
          if m = "unmodelled" then (incr skipped; Printf.printf "SKIP %d\n" !lineno)
          else begin
            incr compared;
            if m <> impl then diverge ("RD-" ^ what ^ "-" ^ mode) m impl
          end;
          (* specification on the implementation's observation: an untampered API-built packet decodes to the inputs *)
          if rt = "1" then begin
            let strip s = if String.length s > 0 && (s.[0] = 'D' || s.[0] = 'I') then String.sub s 1 (String.length s - 1) else s in
            let impl' = strip impl in
            let nocov s = (try String.sub s 0 (Str.search_forward (Str.regexp " cov=") s 0) with Not_found -> s) in
            match !cur with
            | DataCase (nm, cfg, content, sg, sv, mkcov) ->
                let exp = "ok " ^ string_of_dobs (expected_data nm cfg content sg sv) in
                if nocov impl' <> exp then specfail ("roundtrip-data-" ^ mode) (Printf.sprintf "expected=[%s] got=[%s]" exp (nocov impl'));
                (match sv, field_of "cov" impl' with
                 | Some _, Some c when c <> mkcov -> specfail ("sigcovered-data-" ^ mode) (Printf.sprintf "signed=[%s] parsed=[%s]" mkcov c)
                 | Some _, None -> specfail ("sigcovered-data-" ^ mode) "no covered range returned"
                 | _ -> ())
            | IntCase (_, cfg, app, sg, sv, final, mkcov) ->
                let exp = "ok " ^ string_of_iobs (expected_int final cfg app sg sv) in
                if nocov impl' <> exp then specfail ("roundtrip-int-" ^ mode) (Printf.sprintf "expected=[%s] got=[%s]" exp (nocov impl'));
                (match sv, field_of "cov" impl' with
                 | Some _, Some c when c <> mkcov -> specfail ("sigcovered-int-" ^ mode) (Printf.sprintf "signed=[%s] parsed=[%s]" mkcov c)
                 | Some _, None -> specfail ("sigcovered-int-" ^ mode) "no covered range returned"
                 | _ -> ())
            | NoCase -> ()
          end
      | ["WALK"; h; v] ->
          let m = walk_packet (bytes_of_hexf h) in
          incr compared;
          if not m then specfail "tlv-exact" ("walker rejects " ^ h);
          if (if m then "1" else "0") <> v then diverge "WALK" (if m then "1" else "0") v
      | ["NAMEB"; nm; h; rt] ->
          let n = name_of_string nm in
          let m = hexf_of_bytes (name_tlv n) in
          incr compared;
          if m <> h then diverge "NAMEB" m h;
          (match name_from_bytes (bytes_of_hexf h) with
           | Some n' when n' = n -> if rt <> "1" then specfail "name-bytes-roundtrip" ("NameFromBytes(Name.Bytes()) does not return the name: " ^ h)
           | _ -> specfail "name-bytes-roundtrip" ("Name.Bytes() does not decode to the name: " ^ h))
      | ["COMPB"; c; h; rt] ->
          let c = comp_of_string c in
          let m = hexf_of_bytes (comp_enc c) in
          incr compared;
          if m <> h then diverge "COMPB" m h;
          (match comp_from_bytes (bytes_of_hexf h) with
           | Some c' when c' = c -> if rt <> "1" then specfail "comp-bytes-roundtrip" ("ComponentFromBytes(Component.Bytes()) does not return the component: " ^ h)
           | _ -> specfail "comp-bytes-roundtrip" ("Component.Bytes() does not decode to the component: " ^ h))
      | ["VALID"; kind; key; cov; st; sv; verdict] ->
          incr compared;
          if verdict <> "1" then specfail ("validate-" ^ kind) "the matching validator rejects an untampered packet built with this signer";
          let cov = [bytes_of_hexf cov] and st = z_of_dec st and sv = bytes_of_hexf sv in
          if kind = "sha256" || kind = "sha256int" then
            (let m = sha256_validate sha256_m cov st sv in if (if m then "1" else "0") <> verdict then diverge "VALID-sha256" (if m then "1" else "0") verdict)
          else if kind = "hmac" || kind = "hmacint" then
            (let m = hmac_validate hmac_m (bytes_of_hexf key) cov st sv in if (if m then "1" else "0") <> verdict then diverge "VALID-hmac" (if m then "1" else "0") verdict)
      | ["DIGEST"; pkt; last] ->
          incr compared;
          (match params_digest_region (bytes_of_hexf pkt) with
           | Some reg -> if hexf_of_bytes (sha256_m reg) <> last then specfail "params-digest" ("last name component is not the SHA-256 of the parameters region: " ^ pkt)
           | None -> specfail "params-digest" ("no ApplicationParameters element found in " ^ pkt))
      | ["SAME"; tag; a; b] ->
          incr compared;
          if a <> b then specfail ("same-" ^ tag) (Printf.sprintf "%s <> %s" a b)
      | ["TAMPER"; id; bit; region; outcome] ->
          incr compared;
          if outcome = "accepted" then specfail ("tamper-" ^ region) (Printf.sprintf "packet %s with bit %s flipped is still accepted" id bit)
      | "SFACT" :: _ -> ()
      | [""] | [] -> ()
      | "#" :: _ -> ()
      | _ -> Printf.printf "BADLINE %d\n" !lineno
      with Failure msg -> Printf.printf "BADLINE %d %s\n" !lineno msg);
      let dt = Sys.time () -. t0 in
      if slow_report && dt > 0.25 then Printf.eprintf "SLOW %d %.2fs %s\n" !lineno dt (String.sub line 0 (min 60 (String.length line)))
    done
  with End_of_file -> ());
  Printf.printf "DONE %d %d %d\n" !lineno !compared !skipped
