(* runner/Engine/driver.ml — replays the harness trace for C20 on the extracted Coq model (correspondence) and
   evaluates the extracted spec checker on the implementation's observations (oracle).

   Trace (written by harness/engine), per case:
     case <k> <title>
     gop ...                         generator-level op (ignored here; kept for replay)
     op <kind> <args...> @<ms>       one top-level operation, followed by what the implementation showed:
       nop express <nm> <cbp> <dig> <life> t=<ms>     Express called from inside a callback during this op
       cb <pid> data <name> <dd> | cb <pid> nack <reason> | cb <pid> timeout <ms>
       out int <pid> | out data <iid> | ret ok|err|deadline|noreply | handler <hid> <deadline>|none
       pit <path>:<pid,pid..>;...    reachable PIT nodes (sorted)        fib <path>:<hid|->;...
     end
   Output:
     DIVERGE <case> <op#> <what> model=[..] impl=[..]      model and implementation disagree (first per case)
     ORACLE <case> <op#> <verdict> | <op text>             the implementation's observations break the spec
     CASE <case> <nops> <kinds> <nontrivial 0|1> <hash> <same-instant orders explored 0|1>    statistics
     DONE <cases>
   Usage: runner [pinned|current|d,n,g,t] [oracle]   (variant, default current; "oracle" = no model replay) *)
open Engine_model

let rec pos_of_int (i : int) : positive =
  if i = 1 then XH else if i land 1 = 0 then XO (pos_of_int (i lsr 1)) else XI (pos_of_int (i lsr 1))
let n_of_int (i : int) : n = if i = 0 then N0 else Npos (pos_of_int i)
let rec int_of_pos = function XH -> 1 | XO p -> 2 * int_of_pos p | XI p -> 2 * int_of_pos p + 1
let int_of_n = function N0 -> 0 | Npos p -> int_of_pos p
let rec nat_of_int (i : int) : nat = if i <= 0 then O else S (nat_of_int (i - 1))
let rec int_of_nat = function O -> 0 | S n -> 1 + int_of_nat n

let name_of_string (s : string) : n list =
  if s = "-" || s = "" then [] else List.map (fun x -> n_of_int (int_of_string x)) (String.split_on_char '/' s)
let string_of_name (n : n list) : string =
  if n = [] then "-" else String.concat "/" (List.map (fun x -> string_of_int (int_of_n x)) n)
let opt_n (s : string) : n option = if s = "-" then None else Some (n_of_int (int_of_string s))
let opt_tok (s : string) : n option = if s = "-" then None else Some (n_of_int (int_of_string ("0x" ^ s) land 0xffffff))

let string_of_obs (o : obs) : string =
  match o with
  | OCb (p, RData (dn, dd)) -> Printf.sprintf "cb %d data %s %d" (int_of_nat p) (string_of_name dn) (int_of_n dd)
  | OCb (p, RNack r) -> Printf.sprintf "cb %d nack %d" (int_of_nat p) (int_of_n r)
  | OCb (p, RTimeout t) -> Printf.sprintf "cb %d timeout %d" (int_of_nat p) (int_of_n t)
  | OSendInt p -> Printf.sprintf "out int %d" (int_of_nat p)
  | OHandler (h, d) -> Printf.sprintf "handler %d %d" (int_of_n h) (int_of_n d)
  | ONoHandler -> "handler none"
  | OSendData i -> Printf.sprintf "out data %d" (int_of_nat i)
  | ORet c -> (match int_of_n c with 0 -> "ret ok" | 1 -> "ret err" | 2 -> "ret deadline" | _ -> "ret noreply")
  | OPanic -> "panic"

let obs_of_string (l : string) : obs option =
  match String.split_on_char ' ' l with
  | ["cb"; p; "data"; nm; dd] -> Some (OCb (nat_of_int (int_of_string p), RData (name_of_string nm, n_of_int (int_of_string dd))))
  | ["cb"; p; "nack"; r] -> Some (OCb (nat_of_int (int_of_string p), RNack (n_of_int (int_of_string r))))
  | ["cb"; p; "timeout"; t] -> Some (OCb (nat_of_int (int_of_string p), RTimeout (n_of_int (int_of_string t))))
  | ["out"; "int"; p] -> Some (OSendInt (nat_of_int (int_of_string p)))
  | ["out"; "data"; i] -> Some (OSendData (nat_of_int (int_of_string i)))
  | ["handler"; "none"] -> Some ONoHandler
  | ["handler"; h; d] -> Some (OHandler (n_of_int (int_of_string h), n_of_int (int_of_string d)))
  | ["ret"; "ok"] -> Some (ORet (n_of_int 0))
  | ["ret"; "err"] -> Some (ORet (n_of_int 1))
  | ["ret"; "deadline"] -> Some (ORet (n_of_int 2))
  | ["ret"; "noreply"] -> Some (ORet (n_of_int 3))
  | _ -> None

let string_of_verdict = function
  | VNotPending p -> Printf.sprintf "not-pending pid=%d" (int_of_nat p)
  | VDataMissed p -> Printf.sprintf "data-missed pid=%d" (int_of_nat p)
  | VDataWrong p -> Printf.sprintf "data-wrong pid=%d" (int_of_nat p)
  | VNackWrong p -> Printf.sprintf "nack-wrong pid=%d" (int_of_nat p)
  | VTimeoutEarly p -> Printf.sprintf "timeout-early pid=%d" (int_of_nat p)
  | VUnexpected -> "unexpected-observation"
  | VHandler -> "handler-not-longest-prefix"
  | VReplyLate i -> Printf.sprintf "reply-late iid=%d" (int_of_nat i)
  | VUnresolved p -> Printf.sprintf "unresolved pid=%d" (int_of_nat p)
  | VAttachRet -> "attach-detach-return"
  | VPanic -> "panic"

let cmp_path (a : int list) (b : int list) = compare a b
let canon_dump (items : (n list * string) list) : string =
  let items = List.map (fun (p, s) -> (List.map int_of_n p, s)) items in
  let items = List.sort (fun (a, _) (b, _) ->
    let rec go x y = match x, y with
      | [], [] -> 0 | [], _ -> -1 | _, [] -> 1
      | u :: x', v :: y' -> if u <> v then compare u v else go x' y' in go a b) items in
  String.concat ";" (List.map (fun (p, s) ->
    (if p = [] then "-" else String.concat "/" (List.map string_of_int p)) ^ ":" ^ s) items)

(* [hidden]: Interests expressed with a nil callback: the harness cannot see them (neither in callbacks nor in the dumps) *)
let pit_string (hidden : int list) (s : state) : string =
  canon_dump (List.map (fun (p, ids) ->
    (p, String.concat "," (List.filter_map (fun i -> let k = int_of_nat i in if List.mem k hidden then None else Some (string_of_int k)) ids)))
    (dump_pit s))
let fib_string (s : state) : string =
  canon_dump (List.map (fun (p, h) -> (p, match h with Some x -> string_of_int (int_of_n x) | None -> "-")) (dump_fib s))

type op = { text : string; at : int; mutable nops : (string * int) list; mutable nocb : int list; mutable cbs : string list;
            mutable outs : string list; mutable pit : string; mutable fib : string }

let split_digest (full : n list) : n list * n option =
  (* the harness writes the full name of a nacked Interest; a digest component has key >= 100 *)
  match List.rev full with
  | last :: rest when int_of_n last >= 100 -> (List.rev rest, Some last)
  | _ -> (full, None)

(* nested operations: Express called from a callback, or the answer the replying face feeds in during Send *)
let parse_express (f : string list) : ev option =
  match f with
  | "express" :: nm :: cbp :: dig :: life :: _ -> Some (EExpress (name_of_string nm, cbp = "1", opt_n dig, opt_n life))
  | "expressfail" :: nm :: cbp :: dig :: life :: _ -> Some (EExpressFail (name_of_string nm, cbp = "1", opt_n dig, opt_n life))
  | "attach" :: nm :: h :: _ -> Some (EAttach (name_of_string nm, n_of_int (int_of_string h)))    (* made by a handler *)
  | "detach" :: nm :: _ -> Some (EDetach (name_of_string nm))
  | "reply" :: i :: _ -> Some (EReply (nat_of_int (int_of_string i)))
  | ["data"; nm; dd] -> Some (EData (name_of_string nm, n_of_int (int_of_string dd)))
  | ["nack"; nm; r] -> let (nm', dig) = split_digest (name_of_string nm) in Some (ENack (nm', dig, n_of_int (int_of_string r)))
  | _ -> None

(* last field "t=.." / "@.." *)
let strip_at (fields : string list) : string list * int =
  match List.rev fields with
  | last :: rest when String.length last > 0 && last.[0] = '@' ->
      (List.rev rest, int_of_string (String.sub last 1 (String.length last - 1)))
  | last :: rest when String.length last > 2 && String.sub last 0 2 = "t=" ->
      (List.rev rest, int_of_string (String.sub last 2 (String.length last - 2)))
  | _ -> (fields, 0)

let timeout_key (l : string) : int * int =
  match String.split_on_char ' ' l with
  | ["cb"; p; "timeout"; t] -> (int_of_string t, int_of_string p)
  | "cb" :: p :: _ -> (0, int_of_string p)
  | _ -> (0, 0)

let variant_of_string (s : string) : variant =
  match s with
  | "pinned" -> pinned
  | "current" -> current
  | _ ->
    (match String.split_on_char ',' s with
     | [a; b; c; d] -> { v_delif = a = "1"; v_nack = b = "1"; v_nackdig = c = "1"; v_detach = d = "1" }
     | _ -> current)

let () =
  let v = if Array.length Sys.argv > 1 then variant_of_string Sys.argv.(1) else current in
  (* second argument "oracle": only the spec checker is run on the implementation's observations (configuration with the
     dummy timer, whose firing discipline is not the real timer's) *)
  let oracle_only = Array.length Sys.argv > 2 && Sys.argv.(2) = "oracle" in
  let lines = ref [] in
  (try while true do lines := input_line stdin :: !lines done with End_of_file -> ());
  let lines = List.rev !lines in
  (* split into cases *)
  let cases = ref [] and cur_title = ref "" and cur_ops = ref [] and cur_op = ref None and in_case = ref false in
  let flush_op () = (match !cur_op with Some o -> cur_ops := o :: !cur_ops | None -> ()); cur_op := None in
  List.iter (fun l ->
    let f = String.split_on_char ' ' l in
    match f with
    | "case" :: _ -> in_case := true; cur_title := l; cur_ops := []; cur_op := None
    | ["end"] -> if !in_case then begin flush_op (); cases := (!cur_title, List.rev !cur_ops) :: !cases; in_case := false end
    | "op" :: rest ->
        flush_op ();
        let (fields, at) = strip_at rest in
        cur_op := Some { text = String.concat " " fields; at; nops = []; nocb = []; cbs = []; outs = []; pit = ""; fib = "" }
    | "nop" :: rest ->
        let (fields, t) = strip_at rest in
        (match !cur_op with Some o -> o.nops <- o.nops @ [(String.concat " " fields, t)] | None -> ())
    | ["nocb"; p] -> (match !cur_op with Some o -> o.nocb <- o.nocb @ [int_of_string p] | None -> ())
    | "cb" :: _ -> (match !cur_op with Some o -> o.cbs <- o.cbs @ [l] | None -> ())
    | ("out" | "ret" | "handler") :: _ -> (match !cur_op with Some o -> o.outs <- o.outs @ [l] | None -> ())
    | "pit" :: r -> (match !cur_op with Some o -> o.pit <- String.concat " " r | None -> ())
    | "fib" :: r -> (match !cur_op with Some o -> o.fib <- String.concat " " r | None -> ())
    | _ -> ()) lines;
  let cases = List.rev !cases in
  let ncase = ref 0 in
  List.iter (fun (title, ops) ->
    let cid = (match String.split_on_char ' ' title with _ :: k :: _ -> k | _ -> "?") in
    incr ncase;
    (* ---------------- model side ----------------
       The model is run as a set of candidate states: timers that fire at the same virtual instant run in goroutines
       of their own, so when a callback re-enters Express at such an instant the order (which decides whether the
       re-expressed Interest lands on the old node or on a re-created one) is not defined.  Every admissible order is
       explored; candidates whose observations differ from the implementation's are dropped; a case diverges when no
       candidate is left. *)
    let states = ref [init] in
    let hidden = ref [] in          (* Interests expressed with a nil callback *)
    let face_up = ref true in       (* engine.Stop / Start: kept by the driver, the model has no face *)
    let diverged = ref oracle_only in
    let kinds = Hashtbl.create 8 in
    let any_cb = ref false in
    let by_of txt = List.fold_left (fun acc w ->
        if String.length w > 3 && String.sub w 0 3 = "by=" then int_of_string (String.sub w 3 (String.length w - 3)) else acc)
        (-1) (String.split_on_char ' ' txt) in
    let cb_pids (ob : obs list) = List.filter_map (function OCb (p, _) -> Some (int_of_nat p) | _ -> None) ob in
    let state_key (s : state) =
      let nodes h = List.init (int_of_nat (hnext h)) (fun i -> hget h (nat_of_int i)) in
      (now s, nodes (pit s), nodes (fib s), timers s, npid s, inc s, panicked s) in
    List.iteri (fun idx o ->
      let f = String.split_on_char ' ' o.text in
      Hashtbl.replace kinds (List.hd f) ();
      if o.cbs <> [] then any_cb := true;
      hidden := o.nocb @ !hidden;
      if not !diverged then begin
        let step1 (st, ob) e = let (s', ob') = step v st e in (s', ob @ ob') in
        let nop_ev (txt, _) = parse_express (String.split_on_char ' ' txt) in
        let with_nops acc = List.fold_left (fun acc n -> match nop_ev n with Some e -> step1 acc e | None -> acc) acc o.nops in
        let budget = ref 3000 in
        (* all outcomes of moving the clock of [st] to [target] with the nested Express calls [nops] (time-ordered) *)
        let rec advance (st, ob) nops target : (state * obs list) list =
          if !budget <= 0 then [] else
          let due = next_due st (n_of_int target) in
          let tn = (match nops with (_, t) :: _ -> Some t | [] -> None) in
          let tt = (match due with Some (_, t) -> Some (int_of_n t) | None -> None) in
          let inst = (match tt, tn with
            | None, None -> None
            | Some a, None -> Some a
            | None, Some b -> Some b
            | Some a, Some b -> Some (min a b)) in
          match inst with
          | None -> decr budget; [step1 (st, ob) (EAdvance (n_of_int (target - int_of_n (now st))))]
          | Some t ->
              let d = max 0 (t - int_of_n (now st)) in
              let (st1, ob1) = step1 (st, ob) (EAdvance (n_of_int d)) in
              let here = List.filter (fun (_, t') -> t' <= t) nops and later = List.filter (fun (_, t') -> t' > t) nops in
              if here = [] then begin
                (* no re-entrant Express at this instant: the order of the due timers does not matter; lowest id first *)
                match due with
                | Some (tid, _) ->
                    let acc = step1 (st1, ob1) (EFire tid) in
                    let acc = step1 acc (ERun tid) in
                    advance acc nops target
                | None -> advance (st1, ob1) nops target
              end else begin
                (* every interleaving of the timers due now and the nested Express calls (each after its trigger) *)
                let due_now st = List.filter_map (fun x -> x)
                  (List.mapi (fun i tm -> match tm.tst with
                     | TSched when int_of_n tm.tfire <= t -> Some (i, int_of_nat tm.tnode)
                     | _ -> None) (timers st)) in
                let rec inter (st, ob) here seen : (state * obs list) list =
                  if !budget <= 0 then [] else
                  let ds = due_now st in
                  let opts_t =
                    (* timers on the same node are interchangeable: try the lowest id per node *)
                    let rec uniq acc = function
                      | [] -> List.rev acc
                      | (i, n) :: r -> if List.exists (fun (_, n') -> n' = n) acc then uniq acc r else uniq ((i, n) :: acc) r in
                    uniq [] ds in
                  let res_t = List.concat_map (fun (tid, _) ->
                      let acc = step1 (st, []) (EFire (nat_of_int tid)) in
                      let (st', ob') = step1 acc (ERun (nat_of_int tid)) in
                      inter (st', ob @ ob') here (cb_pids ob' @ seen)) opts_t in
                  let res_n = (match here with
                    | (txt, t') :: rest when List.mem (by_of txt) seen || by_of txt < 0 || ds = [] ->
                        (match nop_ev (txt, t') with
                         | Some e -> inter (step1 (st, ob) e) rest seen
                         | None -> inter (st, ob) rest seen)
                    | _ -> []) in
                  if ds = [] && here = [] then advance (st, ob) later target
                  else res_t @ res_n in
                inter (st1, ob1) here []
              end in
        let outcomes (st : state) : (state * obs list) list =
          match f with
          | "express" :: _ | "expressfail" :: _ -> (match parse_express f with Some e -> [with_nops (step1 (st, []) e)] | None -> [(st, [])])
          | ["data"; nm; dd] -> [with_nops (step1 (st, []) (EData (name_of_string nm, n_of_int (int_of_string dd))))]
          | ["nack"; nm; r] ->
              (* the harness writes the full name; a digest component has key >= 100 *)
              let full = name_of_string nm in
              let (nm', dig) = (match List.rev full with
                | last :: rest when int_of_n last >= 100 -> (List.rev rest, Some last)
                | _ -> (full, None)) in
              [with_nops (step1 (st, []) (ENack (nm', dig, n_of_int (int_of_string r))))]
          | ["adv"; d] -> advance (st, []) o.nops (int_of_n (now st) + int_of_string d)
          | "datafire" :: _ | "nackfire" :: _ ->
              (* the packet is processed while the clock moves by d and every timer due by then FIRES (its closure waits for
                 the PIT lock); then the closures run: EAdvance d; EFire..; EData/ENack; ERun.. *)
              let (pkt, d) = (match f with
                | ["datafire"; nm; dd; d] -> (EData (name_of_string nm, n_of_int (int_of_string dd)), int_of_string d)
                | ["nackfire"; nm; r; d] ->
                    let full = name_of_string nm in
                    let (nm', dig) = (match List.rev full with
                      | last :: rest when int_of_n last >= 100 -> (List.rev rest, Some last)
                      | _ -> (full, None)) in
                    (ENack (nm', dig, n_of_int (int_of_string r)), int_of_string d)
                | _ -> (EAdvance N0, 0)) in
              let acc = step1 (st, []) (EAdvance (n_of_int d)) in
              let due = List.filter_map (fun x -> x)
                (List.mapi (fun i tm -> match tm.tst with
                   | TSched when int_of_n tm.tfire <= int_of_n (now (fst acc)) -> Some i
                   | _ -> None) (timers (fst acc))) in
              let acc = List.fold_left (fun a i -> step1 a (EFire (nat_of_int i))) acc due in
              let acc = step1 acc pkt in
              let acc = List.fold_left (fun a i -> step1 a (ERun (nat_of_int i))) acc due in
              [with_nops acc]
          | ["attach"; nm; h] -> [step1 (st, []) (EAttach (name_of_string nm, n_of_int (int_of_string h)))]
          | ["detach"; nm] -> [step1 (st, []) (EDetach (name_of_string nm))]
          | ["interest"; nm; life; tok] -> [with_nops (step1 (st, []) (EInterest (name_of_string nm, opt_n life, opt_tok tok)))]
          | ["reply"; i] ->
              let (st', ob) = step1 (st, []) (EReply (nat_of_int (int_of_string i))) in
              (* through a face that is not running the reply closure returns ErrFaceDown after the deadline test *)
              if (not !face_up) && List.exists (function OSendData _ -> true | _ -> false) ob
              then [(st', [ORet (n_of_int 1)])] else [(st', ob)]
          | ["junk"; _] -> [(st, [])]     (* malformed / unsupported arrival, face error, arrival at a stopped face: nothing happens *)
          | ["facestop"] -> [(st, [ORet (n_of_int (if !face_up then 0 else 1))])]
          | ["facestart"] -> [(st, [ORet (n_of_int (if !face_up then 1 else 0))])]
          | _ -> Printf.printf "BADLINE %s op %s\n" cid o.text; [(st, [])] in
        let is_cb l = String.length l > 3 && String.sub l 0 3 = "cb " in
        let is_adv = (List.hd f = "adv") in
        let is_fire = (List.hd f = "datafire" || List.hd f = "nackfire") in
        (* the callbacks produced by ONE event are compared as a multiset: the property does not constrain their order
           (re-entrant Express calls made by them are replayed in the order the implementation made them) *)
        let _ = is_fire in
        let srt l = if is_adv then List.sort (fun a b -> compare (timeout_key a) (timeout_key b)) l
                    else List.sort compare l in
        let icbs = srt o.cbs and iouts = List.sort compare o.outs in
        (* first difference between a candidate and the implementation, if any *)
        let differs (st, mobs) : (string * string * string) option =
          let mstr = List.map string_of_obs mobs in
          let cb_hidden l = (match String.split_on_char ' ' l with "cb" :: p :: _ -> List.mem (int_of_string p) !hidden | _ -> false) in
          let mcbs = srt (List.filter (fun l -> is_cb l && not (cb_hidden l)) mstr) and mouts = List.sort compare (List.filter (fun l -> not (is_cb l)) mstr) in
          if mcbs <> icbs then Some ("callbacks", String.concat "; " mcbs, String.concat "; " icbs)
          else if mouts <> iouts then Some ("outputs", String.concat "; " mouts, String.concat "; " iouts)
          else let mp = pit_string !hidden st in
          if mp <> o.pit then Some ("pit", mp, o.pit)
          else let mf = fib_string st in
          if mf <> o.fib then Some ("fib", mf, o.fib)
          else if int_of_n (now st) <> o.at then Some ("clock", string_of_int (int_of_n (now st)), string_of_int o.at)
          else None in
        let cands = List.concat_map outcomes !states in
        (match f with ["facestop"] -> face_up := false | ["facestart"] -> face_up := true | _ -> ());
        if List.length cands > List.length !states then Hashtbl.replace kinds "~orders" ();
        let good = List.filter (fun c -> differs c = None) cands in
        if good = [] then begin
          diverged := true;
          (match cands with
           | c :: _ -> (match differs c with
               | Some (what, m, i) ->
                   Printf.printf "DIVERGE %s %d %s model=[%s] impl=[%s] candidates=%d | %s\n" cid idx what m i (List.length cands) o.text
               | None -> ())
           | [] -> Printf.printf "DIVERGE %s %d search-budget model=[] impl=[] candidates=0 | %s\n" cid idx o.text)
        end else begin
          (* drop duplicates (same heap contents, timers, counters) and cap the set *)
          let seen = Hashtbl.create 16 in
          let uniq = List.filter (fun (st, _) ->
            let k = state_key st in
            if Hashtbl.mem seen k then false else (Hashtbl.add seen k (); true)) good in
          let rec take n = function [] -> [] | x :: r -> if n = 0 then [] else x :: take (n - 1) r in
          states := List.map fst (take 64 uniq);
          if List.length !states > 1 then Hashtbl.replace kinds "~nondet" ()
        end
      end) ops;
    (* ---------------- oracle side: the spec checker on the implementation's observations ---------------- *)
    let sp = ref sinit in
    let failed = ref false in
    let feed idx text e (ob : obs list) =
      if not !failed then
        match spec_step !sp e ob with
        | Inl s' -> sp := s'
        | Inr vd -> failed := true; Printf.printf "ORACLE %s %d %s | %s\n" cid idx (string_of_verdict vd) text in
    List.iteri (fun idx o ->
      if not !failed then begin
        let f = String.split_on_char ' ' o.text in
        (* an observation line the model can never produce (e.g. a raw-bytes mismatch reported by the harness) must not be
           dropped silently: it becomes an observation no event accepts *)
        let parse l = List.map (fun x -> match obs_of_string x with Some o -> o | None -> ORet (n_of_int 99)) l in
        let outs = ref o.outs in
        let take_out_int () =
          (* the Interest transmission belonging to the Express that gets the next pid *)
          let want = Printf.sprintf "out int %d" (int_of_nat (sp_npid !sp)) in
          if List.mem want !outs then begin outs := List.filter (fun x -> x <> want) !outs; parse [want] end else [] in
        (* the return value a nested call made by a handler reported: "... ret=ok|err|deadline|noreply" *)
        let ret_of txt = List.concat_map (fun w ->
            if String.length w > 4 && String.sub w 0 4 = "ret=" then parse ["ret " ^ String.sub w 4 (String.length w - 4)] else [])
            (String.split_on_char ' ' txt) in
        let feed_nop (txt, _) =
          match parse_express (String.split_on_char ' ' txt) with
          | Some (EExpress (nm, cbp, dig, life)) -> feed idx ("nested " ^ txt) (SExpress (nm, cbp, dig, life)) (take_out_int ())
          | Some (EExpressFail (nm, cbp, dig, life)) -> feed idx ("nested " ^ txt) (SExpressFail (nm, cbp, dig, life)) [ORet (n_of_int 1)]
          | Some (EAttach (nm, h)) -> feed idx ("in-handler " ^ txt) (SAttach (nm, h)) (ret_of txt)
          | Some (EDetach nm) -> feed idx ("in-handler " ^ txt) (SDetach nm) (ret_of txt)
          | Some (EReply i) ->
              let sent = "out data " ^ string_of_int (int_of_nat i) in
              feed idx ("in-handler " ^ txt) (SReply i) (ret_of txt @ (if List.mem sent !outs && ret_of txt = [ORet (n_of_int 0)] then parse [sent] else []))
          | Some (EData (nm, dd)) -> feed idx ("during-send " ^ txt) (SData (nm, dd)) (parse o.cbs)
          | Some (ENack (nm, dig, r)) -> feed idx ("during-send " ^ txt) (SNack (nm, dig, r)) (parse o.cbs)
          | _ -> () in
        (match f with
         | "express" :: _ when o.nocb <> [] ->
             (* nil callback: nothing can be observed for this Interest; it takes its id and is not required to resolve *)
             (match parse_express f with
              | Some (EExpress (nm, cbp, dig, life)) ->
                  ignore (take_out_int ());
                  feed idx o.text (SExpressFail (nm, cbp, dig, life)) [ORet (n_of_int 1)]
              | _ -> ());
             List.iter feed_nop o.nops
         | ["junk"; _] -> feed idx o.text (SAdvance N0) (parse o.cbs)
         | ["facestop"] | ["facestart"] -> feed idx o.text (SAdvance N0) (parse o.cbs)
         | "express" :: _ ->
             (match parse_express f with
              | Some (EExpress (nm, cbp, dig, life)) ->
                  let mine = take_out_int () in
                  let errs = parse (List.filter (fun x -> x = "ret err") !outs) in
                  feed idx o.text (SExpress (nm, cbp, dig, life)) (if mine <> [] then mine else errs)
              | _ -> ());
             List.iter feed_nop o.nops
         | "expressfail" :: _ ->
             (match parse_express f with
              | Some (EExpressFail (nm, cbp, dig, life)) ->
                  (* a nested Express that failed too reports its own "ret err" *)
                  feed idx o.text (SExpressFail (nm, cbp, dig, life)) (if List.mem "ret err" !outs then [ORet (n_of_int 1)] else [])
              | _ -> ());
             List.iter feed_nop o.nops
         | ["data"; nm; dd] ->
             feed idx o.text (SData (name_of_string nm, n_of_int (int_of_string dd))) (parse o.cbs);
             List.iter feed_nop o.nops
         | ["nack"; nm; r] ->
             let full = name_of_string nm in
             let (nm', dig) = (match List.rev full with
               | last :: rest when int_of_n last >= 100 -> (List.rev rest, Some last)
               | _ -> (full, None)) in
             feed idx o.text (SNack (nm', dig, n_of_int (int_of_string r))) (parse o.cbs);
             List.iter feed_nop o.nops
         | ["datafire"; nm; dd; d] ->
             let is_to l = (match String.split_on_char ' ' l with [_; _; "timeout"; _] -> true | _ -> false) in
             feed idx o.text (SAdvance (n_of_int (int_of_string d))) [];
             feed idx o.text (SData (name_of_string nm, n_of_int (int_of_string dd))) (parse (List.filter (fun l -> not (is_to l)) o.cbs));
             feed idx o.text STimers (parse (List.filter is_to o.cbs));
             List.iter feed_nop o.nops
         | ["nackfire"; nm; r; d] ->
             let is_to l = (match String.split_on_char ' ' l with [_; _; "timeout"; _] -> true | _ -> false) in
             let full = name_of_string nm in
             let (nm', dig) = (match List.rev full with
               | last :: rest when int_of_n last >= 100 -> (List.rev rest, Some last)
               | _ -> (full, None)) in
             feed idx o.text (SAdvance (n_of_int (int_of_string d))) [];
             feed idx o.text (SNack (nm', dig, n_of_int (int_of_string r))) (parse (List.filter (fun l -> not (is_to l)) o.cbs));
             feed idx o.text STimers (parse (List.filter is_to o.cbs));
             List.iter feed_nop o.nops
         | ["adv"; d] ->
             let target = int_of_n (sp_now !sp) + int_of_string d in
             (* instants at which something was observed *)
             let cbt = List.map (fun l -> (fst (timeout_key l), l)) o.cbs in
             let points = List.sort_uniq compare (List.map fst cbt @ List.map snd o.nops) in
             List.iter (fun t ->
               let nowi = int_of_n (sp_now !sp) in
               if t > nowi then feed idx o.text (SAdvance (n_of_int (t - nowi))) [];
               let here = List.filter (fun (t', _) -> t' = t) cbt in
               if here <> [] then begin
                 if t < nowi || t > target then begin
                   failed := true; Printf.printf "ORACLE %s %d callback-outside-advance t=%d | %s\n" cid idx t o.text end
                 else feed idx o.text STimers (parse (List.map snd here)) end;
               List.iter (fun (txt, t') -> if t' = t then feed_nop (txt, t')) o.nops) points;
             let nowi = int_of_n (sp_now !sp) in
             if target > nowi then feed idx o.text (SAdvance (n_of_int (target - nowi))) []
         | ["attach"; nm; h] -> feed idx o.text (SAttach (name_of_string nm, n_of_int (int_of_string h))) (parse o.outs)
         | ["detach"; nm] -> feed idx o.text (SDetach (name_of_string nm)) (parse o.outs)
         | ["interest"; nm; life; tok] ->
             (* what the handler did synchronously (attach / detach / express / reply) follows as nested operations *)
             let mine = List.filter (fun l -> String.length l >= 7 && String.sub l 0 7 = "handler") o.outs in
             feed idx o.text (SInterest (name_of_string nm, opt_n life, opt_tok tok)) (parse mine);
             List.iter feed_nop o.nops
         | ["reply"; i] -> feed idx o.text (SReply (nat_of_int (int_of_string i))) (parse o.outs)
         | _ -> ())
      end) ops;
    if not !failed then
      (match spec_final !sp with
       | Some vd -> Printf.printf "ORACLE %s %d %s | end-of-history\n" cid (List.length ops) (string_of_verdict vd)
       | None -> ());
    let nondet = Hashtbl.mem kinds "~nondet" || Hashtbl.mem kinds "~orders" in
    Hashtbl.remove kinds "~nondet"; Hashtbl.remove kinds "~orders";
    let nk = Hashtbl.length kinds in
    let body = String.concat "\n" (List.map (fun o -> o.text) ops) in
    Printf.printf "CASE %s %d %d %d %s %d\n" cid (List.length ops) nk (if nk >= 3 && !any_cb then 1 else 0)
      (Digest.to_hex (Digest.string body)) (if nondet then 1 else 0)) cases;
  Printf.printf "DONE %d\n" !ncase
