(* runner/Engine/driver.ml — replays the harness trace for C20 on the extracted Coq model (correspondence) and
   evaluates the extracted spec checker on the implementation's observations (oracle).

   Trace (written by harness/engine), per case:
     case <k> <title>
     gop ...                         generator-level op (ignored here; kept for replay)
     op <kind> <args...> @<ms>       one top-level operation, followed by what the implementation showed:
       nop express <nm> <cbp> <dig> <life> t=<ms>     Express called from inside a callback during this op
       cb <pid> data <name> <dd> | cb <pid> nack <reason> | cb <pid> timeout <ms>
       out int <pid> | out data <iid> | ret ok|err|deadline|noreply | handler <hid> <deadline>|none
       pit <path>:<pid,pid..>;...    reachable PIT nodes (sorted)        fib <path>:<hid|->;...
     end
   Output:
     DIVERGE <case> <op#> <what> model=[..] impl=[..]      model and implementation disagree (first per case)
     ORACLE <case> <op#> <verdict> | <op text>             the implementation's observations break the spec
     CASE <case> <nops> <kinds> <nontrivial 0|1> <hash>    statistics
     DONE <cases>
   Usage: runner [pinned|current|d,n,g,t]   (variant; default current) *)
open Engine_model

let rec pos_of_int (i : int) : positive =
  if i = 1 then XH else if i land 1 = 0 then XO (pos_of_int (i lsr 1)) else XI (pos_of_int (i lsr 1))
let n_of_int (i : int) : n = if i = 0 then N0 else Npos (pos_of_int i)
let rec int_of_pos = function XH -> 1 | XO p -> 2 * int_of_pos p | XI p -> 2 * int_of_pos p + 1
let int_of_n = function N0 -> 0 | Npos p -> int_of_pos p
let rec nat_of_int (i : int) : nat = if i <= 0 then O else S (nat_of_int (i - 1))
let rec int_of_nat = function O -> 0 | S n -> 1 + int_of_nat n

let name_of_string (s : string) : n list =
  if s = "-" || s = "" then [] else List.map (fun x -> n_of_int (int_of_string x)) (String.split_on_char '/' s)
let string_of_name (n : n list) : string =
  if n = [] then "-" else String.concat "/" (List.map (fun x -> string_of_int (int_of_n x)) n)
let opt_n (s : string) : n option = if s = "-" then None else Some (n_of_int (int_of_string s))
let opt_tok (s : string) : n option = if s = "-" then None else Some (n_of_int (int_of_string ("0x" ^ s) land 0xffffff))

let string_of_obs (o : obs) : string =
  match o with
  | OCb (p, RData (dn, dd)) -> Printf.sprintf "cb %d data %s %d" (int_of_nat p) (string_of_name dn) (int_of_n dd)
  | OCb (p, RNack r) -> Printf.sprintf "cb %d nack %d" (int_of_nat p) (int_of_n r)
  | OCb (p, RTimeout t) -> Printf.sprintf "cb %d timeout %d" (int_of_nat p) (int_of_n t)
  | OSendInt p -> Printf.sprintf "out int %d" (int_of_nat p)
  | OHandler (h, d) -> Printf.sprintf "handler %d %d" (int_of_n h) (int_of_n d)
  | ONoHandler -> "handler none"
  | OSendData i -> Printf.sprintf "out data %d" (int_of_nat i)
  | ORet c -> (match int_of_n c with 0 -> "ret ok" | 1 -> "ret err" | 2 -> "ret deadline" | _ -> "ret noreply")
  | OPanic -> "panic"

let obs_of_string (l : string) : obs option =
  match String.split_on_char ' ' l with
  | ["cb"; p; "data"; nm; dd] -> Some (OCb (nat_of_int (int_of_string p), RData (name_of_string nm, n_of_int (int_of_string dd))))
  | ["cb"; p; "nack"; r] -> Some (OCb (nat_of_int (int_of_string p), RNack (n_of_int (int_of_string r))))
  | ["cb"; p; "timeout"; t] -> Some (OCb (nat_of_int (int_of_string p), RTimeout (n_of_int (int_of_string t))))
  | ["out"; "int"; p] -> Some (OSendInt (nat_of_int (int_of_string p)))
  | ["out"; "data"; i] -> Some (OSendData (nat_of_int (int_of_string i)))
  | ["handler"; "none"] -> Some ONoHandler
  | ["handler"; h; d] -> Some (OHandler (n_of_int (int_of_string h), n_of_int (int_of_string d)))
  | ["ret"; "ok"] -> Some (ORet (n_of_int 0))
  | ["ret"; "err"] -> Some (ORet (n_of_int 1))
  | ["ret"; "deadline"] -> Some (ORet (n_of_int 2))
  | ["ret"; "noreply"] -> Some (ORet (n_of_int 3))
  | _ -> None

let string_of_verdict = function
  | VNotPending p -> Printf.sprintf "not-pending pid=%d" (int_of_nat p)
  | VDataMissed p -> Printf.sprintf "data-missed pid=%d" (int_of_nat p)
  | VDataWrong p -> Printf.sprintf "data-wrong pid=%d" (int_of_nat p)
  | VNackWrong p -> Printf.sprintf "nack-wrong pid=%d" (int_of_nat p)
  | VTimeoutEarly p -> Printf.sprintf "timeout-early pid=%d" (int_of_nat p)
  | VUnexpected -> "unexpected-observation"
  | VHandler -> "handler-not-longest-prefix"
  | VReplyLate i -> Printf.sprintf "reply-late iid=%d" (int_of_nat i)
  | VUnresolved p -> Printf.sprintf "unresolved pid=%d" (int_of_nat p)
  | VAttachRet -> "attach-detach-return"
  | VPanic -> "panic"

let cmp_path (a : int list) (b : int list) = compare a b
let canon_dump (items : (n list * string) list) : string =
  let items = List.map (fun (p, s) -> (List.map int_of_n p, s)) items in
  let items = List.sort (fun (a, _) (b, _) ->
    let rec go x y = match x, y with
      | [], [] -> 0 | [], _ -> -1 | _, [] -> 1
      | u :: x', v :: y' -> if u <> v then compare u v else go x' y' in go a b) items in
  String.concat ";" (List.map (fun (p, s) ->
    (if p = [] then "-" else String.concat "/" (List.map string_of_int p)) ^ ":" ^ s) items)

let pit_string (s : state) : string =
  canon_dump (List.map (fun (p, ids) -> (p, String.concat "," (List.map (fun i -> string_of_int (int_of_nat i)) ids))) (dump_pit s))
let fib_string (s : state) : string =
  canon_dump (List.map (fun (p, h) -> (p, match h with Some x -> string_of_int (int_of_n x) | None -> "-")) (dump_fib s))

type op = { text : string; at : int; mutable nops : (string * int) list; mutable cbs : string list;
            mutable outs : string list; mutable pit : string; mutable fib : string }

let parse_express (f : string list) : ev option =
  match f with
  | "express" :: nm :: cbp :: dig :: life :: _ -> Some (EExpress (name_of_string nm, cbp = "1", opt_n dig, opt_n life))
  | _ -> None

(* last field "t=.." / "@.." *)
let strip_at (fields : string list) : string list * int =
  match List.rev fields with
  | last :: rest when String.length last > 0 && last.[0] = '@' ->
      (List.rev rest, int_of_string (String.sub last 1 (String.length last - 1)))
  | last :: rest when String.length last > 2 && String.sub last 0 2 = "t=" ->
      (List.rev rest, int_of_string (String.sub last 2 (String.length last - 2)))
  | _ -> (fields, 0)

let timeout_key (l : string) : int * int =
  match String.split_on_char ' ' l with
  | ["cb"; p; "timeout"; t] -> (int_of_string t, int_of_string p)
  | "cb" :: p :: _ -> (0, int_of_string p)
  | _ -> (0, 0)

let variant_of_string (s : string) : variant =
  match s with
  | "pinned" -> pinned
  | "current" -> current
  | _ ->
    (match String.split_on_char ',' s with
     | [a; b; c; d] -> { v_delif = a = "1"; v_nack = b = "1"; v_nackdig = c = "1"; v_detach = d = "1" }
     | _ -> current)

let () =
  let v = if Array.length Sys.argv > 1 then variant_of_string Sys.argv.(1) else current in
  let lines = ref [] in
  (try while true do lines := input_line stdin :: !lines done with End_of_file -> ());
  let lines = List.rev !lines in
  (* split into cases *)
  let cases = ref [] and cur_title = ref "" and cur_ops = ref [] and cur_op = ref None and in_case = ref false in
  let flush_op () = (match !cur_op with Some o -> cur_ops := o :: !cur_ops | None -> ()); cur_op := None in
  List.iter (fun l ->
    let f = String.split_on_char ' ' l in
    match f with
    | "case" :: _ -> in_case := true; cur_title := l; cur_ops := []; cur_op := None
    | ["end"] -> if !in_case then begin flush_op (); cases := (!cur_title, List.rev !cur_ops) :: !cases; in_case := false end
    | "op" :: rest ->
        flush_op ();
        let (fields, at) = strip_at rest in
        cur_op := Some { text = String.concat " " fields; at; nops = []; cbs = []; outs = []; pit = ""; fib = "" }
    | "nop" :: rest ->
        let (fields, t) = strip_at rest in
        (match !cur_op with Some o -> o.nops <- o.nops @ [(String.concat " " fields, t)] | None -> ())
    | "cb" :: _ -> (match !cur_op with Some o -> o.cbs <- o.cbs @ [l] | None -> ())
    | ("out" | "ret" | "handler") :: _ -> (match !cur_op with Some o -> o.outs <- o.outs @ [l] | None -> ())
    | "pit" :: r -> (match !cur_op with Some o -> o.pit <- String.concat " " r | None -> ())
    | "fib" :: r -> (match !cur_op with Some o -> o.fib <- String.concat " " r | None -> ())
    | _ -> ()) lines;
  let cases = List.rev !cases in
  let ncase = ref 0 in
  List.iter (fun (title, ops) ->
    let cid = (match String.split_on_char ' ' title with _ :: k :: _ -> k | _ -> "?") in
    incr ncase;
    (* ---------------- model side ---------------- *)
    let st = ref init in
    let diverged = ref false in
    let kinds = Hashtbl.create 8 in
    let any_cb = ref false in
    List.iteri (fun idx o ->
      let f = String.split_on_char ' ' o.text in
      Hashtbl.replace kinds (List.hd f) ();
      if o.cbs <> [] then any_cb := true;
      if not !diverged then begin
        let mobs = ref [] in
        let do_step e = let (s', ob) = step v !st e in st := s'; mobs := !mobs @ ob in
        let do_nops () = List.iter (fun (txt, _) ->
          match parse_express (String.split_on_char ' ' txt) with Some e -> do_step e | None -> ()) o.nops in
        (match f with
         | "express" :: _ -> (match parse_express f with Some e -> do_step e | None -> ()); do_nops ()
         | ["data"; nm; dd] -> do_step (EData (name_of_string nm, n_of_int (int_of_string dd))); do_nops ()
         | ["nack"; nm; r] ->
             (* the harness writes the full name; a digest component has key >= 100 *)
             let full = name_of_string nm in
             let (nm', dig) = (match List.rev full with
               | last :: rest when int_of_n last >= 100 -> (List.rev rest, Some last)
               | _ -> (full, None)) in
             do_step (ENack (nm', dig, n_of_int (int_of_string r))); do_nops ()
         | ["adv"; d] ->
             let target = int_of_n (now !st) + int_of_string d in
             let adv_to t =
               let fuel = nat_of_int (List.length (timers !st) + 2) in
               let (s', ob) = advance_to fuel v !st (n_of_int t) in st := s'; mobs := !mobs @ ob in
             List.iter (fun (txt, t) ->
               adv_to t;
               match parse_express (String.split_on_char ' ' txt) with Some e -> do_step e | None -> ()) o.nops;
             adv_to target
         | ["attach"; nm; h] -> do_step (EAttach (name_of_string nm, n_of_int (int_of_string h)))
         | ["detach"; nm] -> do_step (EDetach (name_of_string nm))
         | ["interest"; nm; life; tok] -> do_step (EInterest (name_of_string nm, opt_n life, opt_tok tok))
         | ["reply"; i] -> do_step (EReply (nat_of_int (int_of_string i)))
         | _ -> Printf.printf "BADLINE %s op %s\n" cid o.text);
        let mstr = List.map string_of_obs !mobs in
        let is_cb l = String.length l > 3 && String.sub l 0 3 = "cb " in
        let mcbs = List.filter is_cb mstr and mouts = List.filter (fun l -> not (is_cb l)) mstr in
        let is_adv = (List.hd f = "adv") in
        let srt l = if is_adv then List.sort (fun a b -> compare (timeout_key a) (timeout_key b)) l else l in
        let mcbs = srt mcbs and icbs = srt o.cbs in
        let mouts = List.sort compare mouts and iouts = List.sort compare o.outs in
        let report what m i =
          if not !diverged then begin
            diverged := true;
            Printf.printf "DIVERGE %s %d %s model=[%s] impl=[%s] | %s\n" cid idx what m i o.text end in
        if mcbs <> icbs then report "callbacks" (String.concat "; " mcbs) (String.concat "; " icbs);
        if mouts <> iouts then report "outputs" (String.concat "; " mouts) (String.concat "; " iouts);
        let mp = pit_string !st in
        if mp <> o.pit then report "pit" mp o.pit;
        let mf = fib_string !st in
        if mf <> o.fib then report "fib" mf o.fib;
        if int_of_n (now !st) <> o.at then report "clock" (string_of_int (int_of_n (now !st))) (string_of_int o.at)
      end) ops;
    (* ---------------- oracle side: the spec checker on the implementation's observations ---------------- *)
    let sp = ref sinit in
    let failed = ref false in
    let feed idx text e (ob : obs list) =
      if not !failed then
        match spec_step !sp e ob with
        | Inl s' -> sp := s'
        | Inr vd -> failed := true; Printf.printf "ORACLE %s %d %s | %s\n" cid idx (string_of_verdict vd) text in
    List.iteri (fun idx o ->
      if not !failed then begin
        let f = String.split_on_char ' ' o.text in
        let parse l = List.filter_map obs_of_string l in
        let outs = ref o.outs in
        let take_out_int () =
          (* the Interest transmission belonging to the Express that gets the next pid *)
          let want = Printf.sprintf "out int %d" (int_of_nat (sp_npid !sp)) in
          if List.mem want !outs then begin outs := List.filter (fun x -> x <> want) !outs; parse [want] end else [] in
        let feed_nop (txt, _) =
          match parse_express (String.split_on_char ' ' txt) with
          | Some (EExpress (nm, cbp, dig, life)) -> feed idx ("nested " ^ txt) (SExpress (nm, cbp, dig, life)) (take_out_int ())
          | _ -> () in
        (match f with
         | "express" :: _ ->
             (match parse_express f with
              | Some (EExpress (nm, cbp, dig, life)) ->
                  let mine = take_out_int () in
                  let errs = parse (List.filter (fun x -> x = "ret err") !outs) in
                  feed idx o.text (SExpress (nm, cbp, dig, life)) (if mine <> [] then mine else errs)
              | _ -> ());
             List.iter feed_nop o.nops
         | ["data"; nm; dd] ->
             feed idx o.text (SData (name_of_string nm, n_of_int (int_of_string dd))) (parse o.cbs);
             List.iter feed_nop o.nops
         | ["nack"; nm; r] ->
             let full = name_of_string nm in
             let (nm', dig) = (match List.rev full with
               | last :: rest when int_of_n last >= 100 -> (List.rev rest, Some last)
               | _ -> (full, None)) in
             feed idx o.text (SNack (nm', dig, n_of_int (int_of_string r))) (parse o.cbs);
             List.iter feed_nop o.nops
         | ["adv"; d] ->
             let target = int_of_n (sp_now !sp) + int_of_string d in
             (* instants at which something was observed *)
             let cbt = List.map (fun l -> (fst (timeout_key l), l)) o.cbs in
             let points = List.sort_uniq compare (List.map fst cbt @ List.map snd o.nops) in
             List.iter (fun t ->
               let nowi = int_of_n (sp_now !sp) in
               if t > nowi then feed idx o.text (SAdvance (n_of_int (t - nowi))) [];
               let here = List.filter (fun (t', _) -> t' = t) cbt in
               if here <> [] then begin
                 if t < nowi || t > target then begin
                   failed := true; Printf.printf "ORACLE %s %d callback-outside-advance t=%d | %s\n" cid idx t o.text end
                 else feed idx o.text STimers (parse (List.map snd here)) end;
               List.iter (fun (txt, t') -> if t' = t then feed_nop (txt, t')) o.nops) points;
             let nowi = int_of_n (sp_now !sp) in
             if target > nowi then feed idx o.text (SAdvance (n_of_int (target - nowi))) []
         | ["attach"; nm; h] -> feed idx o.text (SAttach (name_of_string nm, n_of_int (int_of_string h))) (parse o.outs)
         | ["detach"; nm] -> feed idx o.text (SDetach (name_of_string nm)) (parse o.outs)
         | ["interest"; nm; life; tok] -> feed idx o.text (SInterest (name_of_string nm, opt_n life, opt_tok tok)) (parse o.outs)
         | ["reply"; i] -> feed idx o.text (SReply (nat_of_int (int_of_string i))) (parse o.outs)
         | _ -> ())
      end) ops;
    if not !failed then
      (match spec_final !sp with
       | Some vd -> Printf.printf "ORACLE %s %d %s | end-of-history\n" cid (List.length ops) (string_of_verdict vd)
       | None -> ());
    let nk = Hashtbl.length kinds in
    let body = String.concat "\n" (List.map (fun o -> o.text) ops) in
    Printf.printf "CASE %s %d %d %d %s\n" cid (List.length ops) nk (if nk >= 3 && !any_cb then 1 else 0)
      (Digest.to_hex (Digest.string body))) cases;
  Printf.printf "DONE %d\n" !ncase
