(* runner/Tables/conc_check.ml — C16 search side: checks the invocation/response histories recorded by harness/conc
   against the sequential model (RIB model emitting FIB operations into the flat FIB specification; strategy and direct
   FIB operations on the same flat FIB).  For every round it searches an order of the operations that
     - respects real time (if a responded before b was invoked, a comes before b),
     - reproduces every recorded result of a lookup/listing on the sequential model, and
     - ends in the observed final tables.
   Output:  LIN <round> ok ops=<n> nodes=<search nodes> | LIN <round> FAIL ops=<n> <why> | ANOMALY <round> <text> | DONE <rounds> *)
open Tables_model
open Conv

type cop =
  | RibOp of ribop
  | FibOp of fibop
  | Look of string * name   (* nh | st *)
  | List of string          (* fib | sl | rib *)

type hrec = { g : int; inv : int; resp : int; text : string; op : cop; res : string }

type state = { rib : rib; fib : spec }
let init_state = { rib = rib_init; fib = spec_init }

let canon_ent_list (s : spec) : string =
  (* drop empty entries, sort next hops: the abstract content of the flat FIB *)
  join_sorted (List.filter_map (fun (nm, e) ->
      if e.nhs = [] && e.strat = None then None
      else Some (string_of_name nm ^ "=" ^ sort_csv (string_of_nh e.nhs) ^ "=" ^ string_of_strat e.strat)) s)
let state_key (st : state) : string =
  canon_ent_list st.fib ^ "#" ^
  join_sorted (List.map (fun (nm, nd) -> string_of_name nm ^ "=" ^ (if nd.rn_named then "1" else "0") ^ "=" ^ Rib_glue.routes_string nd.rn_routes) st.rib)

let parse_op (fields : string list) : cop =
  match fields with
  | "reg" :: _ | "unreg" :: _ ->
      (match Rib_glue.ribop_of fields with Some o -> RibOp o | None -> failwith "bad rib op")
  | ["teardown"; f] -> RibOp (Cleanup (n_of_dec f))
  | ["ins"; nm; f; c] -> FibOp (Ins (name_of_string nm, n_of_dec f, n_of_dec c))
  | ["rem"; nm; f] -> FibOp (Rem (name_of_string nm, n_of_dec f))
  | ["sets"; nm; s] -> FibOp (SetS (name_of_string nm, n_of_dec s))
  | ["uns"; nm] -> FibOp (UnS (name_of_string nm))
  | ["nh"; nm] -> Look ("nh", name_of_string nm)
  | ["st"; nm] -> Look ("st", name_of_string nm)
  | [k] when k = "fib" || k = "sl" || k = "rib" -> List k
  | _ -> failwith ("bad op " ^ String.concat " " fields)

let rib_listing_string (r : rib) : string =
  join_sorted (List.map (fun (nm, rs) -> string_of_name nm ^ "=" ^ Rib_glue.routes_string ~sorted:true rs) (list_rib r))

(* apply an operation sequentially: new state and the result the implementation must have returned *)
let apply (st : state) (o : cop) : state * string =
  match o with
  | RibOp ro ->
      let (rib', fops) = rib_step (fun l -> l) st.rib ro in
      ({ rib = rib'; fib = List.fold_left spec_step st.fib fops }, "ok")
  | FibOp fo -> ({ st with fib = spec_step st.fib fo }, "ok")
  | Look ("nh", nm) -> (st, sort_csv (string_of_nh (spec_find_nh st.fib nm)))
  | Look (_, nm) -> (st, string_of_strat (spec_find_strat st.fib nm))
  | List "fib" -> (st, canon_listing (fib_listing_string (spec_list_fib st.fib)))
  | List "sl" -> (st, strat_listing_string (spec_list_strat st.fib))
  | List _ -> (st, rib_listing_string st.rib)

let final_ok (st : state) (universe : name list) (finals : (string * string) list) : bool =
  List.for_all (fun (kind, value) ->
      match kind with
      | "nh" -> String.concat "|" (List.map (fun nm -> sort_csv (string_of_nh (spec_find_nh st.fib nm))) universe) = value
      | "st" -> String.concat "|" (List.map (fun nm -> string_of_strat (spec_find_strat st.fib nm)) universe) = value
      | "fib" -> canon_listing (fib_listing_string (spec_list_fib st.fib)) = canon_listing value
      | "sl" -> strat_listing_string (spec_list_strat st.fib) = join_sorted (items_of value)
      | "rib" -> rib_listing_string st.rib = join_sorted (items_of value)
      | _ -> true) finals

let check_round (round : string) (universe : name list) (recs : hrec list) (finals : (string * string) list) : unit =
  let ops = Array.of_list recs in
  let n = Array.length ops in
  if n = 0 then Printf.printf "LIN %s ok ops=0 nodes=0\n" round
  else if n > 60 then Printf.printf "LIN %s FAIL ops=%d too-many-operations\n" round n
  else begin
    let full = (1 lsl n) - 1 in
    let seen : (int * string, unit) Hashtbl.t = Hashtbl.create 1024 in
    let nodes = ref 0 in
    let best = ref 0 in
    let why = ref "" in
    let rec dfs (mask : int) (st : state) : bool =
      incr nodes;
      if mask = full then begin
        if final_ok st universe finals then true else (why := "final-tables-match-no-sequential-order"; false)
      end else begin
        let key = (mask, state_key st) in
        if Hashtbl.mem seen key then false else begin
          Hashtbl.add seen key ();
          (* candidates: pending operations not preceded (in real time) by another pending operation *)
          let min_resp = ref max_int in
          for i = 0 to n - 1 do
            if mask land (1 lsl i) = 0 && ops.(i).resp < !min_resp then min_resp := ops.(i).resp
          done;
          let found = ref false in
          let i = ref 0 in
          while not !found && !i < n do
            let k = !i in
            if mask land (1 lsl k) = 0 && ops.(k).inv < !min_resp then begin
              let (st', res) = apply st ops.(k).op in
              let expected = ops.(k).res in
              let same = match ops.(k).op with
                | RibOp _ | FibOp _ -> true
                | List "fib" -> res = canon_listing expected
                | List _ -> res = join_sorted (items_of expected)
                | Look _ -> res = expected in
              if same then begin
                let cnt = ref 0 in
                for b = 0 to n - 1 do if (mask lor (1 lsl k)) land (1 lsl b) <> 0 then incr cnt done;
                if !cnt > !best then best := !cnt;
                if dfs (mask lor (1 lsl k)) st' then found := true
              end else if !why = "" || true then
                why := Printf.sprintf "no-state-between-overlapping-operations-gives op=[%s] got=%s (e.g. sequential model gives %s)" ops.(k).text expected res
            end;
            incr i
          done;
          !found
        end
      end in
    if dfs 0 init_state then Printf.printf "LIN %s ok ops=%d nodes=%d\n" round n !nodes
    else Printf.printf "LIN %s FAIL ops=%d linearized=%d nodes=%d %s\n" round n !best !nodes !why
  end

let main () =
  let rounds = ref 0 in
  let cur_round = ref "" and universe = ref [] and recs = ref [] and finals = ref [] in
  let lineno = ref 0 in
  (try
    while true do
      let line = input_line stdin in
      incr lineno;
      (try
        match String.split_on_char ' ' line with
        | "R" :: id :: impl :: m :: _ ->
            cur_round := id ^ ":" ^ impl ^ m; universe := []; recs := []; finals := []; incr rounds
        | "U" :: names -> universe := List.map name_of_string (List.filter (fun s -> s <> "") names)
        | "H" :: g :: inv :: resp :: rest ->
            let rec split acc = function
              | "=>" :: r -> (List.rev acc, String.concat " " r)
              | x :: r -> split (x :: acc) r
              | [] -> (List.rev acc, "") in
            let (opf, res) = split [] rest in
            recs := { g = int_of_string g; inv = int_of_string inv; resp = int_of_string resp;
                      text = String.concat " " opf; op = parse_op opf; res } :: !recs
        | ["F"; kind; value] -> finals := (kind, value) :: !finals
        | "X" :: rest -> Printf.printf "ANOMALY %s %s\n" !cur_round (String.concat " " rest)
        | ["E"] -> if !recs <> [] || !finals <> [] then check_round !cur_round !universe (List.rev !recs) (List.rev !finals)
        | [""] | [] -> ()
        | _ -> Printf.printf "BADLINE %d %s\n" !lineno line
      with Failure msg | Invalid_argument msg -> Printf.printf "BADLINE %d %s (%s)\n" !lineno line msg)
    done
  with End_of_file -> ());
  Printf.printf "DONE %d\n" !rounds
