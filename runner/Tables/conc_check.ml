(* runner/Tables/conc_check.ml — C16 search side: checks the invocation/response histories recorded by harness/conc
   against the sequential model (RIB model emitting FIB operations into the flat FIB specification; strategy and direct
   FIB operations on the same flat FIB).  For every round it searches an order of the operations that
     - respects real time (if a responded before b was invoked, a comes before b),
     - reproduces every recorded result of a lookup/listing on the sequential model, and
     - ends in the observed final tables.
   Output:  LIN <round> ok ops=<n> nodes=<search nodes> | LIN <round> FAIL ops=<n> <why> | ANOMALY <round> <text> | DONE <rounds> *)
open Tables_model
open Conv

type cop =
  | RibOp of ribop
  | FibOp of fibop
  | Look of string * name   (* nh | st *)
  | List of string          (* fib | sl | rib *)

type hrec = { g : int; inv : int; resp : int; text : string; op : cop; res : string }

type state = { rib : rib; fib : spec }
let init_state = { rib = rib_init; fib = spec_init }

let canon_ent_list (s : spec) : string =
  (* drop empty entries, sort next hops: the abstract content of the flat FIB *)
  join_sorted (List.filter_map (fun (nm, e) ->
      if e.nhs = [] && e.strat = None then None
      else Some (string_of_name nm ^ "=" ^ sort_csv (string_of_nh e.nhs) ^ "=" ^ string_of_strat e.strat)) s)
let state_key (st : state) : string =
  canon_ent_list st.fib ^ "#" ^
  join_sorted (List.map (fun (nm, nd) -> string_of_name nm ^ "=" ^ (if nd.rn_named then "1" else "0") ^ "=" ^ Rib_glue.routes_string nd.rn_routes) st.rib)

let parse_op (fields : string list) : cop =
  match fields with
  | "reg" :: _ | "unreg" :: _ ->
      (match Rib_glue.ribop_of fields with Some o -> RibOp o | None -> failwith "bad rib op")
  | ["teardown"; f] -> RibOp (Cleanup (n_of_dec f))
  | ["ins"; nm; f; c] -> FibOp (Ins (name_of_string nm, n_of_dec f, n_of_dec c))
  | ["rem"; nm; f] -> FibOp (Rem (name_of_string nm, n_of_dec f))
  | ["sets"; nm; s] -> FibOp (SetS (name_of_string nm, n_of_dec s))
  | ["uns"; nm] -> FibOp (UnS (name_of_string nm))
  | ["nh"; nm] -> Look ("nh", name_of_string nm)
  | ["st"; nm] -> Look ("st", name_of_string nm)
  | [k] when k = "fib" || k = "sl" || k = "rib" -> List k
  | _ -> failwith ("bad op " ^ String.concat " " fields)

let rib_listing_string (r : rib) : string =
  join_sorted (List.map (fun (nm, rs) -> string_of_name nm ^ "=" ^ Rib_glue.routes_string ~sorted:true rs) (list_rib r))

(* apply an operation sequentially: new state and the result the implementation must have returned *)
let apply (st : state) (o : cop) : state * string =
  match o with
  | RibOp ro ->
      let (rib', fops) = rib_step (fun l -> l) st.rib ro in
      ({ rib = rib'; fib = List.fold_left spec_step st.fib fops }, "ok")
  | FibOp fo -> ({ st with fib = spec_step st.fib fo }, "ok")
  | Look ("nh", nm) -> (st, sort_csv (string_of_nh (spec_find_nh st.fib nm)))
  | Look (_, nm) -> (st, string_of_strat (spec_find_strat st.fib nm))
  | List "fib" -> (st, canon_listing (fib_listing_string (spec_list_fib st.fib)))
  | List "sl" -> (st, strat_listing_string (spec_list_strat st.fib))
  | List _ -> (st, rib_listing_string st.rib)

let final_ok (st : state) (universe : name list) (finals : (string * string) list) : bool =
  List.for_all (fun (kind, value) ->
      match kind with
      | "nh" -> String.concat "|" (List.map (fun nm -> sort_csv (string_of_nh (spec_find_nh st.fib nm))) universe) = value
      | "st" -> String.concat "|" (List.map (fun nm -> string_of_strat (spec_find_strat st.fib nm)) universe) = value
      | "fib" -> canon_listing (fib_listing_string (spec_list_fib st.fib)) = canon_listing value
      | "sl" -> strat_listing_string (spec_list_strat st.fib) = join_sorted (items_of value)
      | "rib" -> rib_listing_string st.rib = join_sorted (items_of value)
      | _ -> true) finals

(* generic search for a sequential witness (Wing-Gong style DFS, memoised on (set of linearised operations, state)) *)
type 'op grec = { g_inv : int; g_resp : int; g_text : string; g_op : 'op; g_res : string }

let linearize (type st) (round : string) (tag : string) (ops : 'op grec array) (init : st)
    (apply : st -> 'op -> st * string option) (key : st -> string) (final_ok : st -> bool) : unit =
  let n = Array.length ops in
  if n = 0 then Printf.printf "%s %s ok ops=0 nodes=0\n" tag round
  else if n > 60 then Printf.printf "%s %s FAIL ops=%d too-many-operations\n" tag round n
  else begin
    let full = (1 lsl n) - 1 in
    let seen : (int * string, unit) Hashtbl.t = Hashtbl.create 1024 in
    let nodes = ref 0 and best = ref 0 and why = ref "" in
    let popcount m = let c = ref 0 in for b = 0 to n - 1 do if m land (1 lsl b) <> 0 then incr c done; !c in
    let rec dfs (mask : int) (st : st) : bool =
      incr nodes;
      if mask = full then (if final_ok st then true else (why := "final-tables-match-no-sequential-order"; false))
      else begin
        let k = (mask, key st) in
        if Hashtbl.mem seen k then false else begin
          Hashtbl.add seen k ();
          let min_resp = ref max_int in
          for i = 0 to n - 1 do
            if mask land (1 lsl i) = 0 && ops.(i).g_resp < !min_resp then min_resp := ops.(i).g_resp
          done;
          let found = ref false and i = ref 0 in
          while not !found && !i < n do
            let j = !i in
            if mask land (1 lsl j) = 0 && ops.(j).g_inv < !min_resp then begin
              let (st', res) = apply st ops.(j).g_op in
              (match res with
               | Some r when r <> ops.(j).g_res ->
                   why := Printf.sprintf "no-state-between-overlapping-operations-gives op=[%s] got=%s (e.g. sequential model gives %s)" ops.(j).g_text ops.(j).g_res r
               | _ ->
                   let c = popcount (mask lor (1 lsl j)) in
                   if c > !best then best := c;
                   if dfs (mask lor (1 lsl j)) st' then found := true)
            end;
            incr i
          done;
          !found
        end
      end in
    if dfs 0 init then Printf.printf "%s %s ok ops=%d nodes=%d\n" tag round n !nodes
    else Printf.printf "%s %s FAIL ops=%d linearized=%d nodes=%d %s\n" tag round n !best !nodes !why
  end

let check_round (round : string) (universe : name list) (recs : hrec list) (finals : (string * string) list) : unit =
  let ops = Array.of_list (List.map (fun r -> { g_inv = r.inv; g_resp = r.resp; g_text = r.text; g_op = r.op; g_res = r.res }) recs) in
  let apply st o =
    let (st', res) = apply st o in
    match o with
    | RibOp _ | FibOp _ -> (st', None)
    | _ -> (st', Some res) in
  (* listings are compared in canonical form *)
  Array.iteri (fun i r -> match r.g_op with
      | List "fib" -> ops.(i) <- { r with g_res = canon_listing r.g_res }
      | List _ -> ops.(i) <- { r with g_res = join_sorted (items_of r.g_res) }
      | _ -> ()) ops;
  linearize round "LIN" ops init_state apply state_key (fun st -> final_ok st universe finals)

(* ---------- face table rounds ---------- *)
type faceop = FaAdd of n | FaRem of n | FaGet of n
let bindings_string (l : (n * n) list) : string =
  join_sorted (List.map (fun (id, tok) -> dec_of_n id ^ "=" ^ dec_of_n tok) l)
let bindings_of_string (s : string) : (n * n) list =
  List.map (fun it -> match fields_of it with [id; tok] -> (n_of_dec id, n_of_dec tok) | _ -> failwith ("bad binding " ^ it)) (items_of s)

let check_face_recorded (round : string) (n0 : n) (recs : (int * int * int * string list * string) list) (finals : (string * string) list) : unit =
  let ops = Array.of_list (List.map (fun (_, inv, resp, opf, res) ->
      let op = match opf with
        | ["fadd"; tok] -> FaAdd (n_of_dec tok)
        | ["frem"; id] -> FaRem (n_of_dec id)
        | ["fget"; id] -> FaGet (n_of_dec id)
        | _ -> failwith ("bad face op " ^ String.concat " " opf) in
      { g_inv = inv; g_resp = resp; g_text = String.concat " " opf; g_op = op; g_res = res }) recs) in
  let apply (t : ftable) o =
    match o with
    | FaAdd tok -> (match ft_step t (FAdd tok) with (t', Some id) -> (t', Some (dec_of_n id)) | (t', None) -> (t', None))
    | FaRem id -> (fst (ft_step t (FRem id)), None)
    | FaGet id -> (t, Some (match ft_get t.ft_faces id with Some tok -> dec_of_n tok | None -> "-")) in
  let key (t : ftable) = dec_of_n t.ft_next ^ "#" ^ bindings_string t.ft_faces in
  let final_ok (t : ftable) =
    List.for_all (fun (kind, value) -> match kind with
        | "faces" | "dispatch" -> bindings_string t.ft_faces = join_sorted (items_of value)
        | _ -> true) finals in
  linearize round "FACE" ops { ft_next = n0; ft_faces = [] } apply key final_ok

let check_face_heavy (round : string) (n0 : n) (adds : (nat * n * n) list) (rems : n list) (finals : (string * string) list) : unit =
  let bad = List.filter_map (fun (kind, value) ->
      match kind with
      | "faces" | "dispatch" ->
          let final = bindings_of_string value in
          if face_round_ok n0 (List.map (fun (g, tok, id) -> ((g, tok), id)) adds) rems final then None
          else Some kind
      | _ -> None) finals in
  if bad = [] then Printf.printf "FACE %s ok adds=%d removes=%d\n" round (List.length adds) (List.length rems)
  else begin
    (* say what is wrong, for the replay *)
    let ids = List.map (fun (_, _, id) -> dec_of_n id) adds in
    let sorted = List.sort compare ids in
    let rec dups = function a :: (b :: _ as r) -> if a = b then a :: dups r else dups r | _ -> [] in
    Printf.printf "FACE %s FAIL adds=%d removes=%d not-the-outcome-of-any-sequential-order in=%s duplicate-ids=[%s] n0=%s\n" round
      (List.length adds) (List.length rems) (String.concat "," bad) (String.concat "," (List.sort_uniq compare (dups sorted))) (dec_of_n n0)
  end

let main () =
  let rounds = ref 0 in
  let cur_round = ref "" and universe = ref [] and recs = ref [] and finals = ref [] in
  let face_mode = ref "" and n0 = ref N0 and frecs = ref [] and fadds = ref [] and frems = ref [] in
  let lineno = ref 0 in
  (try
    while true do
      let line = input_line stdin in
      incr lineno;
      (try
        match String.split_on_char ' ' line with
        | "R" :: id :: impl :: m :: _ ->
            cur_round := id ^ ":" ^ impl ^ m; universe := []; recs := []; finals := []; face_mode := ""; incr rounds
        | ["FR"; id; mode; _g; start] ->
            cur_round := id ^ ":F"; face_mode := mode; n0 := n_of_dec start; frecs := []; fadds := []; frems := []; finals := []; recs := []; incr rounds
        | "U" :: names -> universe := List.map name_of_string (List.filter (fun s -> s <> "") names)
        | "H" :: g :: inv :: resp :: rest ->
            let rec split acc = function
              | "=>" :: r -> (List.rev acc, String.concat " " r)
              | x :: r -> split (x :: acc) r
              | [] -> (List.rev acc, "") in
            let (opf, res) = split [] rest in
            if !face_mode <> "" then frecs := (int_of_string g, int_of_string inv, int_of_string resp, opf, res) :: !frecs
            else recs := { g = int_of_string g; inv = int_of_string inv; resp = int_of_string resp;
                           text = String.concat " " opf; op = parse_op opf; res } :: !recs
        | ["A"; g; tok; id] -> fadds := (nat_of_int (int_of_string g), n_of_dec tok, n_of_dec id) :: !fadds
        | ["D"; id] -> frems := n_of_dec id :: !frems
        | ["F"; kind; value] -> finals := (kind, value) :: !finals
        | "X" :: rest -> Printf.printf "ANOMALY %s %s\n" !cur_round (String.concat " " rest)
        | "N" :: rest -> Printf.printf "NOTE %s\n" (String.concat " " rest)
        | ["E"] ->
            if !face_mode = "rec" then check_face_recorded !cur_round !n0 (List.rev !frecs) (List.rev !finals)
            else if !face_mode = "heavy" then check_face_heavy !cur_round !n0 (List.rev !fadds) (List.rev !frems) (List.rev !finals)
            else if !recs <> [] || !finals <> [] then check_round !cur_round !universe (List.rev !recs) (List.rev !finals);
            face_mode := ""
        | [""] | [] -> ()
        | _ -> Printf.printf "BADLINE %d %s\n" !lineno line
      with Failure msg | Invalid_argument msg -> Printf.printf "BADLINE %d %s (%s)\n" !lineno line msg)
    done
  with End_of_file -> ());
  Printf.printf "DONE %d\n" !rounds
