(* runner/Tables/driver.ml — replays the traces of harness/tables on the models extracted from coq/Tables.
   Input: the trace format described at the top of harness/tables/tables_test.go (stdin).
   For every observation line of the implementation the same observable is computed from
     - the model of that implementation (tree / hash table / RIB over either)  -> DIVERGE on difference
     - the specification (flat map + longest-prefix match; flattening of the routes) -> ORACLE on difference
   and the extracted minimality predicates (table part of C08) are evaluated on the implementation's white-box dumps
   -> MINIMAL.  Output lines:
     DIVERGE <case> <op#> <label> <kind> model=<..> impl=<..>
     ORACLE  <case> <op#> <label> <kind> [name=<..>] want=<..> got=<..>
     MINIMAL <case> <op#> <label> <dump>
     ANOMALY <case> <op#> <text>
     CASE <case> kind=<fib|rib> ops=<n> opkinds=<k> nontrivial=<0|1> hash=<md5 of the canonical op list>
     BADLINE <lineno> <text>
     DONE <cases> <lines> <observations> *)
open Tables_model
open Conv

(* ---------- state of the current case ---------- *)
type st = {
  mutable case_id : string; mutable m : int; mutable kind : string; mutable impls : string;
  mutable universe : name list;
  mutable tree : tree; mutable ht : ht; mutable spec : spec;
  mutable rib : Rib_glue.t;
  mutable opno : int; mutable opkinds : string list; mutable oplog : string list;
  mutable nontrivial_obs : bool; mutable init_nh : string; mutable init_st : string;
  mutable impl_nodes : fent amap; mutable impl_real : fent amap; mutable impl_virt : nat amap;
}

let cur = { case_id = ""; m = 1; kind = "fib"; impls = "TH"; universe = [];
            tree = tree_init; ht = ht_init; spec = spec_init; rib = Rib_glue.init;
            opno = 0; opkinds = []; oplog = []; nontrivial_obs = false; init_nh = ""; init_st = "";
            impl_nodes = []; impl_real = []; impl_virt = [] }

let ncases = ref 0 and nobs = ref 0 and lineno = ref 0

let diverge label kind model impl =
  Printf.printf "DIVERGE %s %d %s %s model=%s impl=%s\n" cur.case_id cur.opno label kind model impl
let oracle label kind ?(name = "") want got =
  Printf.printf "ORACLE %s %d %s %s%s want=%s got=%s\n" cur.case_id cur.opno label kind
    (if name = "" then "" else " name=" ^ name) want got

(* "name=f:c,f:c;name=-;..." -> the Clr / Ins steps ReplaceNextHopsEnc performs *)
let batch_of (text : string) : fibop list =
  let batch = List.map (fun it -> match fields_of it with
      | [nm; hops] -> (name_of_string nm, nh_of_string hops)
      | _ -> failwith ("bad batch item " ^ it)) (String.split_on_char ';' text) in
  expand_bop (Rep batch)

let fibops_of (fields : string list) : fibop list option =
  match fields with
  | ["rep"; text] -> Some (batch_of text)
  | _ -> None

let fibop_of (fields : string list) : fibop option =
  match fields with
  | ["ins"; nm; f; c] -> Some (Ins (name_of_string nm, n_of_dec f, n_of_dec c))
  | ["clr"; nm] -> Some (Clr (name_of_string nm))
  | ["rem"; nm; f] -> Some (Rem (name_of_string nm, n_of_dec f))
  | ["sets"; nm; s] -> Some (SetS (name_of_string nm, n_of_dec s))
  | ["uns"; nm] -> Some (UnS (name_of_string nm))
  | _ -> None

let finish_case () =
  if cur.case_id <> "" then begin
    let kinds = List.sort_uniq compare cur.opkinds in
    let nontrivial = List.length kinds >= 3 && cur.nontrivial_obs in
    let h = Digest.to_hex (Digest.string (String.concat "\n" (cur.kind :: string_of_int cur.m :: List.rev cur.oplog))) in
    Printf.printf "CASE %s kind=%s ops=%d opkinds=%d nontrivial=%d hash=%s\n" cur.case_id cur.kind cur.opno
      (List.length kinds) (if nontrivial then 1 else 0) h;
    cur.case_id <- ""
  end

let mnat () = nat_of_int cur.m

(* the FIB state seen through label T or H *)
let model_find_nh label nm =
  if label = "T" then tree_find_nh cur.tree nm else ht_find_nh (mnat ()) cur.ht nm
let model_find_strat label nm =
  if label = "T" then tree_find_strat cur.tree nm else ht_find_strat (mnat ()) cur.ht nm
let model_entries label = if label = "T" then cur.tree.nodes else cur.ht.real

(* C08, RIB-driven FIB: a next-hop record that no registered route requires at that prefix is residue *)
let stale_records label (entries : fent amap) =
  List.iter (fun (nm, e) ->
      let want = Rib_glue.want_entry cur.rib nm in
      List.iter (fun (f, c) ->
          let r = dec_of_n f ^ ":" ^ dec_of_n c in
          if not (List.mem r want) then
            Printf.printf "MINIMAL %s %d %s stale-next-hop name=%s record=%s required=%s\n" cur.case_id cur.opno label
              (string_of_name nm) r (if want = [] then "-" else String.concat "," want)) e.nhs) entries

let handle_obs label kind (value : string) =
  incr nobs;
  match kind with
  | "nh" ->
      let vals = String.split_on_char '|' value in
      if cur.opno <= 1 && cur.init_nh = "" then cur.init_nh <- String.concat "|" (List.map (fun _ -> "-") vals);
      if value <> cur.init_nh then cur.nontrivial_obs <- true;
      if List.length vals <> List.length cur.universe then Printf.printf "BADLINE %d nh arity\n" !lineno
      else List.iter2 (fun nm v ->
          let mv = string_of_nh (model_find_nh label nm) in
          let differ = sort_csv mv <> sort_csv v in (* next hops are a set: order is not an observable *)
          if differ then diverge label "nh" (string_of_name nm ^ "=" ^ mv) (string_of_name nm ^ "=" ^ v);
          let sv = if cur.kind = "fib" then string_of_nh (spec_find_nh cur.spec nm)
                   else Rib_glue.want_nh cur.rib nm in
          if sort_csv sv <> sort_csv v then oracle label "nh" ~name:(string_of_name nm) (sort_csv sv) (sort_csv v))
          cur.universe vals
  | "st" ->
      let vals = String.split_on_char '|' value in
      if List.exists (fun v -> v <> "0") vals then cur.nontrivial_obs <- true;
      if List.length vals <> List.length cur.universe then Printf.printf "BADLINE %d st arity\n" !lineno
      else List.iter2 (fun nm v ->
          let mv = string_of_strat (model_find_strat label nm) in
          if mv <> v then diverge label "st" (string_of_name nm ^ "=" ^ mv) (string_of_name nm ^ "=" ^ v);
          let sv = string_of_strat (spec_find_strat cur.spec nm) in
          if sv <> v then oracle label "st" ~name:(string_of_name nm) sv v)
          cur.universe vals
  | "fib" ->
      let mv = fib_listing_string (list_fib (model_entries label)) in
      let differ = canon_listing mv <> canon_listing value in
      if differ then diverge label "fib" mv value;
      let sv = if cur.kind = "fib" then canon_listing (fib_listing_string (spec_list_fib cur.spec))
               else Rib_glue.want_listing cur.rib in
      if sv <> canon_listing value then oracle label "fib" sv (canon_listing value)
  | "sl" ->
      let mv = strat_listing_string (list_strat (model_entries label)) in
      if mv <> join_sorted (items_of value) then diverge label "sl" mv value;
      let sv = strat_listing_string (spec_list_strat cur.spec) in
      if sv <> join_sorted (items_of value) then oracle label "sl" sv value
  | "nodes" ->
      let mv = nodes_string cur.tree.nodes in
      let differ = canon_nodes mv <> canon_nodes value in
      if differ then diverge label "nodes" mv value;
      cur.impl_nodes <- ent_map_of_string value;
      if cur.kind = "rib" then stale_records label cur.impl_nodes
  | "pfx" ->
      let mv = join_sorted (List.map string_of_name cur.tree.pfx) in
      if mv <> join_sorted (items_of value) then diverge label "pfx" mv value;
      (* minimality oracle on the implementation's own dump *)
      let detached = List.exists (fun it -> String.contains it '!') (items_of value) in
      let impl_pfx = List.map (fun it -> name_of_string (List.hd (String.split_on_char '!' it))) (items_of value) in
      if detached || not (tree_minimal_b { nodes = cur.impl_nodes; pfx = impl_pfx }) then
        Printf.printf "MINIMAL %s %d T nodes=%s pfx=%s\n" cur.case_id cur.opno (nodes_string cur.impl_nodes) value
  | "real" ->
      let mv = nodes_string cur.ht.real in
      let differ = canon_nodes mv <> canon_nodes value in
      if differ then diverge label "real" mv value;
      cur.impl_real <- ent_map_of_string value;
      if cur.kind = "rib" then stale_records label cur.impl_real
  | "virt" ->
      let mv = join_sorted (List.map (fun (nm, md) -> string_of_name nm ^ "=" ^ string_of_int (int_of_nat md)) cur.ht.virt) in
      if mv <> join_sorted (items_of value) then diverge label "virt" mv value;
      cur.impl_virt <- List.map (fun it -> match fields_of it with
                                           | [nm; md] -> (name_of_string nm, nat_of_int (int_of_string md))
                                           | _ -> failwith "bad virt") (items_of value)
  | "vn" ->
      let canon_set l = String.concat "," (List.sort compare (List.map string_of_name l)) in
      let mv = join_sorted (List.map (fun (nm, l) -> string_of_name nm ^ "=" ^ canon_set l) cur.ht.vnames) in
      if mv <> join_sorted (items_of value) then diverge label "vn" mv value;
      let impl_vn = List.map (fun it -> match fields_of it with
                                        | [nm; l] -> (name_of_string nm, List.map name_of_string (String.split_on_char ',' l))
                                        | _ -> failwith "bad vn") (items_of value) in
      if not (ht_minimal_b (mnat ()) { real = cur.impl_real; virt = cur.impl_virt; vnames = impl_vn }) then
        Printf.printf "MINIMAL %s %d H real=%s virt=%s vn=%s\n" cur.case_id cur.opno (nodes_string cur.impl_real)
          (join_sorted (List.map (fun (nm, md) -> string_of_name nm ^ "=" ^ string_of_int (int_of_nat md)) cur.impl_virt)) value
  | "rib" | "rnodes" -> Rib_glue.handle_obs cur.rib cur.case_id cur.opno label kind value
  | _ -> Printf.printf "BADLINE %d unknown observation %s\n" !lineno kind

let fib_main () =
  (try
    while true do
      let line = input_line stdin in
      incr lineno;
      (try
        match String.split_on_char ' ' line with
        | ["C"; id; m; kind; impls] ->
            finish_case ();
            incr ncases;
            cur.case_id <- id; cur.m <- int_of_string m; cur.kind <- kind; cur.impls <- impls;
            cur.universe <- []; cur.tree <- tree_init; cur.ht <- ht_init; cur.spec <- spec_init;
            cur.rib <- Rib_glue.init;
            cur.opno <- 0; cur.opkinds <- []; cur.oplog <- []; cur.nontrivial_obs <- false;
            cur.init_nh <- ""; cur.init_st <- ""
        | "U" :: names -> cur.universe <- List.map name_of_string (List.filter (fun s -> s <> "") names)
        | "O" :: fields ->
            cur.opno <- cur.opno + 1;
            cur.opkinds <- List.hd fields :: cur.opkinds;
            cur.oplog <- String.concat " " fields :: cur.oplog;
            if cur.kind = "fib" then begin
              let ops = match fibops_of fields with Some l -> Some l | None -> (match fibop_of fields with Some o -> Some [o] | None -> None) in
              match ops with
              | Some l ->
                  List.iter (fun o ->
                      cur.tree <- tree_step cur.tree o;
                      cur.ht <- ht_step (mnat ()) cur.ht o;
                      cur.spec <- spec_step cur.spec o) l
              | None -> Printf.printf "BADLINE %d %s\n" !lineno line
            end else if (match fields with ("sets" | "uns") :: _ -> true | _ -> false) then begin
              (* RIB-driven case: a strategy set/unset made directly on the FIB; the strategy part of the flat spec follows it *)
              match fibop_of fields with
              | Some o ->
                  if cur.impls = "T" then cur.tree <- tree_step cur.tree o else cur.ht <- ht_step (mnat ()) cur.ht o;
                  cur.spec <- spec_step cur.spec o
              | None -> Printf.printf "BADLINE %d %s\n" !lineno line
            end else begin
              (* RIB operation: the RIB model emits FIB operations, applied to the model of the FIB in use *)
              let (rib', fops) = Rib_glue.step cur.rib fields in
              cur.rib <- rib';
              List.iter (fun o ->
                  if cur.impls = "T" then cur.tree <- tree_step cur.tree o
                  else cur.ht <- ht_step (mnat ()) cur.ht o) fops
            end
        | "X" :: rest -> Printf.printf "ANOMALY %s %d %s\n" cur.case_id cur.opno (String.concat " " rest)
        | "N" :: rest -> Printf.printf "NOTE %s\n" (String.concat " " rest)
        | ["E"] -> finish_case ()
        | [label; kind; value] when label = "T" || label = "H" -> handle_obs label kind value
        | [""] | [] -> ()
        | _ -> Printf.printf "BADLINE %d %s\n" !lineno line
      with Failure msg | Invalid_argument msg -> Printf.printf "BADLINE %d %s (%s)\n" !lineno line msg)
    done
  with End_of_file -> ());
  finish_case ();
  Printf.printf "DONE %d %d %d\n" !ncases !lineno !nobs

let () =
  if Array.length Sys.argv > 1 && Sys.argv.(1) = "conc" then Conc_check.main () else fib_main ()
