(* runner/Tables/conv.ml — conversions between trace text and the extracted Coq datatypes *)
open Tables_model

(* ---------- conversions ---------- *)
let rec pos_of_int (i : int) : positive =
  if i = 1 then XH else if i land 1 = 0 then XO (pos_of_int (i lsr 1)) else XI (pos_of_int (i lsr 1))
let n_of_int (i : int) : n = if i = 0 then N0 else Npos (pos_of_int i)
let rec int_of_pos = function XH -> 1 | XO p -> 2 * int_of_pos p | XI p -> 2 * int_of_pos p + 1
let int_of_n = function N0 -> 0 | Npos p -> int_of_pos p
let n10 = n_of_int 10
let n_of_dec (s : string) : n =
  let acc = ref N0 in
  String.iter (fun c -> acc := N.add (N.mul !acc n10) (n_of_int (Char.code c - 48))) s; !acc
let rec dec_of_n (x : n) : string =
  if N.ltb x n10 then string_of_int (int_of_n x)
  else dec_of_n (N.div x n10) ^ string_of_int (int_of_n (N.modulo x n10))
let rec nat_of_int (i : int) : nat = if i <= 0 then O else S (nat_of_int (i - 1))
let rec int_of_nat = function O -> 0 | S k -> 1 + int_of_nat k

(* ---------- names and values ---------- *)
let name_of_string (s : string) : name =
  (* "/1/2~s": the marker after ~ says how the harness obtained the name (construction / NameFromStr / NameFromBytes) *)
  let s = match String.index_opt s '~' with Some i -> String.sub s 0 i | None -> s in
  if s = "/" || s = "" then []
  else List.map n_of_dec (List.tl (String.split_on_char '/' s))
let string_of_name (nm : name) : string =
  if nm = [] then "/" else String.concat "" (List.map (fun c -> "/" ^ dec_of_n c) nm)

let string_of_nh (l : (n * n) list) : string =
  if l = [] then "-" else String.concat "," (List.map (fun (f, c) -> dec_of_n f ^ ":" ^ dec_of_n c) l)
let nh_of_string (s : string) : (n * n) list =
  if s = "-" || s = "" then []
  else List.map (fun it -> match String.split_on_char ':' it with
                           | [f; c] -> (n_of_dec f, n_of_dec c)
                           | _ -> failwith ("bad nexthop " ^ it)) (String.split_on_char ',' s)
let sort_csv (s : string) : string =
  if s = "-" then s else String.concat "," (List.sort compare (String.split_on_char ',' s))
let string_of_strat = function None -> "-" | Some s -> dec_of_n s
let strat_of_string s = if s = "-" then None else Some (n_of_dec s)

let join_sorted (items : string list) : string =
  if items = [] then "-" else String.concat ";" (List.sort compare items)
let items_of (s : string) : string list = if s = "-" || s = "" then [] else String.split_on_char ';' s
(* "name=a=b" -> [name; a; b] *)
let fields_of (it : string) : string list = String.split_on_char '=' it

(* listing "name=nh;..." with the next hops of every entry sorted *)
let canon_listing (s : string) : string =
  join_sorted (List.map (fun it -> match fields_of it with
                                   | [nm; v] -> nm ^ "=" ^ sort_csv v
                                   | _ -> it) (items_of s))

let fib_listing_string (l : (name * (n * n) list) list) : string =
  join_sorted (List.map (fun (nm, nh) -> string_of_name nm ^ "=" ^ string_of_nh nh) l)
let strat_listing_string (l : (name * n) list) : string =
  join_sorted (List.map (fun (nm, s) -> string_of_name nm ^ "=" ^ dec_of_n s) l)
let nodes_string (t : fent amap) : string =
  join_sorted (List.map (fun (nm, e) -> string_of_name nm ^ "=" ^ string_of_nh e.nhs ^ "=" ^ string_of_strat e.strat) t)
let ent_map_of_string (s : string) : fent amap =
  List.map (fun it -> match fields_of it with
                      | [nm; nh; st] -> (name_of_string nm, { nhs = nh_of_string nh; strat = strat_of_string st })
                      | _ -> failwith ("bad node " ^ it)) (items_of s)


(* node dump "name=nh=strat;..." with the next hops of every node sorted *)
let canon_nodes (s : string) : string =
  join_sorted (List.map (fun it -> match fields_of it with
                                   | [nm; v; st] -> nm ^ "=" ^ sort_csv v ^ "=" ^ st
                                   | _ -> it) (items_of s))
