(* runner/Tables/rib_glue.ml — RIB part of the Tables runner: the model of fw/table/rib.go (rib_step, emitting FIB
   operations) and the C06 specification (flattening of the registered routes) evaluated on the implementation's answers. *)
open Tables_model
open Conv

type t = { rib : rib; rs : rspec }
let init : t = { rib = rib_init; rs = [] }

let ribop_of (fields : string list) : ribop option =
  match fields with
  | ["reg"; nm; f; o; c; fl] ->
      Some (Reg (name_of_string nm, { r_face = n_of_dec f; r_origin = n_of_dec o; r_cost = n_of_dec c; r_flags = n_of_dec fl }))
  | ["unreg"; nm; f; o] -> Some (Unreg (name_of_string nm, n_of_dec f, n_of_dec o))
  | ["cleanup"; f] | ["cleanup"; f; _] -> Some (Cleanup (n_of_dec f))   (* destroyed by management, or the transport closed *)
  | _ -> None

(* Go iterates the min-cost map in arbitrary order; the runner uses the identity and compares next hops as sets *)
let step (r : t) (fields : string list) : t * fibop list =
  match ribop_of fields with
  | Some o ->
      let (rib', fops) = rib_step (fun l -> l) r.rib o in
      ({ rib = rib'; rs = rspec_step r.rs o }, fops)
  | None -> failwith "bad rib op"

let want_nh (r : t) (nm : name) : string = string_of_nh (want_lookup r.rs nm)
(* the next hops the registered routes require at exactly this prefix *)
let want_entry (r : t) (nm : name) : string list =
  List.map (fun (f, c) -> dec_of_n f ^ ":" ^ dec_of_n c) (fib_want r.rs nm)

let want_listing (r : t) : string = canon_listing (fib_listing_string (Tables_model.want_listing r.rs))

let string_of_route (x : route) : string =
  String.concat ":" [dec_of_n x.r_face; dec_of_n x.r_origin; dec_of_n x.r_cost; dec_of_n x.r_flags]
let route_of_string (s : string) : route =
  match String.split_on_char ':' s with
  | [f; o; c; fl] -> { r_face = n_of_dec f; r_origin = n_of_dec o; r_cost = n_of_dec c; r_flags = n_of_dec fl }
  | _ -> failwith ("bad route " ^ s)
let routes_string ?(sorted = false) (l : route list) : string =
  if l = [] then "-" else
  let items = List.map string_of_route l in
  String.concat "," (if sorted then List.sort compare items else items)

let handle_obs (r : t) (case : string) (opno : int) (label : string) (kind : string) (value : string) : unit =
  match kind with
  | "rib" ->
      (* GetAllEntries: name=routes (sorted) for every entry with routes *)
      let mv = join_sorted (List.map (fun (nm, rs) -> string_of_name nm ^ "=" ^ routes_string ~sorted:true rs) (list_rib r.rib)) in
      if mv <> join_sorted (items_of value) then
        Printf.printf "DIVERGE %s %d %s rib model=%s impl=%s\n" case opno label mv value;
      let sv = join_sorted (List.filter_map (fun (nm, _) ->
                   match rget r.rs nm with [] -> None | rs -> Some (string_of_name nm ^ "=" ^ routes_string ~sorted:true rs)) r.rs) in
      if sv <> join_sorted (items_of value) then
        Printf.printf "ORACLE %s %d %s rib want=%s got=%s\n" case opno label sv value
  | "rnodes" ->
      (* the routes of an entry are a set: compared sorted *)
      let mv = join_sorted (List.map (fun (nm, nd) ->
                   string_of_name nm ^ "=" ^ (if nd.rn_named then "1" else "0") ^ "=" ^ routes_string ~sorted:true nd.rn_routes) r.rib) in
      let canon_impl = join_sorted (List.map (fun it -> match fields_of it with
                   | [nm; named; rs] -> nm ^ "=" ^ named ^ "=" ^ sort_csv rs
                   | _ -> it) (items_of value)) in
      if mv <> canon_impl then
        Printf.printf "DIVERGE %s %d %s rnodes model=%s impl=%s\n" case opno label mv value;
      let impl = List.map (fun it -> match fields_of it with
                                     | [nm; named; rs] ->
                                         (name_of_string nm,
                                          { rn_named = (named = "1");
                                            rn_routes = if rs = "-" then [] else List.map route_of_string (String.split_on_char ',' rs) })
                                     | _ -> failwith ("bad rib node " ^ it)) (items_of value) in
      if not (rib_minimal_b impl) then Printf.printf "MINIMAL %s %d %s rnodes=%s\n" case opno label value
  | _ -> ()
