(* runner/Tables/rib_glue.ml — RIB part of the Tables runner (model of fw/table/rib.go and the flattening spec). *)
open Tables_model
type t = unit
let init : t = ()
let step (r : t) (_fields : string list) : t * fibop list = (r, [])
let want_nh (_ : t) (_ : name) : string = "-"
let want_listing (_ : t) : string = "-"
let handle_obs (_ : t) (_case : string) (_opno : int) (_label : string) (_kind : string) (_value : string) : unit = ()
