(* runner/Object/driver.ml — replays the harness traces for C15 on the extracted Coq models (Object_model).
   Usage: runner <produce|store|fetch|e2e> < trace
   Output: "DIVERGE <case> <kind> <detail>" (model and implementation disagree), "ORACLE <case> <signature> <detail>"
   (the decidable specification, extracted from Coq, fails on the implementation's observations), "BADLINE ...",
   and a final "DONE <cases>". Cases are numbered from 1 in trace order.
   Byte strings are hex ("-" = empty); names are "-" or comma separated typ:hexvalue; a Wire is "~" (no buffers) or
   buffers joined by "|". *)
open Object_model

let rec pos_of_int (i : int) : positive =
  if i = 1 then XH else if i land 1 = 0 then XO (pos_of_int (i lsr 1)) else XI (pos_of_int (i lsr 1))
let n_of_int (i : int) : n = if i = 0 then N0 else Npos (pos_of_int i)
let rec int_of_pos = function XH -> 1 | XO p -> 2 * int_of_pos p | XI p -> 2 * int_of_pos p + 1
let int_of_n = function N0 -> 0 | Npos p -> int_of_pos p
let n10 = n_of_int 10
let n_of_dec (s : string) : n =
  let acc = ref N0 in
  String.iter (fun c -> acc := N.add (N.mul !acc n10) (n_of_int (Char.code c - 48))) s; !acc
let rec dec_of_n (x : n) : string =
  if N.ltb x n10 then string_of_int (int_of_n x)
  else dec_of_n (N.div x n10) ^ string_of_int (int_of_n (N.modulo x n10))
let rec nat_of_int (i : int) : nat = if i <= 0 then O else S (nat_of_int (i - 1))
let rec int_of_nat = function O -> 0 | S k -> 1 + int_of_nat k

let byte_tab = Array.init 256 n_of_int
let hexv c = match c with '0'..'9' -> Char.code c - 48 | 'a'..'f' -> Char.code c - 87 | 'A'..'F' -> Char.code c - 55 | _ -> failwith "hex"
let bytes_of_hex (h : string) : n list =
  let l = String.length h / 2 in
  let rec go i acc = if i < 0 then acc else go (i - 1) (byte_tab.(hexv h.[2*i] * 16 + hexv h.[2*i+1]) :: acc) in
  go (l - 1) []
let hex_of_bytes (b : n list) : string =
  let buf = Buffer.create 64 in
  List.iter (fun x -> Buffer.add_string buf (Printf.sprintf "%02x" (int_of_n x))) b; Buffer.contents buf
let hexf h = if h = "" then "-" else h
let unhexf h = if h = "-" then "" else h
let bytes_of_field f = bytes_of_hex (unhexf f)
let field_of_bytes b = hexf (hex_of_bytes b)

let comp_of_string (s : string) : comp =
  match String.index_opt s ':' with
  | Some i -> { ctyp = n_of_dec (String.sub s 0 i); cval = bytes_of_hex (String.sub s (i+1) (String.length s - i - 1)) }
  | None -> failwith ("bad comp " ^ s)
let name_of_string (s : string) : name =
  if s = "-" then [] else List.map comp_of_string (String.split_on_char ',' s)
let string_of_comp (c : comp) = dec_of_n c.ctyp ^ ":" ^ hex_of_bytes c.cval
let string_of_name (n : name) = if n = [] then "-" else String.concat "," (List.map string_of_comp n)
let wire_of_string (s : string) : n list list =
  if s = "~" then [] else List.map bytes_of_field (String.split_on_char '|' s)

let seg_size : nat = N.to_nat pSegmentSize

let ncases = ref 0
let diverge kind detail = Printf.printf "DIVERGE %d %s %s\n" !ncases kind detail
let oracle sigt detail = Printf.printf "ORACLE %d %s %s\n" !ncases sigt detail
let short s = if String.length s > 300 then String.sub s 0 300 ^ "..." else s

(* ------------------------------------------------------------------------------------------------ produce *)
let pkt_line (p : packet) : string =
  match p.p_body with
  | Payload b -> Printf.sprintf "PKT %s 1 %s %s %s" (string_of_name p.p_name) (dec_of_n p.p_ver) (string_of_comp p.p_fb) (field_of_bytes b)
  | Meta (inner, fb) -> Printf.sprintf "MET %s 1 %s %s %s %s" (string_of_name p.p_name) (dec_of_n p.p_ver) (string_of_comp p.p_fb) (string_of_name inner) (field_of_bytes fb)

let parse_pkt (fields : string list) : packet option =
  match fields with
  | ["PKT"; nm; _; ver; fb; payload] when fb <> "none" ->
      Some { p_name = name_of_string nm; p_ver = n_of_dec ver; p_body = Payload (bytes_of_field payload); p_fb = comp_of_string fb }
  | ["MET"; nm; _; ver; fb; inner; ifb] when fb <> "none" ->
      Some { p_name = name_of_string nm; p_ver = n_of_dec ver; p_body = Meta (name_of_string inner, bytes_of_field ifb); p_fb = comp_of_string fb }
  | _ -> None

let run_produce () =
  let cur = ref None and ret = ref None and impl = ref [] in
  (try
    while true do
      let line = input_line stdin in
      match String.split_on_char ' ' line with
      | ["PRODUCE"; store; nm; ver; expl; spare; bufs] ->
          incr ncases; cur := Some (store, name_of_string nm, n_of_dec ver, int_of_string spare, wire_of_string bufs);
          ret := None; impl := []
      | "PFAIL" :: verdict :: rest ->
          incr ncases;
          if verdict <> "ok" then oracle ("produce:store-failure:" ^ verdict) (String.concat " " rest)
      | ["RET"; r] -> ret := Some r
      | ("PKT" | "MET" | "BAD") :: _ -> impl := line :: !impl
      | ["END"] ->
          (match !cur, !ret with
           | Some (store, nm, ver, spare, bufs), Some r ->
               let content = List.concat bufs in
               let m = produce seg_size nm ver bufs in
               let (mret, mlines) = match m with
                 | PErr -> ("err", [])
                 | POk (rn, pkts) -> (string_of_name rn, List.map pkt_line pkts) in
               if mret <> r then diverge "produce-ret" (Printf.sprintf "store=%s spare=%d model=%s impl=%s" store spare mret r);
               let a = List.sort compare mlines and b = List.sort compare !impl in
               if a <> b then begin
                 let only x y = List.filter (fun l -> not (List.mem l y)) x in
                 diverge "produce-store" (Printf.sprintf "store=%s spare=%d size=%d model-only=[%s] impl-only=[%s]" store spare (List.length content)
                   (short (String.concat " ; " (List.map short (only a b)))) (short (String.concat " ; " (List.map short (only b a)))))
               end;
               (* oracle on the implementation's observations *)
               if content <> [] then begin
                 let pk = List.map (fun l -> parse_pkt (String.split_on_char ' ' l)) !impl in
                 let keyeq = List.for_all (fun l -> match String.split_on_char ' ' l with _ :: _ :: "1" :: _ -> true | _ -> false) !impl in
                 let ok = r <> "err" && keyeq && List.for_all (fun x -> x <> None) pk &&
                   produce_obs_ok seg_size nm ver content (name_of_string r)
                     (List.filter_map (fun x -> x) pk) in
                 if not ok then
                   oracle (Printf.sprintf "produce:%s:spare%s" (if r = "err" then "error" else "wrong-packets") (if spare >= 3 then ">=3" else "<3"))
                     (Printf.sprintf "store=%s name=%s ver=%s spare=%d size=%d ret=%s" store (string_of_name nm) (dec_of_n ver) spare (List.length content) r)
               end else if r <> "err" then
                 oracle "produce:empty-accepted" (Printf.sprintf "store=%s name=%s" store (string_of_name nm))
           | _ -> print_endline "BADLINE END without case");
          cur := None
      | [""] | [] -> ()
      | _ -> print_endline ("BADLINE " ^ short line)
    done
  with End_of_file -> ())

(* ------------------------------------------------------------------------------------------------ store *)
let opt_of_field f = if f = "nil" then None else Some (bytes_of_field f)
let field_of_opt = function None -> "nil" | Some b -> field_of_bytes b
let cap = boltIterCap

let mem_dump (t : mtree) : string =
  let item (q, i) =
    Printf.sprintf "%s!%s!%s!%d!%d" (string_of_name q) (field_of_opt i.mw) (dec_of_n i.mv)
      (int_of_nat (mt_nchildren t q)) (if i.chnil then 1 else 0) in
  String.concat ";" (List.sort compare (List.map item t))
let bolt_dump (db : bdb) : string =
  if db = [] then "~" else String.concat "," (List.map (fun (k, v) -> field_of_bytes k ^ "=" ^ field_of_bytes v) db)

let run_store () =
  let ms = ref ms_init and bs = ref bs_init and ss = ref ss_init and ssb = ref ss_init and opno = ref 0 in
  let step o =
    let (m', _) = ms_step id_order !ms o in ms := m';
    let (b', bo) = bs_step cap !bs o in bs := b';
    ss := sp_step !ss o; ssb := sp_step !ssb o;
    (match bo with SMisuse -> diverge "store-misuse" (Printf.sprintf "op %d is API misuse in the model" !opno) | _ -> ()) in
  (try
    while true do
      let line = input_line stdin in
      incr opno;
      match String.split_on_char ' ' line with
      | ["STORE"] -> incr ncases; ms := ms_init; bs := bs_init; ss := ss_init; ssb := ss_init; opno := 0
      | ["REMOVEM"; nm; p] ->
          (* Remove while a transaction is open, memory store only (bolt would block): acts on the committed state *)
          let o = SRemove (name_of_string nm, p = "1") in
          let (m', _) = ms_step id_order !ms o in ms := m'; ss := sp_step !ss o
      | ["PUTRAW"; nm; v] ->
          (* a foreign value written straight into the bucket (bolt only); the specification holds no packet for it *)
          bs := { !bs with bs_db = b_put (name_inner (name_of_string nm)) (bytes_of_field v) !bs.bs_db }
      | "STALE" :: rest ->
          oracle "store:bolt:returned-wire-not-stable" (short (String.concat " " rest))
      | ["PUT"; nm; ver; w] -> step (SPut (name_of_string nm, n_of_dec ver, bytes_of_field w))
      | ["REMOVE"; nm; p] -> step (SRemove (name_of_string nm, p = "1"))
      | ["BEGIN"] -> step SBegin
      | ["COMMIT"] -> step SCommit
      | ["ROLLBACK"] -> step SRollback
      | ["GET"; nm; p; rm; rb] ->
          let name = name_of_string nm and pfx = (p = "1") in
          let im = opt_of_field rm and ib = opt_of_field rb in
          (* correspondence *)
          let adm = mt_get_admissible !ms.ms_root name pfx in
          if not (List.mem im adm) then
            diverge "store-mem-get" (Printf.sprintf "op %d GET %s %s impl=%s model-admissible=[%s]" !opno nm p rm
              (String.concat "," (List.map field_of_opt adm)));
          let mb = b_get cap !bs.bs_db name pfx in
          if mb <> ib then
            diverge "store-bolt-get" (Printf.sprintf "op %d GET %s %s impl=%s model=%s" !opno nm p rb (field_of_opt mb));
          (* oracle: the specification on the implementation's answers *)
          let e = !ss.ss_e in
          let scan = int_of_nat (spec_scan_len e name) in
          if not (spec_get_ok e name pfx im) then
            oracle (Printf.sprintf "store:mem:%s" (if pfx then "prefix-not-newest" else "exact-wrong"))
              (Printf.sprintf "op %d GET %s %s returned %s" !opno nm p rm);
          let e = !ssb.ss_e in
          let scan = int_of_nat (spec_scan_len e name) in
          if not (spec_get_ok e name pfx ib) then
            oracle (Printf.sprintf "store:bolt:%s%s" (if pfx then "prefix-not-newest" else "exact-wrong")
                      (if pfx && scan >= int_of_n cap then ":scan>=cap" else ""))
              (Printf.sprintf "op %d GET %s %s returned %s (names under the prefix: %d)" !opno nm p rb scan)
      | ["DUMP"; dm; db] ->
          let mm = mem_dump !ms.ms_root in
          if mm <> dm then diverge "store-mem-dump" (Printf.sprintf "op %d model=%s impl=%s" !opno (short mm) (short dm));
          let mb = bolt_dump !bs.bs_db in
          if mb <> db then diverge "store-bolt-dump" (Printf.sprintf "op %d model=%s impl=%s" !opno (short mb) (short db))
      | ["END"] -> ()
      | "BAD" :: _ -> diverge "store-bad" (short line)
      | [""] | [] -> ()
      | _ -> print_endline ("BADLINE " ^ short line)
    done
  with End_of_file -> ())

(* ------------------------------------------------------------------------------------------------ fetch (level A) *)
let z_to_int (z : z) : int = match z with Z0 -> 0 | Zpos p -> int_of_pos p | Zneg p -> - (int_of_pos p)
let errs = function None -> "-" | Some e -> dec_of_n e
let cb_line sid (r : cbrec) : string =
  Printf.sprintf "CB %d %d %s %d %s %s" sid (if r.cb_complete then 1 else 0) (errs r.cb_err) (int_of_nat r.cb_progress)
    (match r.cb_err, r.cb_max with None, Some m -> string_of_int (int_of_nat m) | _ -> "-")
    (match r.cb_chunk with None -> "none" | Some b -> field_of_bytes b)
let st_line (c : client) : string =
  let pend = String.concat ";" (List.map (fun (xid, x) ->
      Printf.sprintf "%d:%s:%d" (int_of_nat xid) (string_of_name x.x_name) (match x.x_kind with MetaI -> 1 | SegI _ -> 0)) c.c_pending) in
  let ss = String.concat " " (List.map (fun (s : stream) ->
      Printf.sprintf "%d,%d,%d,%s,%d,%s,[%s],%s" (int_of_nat s.s_w0) (int_of_nat s.s_w1) (int_of_nat s.s_w2)
        (match s.s_err, s.s_segcnt with Some _, _ -> "x" | None, None -> "-1" | None, Some n -> string_of_int (int_of_nat n))
        (if s.s_complete then 1 else 0) (errs s.s_err)
        (String.concat "" (List.map (function Some _ -> "1" | None -> "0") s.s_content))
        (string_of_name s.s_fetch)) c.c_streams) in
  Printf.sprintf "ST q=%d,%d,%d,%d f=%s/%d/%d p=%s s=%s" (List.length c.c_outpipe) (List.length c.c_seginpipe)
    (List.length c.c_segfetch) (int_of_nat c.c_segcheck)
    (String.concat "." (List.map (fun i -> string_of_int (int_of_nat i)) c.f_streams)) (int_of_nat c.f_rr) (z_to_int c.f_out)
    pend ss

let parse_result (fields : string list) : result option =
  match fields with
  | ["data"; nm; content; fb; meta] ->
      Some (RData (name_of_string nm, bytes_of_field content, (if fb = "none" then None else Some (comp_of_string fb)),
                   (if meta = "none" then None else Some (name_of_string meta))))
  | ["timeout"] -> Some RTimeout | ["nack"] -> Some RNack | ["error"] -> Some RError | ["other"] -> Some ROther
  | _ -> None

let fetch_stats = Hashtbl.create 7
let bump k = Hashtbl.replace fetch_stats k (1 + (try Hashtbl.find fetch_stats k with Not_found -> 0))

(* the theorem consume_any_order applied to the implementation: when the decidable hypotheses hold for the event list
   of the case (run_ok, and for the strong conclusion run_clean and quiescence), its conclusion is evaluated on the
   callbacks the IMPLEMENTATION made *)
(* cases with send-fault injection (engine.Express returning an error while the Interest stays pending) are outside the
   model: only the property itself is evaluated on the implementation's observations *)
let fetch_case_implonly (evs : cev list) (impl_log : (int * cbrec) list) (impl_quiet : bool) =
  bump "send-fault-cases";
  let nstreams = List.length (List.filter (function EvConsume _ -> true | _ -> false) evs) in
  for sid = 0 to nstreams - 1 do
    let log = List.map snd (List.filter (fun (s, _) -> s = sid) impl_log) in
    let k = int_of_nat (completions log) in
    if k > 1 then
      oracle "fetch:impl-completed-more-than-once"
        (Printf.sprintf "stream %d: the callback reported completion %d times (send errors injected; errors seen: %s)" sid k
           (String.concat "," (List.filter_map (fun r -> if r.cb_complete then Some (errs r.cb_err) else None) log)))
    else if impl_quiet && k = 0 then
      oracle "fetch:impl-quiescent-consumer-never-completed"
        (Printf.sprintf "stream %d: nothing queued, nothing pending, no completion reported (send errors injected)" sid)
  done

(* for EVERY stepped case, honest or not (misbehaving producer, malformed replies): the callback reports completion at
   most once, nothing is reported after it, and when the implementation has nothing queued or pending exactly once *)
let fetch_case_terminal (evs : cev list) (impl_log : (int * cbrec) list) (impl_quiet : bool) =
  let nstreams = List.length (List.filter (function EvConsume _ -> true | _ -> false) evs) in
  for sid = 0 to nstreams - 1 do
    let log = List.map snd (List.filter (fun (s, _) -> s = sid) impl_log) in
    let k = int_of_nat (completions log) in
    let rec after_done seen = function
      | [] -> false
      | r :: rest -> if seen then true else after_done r.cb_complete rest in
    if k > 1 then
      oracle "fetch:impl-completed-more-than-once" (Printf.sprintf "stream %d: the callback reported completion %d times" sid k)
    else if after_done false log then
      oracle "fetch:impl-callback-after-completion" (Printf.sprintf "stream %d: a callback was made after the one that reported completion" sid)
    else if impl_quiet && k = 0 then
      oracle "fetch:impl-quiescent-consumer-never-completed"
        (Printf.sprintf "stream %d: nothing queued, nothing pending, yet no completion (content or error) was ever reported" sid)
  done

let fetch_case_oracle (objs : (string * n list list) list) (evs : cev list) (impl_log : (int * cbrec) list) (diverged : bool) (impl_quiet : bool) =
  let (_, _), cfin0 = run_checkb (fun _ -> []) cl_init evs in
  let fetch_of sid = string_of_name (List.nth cfin0.c_streams sid).s_fetch in
  let w (sid : nat) : n list list =
    let i = int_of_nat sid in
    if i < List.length cfin0.c_streams then (try List.assoc (fetch_of i) objs with Not_found -> []) else [] in
  let ((ok, clean), cfin) = run_checkb w cl_init evs in
  let wf = List.for_all (fun (_, segs) -> wf_objectb segs) objs in
  if ok && wf then begin
    bump "theorem-applies";
    let quiet = quiescentb cfin in
    if quiet then bump "quiescent"; if clean then bump "clean";
    (* the property itself on the implementation's observations, independent of the model's state: the implementation has
       nothing queued and nothing in flight (nothing will ever happen again) — then every consumer must have had its
       one completion callback *)
    if impl_quiet then
      List.iteri (fun sid (_ : stream) ->
        let log = List.map snd (List.filter (fun (s, _) -> s = sid) impl_log) in
        if int_of_nat (completions log) = 0 then
          oracle "fetch:impl-quiescent-consumer-never-completed"
            (Printf.sprintf "stream %d (%s): the client has nothing queued and no Interest pending, yet this consumer's callback never reported completion (%d callbacks)"
               sid (fetch_of sid) (List.length log))) cfin.c_streams;
    if quiet && clean then bump "quiescent+clean";
    List.iteri (fun sid (_ : stream) ->
      let log = List.map snd (List.filter (fun (s, _) -> s = sid) impl_log) in
      let segs = w (nat_of_int sid) in
      let content = List.concat segs in
      let delivered = log_chunks log in
      let rec prefixes acc = function [] -> [acc] | s :: r -> acc :: prefixes (acc @ s) r in
      let detail = Printf.sprintf "stream %d: %d callbacks, %d completions, %d bytes handed out, object has %d bytes in %d segments"
          sid (List.length log) (int_of_nat (completions log)) (List.length delivered) (List.length content) (List.length segs) in
      if int_of_nat (completions log) > 1 then oracle "fetch:spec:completed-more-than-once" detail
      else if not (List.mem delivered (prefixes [] segs)) then oracle "fetch:spec:bytes-not-a-prefix-of-the-object" detail
      else if quiet && not diverged then begin
        if not (consume_log_ok content true log) then oracle "fetch:spec:no-single-final-completion-at-quiescence" detail
        else if clean && not (consume_log_ok content false log) then oracle "fetch:spec:error-or-wrong-content-on-clean-run" detail
      end) cfin.c_streams
  end else bump (if wf then "dishonest-or-malformed-replies" else "ill-formed-object")

let run_fetch () =
  let objs = ref [] and evs = ref [] and impl_log = ref [] and any_div = ref false and impl_quiet = ref false and sendfault = ref false in
  let nonces : (string, string list) Hashtbl.t = Hashtbl.create 17 in
  let c = ref cl_init and evno = ref 0 and impl_cbs = ref [] and last_ev = ref "" and stop = ref false in
  let logs_len = ref [] in    (* per stream: number of callback records already printed *)
  let new_cb_lines () =
    let lines = ref [] in
    let lens = ref [] in
    List.iteri (fun sid (s : stream) ->
        let seen = (try List.nth !logs_len sid with _ -> 0) in
        let l = s.s_log in
        List.iteri (fun i r -> if i >= seen then lines := cb_line sid r :: !lines) l;
        lens := List.length l :: !lens) !c.c_streams;
    logs_len := List.rev !lens;
    List.rev !lines in
  let apply ev = evs := ev :: !evs; c := step !c ev in
  (try
    while true do
      let line = input_line stdin in
      match String.split_on_char ' ' line with
      | ["FETCH"] -> incr ncases; c := cl_init; evno := 0; impl_cbs := []; logs_len := []; stop := false;
          objs := []; evs := []; impl_log := []; any_div := false; impl_quiet := false; sendfault := false; Hashtbl.reset nonces
      | "SENDERR" :: _ -> sendfault := true; stop := true
      | ["NONCE"; xid; nm; nonce] ->
          (* on the implementation's observations: every transmission of an Interest name carries a fresh nonce *)
          let seen = (try Hashtbl.find nonces nm with Not_found -> []) in
          if nonce = "none" then oracle "fetch:interest-without-nonce" (Printf.sprintf "express %s of %s" xid nm)
          else if List.mem nonce seen then
            oracle "fetch:retransmission-reuses-nonce"
              (Printf.sprintf "express %s: Interest %s sent again with nonce %s, which an earlier transmission of the same name already carried (a forwarder drops it as a duplicate)" xid nm nonce);
          Hashtbl.replace nonces nm (nonce :: seen)
      | ["QUIET"; q] -> impl_quiet := (q = "1")
      | ["OBJ"; nm; segs] -> objs := (nm, wire_of_string segs) :: !objs
      | "CB" :: sid :: complete :: err :: progress :: max :: [chunk] when !stop ->
          impl_log := (int_of_string sid, { cb_complete = (complete = "1"); cb_err = (if err = "-" then None else Some (n_of_dec err));
                   cb_progress = nat_of_int (int_of_string progress);
                   cb_max = (if max = "-" then None else Some (nat_of_int (int_of_string max)));
                   cb_chunk = (if chunk = "none" then None else Some (bytes_of_field chunk)) }) :: !impl_log
      | "EV" :: rest when !stop ->
          (* after a divergence the model is no longer stepped, but the event list is still collected for the oracle *)
          any_div := true;
          (match rest with
           | ["consume"; nm; pol] -> evs := EvConsume (name_of_string nm, (if pol = "every" then PolEvery else PolAtEnd)) :: !evs
           | ["run"; "out"] -> evs := EvRunOut :: !evs
           | ["run"; "segin"] -> evs := EvRunSegIn :: !evs
           | ["run"; "fetch"] -> evs := EvRunFetch :: !evs
           | ["run"; "check"] -> evs := EvRunCheck :: !evs
           | "result" :: xid :: r -> (match parse_result r with Some res -> evs := EvResult (nat_of_int (int_of_string xid), res) :: !evs | None -> ())
           | _ -> ())
      | _ when !stop && line <> "END" -> ()
      | "EV" :: rest ->
          incr evno; last_ev := line; impl_cbs := [];
          (match rest with
           | ["consume"; nm; pol] -> apply (EvConsume (name_of_string nm, (if pol = "every" then PolEvery else PolAtEnd)))
           | ["run"; "out"] -> apply EvRunOut
           | ["run"; "segin"] -> apply EvRunSegIn
           | ["run"; "fetch"] -> apply EvRunFetch
           | ["run"; "check"] -> apply EvRunCheck
           | "result" :: xid :: r ->
               (match parse_result r with
                | Some res -> apply (EvResult (nat_of_int (int_of_string xid), res))
                | None -> print_endline ("BADLINE " ^ short line))
           | _ -> print_endline ("BADLINE " ^ short line))
      | "CB" :: sid :: complete :: err :: progress :: max :: [chunk] ->
          impl_cbs := line :: !impl_cbs;
          impl_log := (int_of_string sid, { cb_complete = (complete = "1"); cb_err = (if err = "-" then None else Some (n_of_dec err));
                   cb_progress = nat_of_int (int_of_string progress);
                   cb_max = (if max = "-" then None else Some (nat_of_int (int_of_string max)));
                   cb_chunk = (if chunk = "none" then None else Some (bytes_of_field chunk)) }) :: !impl_log
      | "ST" :: _ ->
          let mcbs = List.sort compare (new_cb_lines ()) and icbs = List.sort compare !impl_cbs in
          if mcbs <> icbs then begin
            diverge "fetch-callback" (Printf.sprintf "event %d (%s): model=[%s] impl=[%s]" !evno (short !last_ev)
              (short (String.concat " ; " mcbs)) (short (String.concat " ; " icbs))); stop := true end;
          let m = st_line !c in
          if m <> line && not !stop then begin
            diverge "fetch-state" (Printf.sprintf "event %d (%s): model=%s impl=%s" !evno (short !last_ev) (short m) (short line));
            stop := true end;
          if List.exists (fun (s : stream) -> s.s_panic) !c.c_streams && not !stop then begin
            diverge "fetch-panic" (Printf.sprintf "event %d: the model reached an unchecked index" !evno); stop := true end
      | "HANG" :: what ->
          oracle ("fetch:hang:" ^ String.concat "_" what)
            (Printf.sprintf "event %d (%s): the client's goroutine never returned from %s" !evno (short !last_ev) (String.concat " " what))
      | ["END"] ->
          if not !sendfault then fetch_case_terminal (List.rev !evs) (List.rev !impl_log) !impl_quiet;
          if !sendfault then fetch_case_implonly (List.rev !evs) (List.rev !impl_log) !impl_quiet
          else fetch_case_oracle !objs (List.rev !evs) (List.rev !impl_log) !any_div !impl_quiet
      | [""] | [] -> ()
      | _ -> print_endline ("BADLINE " ^ short line)
    done
  with End_of_file -> ())

(* ------------------------------------------------------------------------------------------------ e2e (level B) *)
let run_e2e () =
  let pubs = ref [] (* (name string, version n, content) *) and cur = ref None and cbs = ref [] and store = ref "" in
  let vtyp = typVersion in
  (try
    while true do
      let line = input_line stdin in
      match String.split_on_char ' ' line with
      | ["E2E"; st] -> incr ncases; pubs := []; cur := None; cbs := []; store := st
      | ["PUB"; nm; ver; content] -> pubs := (nm, n_of_dec ver, bytes_of_field content) :: List.filter (fun (a, v, _) -> not (a = nm && v = n_of_dec ver)) !pubs
      | ["REM"; nm; ver] -> pubs := List.filter (fun (a, v, _) -> not (a = nm && v = n_of_dec ver)) !pubs
      | ["CONSUME"; nm; pol; mode; dropped; late; dups] -> cur := Some (nm, pol, mode, int_of_string dropped); cbs := []
      | ["CB"; _; complete; err; progress; max; chunk] ->
          cbs := { cb_complete = (complete = "1"); cb_err = (if err = "-" then None else Some (n_of_dec err));
                   cb_progress = nat_of_int (int_of_string progress);
                   cb_max = (if max = "-" then None else Some (nat_of_int (int_of_string max)));
                   cb_chunk = (if chunk = "none" then None else Some (bytes_of_field chunk)) } :: !cbs
      | ["LATE"; k] ->
          (match !cur with
           | None -> print_endline "BADLINE LATE without CONSUME"
           | Some (nm, pol, mode, dropped) ->
               let log = List.rev !cbs in
               let name = name_of_string nm in
               let (objname, wanted) = match List.rev name with
                 | c :: rest when N.eqb c.ctyp vtyp -> (string_of_name (List.rev rest), Some (N.modulo (be_val c.cval) two64))
                 | _ -> (nm, None) in
               let cands = List.filter (fun (a, _, _) -> a = objname) !pubs in
               let expected = match wanted with
                 | Some v -> (match List.filter (fun (_, v', _) -> v' = v) cands with (_, _, c) :: _ -> Some c | [] -> None)
                 | None -> List.fold_left (fun acc (_, v, c) -> match acc with
                              | Some (bv, _) when not (N.ltb bv v) -> acc
                              | _ -> Some (v, c)) None cands |> Option.map snd in
               let may_fail = (mode = "blackhole" && dropped > 0) || (mode = "sendfault" && dropped > 0) in
               let sigp = Printf.sprintf "e2e:%s:%s" !store mode in
               let detail = Printf.sprintf "CONSUME %s %s: %d callbacks, %d completion(s), delivered %d bytes, expected %s" nm pol (List.length log)
                   (int_of_nat (completions log)) (List.length (log_chunks log))
                   (match expected with Some c -> string_of_int (List.length c) ^ " bytes" | None -> "an error (nothing published under that name)") in
               if k <> "0" then oracle (sigp ^ ":callback-after-completion") detail
               else (match expected with
                 | Some content ->
                     if not (consume_log_ok content may_fail log) then begin
                       let delivered = log_chunks log in
                       let kind =
                         if completions log = O then "never-completed"
                         else if int_of_nat (completions log) > 1 then "completed-more-than-once"
                         else if List.exists (fun (_, _, c) -> c = delivered && c <> content) !pubs then "not-newest-version"
                         else if List.exists (fun r -> r.cb_err <> None) log then "unexpected-error"
                         else "wrong-content" in
                       oracle (sigp ^ ":" ^ kind) detail end
                 | None ->
                     let ok = int_of_nat (completions log) = 1 &&
                              (match List.rev log with last :: _ -> last.cb_complete && last.cb_err <> None | [] -> false) in
                     if not ok then oracle (sigp ^ ":served-unpublished") detail));
          cur := None
      | ["END"] -> ()
      | "BAD" :: _ -> oracle "e2e:bad" (short line)
      | "HANG" :: _ -> oracle "e2e:hang" (short line)
      | [""] | [] -> ()
      | _ -> print_endline ("BADLINE " ^ short line)
    done
  with End_of_file -> ())

let () =
  let mode = if Array.length Sys.argv > 1 then Sys.argv.(1) else "produce" in
  (match mode with
   | "produce" -> run_produce ()
   | "store" -> run_store ()
   | "fetch" -> run_fetch ()
   | "e2e" -> run_e2e ()
   | _ -> print_endline ("BADLINE unknown mode " ^ mode));
  Hashtbl.iter (fun k v -> Printf.printf "STAT %s %d\n" k v) fetch_stats;
  Printf.printf "DONE %d\n" !ncases
