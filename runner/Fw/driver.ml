(* runner/Fw/driver.ml — replays the harness trace of harness/fwcore on the forwarder model extracted from Coq
   (coq/Fw/Model.v) and evaluates the extracted spec oracles (coq/Fw/Spec.v) on the implementation's observations.

   Trace (one record per line; see harness/fwcore/fwcore_test.go):
     case <k> / cfg ... / probe <names> ; <nonces>
     ev <operation>            followed by the implementation's picks and observations for that operation:
       pick tok <n|->  pick thr <k>  pick thrs <k,k,..|->  pick expired <t,t,..|->
       out <thread> <face> <I|D> <name> <hop|-> <tokhex|->      (sorted; thread = forwarding thread that sent it)
       per thread k:  pit <k> <entries>   pitn <k> <entries> <tokens> <queued>   cs <k> <name:stale ..>   dnl <k> <size> <name:nonce ..>
     end
   Output:
     DIVERGE <case> <event#> <what> model=[..] impl=[..]      model and implementation disagree on an observable
     ORACLE <prop> <case> <event#> <signature> | <detail>     the implementation's observation violates the spec
     CASE <case> <events> <kinds> <nontrivial 0|1> <hash>      per-case statistics
     DONE <cases> <events>                                                                                     *)
open Fw_model

let rec pos_of_int (i : int) : positive =
  if i = 1 then XH else if i land 1 = 0 then XO (pos_of_int (i lsr 1)) else XI (pos_of_int (i lsr 1))
let n_of_int (i : int) : n = if i = 0 then N0 else Npos (pos_of_int i)
let rec int_of_pos = function XH -> 1 | XO p -> 2 * int_of_pos p | XI p -> 2 * int_of_pos p + 1
let int_of_n = function N0 -> 0 | Npos p -> int_of_pos p
(* OCaml ints are 63-bit: enough for nanosecond times, 32-bit nonces/tokens and 64-bit-free ids used here *)
(* numbers up to 2^64-1 occur (FIB costs): the slow path goes through Coq's N *)
let n10 = n_of_int 10
let n_of_dec (s : string) : n =
  if String.length s <= 17 then n_of_int (int_of_string s)
  else begin
    let acc = ref N0 in
    String.iter (fun c -> acc := N.add (N.mul !acc n10) (n_of_int (Char.code c - 48))) s; !acc
  end
let big = n_of_int 1000000000000000000
let rec dec_of_n (x : n) : string =
  if N.ltb x big then string_of_int (int_of_n x)
  else dec_of_n (N.div x n10) ^ string_of_int (int_of_n (N.modulo x n10))

let bytes_of_hex (h : string) : n list =
  if h = "-" then [] else
  List.init (String.length h / 2) (fun i -> n_of_int (int_of_string ("0x" ^ String.sub h (2*i) 2)))
let hex_of_bytes (b : n list) : string =
  if b = [] then "-" else String.concat "" (List.map (fun x -> Printf.sprintf "%02x" (int_of_n x)) b)

let name_of_string (s : string) : name =
  if s = "/" then [] else
  List.map (fun c -> match String.split_on_char '.' c with
      | [t; v] -> (n_of_dec t, n_of_dec v)
      | _ -> failwith ("bad component " ^ c))
    (List.tl (String.split_on_char '/' s))
let string_of_name (n : name) : string =
  if n = [] then "/" else String.concat "" (List.map (fun (t, v) -> "/" ^ dec_of_n t ^ "." ^ dec_of_n v) n)

let optn s = if s = "-" then None else Some (n_of_dec s)
let b01 b = if b then "1" else "0"
let ms_to_ns (x : n) : n = N.mul x (n_of_int 1000000)

(* ---------------------------------------------------------------- canonical printing of the model state *)
let string_of_out (o : out) : string =
  Printf.sprintf "%s %s %s %s %s" (dec_of_n o.o_face) (match o.o_kind with KInterest -> "I" | KData -> "D")
    (string_of_name o.o_name) (match o.o_hop with Some h -> dec_of_n h | None -> "-") (hex_of_bytes o.o_tok)

let pit_line (p : pite list) : string =
  let ents = List.stable_sort (fun a b -> compare (string_of_name a.pe_name) (string_of_name b.pe_name)) p in
  let se e =
    let ins = List.sort (fun a b -> compare (int_of_n a.ir_face) (int_of_n b.ir_face)) e.pe_ins in
    let outs = List.sort (fun a b -> compare (int_of_n a.or_face) (int_of_n b.or_face)) e.pe_outs in
    String.concat "|" [
      string_of_name e.pe_name; b01 e.pe_cbp; b01 e.pe_mbf;
      (if e.pe_hint = [] then "-" else string_of_name e.pe_hint);
      dec_of_n e.pe_tok; b01 e.pe_sat;
      (match e.pe_q with Some q -> dec_of_n q | None -> "-");
      (if ins = [] then "-" else String.concat "," (List.map (fun r ->
         String.concat ":" [dec_of_n r.ir_face; dec_of_n r.ir_nonce; dec_of_n r.ir_at; dec_of_n r.ir_exp; hex_of_bytes r.ir_tok]) ins));
      (if outs = [] then "-" else String.concat "," (List.map (fun r ->
         String.concat ":" [dec_of_n r.or_face; dec_of_n r.or_nonce; dec_of_n r.or_at; dec_of_n r.or_exp; string_of_name r.or_name]) outs)) ] in
  String.concat " " ("pit" :: List.map se ents)

let pitn_line (p : pite list) (ncs : int) : string =
  Printf.sprintf "pitn %d %d %d %d" (List.length p) (List.length p) (List.length (List.filter (fun e -> e.pe_q <> None) p)) ncs

let cs_line (c : csent list) : string =
  let l = List.sort compare (List.map (fun e -> string_of_name e.cs_name ^ ":" ^ dec_of_n e.cs_stale) c) in
  if l = [] then "cs " else "cs " ^ String.concat " " l

let dnl_line (s : fw) (pn : (string * name) list) (px : n list) : string =
  let hits = List.concat_map (fun (ns, nm) ->
      List.filter_map (fun x -> if dnl_has s.dnl nm x then Some (ns ^ ":" ^ dec_of_n x) else None) px) pn in
  let hits = List.sort compare hits in
  Printf.sprintf "dnl %d %s" (List.length s.dnl) (String.concat " " hits)

(* did the implementation take this Interest as pending?  yes iff after the event its PIT dump has, in the entry with the
   Interest's aggregation key, an in-record of the arrival face stamped with the time of this event (every event of the
   harness happens at a distinct virtual instant); returns that entry's token *)
let impl_pending (pitl : string) (nm : string) (cbp : string) (mbf : string) (hint : string) (face : string) (now : string)
  : string option =
  let ents = match String.split_on_char ' ' pitl with _ :: r -> r | [] -> [] in
  List.find_map (fun e ->
    match String.split_on_char '|' e with
    | n :: c :: m :: h :: tok :: _ :: _ :: ins :: _ when n = nm && c = cbp && m = mbf && h = hint ->
        if ins = "-" then None else
        if List.exists (fun r -> match String.split_on_char ':' r with
                                 | f :: _ :: at :: _ -> f = face && at = now
                                 | _ -> false) (String.split_on_char ',' ins)
        then Some tok else None
    | _ -> None) ents

(* ---------------------------------------------------------------- parsing *)
let fields (l : string) : string list = List.filter (fun s -> s <> "") (String.split_on_char ' ' l)

let parse_event (f : string list) : wev =
  match f with
  | ["face"; "add"; id; loc; lt] ->
      WGlobal (EFaceAdd { f_id = n_of_dec id; f_local = (loc = "1");
                          f_link = (match lt with "1" -> MultiAccess | "2" -> AdHoc | _ -> P2P) })
  | ["face"; "del"; id] -> WGlobal (EFaceDel (n_of_dec id))
  | ["fib"; "ins"; n; fc; c] -> WGlobal (EFibIns (name_of_string n, n_of_dec fc, n_of_dec c))
  | ["fib"; "rem"; n; fc] -> WGlobal (EFibRem (name_of_string n, n_of_dec fc))
  | ["fib"; "clr"; n] -> WGlobal (EFibClr (name_of_string n))
  | ["strat"; "set"; n; s] -> WGlobal (EStratSet (name_of_string n, n_of_dec s))
  | ["strat"; "unset"; n] -> WGlobal (EStratUnset (name_of_string n))
  | ["cs"; a; s] -> WGlobal (ECsFlags (a = "1", s = "1"))
  | ["cscap"; c] -> WGlobal (ECsCap (n_of_dec c))
  | ["sleep"; d] -> WGlobal (ESleep (n_of_dec d))
  | ["tick"; k; now] | ["rtick"; k; now] -> WLocal (n_of_dec k, ETick (n_of_dec now))
  | ["sweep"; k; now] | ["rsweep"; k; now] -> WLocal (n_of_dec k, ESweep (n_of_dec now))
  | ["int"; now; fc; n; cbp; mbf; nonce; life; hop; hints; tok; nhf] ->
      WPacket (EInterest (n_of_dec now, {
        i_face = n_of_dec fc; i_name = name_of_string n; i_cbp = (cbp = "1"); i_mbf = (mbf = "1");
        i_nonce = optn nonce; i_life = (match optn life with Some l -> Some (ms_to_ns l) | None -> None);
        i_hop = optn hop;
        i_hints = (if hints = "-" then [] else List.map name_of_string (String.split_on_char ';' hints));
        i_tok = bytes_of_hex tok; i_nhf = optn nhf }))
  | ["data"; now; fc; n; fresh; tok] ->
      WPacket (EData (n_of_dec now, { d_face = n_of_dec fc; d_name = name_of_string n;
                             d_fresh = (match optn fresh with Some l -> Some (ms_to_ns l) | None -> None);
                             d_tok = bytes_of_hex tok }))
  | _ -> failwith ("bad event: " ^ String.concat " " f)

(* "shortly after the lifetime has elapsed": two periods of the PIT update timer of the production loop (2 x 100 ms) *)
let reap_bound : n = n_of_int 200000000

type block = { mutable evl : string list; mutable picks : (string * string) list; mutable outs : (int * string) list;
               bpit : (int, string) Hashtbl.t; bpitn : (int, string) Hashtbl.t; bcs : (int, string) Hashtbl.t;
               bdnl : (int, string) Hashtbl.t; mutable noobs : bool; mutable clock : string option }

let strat_of_name (s : fw) (n : name) : n = strat_of s.strat n
let hget t k d = try Hashtbl.find t k with Not_found -> d

let () =
  let prop = if Array.length Sys.argv > 1 then Sys.argv.(1) else "ALL" in
  let want p = prop = "ALL" || prop = p in
  let lines = ref [] in
  (try while true do lines := input_line stdin :: !lines done with End_of_file -> ());
  let lines = Array.of_list (List.rev !lines) in
  let nl = Array.length lines in
  let ncases = ref 0 and nevents = ref 0 in
  let stats = Hashtbl.create 16 in
  let bump k = Hashtbl.replace stats k (1 + (try Hashtbl.find stats k with Not_found -> 0)) in
  let i = ref 0 in
  while !i < nl do
    let l = lines.(!i) in
    if String.length l >= 5 && String.sub l 0 5 = "case " then begin
      let caseid = String.sub l 5 (String.length l - 5) in
      incr ncases;
      incr i;
      (* cfg *)
      let region = ref [] and dlife = ref (n_of_int 6000000000) and nthreads = ref 1 and runloop = ref false in
      let probe_names = ref [] and probe_nonces = ref [] in
      let hash_tbl = Hashtbl.create 64 in
      while !i < nl && (let f = fields lines.(!i) in f <> [] && (List.hd f = "cfg" || List.hd f = "probe" || List.hd f = "hash")) do
        let f = fields lines.(!i) in
        (match f with
         | "cfg" :: kv ->
             List.iter (fun s -> match String.split_on_char '=' s with
                 | ["region"; r] -> region := [name_of_string r]
                 | ["dnl"; d] -> dlife := n_of_dec d
                 | ["threads"; t] -> nthreads := int_of_string t
                 | ["run"; r] -> runloop := (r = "1")
                 | _ -> ()) kv
         | "hash" :: kv ->
             List.iter (fun s -> match String.split_on_char '=' s with
                 | [nm; k] -> Hashtbl.replace hash_tbl nm (n_of_dec k)
                 | _ -> ()) kv
         | "probe" :: rest ->
             let rec split acc = function
               | ";" :: r -> (List.rev acc, r)
               | x :: r -> split (x :: acc) r
               | [] -> (List.rev acc, []) in
             let (ns, xs) = split [] rest in
             probe_names := List.map (fun s -> (s, name_of_string s)) ns;
             probe_nonces := List.map n_of_dec xs
         | _ -> ());
        incr i
      done;
      let nt = !nthreads in
      let tN = n_of_int nt in
      let hfun (n : name) : n = try Hashtbl.find hash_tbl (string_of_name n) with Not_found -> N0 in
      (* blocks *)
      let blocks = ref [] in
      let cur = ref None in
      let fin () = match !cur with Some b -> blocks := b :: !blocks; cur := None | None -> () in
      let withb f = match !cur with Some b -> f b | None -> () in
      while !i < nl && lines.(!i) <> "end" && not (String.length lines.(!i) >= 5 && String.sub lines.(!i) 0 5 = "case ") do
        let f = fields lines.(!i) in
        (match f with
         | "ev" :: rest -> fin (); cur := Some { evl = rest; picks = []; outs = []; bpit = Hashtbl.create 4; bpitn = Hashtbl.create 4;
                                                 bcs = Hashtbl.create 4; bdnl = Hashtbl.create 4; noobs = false; clock = None }
         | ["noobs"] -> withb (fun b -> b.noobs <- true)
         | ["clock"; c] -> withb (fun b -> b.clock <- Some c)
         | "pick" :: k :: v :: _ -> withb (fun b -> b.picks <- (k, v) :: b.picks)
         | "out" :: k :: rest -> withb (fun b -> b.outs <- (int_of_string k, String.concat " " rest) :: b.outs)
         | "pit" :: k :: rest -> withb (fun b -> Hashtbl.replace b.bpit (int_of_string k) (String.concat " " ("pit" :: rest)))
         | "pitn" :: k :: rest -> withb (fun b -> Hashtbl.replace b.bpitn (int_of_string k) (String.concat " " ("pitn" :: rest)))
         | "cs" :: k :: rest -> withb (fun b -> Hashtbl.replace b.bcs (int_of_string k) (if rest = [] then "cs " else "cs " ^ String.concat " " rest))
         | "dnl" :: k :: n :: rest -> withb (fun b -> Hashtbl.replace b.bdnl (int_of_string k) (Printf.sprintf "dnl %s %s" n (String.concat " " rest)))
         | _ -> ());
        incr i
      done;
      fin ();
      if !i < nl && lines.(!i) = "end" then incr i;
      let blocks = List.rev !blocks in
      (* replay *)
      let ws = ref (winit !region !dlife (let rec nat_of k = if k = 0 then O else S (nat_of (k - 1)) in nat_of nt)) in
      let evno = ref 0 in
      let kinds = Hashtbl.create 8 in
      let changed = ref false in
      let prev_obs = ref None in
      let diverged = ref false in
      let sent_hist = Hashtbl.create 16 in
      let must_dead = Hashtbl.create 16 and may_dead = Hashtbl.create 16 and last_nonce = Hashtbl.create 16 in
      let sp = Array.make nt [] in   (* C01: per-thread pending tables computed from the history and the implementation's observations *)
      List.iter (fun b ->
        incr evno; incr nevents;
        Hashtbl.replace kinds (List.hd b.evl) ();
        let we = parse_event b.evl in
        let outs_impl = List.sort compare b.outs in
        let outs_impl_str = String.concat "; " (List.map (fun (k, s) -> Printf.sprintf "%d:%s" k s) outs_impl) in
        let pick k = try Some (List.assoc k b.picks) with Not_found -> None in
        let first_out kind = List.find_map (fun (_, s) -> match fields s with
            | fc :: k :: nm :: _ when k = kind -> Some (fc, nm) | _ -> None) outs_impl in
        let ch = {
          ch_tok = (match pick "tok" with Some "-" | None -> N0 | Some t -> n_of_dec t);
          ch_tie = (match first_out "I" with Some (fc, _) -> Some (n_of_dec fc) | None -> None);
          ch_cs = (match first_out "D" with Some (_, nm) -> Some (name_of_string nm) | None -> None);
          ch_expired = (match pick "expired" with Some "-" | None -> [] | Some s -> List.map n_of_dec (String.split_on_char ',' s)) } in
        let pre_ok = not !diverged in   (* the model state before this event has been validated against the implementation *)
        let pre_ws = !ws in
        let pre k = List.nth pre_ws k in
        let pre0 = pre 0 in
        let (((ws', outs_model), ok), panic) = wstep tN hfun pre_ws we ch in
        ws := ws';
        let thr_of_name (n : name) = int_of_n (hfun n) in
        if not !diverged then begin
          let dv what m im = diverged := true;
            Printf.printf "DIVERGE %s %d %s model=[%s] impl=[%s]\n" caseid !evno what m im in
          let outs_model_s = List.sort compare (List.concat_map (fun (k, os) -> List.map (fun o -> (int_of_n k, string_of_out o)) os) outs_model) in
          (* dispatch cross-check *)
          (match we, pick "thr", pick "thrs" with
           | WPacket (EInterest (_, i)), Some t, _ when int_of_string t <> thr_of_name i.i_name ->
               dv "dispatch-interest" (string_of_int (thr_of_name i.i_name)) t
           | WPacket (EData (_, d)), _, Some ts ->
               let (m, _) = dispatch_data tN hfun d in
               let ms = List.sort compare (List.map int_of_n m) in
               let is = if ts = "-" then [] else List.sort compare (List.map int_of_string (String.split_on_char ',' ts)) in
               if ms <> is then dv "dispatch-data" (String.concat "," (List.map string_of_int ms)) ts
           | _ -> ());
          if not !diverged then begin
            if outs_model_s <> outs_impl then
              dv "outputs" (String.concat "; " (List.map (fun (k, s) -> Printf.sprintf "%d:%s" k s) outs_model_s)) outs_impl_str
            else begin
              if not b.noobs then List.iteri (fun k s ->
                if not !diverged then begin
                  if pit_line s.pit <> hget b.bpit k "pit" then dv (Printf.sprintf "pit@%d" k) (pit_line s.pit) (hget b.bpit k "pit")
                  else if pitn_line s.pit (List.length s.cs) <> hget b.bpitn k "" then dv (Printf.sprintf "pit-counters@%d" k) (pitn_line s.pit (List.length s.cs)) (hget b.bpitn k "")
                  else if cs_line s.cs <> hget b.bcs k "cs " then dv (Printf.sprintf "cs@%d" k) (cs_line s.cs) (hget b.bcs k "cs ")
                  else if String.trim (dnl_line s !probe_names !probe_nonces) <> String.trim (hget b.bdnl k "") then
                    dv (Printf.sprintf "dnl@%d" k) (dnl_line s !probe_names !probe_nonces) (hget b.bdnl k "")
                end) ws';
              if not !diverged && not ok then dv "choice-inadmissible" "the implementation's pick is outside the model's admissible set" outs_impl_str
              else if not !diverged && panic then dv "panic" "model predicts an out-of-range index" ""
            end
          end
        end;
        (* ---- oracles on the implementation's observations; the state before the event is the model's, which has been compared
                with the implementation's dumps after every earlier event *)
        let parse_out s = match fields s with
          | [fc; k; nm; hop; tok] -> Some { o_face = n_of_dec fc; o_kind = (if k = "I" then KInterest else KData);
                                            o_name = name_of_string nm; o_hop = optn hop; o_tok = bytes_of_hex tok }
          | _ -> None in
        let outs_of k = List.filter_map (fun (t, s) -> if t = k then parse_out s else None) outs_impl in
        let outs_all = List.filter_map (fun (_, s) -> parse_out s) outs_impl in
        let obs_now = (List.init nt (fun k -> (hget b.bpit k "pit", hget b.bcs k "cs ", hget b.bdnl k ""))) in
        (* statistics for the coverage distribution *)
        (match we with
         | WPacket (EInterest (now, i)) ->
             let s = pre (thr_of_name i.i_name) in
             if c02_must_drop s i then bump ("interest:must-drop:" ^ (match int_of_n (c02_drop_reason s i) with
                 | 1 -> "unknown-face" | 2 -> "hop-limit-0" | 3 -> "scope" | 4 -> "no-nonce" | 5 -> "dead-nonce" | 6 -> "duplicate-nonce" | _ -> "?"))
             else if c02_cached s now i then bump "interest:cached"
             else if c02_suppressed s now i then bump "interest:suppressed"
             else if i.i_nhf <> None then bump "interest:nexthopfaceid"
             else if List.exists (fun (_, o) -> match fields o with _ :: "I" :: _ -> true | _ -> false) outs_impl then bump "interest:forwarded"
             else bump "interest:no-usable-nexthop"
         | WPacket (EData (_, d)) ->
             let n = List.length outs_impl in
             bump (if n = 0 then "data:unsolicited-or-dropped" else if n = 1 then "data:one-copy" else "data:several-copies");
             if List.length d.d_tok = 6 then bump "data:token6" else if d.d_tok = [] then bump "data:no-token" else bump "data:token-other"
         | _ -> ());
        if nt > 1 then bump "events:multi-thread" else bump "events:single-thread";
        if want "C09" then begin
          List.iter (fun o ->
            if not (c09_out_ok pre0.faces o) then
              Printf.printf "ORACLE C09 %s %d scope-out:%s:%s | %s sent on non-local face %s\n" caseid !evno
                (match o.o_kind with KInterest -> "interest" | KData -> "data")
                (match we with WPacket (EInterest (_, i)) -> (if i.i_nhf <> None then "nexthopfaceid" else "strategy") | _ -> "data-path")
                (string_of_name o.o_name) (dec_of_n o.o_face)) outs_all;
          let inbound = match we with
            | WPacket (EInterest (_, i)) -> c09_inbound_violation pre0.faces i.i_face i.i_name
            | WPacket (EData (_, d)) -> c09_inbound_violation pre0.faces d.d_face d.d_name
            | _ -> false in
          if inbound && (outs_impl <> [] || (match !prev_obs with Some p -> p <> obs_now | None -> false)) then
            Printf.printf "ORACLE C09 %s %d scope-in%s | a /localhost packet from a %s was not ignored (outputs or table state changed)\n" caseid !evno
              (match we with WPacket (EInterest (_, i)) when get_face pre0.faces i.i_face = None -> ":unknown-face"
                           | WPacket (EData (_, d)) when get_face pre0.faces d.d_face = None -> ":unknown-face" | _ -> "")
              (match we with WPacket (EInterest (_, i)) when get_face pre0.faces i.i_face = None -> "face that is not (or no longer) in the face table"
                           | WPacket (EData (_, d)) when get_face pre0.faces d.d_face = None -> "face that is not (or no longer) in the face table" | _ -> "non-local face")
        end;
        if want "C09" && pre_ok then begin
          (* local exchanges always work: a /localhost Interest from a local face that need not be dropped, is not answered from the
             cache and not suppressed, and for which a usable next hop exists (for such a name every usable next hop is a local face),
             must be forwarded to one *)
          (match we with
           | WPacket (EInterest (now, i)) when spec_localhost i.i_name ->
               let k = thr_of_name i.i_name in
               let s = pre (if k < nt then k else 0) in
               (match get_face s.faces i.i_face with
                | Some g when g.f_local ->
                    if not (c02_forward_ok s now i outs_all) then
                      Printf.printf "ORACLE C09 %s %d local-exchange-blocked | Interest %s from local face %s has a usable local next hop (%s) and is neither dropped, cached nor suppressed, but was not forwarded; sent [%s]\n"
                        caseid !evno (string_of_name i.i_name) (dec_of_n i.i_face)
                        (String.concat "," (List.filter_map (fun h -> if c02_usable s i h then Some (dec_of_n (fst h)) else None) (c02_candidates s i)))
                        outs_impl_str
                | _ -> ())
           | _ -> ())
        end;
        let oracle1 fmt = if want "C01" then Printf.printf fmt else Printf.ifprintf stdout fmt in
        (* slots pending by the history before this event (used by the dead-nonce oracle below) *)
        (* production-loop cases: the thread's own Run loop updates the PIT. "Shortly after" the lifetime has elapsed is taken as two
           periods of the loop's update timer: by then an expired Interest is no longer pending, whatever the implementation did *)
        let now_b = match we, b.clock with
          | WPacket (EInterest (now, _)), _ | WPacket (EData (now, _)), _ -> Some now
          | WLocal (_, ETick now), _ | WLocal (_, ESweep now), _ -> Some now
          | _, Some c -> Some (n_of_dec c)
          | _ -> None in
        if !runloop then begin
          bump (if b.noobs then "events:production-loop:timer" else "events:production-loop");
          (match now_b with
           | Some now when N.ltb reap_bound now ->
               let lim = N.sub now reap_bound in
               for k = 0 to nt - 1 do sp.(k) <- pend_tick sp.(k) lim done
           | _ -> ());
          (match b.clock with
           | Some c when not b.noobs ->
               let c = n_of_dec c in
               for k = 0 to nt - 1 do
                 List.iter (fun e -> match String.split_on_char '|' e with
                   | nm :: _ :: _ :: _ :: tok :: _ :: q :: _ when q <> "-" && N.ltb (N.add (n_of_dec q) reap_bound) c ->
                       if want "C01" then
                         Printf.printf "ORACLE C01 %s %d expired-still-pending | the forwarding thread's own loop (Thread.Run) left PIT entry %s (token %s) in the table although every lifetime recorded in it had elapsed at %s ns and it is now %s ns: the Interest is still treated as pending\n"
                           caseid !evno nm tok q (dec_of_n c)
                   | _ -> ()) (List.tl (fields (hget b.bpit k "pit")))
               done
           | _ -> ())
        end;
        let sp_before = Array.copy sp in
        begin
          (match we with
           | WPacket (EData (now, d)) ->
               let tokkind = if d.d_tok = [] then "no-token" else if List.length d.d_tok = 6 then "token6" else "token-other" in
               for k = 0 to nt - 1 do
                 let s = pre k in
                 let os = outs_of k in
                 let os_str = String.concat "; " (List.map string_of_out os) in
                 if not (c01_data_only_pending s.faces s.tid sp.(k) d os) then
                   oracle1 "ORACLE C01 %s %d data-not-pending:%s | Data %s (token %s) from face %s was emitted by thread %d to a face without a matching pending Interest, with a wrong token, or twice: [%s]\n"
                     caseid !evno tokkind (string_of_name d.d_name) (hex_of_bytes d.d_tok) (dec_of_n d.d_face) k os_str;
                 if not (c01_data_complete s.faces s.tid now sp.(k) d os) then begin
                   let missing = List.filter (fun p -> sat_rec s.tid d p && N.ltb now p.p_exp && not (N.eqb p.p_face d.d_face)) sp.(k) in
                   let dispatched = match pick "thrs" with Some ts -> ts <> "-" && List.mem (string_of_int k) (String.split_on_char ',' ts) | None -> true in
                   oracle1 "ORACLE C01 %s %d data-undelivered:%s:%s | Data %s (token %s) from face %s was not delivered to every face with a live pending Interest it satisfies (thread %d of %d%s); sent [%s]; pending: %s\n"
                     caseid !evno tokkind
                     (if not dispatched then "not-dispatched" else if d.d_name = [] then "empty-name" else "name")
                     (string_of_name d.d_name) (hex_of_bytes d.d_tok) (dec_of_n d.d_face) k nt
                     (if dispatched then "" else ", which the link service did not dispatch the Data to") os_str
                     (String.concat "; " (List.map (fun p -> Printf.sprintf "face %s %s cbp=%s tok=%s utok=%s" (dec_of_n p.p_face) (string_of_name p.p_name) (b01 p.p_cbp) (hex_of_bytes p.p_dtok) (dec_of_n p.p_utok)) missing))
                 end;
                 sp.(k) <- pend_data s.faces s.tid sp.(k) d
               done
           | WPacket (EInterest (now, i)) ->
               let k = (match pick "thr" with Some t -> int_of_string t | None -> thr_of_name i.i_name) in
               let k = if k < nt then k else 0 in
               let s = pre k in
               if not (c01_cs_reply_ok i outs_all) then
                 oracle1 "ORACLE C01 %s %d cs-reply | the reply to Interest %s from face %s went elsewhere, carried another token, or was sent more than once: [%s]\n"
                   caseid !evno (string_of_name i.i_name) (dec_of_n i.i_face) outs_impl_str;
               let hk = match select_hint s.regions i.i_hints with Some h -> string_of_name h | None -> "-" in
               (match pick "tok" with
                | Some t when t <> "-" ->
                    List.iter (fun o -> if o.o_kind = KInterest && o.o_tok <> up_token s.tid (n_of_dec t) then
                      oracle1 "ORACLE C01 %s %d upstream-token:%s | Interest %s was forwarded on face %s with PIT token %s, not this forwarder's token %s for its PIT entry (the returning Data cannot be matched)\n"
                        caseid !evno (if i.i_nhf <> None then "nexthopfaceid" else "strategy") (string_of_name i.i_name) (dec_of_n o.o_face)
                        (hex_of_bytes o.o_tok) (hex_of_bytes (up_token s.tid (n_of_dec t)))) outs_all
                | _ -> ());
               (* an Interest answered from the cache (a Data was sent in reply) is consumed by that reply, whatever the PIT keeps *)
               let answered = List.exists (fun o -> o.o_kind = KData) outs_all in
               (* taken as pending: the PIT dump right after the event shows the in-record of this arrival, or the Interest was
                  observed being forwarded (then the group token is the one attached upstream); from then on the record lives in the
                  table by the history alone (lifetimes, Data arrivals, PIT updates), whatever the implementation's PIT does *)
               let fwd_tok = List.find_map (fun o -> if o.o_kind = KInterest && List.length o.o_tok = 6
                                                     then Some (be_val (List.filteri (fun j _ -> j >= 2) o.o_tok)) else None) outs_all in
               (match impl_pending (hget b.bpit k "pit") (string_of_name i.i_name) (b01 i.i_cbp) (b01 i.i_mbf) hk (dec_of_n i.i_face) (dec_of_n now), fwd_tok with
                | Some tok, _ when not answered -> sp.(k) <- pend_interest s.regions sp.(k) now i (n_of_dec tok)
                | None, Some tok when not answered -> sp.(k) <- pend_interest s.regions sp.(k) now i tok
                | _ -> ())
           | WLocal (k, ETick now) ->
               if outs_impl <> [] then oracle1 "ORACLE C01 %s %d spontaneous | a PIT update emitted packets: [%s]\n" caseid !evno outs_impl_str;
               let k = int_of_n k in if k < nt then sp.(k) <- pend_tick sp.(k) now
           | _ ->
               if outs_impl <> [] then oracle1 "ORACLE C01 %s %d spontaneous | an event that is not a packet arrival emitted packets: [%s]\n" caseid !evno outs_impl_str)
        end;
        let sent_hist_snapshot = Hashtbl.copy sent_hist in
        if want "C02" then begin
          (* suppression and loop detection judged from the history. Per thread and PIT-entry key the runner keeps, for every face an
             Interest was sent on, the last (nonce, time, upstream token); a send counts for the current arrival if it carries the
             token the forwarder uses now, or if by the history the entry it was made for must still exist (a record of that
             token is still inside its own lifetime in the pending table). Cleared by a Data that satisfies the entry and by expiry. *)
          (match we with
           | WPacket (EInterest (now, i)) ->
               let k = thr_of_name i.i_name in
               let k = if k < nt then k else 0 in
               let s = pre k in
               let hk = match select_hint s.regions i.i_hints with Some h -> h | None -> [] in
               let key = (k, i.i_name, i.i_cbp, i.i_mbf, hk) in
               let live_tok u = List.exists (fun p -> p.p_name = i.i_name && p.p_cbp = i.i_cbp && p.p_mbf = i.i_mbf && p.p_hint = hk
                                                       && N.eqb p.p_utok u && N.ltb now p.p_exp) sp_before.(k) in
               let sent_i = List.filter (fun o -> o.o_kind = KInterest && List.length o.o_tok = 6) outs_all in
               (match i.i_nonce with
                | Some x ->
                    (* loop: the nonce of an Interest still pending (by the history) from another face *)
                    List.iter (fun p ->
                        if p.p_name = i.i_name && p.p_cbp = i.i_cbp && p.p_mbf = i.i_mbf && p.p_hint = hk && not (N.eqb p.p_face i.i_face)
                           && N.ltb now p.p_exp && outs_impl <> [] then
                          (match Hashtbl.find_opt last_nonce (k, i.i_name, i.i_cbp, i.i_mbf, hk, p.p_face) with
                           | Some y when N.eqb y x ->
                               Printf.printf "ORACLE C02 %s %d duplicate-nonce-forwarded | Interest %s from face %s repeats nonce %s of the Interest still pending from face %s (inside its lifetime), but packets were sent: [%s]\n"
                                 caseid !evno (string_of_name i.i_name) (dec_of_n i.i_face) (dec_of_n x) (dec_of_n p.p_face) outs_impl_str
                           | _ -> ())) sp_before.(k);
                    (match sent_i with
                     | o0 :: _ ->
                         let utok = be_val (List.filteri (fun j _ -> j >= 2) o0.o_tok) in
                         let hist = try Hashtbl.find sent_hist key with Not_found -> [] in
                         let supp = suppression (strat_of_name s i.i_name) in
                         if i.i_nhf = None then
                           List.iter (fun (f, x', at, u) ->
                             if (N.eqb u utok || live_tok u) && not (N.eqb x' x) && N.ltb now (N.add at supp) then
                               Printf.printf "ORACLE C02 %s %d not-suppressed-history:%s | Interest %s from face %s nonce %s was forwarded [%s] although an Interest of this PIT entry with another nonce (%s) had been sent on face %s only %s ns earlier (suppression interval %s ns)\n"
                                 caseid !evno (if N.eqb (strat_of_name s i.i_name) (n_of_int 1) then "multicast" else "best-route")
                                 (string_of_name i.i_name) (dec_of_n i.i_face) (dec_of_n x) outs_impl_str (dec_of_n x') (dec_of_n f)
                                 (dec_of_n (N.sub now at)) (dec_of_n supp)) hist;
                         let hist' = List.fold_left (fun h o -> (o.o_face, x, now, utok) :: List.filter (fun (f, _, _, _) -> not (N.eqb f o.o_face)) h) hist sent_i in
                         Hashtbl.replace sent_hist key hist'
                     | [] -> ())
                | None -> ())
           | WPacket (EData (_, d)) ->
               if data_effective pre0.faces d then begin
                 let upd = Hashtbl.fold (fun ((k, nm, cbp, _, _) as key) hist acc ->
                     let keep = List.filter (fun (_, _, _, utok) ->
                         not (match data_token d.d_tok with
                              | Some (th, tk) -> int_of_n th = k && N.eqb tk utok
                              | None -> is_prefix nm d.d_name && (cbp || List.length nm = List.length d.d_name))) hist in
                     if List.length keep <> List.length hist then (key, keep) :: acc else acc) sent_hist [] in
                 List.iter (fun (key, keep) -> if keep = [] then Hashtbl.remove sent_hist key else Hashtbl.replace sent_hist key keep) upd
               end
           | _ -> ())
        end;
        if want "C02" then begin
          (* deadness judged from the history: a (name, nonce) surely recorded dead — the previous nonce of a face whose Interest
             was still pending when its retransmission was taken (InsertInRecord on an existing record) — stays in the list at
             least until recording time + configured lifetime; recordings whose effect the history cannot settle (name-matched
             Data, expiry at a PIT update) only make later recordings of the same key uncertain *)
          let lifeN = !dlife in
          (match we with
           | WPacket (EInterest (now, i)) ->
               let k = thr_of_name i.i_name in
               let k = if k < nt then k else 0 in
               let s = pre k in
               let hk = match select_hint s.regions i.i_hints with Some h -> h | None -> [] in
               let sent_any = outs_impl <> [] in
               (match i.i_nonce with
                | Some x ->
                    (match Hashtbl.find_opt must_dead (k, i.i_name, x) with
                     | Some exp when N.ltb now exp && sent_any ->
                         Printf.printf "ORACLE C02 %s %d dead-nonce-forwarded | Interest %s from face %s carries nonce %s, recorded dead for this name until %s (now %s, dead-nonce lifetime %s ns), but packets were sent: [%s]\n"
                           caseid !evno (string_of_name i.i_name) (dec_of_n i.i_face) (dec_of_n x) (dec_of_n exp) (dec_of_n now) (dec_of_n lifeN) outs_impl_str
                     | _ -> ());
                    (* was it taken (pending per dump or forwarded) while this face's earlier Interest was still pending? *)
                    let taken = (impl_pending (hget b.bpit k "pit") (string_of_name i.i_name) (b01 i.i_cbp) (b01 i.i_mbf)
                                   (if hk = [] then "-" else string_of_name hk) (dec_of_n i.i_face) (dec_of_n now) <> None)
                                || List.exists (fun o -> o.o_kind = KInterest) outs_all in
                    let slot = (k, i.i_name, i.i_cbp, i.i_mbf, hk, i.i_face) in
                    let live_before = List.exists (fun p -> N.eqb p.p_face i.i_face && p.p_name = i.i_name && p.p_cbp = i.i_cbp
                                                            && p.p_mbf = i.i_mbf && p.p_hint = hk && N.ltb now p.p_exp) sp_before.(k) in
                    if taken then begin
                      (match Hashtbl.find_opt last_nonce slot with
                       | Some prev when live_before ->
                           let key = (k, i.i_name, prev) in
                           if not (Hashtbl.mem must_dead key) && not (Hashtbl.mem may_dead key) then
                             Hashtbl.replace must_dead key (N.add now lifeN)
                       | Some prev ->
                           let key = (k, i.i_name, prev) in
                           if not (Hashtbl.mem must_dead key) then Hashtbl.replace may_dead key (N.add now lifeN)
                       | None -> ());
                      Hashtbl.replace last_nonce slot x
                    end
                | None -> ())
           | WPacket (EData (now, d)) ->
               (* out-record nonces of the satisfied entries are recorded under the Data name: which of them, the history does not settle *)
               if data_effective pre0.faces d then
                 Hashtbl.iter (fun (k, nm, cbp, _, _) hist ->
                     List.iter (fun (_, x, _, utok) ->
                         let sat = match data_token d.d_tok with
                           | Some (th, tk) -> int_of_n th = k && N.eqb tk utok
                           | None -> is_prefix nm d.d_name && (cbp || List.length nm = List.length d.d_name) in
                         let key = (k, d.d_name, x) in
                         if sat && not (Hashtbl.mem must_dead key) then Hashtbl.replace may_dead key (N.add now lifeN)) hist) sent_hist_snapshot
           | WLocal (k, ETick now) ->
               (* expiry is an event of the history (the PIT entries this update reaped): the nonces an expired entry was last
                  forwarded with — sent since the last Data that satisfied it — are dead from now until now + lifetime *)
               let k = int_of_n k in
               let upd = Hashtbl.fold (fun ((k', nm, _, _, _) as key) hist acc ->
                   if k' = k then begin
                     let expired_here (_, _, _, utok) = List.exists (N.eqb utok) ch.ch_expired in
                     List.iter (fun ((_, x, _, _) as h) ->
                       if expired_here h then begin
                         let dk = (k, nm, x) in
                         if not (Hashtbl.mem must_dead dk) && not (Hashtbl.mem may_dead dk) then Hashtbl.replace must_dead dk (N.add now lifeN) end) hist;
                     (key, List.filter (fun h -> not (expired_here h)) hist) :: acc end else acc) sent_hist [] in
               List.iter (fun (key, keep) -> if keep = [] then Hashtbl.remove sent_hist key else Hashtbl.replace sent_hist key keep) upd
           | WLocal (k, ESweep now) ->
               let k = int_of_n k in
               let drop tbl = let dead = Hashtbl.fold (fun ((k', _, _) as key) exp acc -> if k' = k && N.ltb exp now then key :: acc else acc) tbl [] in
                 List.iter (Hashtbl.remove tbl) dead in
               if Hashtbl.length must_dead + Hashtbl.length may_dead < 90 then (drop must_dead; drop may_dead)
               else (Hashtbl.reset must_dead)
           | _ -> ())
        end;
        if want "C02" && pre_ok then begin
          (match we with
           | WPacket (EInterest (now, i)) ->
               let k = thr_of_name i.i_name in
               let s = pre (if k < nt then k else 0) in
               let fail sg what = Printf.printf "ORACLE C02 %s %d %s | Interest %s from face %s (nonce %s, hop %s, nexthopfaceid %s): %s; sent [%s]\n" caseid !evno sg
                   (string_of_name i.i_name) (dec_of_n i.i_face) (match i.i_nonce with Some x -> dec_of_n x | None -> "-")
                   (match i.i_hop with Some x -> dec_of_n x | None -> "-") (match i.i_nhf with Some x -> dec_of_n x | None -> "-")
                   what outs_impl_str in
               let via = if i.i_nhf <> None then "nexthopfaceid" else if N.eqb (strat_of_name s i.i_name) (n_of_int 1) then "multicast" else "best-route" in
               if not (c02_outs_ok s i outs_all) then
                 fail ("bad-nexthop:" ^ via) "forwarded to a face that is not a next hop of the longest-prefix FIB entry (or the chosen next hop), back to its point-to-point arrival face, or with a wrong name/hop limit";
               if not (c02_drop_ok s i outs_all) then
                 fail "not-dropped" "must be dropped (hop limit 0, no nonce, dead nonce, duplicate nonce from another face, scope) but packets were sent";
               if not (c02_suppress_ok s now i outs_all) then
                 fail ("not-suppressed:" ^ via) "a different-nonce retransmission inside the suppression interval was forwarded";
               if not (c02_strategy_ok s i outs_all) then
                 fail ("strategy:" ^ via) "best-route did not pick one lowest-cost usable next hop / multicast did not use exactly the usable next hops";
               if not (c02_forward_ok s now i outs_all) then
                 fail ("not-forwarded:" ^ via) "not dropped, not cached, not suppressed and a usable next hop exists, but no Interest was sent";
               if not (c02_nodup_ok outs_all) then
                 fail ("duplicate:" ^ via) "a face got more than one copy"
           | _ ->
               if List.exists (fun o -> o.o_kind = KInterest) outs_all then
                 Printf.printf "ORACLE C02 %s %d spontaneous | an Interest was sent although no Interest arrived: [%s]\n" caseid !evno outs_impl_str)
        end;
        if outs_impl <> [] || (not b.noobs && List.exists (fun (p, _, _) -> p <> "pit") obs_now) then changed := true;
        if not b.noobs then prev_obs := Some obs_now
      ) blocks;
      let h = Digest.to_hex (Digest.string (String.concat "\n" (List.map (fun b -> String.concat " " b.evl) blocks))) in
      Printf.printf "CASE %s %d %d %s %s\n" caseid !evno (Hashtbl.length kinds)
        (b01 (Hashtbl.length kinds >= 3 && !changed)) h
    end else incr i
  done;
  Hashtbl.iter (fun k v -> Printf.printf "STAT %s %d\n" k v) stats;
  Printf.printf "DONE %d %d\n" !ncases !nevents
